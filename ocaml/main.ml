(* Main loop of the correspondence driver. *)
open Base
let () =
  let tcache : (string, M.ty) Hashtbl.t = Hashtbl.create 64 in
  (try
    while true do
      let line = input_line stdin in
      if line <> "" then begin
        match S.split_on_char '\t' line with
        | id :: op :: _tid :: ty :: args ->
            let t () = (match Hashtbl.find_opt tcache ty with
                        | Some t -> t
                        | None -> let t = ty_of (parse_sexp ty) in Hashtbl.add tcache ty t; t) in
            let out = (try
                         (match Hashtbl.find_opt typed_ops op with
                          | Some f -> f t args
                          | None -> (match Hashtbl.find_opt untyped_ops op with
                                     | Some f -> f args
                                     | None -> "driver-error unknown-op " ^ op))
                       with
                       | Failure m -> "driver-error " ^ m
                       | Stack_overflow -> "driver-error stack-overflow"
                       | Not_found -> "driver-error not-found") in
            print_string id; print_char '\t'; print_string out; print_char '\n'
        | _ -> print_string ("?\tdriver-error bad-line\n")
      end
    done
  with End_of_file -> ());
  flush stdout
