(* Correspondence driver, shared part: conversions between text and the extracted
   Coq model's data (module Model), and the op registry.
   Line format (TAB separated):  id  op  tid  TYPE  arg...
   The tid field is for the Rust harness and is ignored here; TYPE is "-" for ops
   that take no type. *)

module M = Model
module S = Stdlib.String
module L = Stdlib.List

(* ---------- numbers ---------- *)
let rec pos_of_int (i : int) : M.positive =
  if i = 1 then M.XH
  else if i land 1 = 0 then M.XO (pos_of_int (i lsr 1))
  else M.XI (pos_of_int (i lsr 1))
let n_of_int (i : int) : M.n = if i = 0 then M.N0 else M.Npos (pos_of_int i)
let n10 = n_of_int 10
let n_of_string (s : string) : M.n =
  (* unsigned decimal digits only: no sign, no radix prefix, no `_` (int_of_string would accept them and build a
     different, valid-looking term) *)
  if s = "" then failwith "bad number (empty)";
  S.iter (fun c -> if c < '0' || c > '9' then failwith ("bad number " ^ s)) s;
  if S.length s <= 17 then n_of_int (int_of_string s)
  else begin
    let r = ref M.N0 in
    S.iter (fun c ->
      let d = Char.code c - 48 in
      if d < 0 || d > 9 then failwith ("bad number " ^ s);
      r := M.N.add (M.N.mul !r n10) (n_of_int d)) s;
    !r
  end
let rec pos_bits (p : M.positive) : int =
  match p with M.XH -> 1 | M.XO q | M.XI q -> 1 + pos_bits q
let rec pos_to_int (p : M.positive) : int =
  match p with M.XH -> 1 | M.XO q -> 2 * pos_to_int q | M.XI q -> 2 * pos_to_int q + 1
let n_small (n : M.n) : int option =
  match n with
  | M.N0 -> Some 0
  | M.Npos p -> if pos_bits p <= 60 then Some (pos_to_int p) else None
let string_of_n (n : M.n) : string =
  match n_small n with
  | Some i -> string_of_int i
  | None ->
      let buf = Buffer.create 40 in
      let rec go n acc =
        match n with
        | M.N0 -> acc
        | _ -> let (q, r) = M.N.div_eucl n n10 in
               let d = match n_small r with Some d -> d | None -> 0 in
               go q (Char.chr (48 + d) :: acc) in
      L.iter (Buffer.add_char buf) (go n []);
      Buffer.contents buf

(* a small natural number written in unsigned decimal *)
let small_nat_of_string (s : string) : int =
  if s = "" || S.length s > 9 then failwith ("bad small number " ^ s);
  S.iter (fun c -> if c < '0' || c > '9' then failwith ("bad small number " ^ s)) s;
  int_of_string s

(* ---------- bytes ---------- *)
let byte_tab : M.byte array =
  Array.init 256 (fun i -> match M.byte_of_N (n_of_int i) with Some b -> b | None -> assert false)
let int_of_byte (b : M.byte) : int =
  match n_small (M.byte_to_N b) with Some i -> i | None -> assert false
let hexval c =
  match c with
  | '0'..'9' -> Char.code c - 48
  | 'a'..'f' -> Char.code c - 87
  | 'A'..'F' -> Char.code c - 55
  | _ -> failwith "bad hex"
let bytes_of_hex (s : string) : M.byte list =
  let s = if s = "-" then "" else s in
  if S.length s land 1 = 1 then failwith "bad hex (odd length)";
  let n = S.length s / 2 in
  let rec go i acc =
    if i < 0 then acc
    else go (i - 1) (byte_tab.(hexval s.[2*i] * 16 + hexval s.[2*i+1]) :: acc) in
  go (n - 1) []
let hexdig = "0123456789abcdef"
let hex_of_ints (l : int list) : string =
  match l with
  | [] -> "-"
  | _ ->
    let buf = Buffer.create 64 in
    L.iter (fun i -> Buffer.add_char buf hexdig.[i lsr 4]; Buffer.add_char buf hexdig.[i land 15]) l;
    Buffer.contents buf
let hex_of_bytes (l : M.byte list) : string = hex_of_ints (L.rev (L.rev_map int_of_byte l))

(* ---------- s-expressions ---------- *)
type sexp = A of string | Lst of sexp list
let parse_sexp (s : string) : sexp =
  let n = S.length s in
  let pos = ref 0 in
  let rec skip () = if !pos < n && (s.[!pos] = ' ') then (incr pos; skip ()) in
  let rec one () : sexp =
    skip ();
    if !pos >= n then failwith "sexp: eof";
    if s.[!pos] = '(' then begin
      incr pos;
      let items = ref [] in
      let rec loop () =
        skip ();
        if !pos >= n then failwith "sexp: unclosed";
        if s.[!pos] = ')' then incr pos
        else (items := one () :: !items; loop ()) in
      loop ();
      Lst (L.rev !items)
    end else begin
      let st = !pos in
      while !pos < n && s.[!pos] <> ' ' && s.[!pos] <> '(' && s.[!pos] <> ')' do incr pos done;
      A (S.sub s st (!pos - st))
    end in
  let e = one () in
  skip ();
  if !pos <> n then failwith "sexp: trailing text";
  e

(* ---------- Coq strings ---------- *)
let coq_string (s : string) : M.string =
  let r = ref M.EmptyString in
  for i = S.length s - 1 downto 0 do
    let c = Char.code s.[i] in
    let b k = (c lsr k) land 1 = 1 in
    r := M.String (M.Ascii (b 0, b 1, b 2, b 3, b 4, b 5, b 6, b 7), !r)
  done;
  !r

(* ---------- types ---------- *)
let width_of = function
  | "8" -> M.W1 | "16" -> M.W2 | "32" -> M.W4 | "64" -> M.W8 | "128" -> M.W16
  | s -> failwith ("width " ^ s)
let prim_of (s : string) : M.prim =
  let tail k = S.sub s k (S.length s - k) in
  match s with
  | "usize" -> M.PSize false | "isize" -> M.PSize true
  | "nzusize" -> M.PNonZeroSize
  | "f32" -> M.PFloat false | "f64" -> M.PFloat true
  | "bool" -> M.PBool | "asciichar" -> M.PAsciiChar
  | _ when S.length s > 3 && S.sub s 0 3 = "nzu" -> M.PNonZero (false, width_of (tail 3))
  | _ when S.length s > 3 && S.sub s 0 3 = "nzi" -> M.PNonZero (true, width_of (tail 3))
  | _ when s.[0] = 'u' -> M.PInt (false, width_of (tail 1))
  | _ when s.[0] = 'i' -> M.PInt (true, width_of (tail 1))
  | _ -> failwith ("prim " ^ s)
let atoms l = L.map (function A s -> s | _ -> failwith "atom expected") l
let bool_of (s : string) : bool =
  match s with "1" -> true | "0" -> false | _ -> failwith ("flag must be 0 or 1, got " ^ s)
let bools l = L.map bool_of (atoms l)
let rec ty_of (e : sexp) : M.ty =
  match e with
  | Lst [A "prim"; A p] -> M.TPrim (prim_of p)
  | Lst [A "unit"; A k] ->
      M.TUnit (match k with "unit" -> M.UUnit | "phantom" -> M.UPhantom | "rangefull" -> M.URangeFull
                          | _ -> failwith "unit kind")
  | Lst [A "raw"; A k] ->
      M.TRaw (match k with "ipv4" -> M.RIpv4 | "ipv6" -> M.RIpv6 | "oid" -> M.RObjectId
                         | _ -> failwith "raw kind")
  | Lst [A "text"; A k] ->
      M.TText (match k with
               | "string" -> M.XString | "str" -> M.XStr | "asciistring" -> M.XAsciiString
               | "asciistr" -> M.XAsciiStr | "bytes" -> M.XBytes | "bytesmut" -> M.XBytesMut
               | _ -> failwith "text kind")
  | Lst [A "seq"; A k; t] ->
      let k = match k with
        | "vec" -> M.SVec | "deque" -> M.SDeque | "list" -> M.SList | "slice" -> M.SSlice
        | "btreeset" -> M.SBTreeSet | "hashset" -> M.SHashSet | "indexset" -> M.SIndexSet
        | "btreemap" -> M.SBTreeMap | "hashmap" -> M.SHashMap | "indexmap" -> M.SIndexMap
        | _ -> failwith "seq kind" in
      M.TSeq (k, ty_of t)
  | Lst [A "array"; A n; t] -> M.TArray (n_of_string n, ty_of t)
  | Lst (A "prod" :: k :: ts) ->
      let k = match k with
        | A "tuple" -> M.PTuple
        | A "sockv4" -> M.PSockV4
        | A "sockv6" -> M.PSockV6
        | Lst [A "range"; A r] ->
            M.PRange (match r with
                      | "range" -> M.RRange | "inclusive" -> M.RRangeInclusive | "from" -> M.RRangeFrom
                      | "to" -> M.RRangeTo | "toinclusive" -> M.RRangeToInclusive
                      | _ -> failwith "range kind")
        | Lst [A "struct"; A name; Lst fn; Lst sk] ->
            M.PStruct (coq_string name, L.map coq_string (atoms fn), bools sk)
        | Lst [A "variant"; Lst fn; Lst sk] ->
            M.PVariant (L.map coq_string (atoms fn), bools sk)
        | _ -> failwith "prod kind" in
      M.TProd (k, L.map ty_of ts)
  | Lst (A "sum" :: k :: vs) ->
      let k = match k with
        | A "option" -> M.KOption | A "result" -> M.KResult
        | A "ipaddr" -> M.KIpAddr | A "sockaddr" -> M.KSocketAddr
        | Lst [A "enum"; A name; Lst vn; Lst tags] ->
            M.KEnum (coq_string name, L.map coq_string (atoms vn), L.map n_of_string (atoms tags))
        | _ -> failwith "sum kind" in
      M.TSum (k, L.map ty_of vs)
  | Lst [A "wrap"; A w; t] ->
      let w = match w with
        | "ref" -> M.WRef | "box" -> M.WBox | "cow" -> M.WCow | "rc" -> M.WRc | "arc" -> M.WArc
        | "cell" -> M.WCell | "refcell" -> M.WRefCell | _ -> failwith "wrap kind" in
      M.TWrap (w, ty_of t)
  | _ -> failwith "type syntax"

(* ---------- values ---------- *)
let rec val_of (e : sexp) : M.val0 =
  match e with
  | A s -> M.VN (n_of_string s)
  | Lst [A "b"; A h] -> M.VL (L.rev (L.rev_map (fun b -> M.VN (M.byte_to_N b)) (bytes_of_hex h)))
  | Lst [A "b"] -> M.VL []
  | Lst (A "l" :: r) -> M.VL (L.map val_of r)
  | Lst [A "v"; A i; x] -> M.VV (n_of_string i, val_of x)
  | _ -> failwith "value syntax"

(* canonical printing: a non-empty list of numbers < 256 prints as (b HEX) *)
let rec print_val (buf : Buffer.t) (v : M.val0) : unit =
  match v with
  | M.VN n -> Buffer.add_string buf (string_of_n n)
  | M.VV (i, x) ->
      Buffer.add_string buf "(v "; Buffer.add_string buf (string_of_n i);
      Buffer.add_char buf ' '; print_val buf x; Buffer.add_char buf ')'
  | M.VL [] -> Buffer.add_string buf "(l)"
  | M.VL l ->
      let small = L.for_all (function
        | M.VN n -> (match n_small n with Some i -> i < 256 | None -> false)
        | _ -> false) l in
      if small then begin
        Buffer.add_string buf "(b ";
        L.iter (function
          | M.VN n -> (match n_small n with
                       | Some i -> Buffer.add_char buf hexdig.[i lsr 4]; Buffer.add_char buf hexdig.[i land 15]
                       | None -> ())
          | _ -> ()) l;
        Buffer.add_char buf ')'
      end else begin
        Buffer.add_string buf "(l";
        L.iter (fun x -> Buffer.add_char buf ' '; print_val buf x) l;
        Buffer.add_char buf ')'
      end
let string_of_val v = let b = Buffer.create 64 in print_val b v; Buffer.contents b

(* ---------- results ---------- *)
let kind_s = function
  | M.InvalidData -> "InvalidData" | M.UnexpectedEof -> "UnexpectedEof" | M.WriteZero -> "WriteZero"
  | M.Interrupted -> "Interrupted" | M.OutOfMemory -> "OutOfMemory" | M.Other -> "Other"
  | M.KUser n -> "User:" ^ string_of_n n
let msg_s = function
  | M.MUnexpectedLength -> "UnexpectedLength" | M.MNotAllBytesRead -> "NotAllBytesRead"
  | M.MZst -> "Zst" | M.MNaNSer -> "NaNSer" | M.MNaNDe -> "NaNDe"
  | M.MBadBool b -> "BadBool:" ^ string_of_n b
  | M.MBadOption b -> "BadOption:" ^ string_of_n b
  | M.MBadResult b -> "BadResult:" ^ string_of_n b
  | M.MBadIpAddr b -> "BadIpAddr:" ^ string_of_n b
  | M.MBadSocketAddr b -> "BadSocketAddr:" ^ string_of_n b
  | M.MBadVariant b -> "BadVariant:" ^ string_of_n b
  | M.MZeroNonZero -> "ZeroNonZero" | M.MUtf8 -> "Utf8" | M.MAscii -> "Ascii"
  | M.MKeyOrder -> "KeyOrder" | M.MSchemaMismatch -> "SchemaMismatch" | M.MSimple -> "Simple"
  | M.MFillWhole -> "FillWhole" | M.MWriteWhole -> "WriteWhole" | M.MBorrowed -> "Borrowed"
  | M.MUser n -> "User:" ^ string_of_n n
let res_s (ok : 'a -> string) (r : 'a M.result) : string =
  match r with
  | M.Ok a -> "ok " ^ ok a
  | M.Err (k, m) -> "err " ^ kind_s k ^ " " ^ msg_s m
  | M.Panic w -> "panic " ^ string_of_n w
let bool_s b = if b then "1" else "0"


(* ---------- op registry ---------- *)
(* typed ops get the (lazily parsed) type and the remaining fields; untyped ops just the fields *)
let typed_ops : (string, (unit -> M.ty) -> string list -> string) Hashtbl.t = Hashtbl.create 32
let untyped_ops : (string, string list -> string) Hashtbl.t = Hashtbl.create 32
let reg_typed name f = Hashtbl.replace typed_ops name f
let reg_untyped name f = Hashtbl.replace untyped_ops name f
