(* Where-clause inference of the derives on generic items (coq/Generics.v, GenericsSchema.v).
   Untyped ops:   id  bounds  -  -  KIND  GITEM-SEXP
       -> eq:0|1 <TAB> predicate ...     eq: bounds_of = documented_bounds
          predicate = B|trait|subject          written by the macro (trait: ser de default schema)
                    | U|subject|Tr1,Tr2        written by the user (last path segments of the trait bounds)
                    | L|text
                  id  inner   -  -  GITEM-SEXP
       -> decl:<rendered declaration parameter types, `;`-separated> <TAB> per variant
          NAME|kept generics,..|kept predicates;..|scope:0|1|decl:<declaration parameter types of the inner struct>
          scope = every type parameter used (in type position: Generics.v [uses]) in a field of the variant is
          declared by the inner struct (what rustc demands of the emitted struct)
   GITEM  = (gitem NAME (PARAM ...) (WPRED ...) BODY)
   PARAM  = (type ID none|GTY) | (lifetime ID) | (const ID)
   BODY   = (struct FIELD ...) | (enum (variant NAME FIELD ...) ...)
   FIELD  = (gfield NAME SKIP BSER BDE SPARAMS GTY)   SKIP = 0|1; BSER, BDE = none | (preds WPRED ...)
                                                     SPARAMS = none | (params (ID GTY) ...)
   WPRED  = (user GTY BOUND ...) | (lifetime TEXT)
   GTY    = (param ID) | (path none|GTY QPOS COLON SEG ...) | (wrap W GTY) | (tuple GTY ...) | (fn (GTY ...) none|GTY)
          | (bounds DYN BOUND ...) | (macro NAME ID ...) | (other TEXT)
   W      = (array LEN) | slice | (ptr 0|1) | (ref LT|- 0|1) | paren | group
   SEG    = (seg ID ARGS)    ARGS = none | (angle ARG ...) | (paren (GTY ...) none|GTY)
   ARG    = (ty GTY) | (assoc ID GTY) | (other TEXT)
   BOUND  = (trait COLON SEG ...) | (other TEXT) *)
open Base
let ocaml_string = Ops_derive.ocaml_string
let kind_of = Ops_derive.kind_of

let rec nat_of_int i = if i <= 0 then M.O else M.S (nat_of_int (i - 1))
let rec gty_of (e : sexp) : M.gty =
  match e with
  | Lst [A "param"; A p] -> M.gParam (coq_string p)
  | Lst (A "path" :: q :: A qpos :: A colon :: segs) ->
      M.GPath (ogty_of q, nat_of_int (small_nat_of_string qpos), bool_of colon, segs_of segs)
  | Lst [A "wrap"; w; t] -> M.GWrap (wrap_of w, gty_of t)
  | Lst (A "tuple" :: ts) -> M.GTuple (tys_of ts)
  | Lst [A "fn"; Lst ins; out] -> M.GFn (tys_of ins, ogty_of out)
  | Lst (A "bounds" :: A d :: bs) -> M.GBounds (bool_of d, bounds_of_sexp bs)
  | Lst (A "macro" :: A n :: args) -> M.GMacro (coq_string n, L.map coq_string (atoms args))
  | Lst [A "other"; A s] -> M.GOther (coq_string s)
  | _ -> failwith "gty syntax"
and ogty_of = function A "none" -> M.ONone | t -> M.OSome (gty_of t)
and tys_of = function [] -> M.TNil | t :: r -> M.TCons (gty_of t, tys_of r)
and wrap_of = function
  | Lst [A "array"; A n] -> M.GWArray (coq_string n)
  | A "slice" -> M.GWSlice
  | Lst [A "ptr"; A m] -> M.GWPtr (bool_of m)
  | Lst [A "ref"; A lt; A m] -> M.GWRef (coq_string (if lt = "-" then "" else lt), bool_of m)
  | A "paren" -> M.GWParen
  | A "group" -> M.GWGroup
  | _ -> failwith "wrap syntax"
and segs_of = function
  | [] -> M.SNil
  | Lst [A "seg"; A id; a] :: r -> M.SCons (coq_string id, args_of a, segs_of r)
  | _ -> failwith "seg syntax"
and args_of = function
  | A "none" -> M.ANone
  | Lst (A "angle" :: l) -> M.AAngle (arglist_of l)
  | Lst [A "paren"; Lst ins; out] -> M.AParen (tys_of ins, ogty_of out)
  | _ -> failwith "args syntax"
and arglist_of = function
  | [] -> M.LNil
  | Lst [A "ty"; t] :: r -> M.LType (gty_of t, arglist_of r)
  | Lst [A "assoc"; A id; t] :: r -> M.LAssoc (coq_string id, gty_of t, arglist_of r)
  | Lst [A "other"; A s] :: r -> M.LOther (coq_string s, arglist_of r)
  | _ -> failwith "generic argument syntax"
and bounds_of_sexp = function
  | [] -> M.BNil
  | Lst (A "trait" :: A colon :: segs) :: r -> M.BTrait (bool_of colon, segs_of segs, bounds_of_sexp r)
  | Lst [A "other"; A s] :: r -> M.BOther (coq_string s, bounds_of_sexp r)
  | _ -> failwith "bound syntax"

let wpred_of = function
  | Lst (A "user" :: t :: bs) -> M.WUser (gty_of t, bounds_of_sexp bs)
  | Lst [A "lifetime"; A s] -> M.WLifetime (coq_string s)
  | _ -> failwith "where-predicate syntax"
let opt_preds = function
  | A "none" -> None
  | Lst (A "preds" :: l) -> Some (L.map wpred_of l)
  | _ -> failwith "bound attribute syntax"
let opt_params = function
  | A "none" -> None
  | Lst (A "params" :: l) ->
      Some (L.map (function Lst [A id; t] -> (coq_string id, gty_of t) | _ -> failwith "params entry") l)
  | _ -> failwith "schema params syntax"
let gfield_of = function
  | Lst [A "gfield"; A name; A skip; bs; bd; sp; t] ->
      { M.gf_name = coq_string name; M.gf_skip = (bool_of skip); M.gf_bound_ser = opt_preds bs; M.gf_bound_de = opt_preds bd;
        M.gf_schema_params = opt_params sp; M.gf_ty = gty_of t }
  | _ -> failwith "gfield syntax"
let gparam_of = function
  | Lst [A "type"; A id; A "none"] -> M.GPType (coq_string id, None)
  | Lst [A "type"; A id; d] -> M.GPType (coq_string id, Some (gty_of d))
  | Lst [A "lifetime"; A id] -> M.GPLifetime (coq_string id)
  | Lst [A "const"; A id] -> M.GPConst (coq_string id)
  | _ -> failwith "generic parameter syntax"
let gitem_of = function
  | Lst [A "gitem"; A name; Lst ps; Lst w; body] ->
      let body = match body with
        | Lst (A "struct" :: fs) -> M.GStruct (L.map gfield_of fs)
        | Lst (A "enum" :: vs) ->
            M.GEnum (L.map (function
                       | Lst (A "variant" :: A n :: fs) -> { M.gv_name = coq_string n; M.gv_fields = L.map gfield_of fs }
                       | _ -> failwith "gvariant syntax") vs)
        | _ -> failwith "gbody syntax" in
      { M.gi_name = coq_string name; M.gi_params = L.map gparam_of ps; M.gi_where = L.map wpred_of w; M.gi_body = body }
  | _ -> failwith "gitem syntax"

let trait_s = function M.TrSerialize -> "ser" | M.TrDeserialize -> "de" | M.TrDefault -> "default" | M.TrSchema -> "schema"
let rec last_seg = function
  | M.SNil -> "?" | M.SCons (id, _, M.SNil) -> ocaml_string id | M.SCons (_, _, r) -> last_seg r
let rec bound_names = function
  | M.BNil -> []
  | M.BTrait (_, segs, r) -> last_seg segs :: bound_names r
  | M.BOther (s, r) -> ocaml_string s :: bound_names r
let pred_s = function
  | M.WBound (t, tr) -> "B|" ^ trait_s tr ^ "|" ^ ocaml_string (M.render t)
  | M.WUser (t, bs) -> "U|" ^ ocaml_string (M.render t) ^ "|" ^ S.concat "," (bound_names bs)
  | M.WLifetime s -> "L|" ^ ocaml_string s
let param_name = function M.GPType (id, _) | M.GPLifetime id | M.GPConst id -> ocaml_string id

let () =
  reg_untyped "bounds" (fun args -> match args with
    | [k; it] ->
        let k = kind_of k in
        let it = gitem_of (parse_sexp it) in
        let b = M.bounds_of k it in
        let d = M.documented_bounds k it in
        S.concat "\t" (("eq:" ^ bool_s (b = d)) :: L.map pred_s b)
    | _ -> failwith "bounds: args");
  reg_untyped "inner" (fun args -> match args with
    | [it] ->
        let it = gitem_of (parse_sexp it) in
        let decl = "decl:" ^ S.concat ";" (L.map (fun t -> ocaml_string (M.render t)) (M.schema_declaration_params it)) in
        let tps = M.type_params it.M.gi_params in
        let variants = match it.M.gi_body with M.GEnum vs -> vs | M.GStruct _ -> [] in
        let one v =
          let inner = M.inner_struct it v in
          let scope = M.inner_scope_ok it v in       (* extracted: GenericsSchema.inner_scope_ok *)
          S.concat "|" [ ocaml_string v.M.gv_name; S.concat "," (L.map param_name inner.M.gi_params);
                         S.concat ";" (L.map (fun p -> ocaml_string (M.render_pred p)) inner.M.gi_where);
                         "scope:" ^ bool_s scope;
                         "decl:" ^ S.concat ";" (L.map (fun t -> ocaml_string (M.render t)) (M.schema_declaration_params inner)) ] in
        S.concat "\t" (decl :: L.map one variants)
    | _ -> failwith "inner: args")
