(* Derive-macro ops: the model's verdict on an item (check / violations / exception classes)
   and the types derive_ty and documented_sem give it; discriminant splices.
   Untyped ops (type field "-"):   id  derive  -  -  KIND  ITEM-SEXP
                                   id  discr   -  -  (D1 D2 ...)         Di = none | EXPR *)
open Base

let ocaml_string (s : M.string) : string =
  let b = Buffer.create 16 in
  let rec go = function
    | M.EmptyString -> ()
    | M.String (M.Ascii (b0, b1, b2, b3, b4, b5, b6, b7), r) ->
        let bit x k = if x then 1 lsl k else 0 in
        Buffer.add_char b (Char.chr (bit b0 0 + bit b1 1 + bit b2 2 + bit b3 3 + bit b4 4 + bit b5 5 + bit b6 6 + bit b7 7));
        go r in
  go s; Buffer.contents b

(* ---------- printing types ---------- *)
let width_s = function M.W1 -> "8" | M.W2 -> "16" | M.W4 -> "32" | M.W8 -> "64" | M.W16 -> "128"
let prim_s = function
  | M.PInt (s, w) -> (if s then "i" else "u") ^ width_s w
  | M.PSize s -> if s then "isize" else "usize"
  | M.PNonZero (s, w) -> (if s then "nzi" else "nzu") ^ width_s w
  | M.PNonZeroSize -> "nzusize"
  | M.PFloat d -> if d then "f64" else "f32"
  | M.PBool -> "bool"
  | M.PAsciiChar -> "asciichar"
let strs l = S.concat " " (L.map ocaml_string l)
let bools_s l = S.concat " " (L.map (fun b -> if b then "1" else "0") l)
let rec ty_s (t : M.ty) : string =
  match t with
  | M.TPrim p -> "(prim " ^ prim_s p ^ ")"
  | M.TUnit u -> "(unit " ^ (match u with M.UUnit -> "unit" | M.UPhantom -> "phantom" | M.URangeFull -> "rangefull") ^ ")"
  | M.TRaw k -> "(raw " ^ (match k with M.RIpv4 -> "ipv4" | M.RIpv6 -> "ipv6" | M.RObjectId -> "oid") ^ ")"
  | M.TText k ->
      "(text " ^ (match k with
                  | M.XString -> "string" | M.XStr -> "str" | M.XAsciiString -> "asciistring"
                  | M.XAsciiStr -> "asciistr" | M.XBytes -> "bytes" | M.XBytesMut -> "bytesmut") ^ ")"
  | M.TSeq (k, t') ->
      "(seq " ^ (match k with
                 | M.SVec -> "vec" | M.SDeque -> "deque" | M.SList -> "list" | M.SSlice -> "slice"
                 | M.SBTreeSet -> "btreeset" | M.SHashSet -> "hashset" | M.SIndexSet -> "indexset"
                 | M.SBTreeMap -> "btreemap" | M.SHashMap -> "hashmap" | M.SIndexMap -> "indexmap") ^ " " ^ ty_s t' ^ ")"
  | M.TArray (n, t') -> "(array " ^ string_of_n n ^ " " ^ ty_s t' ^ ")"
  | M.TProd (k, ts) ->
      let ks = match k with
        | M.PTuple -> "tuple" | M.PSockV4 -> "sockv4" | M.PSockV6 -> "sockv6"
        | M.PRange r -> "(range " ^ (match r with
                                     | M.RRange -> "range" | M.RRangeInclusive -> "inclusive" | M.RRangeFrom -> "from"
                                     | M.RRangeTo -> "to" | M.RRangeToInclusive -> "toinclusive") ^ ")"
        | M.PStruct (name, fn, sk) -> "(struct " ^ ocaml_string name ^ " (" ^ strs fn ^ ") (" ^ bools_s sk ^ "))"
        | M.PVariant (fn, sk) -> "(variant (" ^ strs fn ^ ") (" ^ bools_s sk ^ "))" in
      "(prod " ^ S.concat " " (ks :: L.map ty_s ts) ^ ")"
  | M.TSum (k, vs) ->
      let ks = match k with
        | M.KOption -> "option" | M.KResult -> "result" | M.KIpAddr -> "ipaddr" | M.KSocketAddr -> "sockaddr"
        | M.KEnum (name, vn, tags) ->
            "(enum " ^ ocaml_string name ^ " (" ^ strs vn ^ ") (" ^ S.concat " " (L.map string_of_n tags) ^ "))" in
      "(sum " ^ S.concat " " (ks :: L.map ty_s vs) ^ ")"
  | M.TWrap (w, t') ->
      "(wrap " ^ (match w with
                  | M.WRef -> "ref" | M.WBox -> "box" | M.WCow -> "cow" | M.WRc -> "rc" | M.WArc -> "arc"
                  | M.WCell -> "cell" | M.WRefCell -> "refcell") ^ " " ^ ty_s t' ^ ")"

(* ---------- parsing items ---------- *)
let binop_of = function
  | "mul" -> M.Mul | "div" -> M.Div | "rem" -> M.Rem | "add" -> M.Add | "sub" -> M.Sub
  | "shl" -> M.Shl | "shr" -> M.Shr | "and" -> M.BitAnd | "xor" -> M.BitXor | "or" -> M.BitOr
  | s -> failwith ("binop " ^ s)
let rec expr_of (e : sexp) : M.expr =
  match e with
  | Lst [A "lit"; A n] -> M.ELit (M.User, n_of_string n)
  | Lst [A "paren"; x] -> M.EParen (expr_of x)
  | Lst [A "neg"; x] -> M.EUn (M.Neg, expr_of x)
  | Lst [A "not"; x] -> M.EUn (M.Not, expr_of x)
  | Lst [A "bin"; A op; l; r] -> M.EBin (M.User, binop_of op, expr_of l, expr_of r)
  | _ -> failwith "expr syntax"
let discr_of = function A "none" -> None | e -> Some (expr_of e)

let val_of_meta = function
  | A "none" -> M.MVNone | A "true" -> M.MVTrue | A "false" -> M.MVFalse | A "other" -> M.MVOther
  | Lst [A "path"; A p] -> M.MVPath (coq_string p)
  | Lst [A "str"; A s; A b] -> M.MVStr (coq_string s, bool_of b)
  | _ -> failwith "meta value"
let item_meta_of = function
  | Lst [A "usedisc"; v] -> { M.im_key = M.IKUseDiscriminant; M.im_val = val_of_meta v }
  | Lst [A "init"; v] -> { M.im_key = M.IKInit; M.im_val = val_of_meta v }
  | Lst [A "crate"; v] -> { M.im_key = M.IKCrate; M.im_val = val_of_meta v }
  | Lst [A "other"; A k] -> { M.im_key = M.IKOther (coq_string k); M.im_val = M.MVNone }
  | Lst [A "other"; A k; v] -> { M.im_key = M.IKOther (coq_string k); M.im_val = val_of_meta v }
  | _ -> failwith "item meta"
let b01 s = bool_of s
let field_meta_of = function
  | A "skip" -> M.FSkip
  | Lst [A "serwith"; A p; t] -> M.FSerializeWith (coq_string p, ty_of t)
  | Lst [A "dewith"; A p; t] -> M.FDeserializeWith (coq_string p, ty_of t)
  | Lst [A "bound"; A s; A d] -> M.FBound (b01 s, b01 d)
  | Lst [A "schema"; A p; A "none"] -> M.FSchema (b01 p, None)
  | Lst [A "schema"; A p; Lst [A "wf"; A d1; A d2]] -> M.FSchema (b01 p, Some (b01 d1, b01 d2))
  | Lst [A "other"; A k] -> M.FOther (coq_string k)
  | Lst [A "other"; A k; _] -> M.FOther (coq_string k)
  | _ -> failwith "field meta"
let lst = function Lst l -> l | _ -> failwith "list expected"
let field_of = function
  | Lst [A "field"; A name; Lst attrs; t] ->
      { M.f_name = coq_string name; M.f_attrs = L.map (fun a -> L.map field_meta_of (lst a)) attrs; M.f_ty = ty_of t }
  | _ -> failwith "field syntax"
let fields_of = function
  | A "unit" -> M.FUnit
  | Lst (A "named" :: fs) -> M.FNamed (L.map field_of fs)
  | Lst (A "tuple" :: fs) -> M.FTuple (L.map field_of fs)
  | _ -> failwith "fields syntax"
let variant_of = function
  | Lst [A "variant"; A name; Lst attrs; d; fs] ->
      { M.v_name = coq_string name;
        M.v_attrs = L.map (fun a -> L.map coq_string (atoms (lst a))) attrs;
        M.v_discr = discr_of d; M.v_fields = fields_of fs }
  | _ -> failwith "variant syntax"
let item_of (e : sexp) : M.item =
  match e with
  | Lst [A "item"; A name; Lst attrs; body] ->
      let body = match body with
        | Lst [A "struct"; fs] -> M.BStruct (fields_of fs)
        | Lst (A "enum" :: vs) -> M.BEnum (L.map variant_of vs)
        | Lst (A "union" :: fs) -> M.BUnion (L.map field_of fs)
        | _ -> failwith "body syntax" in
      { M.it_name = coq_string name; M.it_attrs = L.map (fun a -> L.map item_meta_of (lst a)) attrs; M.it_body = body }
  | _ -> failwith "item syntax"

let class_s = function
  | M.CVariantAttr -> "VariantAttr" | M.CMultipleAttrs -> "MultipleAttrs" | M.CRepeatedKey -> "RepeatedKey" | M.CUnknownItemKey -> "UnknownItemKey" | M.CUseDiscrStruct -> "UseDiscrStruct"
  | M.CUseDiscrValue -> "UseDiscrValue" | M.CMalformedValue -> "MalformedValue" | M.CTooManyVariants -> "TooManyVariants"
  | M.CDiscrNeedsSetting -> "DiscrNeedsSetting" | M.CSkipConflict -> "SkipConflict" | M.CSkipSchemaConflict -> "SkipSchemaConflict"
  | M.CUnknownFieldKey -> "UnknownFieldKey" | M.CWithFuncsIncomplete -> "WithFuncsIncomplete" | M.CUnion -> "Union"
  | M.CTagType -> "TagType" | M.CTagLiteral -> "TagLiteral" | M.CTagArith -> "TagArith"
let rule_s = function
  | M.RDiscrNoSetting -> "DiscrNoSetting" | M.RUseDiscrStruct -> "UseDiscrStruct" | M.RUseDiscrValue -> "UseDiscrValue"
  | M.RDiscrFit -> "DiscrFit" | M.RTooManyVariants -> "TooManyVariants" | M.RSkipConflict -> "SkipConflict"
  | M.RUnknownAttr -> "UnknownAttr" | M.RRepeatedAttr -> "RepeatedAttr" | M.RRepeatedKey -> "RepeatedKey" | M.RUnion -> "Union" | M.RUndocumented -> "Undocumented"
let kind_of = function
  | "ser" -> M.DSer | "de" -> M.DDe | "schema" -> M.DSchema | s -> failwith ("derive kind " ^ s)
let rec nat_to_int = function M.O -> 0 | M.S n -> 1 + nat_to_int n
let z_s = function
  | M.Z0 -> "0"
  | M.Zpos p -> string_of_n (M.Npos p)
  | M.Zneg p -> "-" ^ string_of_n (M.Npos p)
let oz_s = function Some z -> z_s z | None -> "none"

let () =
  reg_untyped "derive" (fun args -> match args with
    | [k; it] ->
        let k = kind_of k in
        let it = item_of (parse_sexp it) in
        let verdict = match M.check k it with M.Accept -> "accept" | M.Reject c -> "reject:" ^ class_s c in
        let viol = match M.violations k it with [] -> "-" | l -> S.concat "," (L.map rule_s l) in
        let der = match M.derive_ty k it with
          | M.DOk t -> ty_s t
          | M.DErr M.ENoCodec -> "err:nocodec"
          | M.DErr (M.ETag i) -> "err:tag:" ^ string_of_int (nat_to_int i) in
        let doc = ty_s (M.documented_sem k it) in
        let flags = S.concat "," [ "f7:" ^ bool_s (M.has_variant_attrs it); "f11:" ^ bool_s (M.implicit_overflow it);
                                   "f12:" ^ bool_s (M.type_dependent_discr it); "canon:" ^ bool_s (M.discrs_canonical it) ] in
        S.concat "\t" [verdict; viol; flags; der; doc]
    | _ -> failwith "derive: args");
  (* the spliced tag expressions read at isize (strict) against the language rule *)
  reg_untyped "discr" (fun args -> match args with
    | [ds] ->
        let ds = L.map discr_of (lst (parse_sexp ds)) in
        let spliced = L.map (M.tag_eval false M.ISize) (M.derive_discrs ds) in
        let rule = M.rust_discrs M.ISize ds in
        let u8 = L.map (M.tag_eval false M.U8) (M.derive_discrs ds) in
        S.concat "\t" [ S.concat " " (L.map oz_s spliced); S.concat " " (L.map oz_s rule); S.concat " " (L.map oz_s u8) ]
    | _ -> failwith "discr: args")
