(* io ops: scheduled readers (decr), writers (encw, iolen), op sequences on slices and vectors (ioseq). *)
open Base

let pos_of_string s = match n_of_string s with M.Npos p -> p | M.N0 -> failwith "positive expected"
let split_items s = if s = "-" || s = "" then [] else S.split_on_char ',' s

(* kinds injected by schedules: 1..5 user kinds, I = Interrupted, E = UnexpectedEof *)
let fail_parts (s : string) : M.kind * M.msg =
  (* s = "K:N" *)
  match S.split_on_char ':' s with
  | [k; n] ->
      let kind = (match k with
        | "I" -> M.Interrupted | "E" -> M.UnexpectedEof | "14" -> M.Other | "15" -> M.InvalidData | "16" -> M.WriteZero
        | _ -> M.KUser (n_of_string k)) in
      (kind, if n = "-" then M.MSimple else M.MUser (n_of_string n))
  | _ -> failwith "fail entry"

let rsched_of (s : string) : M.rresp list =
  L.map (fun it ->
    let tail = S.sub it 1 (S.length it - 1) in
    match it.[0] with
    | 'd' -> M.Deliver (pos_of_string tail)
    | 'i' -> M.Interrupt
    | 'f' -> let (k, m) = fail_parts tail in M.Fail (k, m)
    | _ -> failwith "reader schedule") (split_items s)

let wsched_of (s : string) : M.wresp list =
  L.map (fun it ->
    let tail = S.sub it 1 (S.length it - 1) in
    match it.[0] with
    | 'a' -> M.WAccept (pos_of_string tail)
    | 'i' -> M.WInterrupt
    | 'z' -> M.Refuse
    | 'f' -> let (k, m) = fail_parts tail in M.WFail (k, m)
    | _ -> failwith "writer schedule") (split_items s)

let werr_s (e : (M.kind * M.msg) option) : string =
  match e with
  | None -> "ok"
  | Some (k, m) -> "err " ^ kind_s k ^ " " ^ msg_s m

let outcome_s (o : M.io_outcome) : string =
  match o with
  | M.ReadGot b -> "R:" ^ hex_of_bytes b
  | M.ExactGot b -> "X:" ^ hex_of_bytes b
  | M.ExactErr (k, m) -> "XE:" ^ kind_s k ^ ":" ^ msg_s m
  | M.Wrote n -> "W:" ^ string_of_n n
  | M.WroteAll -> "A"
  | M.WriteAllErr (k, m) -> "AE:" ^ kind_s k ^ ":" ^ msg_s m
  | M.Stuck w -> "STUCK:" ^ string_of_n w

let rec op_of (s : string) : M.io_op =
  let tail k = S.sub s k (S.length s - k) in
  let tgt c = (match c with 's' -> M.TSlice | 'v' -> M.TVec | _ -> failwith "target") in
  match s.[0] with
  | 'b' -> M.OByRef (op_of (tail 1))
  | 'r' -> M.ORead (n_of_string (tail 1))
  | 'x' -> M.OReadExact (n_of_string (tail 1))
  | 'w' when S.length s >= 3 && s.[2] = ':' -> M.OWrite (tgt s.[1], bytes_of_hex (tail 3))
  | 'a' when S.length s >= 3 && s.[2] = ':' -> M.OWriteAll (tgt s.[1], bytes_of_hex (tail 3))
  | _ -> failwith "io op"

let () =
  (* decr STRICT SHIM ENTRY HEX SCHED  ->  RESULT pulled=N|? *)
  reg_typed "decr" (fun t args -> match args with
    | [strict; shim; entry; h; sch] ->
        let st = { M.data = bytes_of_hex h; M.sched = rsched_of sch } in
        let strict = (bool_of strict) and shim = (bool_of shim) in
        (match entry with
         | "deserialize_reader" ->
             (match M.decr shim strict (t ()) st with
              | M.Ok (v, n) -> "ok " ^ string_of_val v ^ " pulled=" ^ string_of_n n
              | r -> res_s (fun _ -> "") r ^ " pulled=?")
         | "try_from_reader" | "from_reader" ->
             let (r, n) = M.try_from_reader_count shim strict (t ()) st in
             res_s string_of_val r ^ " pulled=" ^ (match n with Some n -> string_of_n n | None -> "?")
         | _ -> failwith "decr: entry")
    | _ -> failwith "decr: args");
  (* encw SHIM VALUE WRITER  ->  ok|err K M  SINKHEX [room=N] *)
  reg_typed "encw" (fun t args -> match args with
    | [shim; v; w] ->
        let shim = (bool_of shim) in
        let v = val_of (parse_sexp v) in
        let fin r sink extra = (match r with
          | M.Ok (st, e) -> werr_s e ^ " " ^ hex_of_bytes (sink st) ^ extra st
          | M.Err (k, m) -> "model-err " ^ kind_s k ^ " " ^ msg_s m
          | M.Panic w -> "panic " ^ string_of_n w) in
        if w = "v" then
          fin (M.to_writer (M.vw_write_all shim) (t ()) v []) (fun s -> s) (fun _ -> "")
        else if S.length w >= 2 && S.sub w 0 2 = "b:" then
          let cap = n_of_string (S.sub w 2 (S.length w - 2)) in
          fin (M.to_writer (M.fw_write_all shim) (t ()) v { M.fsink = []; M.room = cap })
            (fun s -> s.M.fsink) (fun s -> " room=" ^ string_of_n s.M.room)
        else if S.length w >= 2 && S.sub w 0 2 = "s:" then
          let sch = wsched_of (S.sub w 2 (S.length w - 2)) in
          fin (M.to_writer (M.sw_write_all shim) (t ()) v { M.sink = []; M.wsched = sch })
            (fun s -> s.M.sink) (fun _ -> "")
        else failwith "encw: writer"
    | _ -> failwith "encw: args");
  (* encwc SHIM VALUE WRITER LENS  ->  like encw, for the stream of [ser] cut into chunks of the given
     lengths (comma separated; "-" for none): IoRechunk.to_writer_cs *)
  reg_typed "encwc" (fun t args -> match args with
    | [shim; v; w; lens] ->
        let shim = (bool_of shim) in
        let v = val_of (parse_sexp v) in
        let (chunks0, e0) = M.ser (t ()) v in
        let stream = List.concat chunks0 in
        let lens = if lens = "-" || lens = "" then [] else List.map small_nat_of_string (S.split_on_char ',' lens) in
        let rec take n l acc = if n = 0 then (List.rev acc, l) else (match l with
          | x :: r -> take (n - 1) r (x :: acc)
          | [] -> raise Exit) in
        (match (try
                  let (cs, rest) = List.fold_left (fun (cs, l) n -> let (c, r) = take n l [] in (c :: cs, r)) ([], stream) lens in
                  if rest <> [] then None else Some (List.rev cs)
                with Exit -> None) with
         | None -> "rechunk-mismatch"
         | Some cs ->
            let fin r sink extra = (match r with
              | M.Ok (st, e) -> werr_s e ^ " " ^ hex_of_bytes (sink st) ^ extra st
              | M.Err (k, m) -> "model-err " ^ kind_s k ^ " " ^ msg_s m
              | M.Panic w -> "panic " ^ string_of_n w) in
            if w = "v" then
              fin (M.to_writer_cs (M.vw_write_all shim) cs e0 []) (fun s -> s) (fun _ -> "")
            else if S.length w >= 2 && S.sub w 0 2 = "b:" then
              let cap = n_of_string (S.sub w 2 (S.length w - 2)) in
              fin (M.to_writer_cs (M.fw_write_all shim) cs e0 { M.fsink = []; M.room = cap })
                (fun s -> s.M.fsink) (fun s -> " room=" ^ string_of_n s.M.room)
            else if S.length w >= 2 && S.sub w 0 2 = "s:" then
              let sch = wsched_of (S.sub w 2 (S.length w - 2)) in
              fin (M.to_writer_cs (M.sw_write_all shim) cs e0 { M.sink = []; M.wsched = sch })
                (fun s -> s.M.sink) (fun _ -> "")
            else failwith "encwc: writer")
    | _ -> failwith "encwc: args");
  reg_typed "iolen" (fun t args -> match args with
    | [v] -> res_s string_of_n (M.object_length (t ()) (val_of (parse_sexp v)))
    | _ -> failwith "iolen: args");
  (* ioseq IMPL INPUTHEX CAP OPS -> masked outcomes | fix=.. room=.. vec=.. rd=.. *)
  reg_untyped "ioseq" (fun args -> match args with
    | [impl; h; cap; ops] ->
        let m = (match impl with "std" -> M.io_std | "shim" -> M.io_shim | _ -> failwith "impl") in
        let ops = L.map op_of (split_items ops) in
        let (((outs, (fx, room)), vec), rd) = M.observable m ops (M.world0 (bytes_of_hex h) (n_of_string cap)) in
        S.concat ";" (L.map (function Some o -> outcome_s o | None -> "_") outs)
        ^ " | fix=" ^ hex_of_bytes fx ^ " room=" ^ string_of_n room ^ " vec=" ^ hex_of_bytes vec
        ^ " rd=" ^ (match rd with Some b -> hex_of_bytes b | None -> "?")
    | _ -> failwith "ioseq: args")
