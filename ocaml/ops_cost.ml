(* C07 ops: the instrumented slice decoder.  deccost STRICT SIZES HEX
   SIZES = "sexp=bytes;sexp=bytes;..." : size_of of the element / boxed types (from the harness). *)
open Base
let parse_sizes (s : string) : (M.ty * M.n) list =
  if s = "" || s = "-" then [] else
  L.map (fun item ->
      match S.rindex_opt item '=' with
      | Some i -> (ty_of (parse_sexp (S.sub item 0 i)), n_of_string (S.sub item (i + 1) (S.length item - i - 1)))
      | None -> failwith "sizes: bad item") (S.split_on_char ';' s)
let sz_fun tbl = fun (t : M.ty) ->
  match L.assoc_opt t tbl with Some n -> n | None -> failwith "no size_of supplied for an element type"
let cost_s (c : M.cost) : string =
  Printf.sprintf "max=%s total=%s elems=%s maxexp=%s convu=%s convb=%s"
    (string_of_n c.M.max_request) (string_of_n c.M.total_requested) (string_of_n c.M.elems)
    (string_of_n c.M.max_explicit) (string_of_n c.M.conv_units) (string_of_n c.M.conv_bytes)
let () =
  reg_typed "deccost" (fun t args -> match args with
    | [mode; strict; sizes; h] ->
        let bs = bytes_of_hex h in
        let (r, c) = M.dec_cost (sz_fun (parse_sizes sizes)) (bool_of strict) (t ()) bs in
        let rs = (match mode with
          | "deserialize" -> res_s (fun (v, rest) -> string_of_val v ^ " " ^ hex_of_bytes rest) r
          | "try_from_slice" | "from_slice" -> (* nothing may be left; no further allocation *)
              (match r with
               | M.Ok (v, []) -> "ok " ^ string_of_val v ^ " -"
               | M.Ok (_, _ :: _) -> "err InvalidData NotAllBytesRead"
               | _ -> res_s (fun _ -> "") r)
          | m -> failwith ("deccost: mode " ^ m)) in
        rs ^ "\t" ^ cost_s c
    | _ -> failwith "deccost: args");
  (* cautious SIZE HINT -> ok N | panic W : the model's hint::cautious *)
  reg_untyped "cautious" (fun args -> match args with
    | [size; hint] -> (match M.cautious (n_of_string size) (n_of_string hint) with
        | M.Ok n -> "ok " ^ string_of_n n
        | M.Err (k, m) -> "err " ^ kind_s k ^ " " ^ msg_s m
        | M.Panic w -> "panic " ^ string_of_n w)
    | _ -> failwith "cautious: args");
  reg_typed "fam" (fun t _ -> bool_s (M.fam (t ())))
