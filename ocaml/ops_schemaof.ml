(* Schema-of-a-type ops: the extracted SchemaOf / SchemaDec / WithSchema.
   typed:   schema            -> "ok CONTAINER<TAB>VALIDATE<TAB>MAXSIZE"  (schema_of t, validate, max_size)
            hasschema         -> 1/0
            encws VALUE       -> try_to_vec_with_schema
            decws STRICT HEX  -> try_from_slice_with_schema
            sdec HEX          -> the model's schema-driven decoder on schema_of t, printed as an sval
            erase VALUE       -> erase t (logical t v), printed as an sval
   untyped: cont-enc CONTAINER -> enc ty_container (container_to_val c)
            cont-dec STRICT HEX -> from_slice ty_container, then val_to_container
            prim-table         -> "decl:schema_width:wire_width;..." over all primitives *)
open Base
open Ops_schema

let dump_def (d : M.definition) : string =
  match d with
  | M.Primitive n -> "(p " ^ string_of_n n ^ ")"
  | M.Sequence (lw, lo, hi, el) ->
      "(s " ^ string_of_n lw ^ " " ^ string_of_n lo ^ " " ^ string_of_n hi ^ " " ^ hex_of_name el ^ ")"
  | M.Tuple els -> "(t" ^ S.concat "" (L.map (fun e -> " " ^ hex_of_name e) els) ^ ")"
  | M.Enum (tw, vs) ->
      let z_s z = match z with M.Z0 -> "0" | M.Zpos p -> string_of_n (M.Npos p) | M.Zneg p -> "-" ^ string_of_n (M.Npos p) in
      "(e " ^ string_of_n tw ^
      S.concat "" (L.map (fun ((d, n), dc) -> " (" ^ z_s d ^ " " ^ hex_of_name n ^ " " ^ hex_of_name dc ^ ")") vs) ^ ")"
  | M.Struct (M.NamedFields fs) ->
      "(sn" ^ S.concat "" (L.map (fun (n, dc) -> " (" ^ hex_of_name n ^ " " ^ hex_of_name dc ^ ")") fs) ^ ")"
  | M.Struct (M.UnnamedFields fs) -> "(su" ^ S.concat "" (L.map (fun e -> " " ^ hex_of_name e) fs) ^ ")"
  | M.Struct M.EmptyFields -> "(se)"

let dump_container (c : M.container) : string =
  "(c " ^ hex_of_name c.M.root ^
  S.concat "" (L.map (fun (k, d) -> " (" ^ hex_of_name k ^ " " ^ dump_def d ^ ")") c.M.defs) ^ ")"

let rec sval_s (v : M.sval) : string =
  match v with
  | M.SPrim bs -> "(P " ^ hex_of_bytes bs ^ ")"
  | M.SSeq l -> "(Q" ^ S.concat "" (L.map (fun x -> " " ^ sval_s x) l) ^ ")"
  | M.STuple l -> "(T" ^ S.concat "" (L.map (fun x -> " " ^ sval_s x) l) ^ ")"
  | M.SNamed fs -> "(N" ^ S.concat "" (L.map (fun (n, x) -> " (" ^ hex_of_name n ^ " " ^ sval_s x ^ ")") fs) ^ ")"
  | M.SUnnamed l -> "(U" ^ S.concat "" (L.map (fun x -> " " ^ sval_s x) l) ^ ")"
  | M.SEmpty -> "(E)"
  | M.SEnum (d, n, p) ->
      let z_s z = match z with M.Z0 -> "0" | M.Zpos p -> string_of_n (M.Npos p) | M.Zneg p -> "-" ^ string_of_n (M.Npos p) in
      "(V " ^ z_s d ^ " " ^ hex_of_name n ^ " " ^ sval_s p ^ ")"

let rec nat_of_int i = if i <= 0 then M.O else M.S (nat_of_int (i - 1))

let () =
  reg_typed "schema" (fun t _ ->
    match M.schema_of (t ()) with
    | M.Ok c -> "ok " ^ dump_container c ^ "\t" ^ valid_s (M.validate c) ^ "\t" ^ size_s (M.max_size c)
    | r -> res_s (fun _ -> "") r);
  reg_typed "hasschema" (fun t _ -> bool_s (M.has_schema (t ())));
  reg_typed "encws" (fun t args -> match args with
    | [v] -> res_s hex_of_bytes (M.try_to_vec_with_schema (t ()) (val_of (parse_sexp v)))
    | _ -> failwith "encws: args");
  reg_typed "decws" (fun t args -> match args with
    | [strict; h] -> res_s string_of_val (M.try_from_slice_with_schema (bool_of strict) (t ()) (bytes_of_hex h))
    | _ -> failwith "decws: args");
  reg_typed "sdec" (fun t args -> match args with
    | [h] ->
        (match M.schema_of (t ()) with
         | M.Ok c ->
             (* fuel: one unit per nesting level of the container-driven decoder; the depth of a value is bounded by
                the number of definitions plus the length of the type's own term, far below this *)
             (match M.sdec c (M.decl_of (t ())) (nat_of_int (256 + L.length c.M.defs)) (bytes_of_hex h) with
              | Some (sv, rest) -> "ok " ^ sval_s sv ^ " " ^ hex_of_bytes rest
              | None -> "none")
         | r -> res_s (fun _ -> "") r)
    | _ -> failwith "sdec: args");
  reg_typed "erase" (fun t args -> match args with
    | [v] -> sval_s (M.erase (t ()) (M.logical (t ()) (val_of (parse_sexp v))))
    | _ -> failwith "erase: args");
  reg_untyped "cont-enc" (function
    | [c] ->
        (* the S-expression lists entries in any order, possibly with repeated names; the Rust value
           is a BTreeMap built with "first occurrence wins": insert into the sorted list if absent *)
        let c0 = container_of c in
        let ds = L.fold_left (fun acc (k, d) ->
                   match M.lookup acc k with Some _ -> acc | None -> M.insert k d acc) [] c0.M.defs in
        res_s hex_of_bytes (M.enc M.ty_container (M.container_to_val { M.root = c0.M.root; M.defs = ds }))
    | _ -> failwith "cont-enc: args");
  reg_untyped "cont-dec" (function
    | [strict; h] ->
        (match M.try_from_slice (bool_of strict) M.ty_container (bytes_of_hex h) with
         | M.Ok v -> (match M.val_to_container v with
                      | Some c -> "ok " ^ dump_container c
                      | None -> "driver-error val_to_container")
         | r -> res_s (fun _ -> "") r)
    | _ -> failwith "cont-dec: args");
  reg_untyped "prim-table" (fun _ ->
    S.concat ";" (L.map (fun p ->
      hex_of_name (M.prim_decl p) ^ ":" ^ string_of_n (M.prim_schema_width p) ^ ":" ^
      string_of_n (M.N.of_nat (M.prim_width p))) M.all_prims))
