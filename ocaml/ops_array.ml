(* C15: the array-guard machine (coq/ArrayGuard.v, extracted).  Untyped ops:
     arr     <N> <script>            observable trace of the machine for the code as written
     arrv    <variant> <N> <script>  same for a variant: as-written | incr-first | no-reset
     arrfull <variant> <N> <script>  full trace, including Write and UB events
     arrnest <OUTER> <INNER> <script>  [[T; INNER]; OUTER]: the machine composed with itself
   script: one character per call of the element decoder, o = value, E = error, P = panic,
   "-" = empty; an exhausted script answers with an error (end of input).
   Output:  EVENTS OUTCOME calls=K   with EVENTS = comma-separated C<id> D<id> R<id.id...>
   (W<slot>:<id>, U:<why>:<slot> in the full trace), "-" when empty. *)
open Base

let rec nat_of_int (i : int) : M.nat = if i <= 0 then M.O else M.S (nat_of_int (i - 1))
let rec int_of_nat (n : M.nat) : int = match n with M.O -> 0 | M.S m -> 1 + int_of_nat m

let answers_of_script (s : string) : M.answer list =
  let s = if s = "-" then "" else s in
  L.init (S.length s) (fun i -> match s.[i] with
    | 'o' -> M.OkElem
    | 'P' -> M.PanicElem
    | 'E' | 'I' | 'U' | 'W' -> M.ErrElem      (* element errors of different kinds: one answer of the machine *)
    | c -> failwith (Printf.sprintf "arr: script character %C" c))

let variant_of (s : string) : M.variant =
  match s with
  | "as-written" -> M.as_written                  (* the variant the C15 theorems are about *)
  | "incr-first" -> M.bug_incr_before_write
  | "no-reset" -> M.bug_no_reset
  | "both-bugs" -> { M.incr_first = true; M.reset_first = false }
  | _ -> failwith "arr: variant"

let ids_s (ids : int list) : string = S.concat "." (L.map string_of_int ids)

let why_s (w : M.why) : string =
  match w with
  | M.DropUninit i -> "drop-uninit:" ^ string_of_int (int_of_nat i)
  | M.DropMoved i -> "drop-moved:" ^ string_of_int (int_of_nat i)
  | M.ReadUninit i -> "read-uninit:" ^ string_of_int (int_of_nat i)
  | M.ReadMoved i -> "read-moved:" ^ string_of_int (int_of_nat i)
  | M.SliceRange -> "slice-range"

(* observable = what an instrumented element type can see: no Write events *)
let event_s (full : bool) (e : M.event) : string option =
  match e with
  | M.Construct id -> Some ("C" ^ string_of_int (int_of_nat id))
  | M.Write (i, id) -> if full then Some ("W" ^ string_of_int (int_of_nat i) ^ ":" ^ string_of_int (int_of_nat id)) else None
  | M.DropEv id -> Some ("D" ^ string_of_int (int_of_nat id))
  | M.Return ids -> Some ("R" ^ ids_s (L.map int_of_nat ids))
  | M.UB w -> Some ("U:" ^ why_s w)

let events_s (l : string list) : string = match l with [] -> "-" | _ -> S.concat "," l

let outcome_s (o : M.outcome) : string =
  match o with M.Returned _ -> "returned" | M.Failed -> "failed" | M.Panicked -> "panicked"

let show (full : bool) (r : M.run_result) : string =
  events_s (L.filter_map (event_s full) r.M.trace) ^ " " ^ outcome_s r.M.final
  ^ " calls=" ^ string_of_int (int_of_nat r.M.calls_made)

let rec drop (k : int) (l : 'a list) : 'a list =
  if k <= 0 then l else match l with [] -> [] | _ :: t -> drop (k - 1) t

(* [[T; inner]; outer]: the element decoder of the outer machine is the inner machine run on
   the rest of the script.  Outer "ids" are the indices of the inner runs that succeeded. *)
let nest (outer : int) (inner : int) (script : M.answer list) : string =
  let aw = variant_of "as-written" in
  let pos = ref 0 and idbase = ref 0 in
  let runs : (string list * int list) list ref = ref [] in   (* per successful inner run: events, ids *)
  let failing : string list ref = ref [] in
  let rec answers k =
    if k >= outer then [] else begin
      let r = M.deserialize aw (nat_of_int inner) (drop !pos script) in
      let base = !idbase in
      let sh id = int_of_nat id + base in
      let evs = L.filter_map (fun e -> match e with
        | M.Construct id -> Some ("C" ^ string_of_int (sh id))
        | M.DropEv id -> Some ("D" ^ string_of_int (sh id))
        | M.UB w -> Some ("U:" ^ why_s w)
        | _ -> None) r.M.trace in
      pos := !pos + int_of_nat r.M.calls_made;
      match r.M.final with
      | M.Returned ids ->
          idbase := base + L.length ids;
          runs := !runs @ [(evs, L.map sh ids)];
          M.OkElem :: answers (k + 1)
      | M.Failed -> failing := evs; [M.ErrElem]
      | M.Panicked -> failing := evs; [M.PanicElem]
    end in
  let o = answers 0 in
  let r = M.deserialize aw (nat_of_int outer) o in
  let run_of e = L.nth !runs (int_of_nat e) in
  let cons = L.concat_map (fun e -> match e with
    | M.Construct e -> fst (run_of e) | _ -> []) r.M.trace in
  let rest = L.concat_map (fun e -> match e with
    | M.DropEv e -> L.map (fun i -> "D" ^ string_of_int i) (snd (run_of e))
    | M.Return es -> ["R" ^ ids_s (L.concat_map (fun e -> snd (run_of e)) es)]
    | M.UB w -> ["U:" ^ why_s w]
    | _ -> []) r.M.trace in
  events_s (cons @ !failing @ rest) ^ " " ^ outcome_s r.M.final ^ " calls=" ^ string_of_int !pos

let () =
  reg_untyped "arr" (fun args -> match args with
    | [n; script] -> show false (M.deserialize (variant_of "as-written") (nat_of_int (small_nat_of_string n)) (answers_of_script script))
    | _ -> failwith "arr: args");
  reg_untyped "arrv" (fun args -> match args with
    | [v; n; script] -> show false (M.deserialize (variant_of v) (nat_of_int (small_nat_of_string n)) (answers_of_script script))
    | _ -> failwith "arrv: args");
  reg_untyped "arrfull" (fun args -> match args with
    | [v; n; script] -> show true (M.deserialize (variant_of v) (nat_of_int (small_nat_of_string n)) (answers_of_script script))
    | _ -> failwith "arrfull: args");
  reg_untyped "arrnest" (fun args -> match args with
    | [outer; inner; script] -> nest (small_nat_of_string outer) (small_nat_of_string inner) (answers_of_script script)
    | _ -> failwith "arrnest: args")
