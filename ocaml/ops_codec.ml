(* Codec ops: enc / dec / logical / typing judgements. *)
open Base
let () =
  reg_typed "enc" (fun t args -> match args with
    | [v] -> res_s hex_of_bytes (M.enc (t ()) (val_of (parse_sexp v)))
    | _ -> failwith "enc: args");
  reg_typed "dec" (fun t args -> match args with
    | [strict; h] ->
        res_s (fun (v, rest) -> string_of_val v ^ " " ^ hex_of_bytes rest)
          (M.dec_slice (bool_of strict) (t ()) (bytes_of_hex h))
    | _ -> failwith "dec: args");
  (* the six entry points on in-memory input *)
  reg_typed "decm" (fun t args -> match args with
    | [mode; strict; h] ->
        let c = (bool_of strict) and bs = bytes_of_hex h in
        (match mode with
         | "deserialize" | "deserialize_reader" ->
             res_s (fun (v, rest) -> string_of_val v ^ " " ^ hex_of_bytes rest) (M.dec_slice c (t ()) bs)
         | "try_from_slice" | "from_slice" ->
             res_s (fun v -> string_of_val v ^ " -") (M.try_from_slice c (t ()) bs)
         | "try_from_reader" | "from_reader" ->
             res_s (fun (v, _) -> string_of_val v ^ " -") (M.try_from_reader M.slice_reader c (t ()) bs)
         | _ -> failwith "decm: mode")
    | _ -> failwith "decm: args");
  reg_typed "objlen" (fun t args -> match args with
    | [v] -> res_s string_of_n (M.object_length (t ()) (val_of (parse_sexp v)))
    | _ -> failwith "objlen: args");
  reg_typed "logical" (fun t args -> match args with
    | [v] -> string_of_val (M.logical (t ()) (val_of (parse_sexp v)))
    | _ -> failwith "logical: args");
  reg_typed "hasty" (fun t args -> match args with
    | [v] -> bool_s (M.has_ty (t ()) (val_of (parse_sexp v)))
    | _ -> failwith "hasty: args");
  reg_typed "wf" (fun t _ -> bool_s (M.wf (t ())));
  reg_typed "zst" (fun t _ -> bool_s (M.mem_zst (t ())))
