(* Codec ops: enc / dec / logical / typing judgements. *)
open Base
let () =
  reg_typed "enc" (fun t args -> match args with
    | [v] -> res_s hex_of_bytes (M.enc (t ()) (val_of (parse_sexp v)))
    | _ -> failwith "enc: args");
  reg_typed "dec" (fun t args -> match args with
    | [strict; h] ->
        res_s (fun (v, rest) -> string_of_val v ^ " " ^ hex_of_bytes rest)
          (M.dec_slice (strict = "1") (t ()) (bytes_of_hex h))
    | _ -> failwith "dec: args");
  reg_typed "logical" (fun t args -> match args with
    | [v] -> string_of_val (M.logical (t ()) (val_of (parse_sexp v)))
    | _ -> failwith "logical: args");
  reg_typed "hasty" (fun t args -> match args with
    | [v] -> bool_s (M.has_ty (t ()) (val_of (parse_sexp v)))
    | _ -> failwith "hasty: args");
  reg_typed "wf" (fun t _ -> bool_s (M.wf (t ())));
  reg_typed "zst" (fun t _ -> bool_s (M.mem_zst (t ())))
