(* C02/C03: the reference encoder of coq/Spec.v (extracted), independent of the model of the code.
     specenc   TYPE VALUE   spec_enc TYPE (logical TYPE VALUE): "some HEX" | "none"
     specraw   TYPE VALUE   spec_enc TYPE VALUE (the value is taken as already logical)
     refusable TYPE VALUE   1 | 0   (Spec.refusable on the representation)
   untyped:
     emitlen N              the model's length-prefix clause (Ser.emit_len): "ok HEX" | "err KIND MSG" *)
open Base
let opt_s (o : M.byte list option) : string =
  match o with Some b -> "some " ^ hex_of_bytes b | None -> "none"
let () =
  reg_typed "specenc" (fun t args -> match args with
    | [v] -> let t = t () in opt_s (M.spec_enc t (M.logical t (val_of (parse_sexp v))))
    | _ -> failwith "specenc: args");
  reg_typed "specraw" (fun t args -> match args with
    | [v] -> opt_s (M.spec_enc (t ()) (val_of (parse_sexp v)))
    | _ -> failwith "specraw: args");
  reg_typed "refusable" (fun t args -> match args with
    | [v] -> bool_s (M.refusable (t ()) (val_of (parse_sexp v)))
    | _ -> failwith "refusable: args");
  reg_untyped "emitlen" (fun args -> match args with
    | [n] ->
        let (chunks, e) = M.emit_len (n_of_string n) in
        (match e with
         | None -> "ok " ^ hex_of_bytes (L.concat chunks)
         | Some (k, m) -> "err " ^ kind_s k ^ " " ^ msg_s m)
    | _ -> failwith "emitlen: args")
