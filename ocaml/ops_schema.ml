(* Schema container ops (untyped): the extracted transcriptions of
   max_serialized_size / validate / is_zero_size and the unbounded specification.

   Container syntax (one field, no TABs):
     (c ROOT (NAME DEF) (NAME DEF) ...)
   NAME = 'x' followed by the lowercase hex of the UTF-8 bytes of the name;
   DEF  = (p SIZE) | (s LW LO HI ELEM) | (t ELEM...) | (e TW (DISCR VNAME DECL)...)
        | (sn (FNAME DECL)...) | (su DECL...) | (se)
   Numbers are decimal; DISCR may be negative.  Duplicate NAME keys: the FIRST one
   wins (the model's lookup is first-match; the harness inserts only if absent). *)
open Base

let name_of (a : string) : M.string =
  let n = S.length a in
  if n < 1 || a.[0] <> 'x' || (n - 1) mod 2 <> 0 then failwith ("bad name " ^ a);
  let b = Bytes.create ((n - 1) / 2) in
  for i = 0 to (n - 1) / 2 - 1 do
    Bytes.set b i (Char.chr (hexval a.[1 + 2*i] * 16 + hexval a.[2 + 2*i]))
  done;
  coq_string (Bytes.to_string b)

(* inverse of Base.coq_string, printed directly in the xHEX form *)
let hex_of_name (s : M.string) : string =
  let buf = Buffer.create 16 in
  Buffer.add_char buf 'x';
  let rec go s =
    match s with
    | M.EmptyString -> ()
    | M.String (M.Ascii (b0, b1, b2, b3, b4, b5, b6, b7), r) ->
        let bit b k = if b then 1 lsl k else 0 in
        let c = bit b0 0 + bit b1 1 + bit b2 2 + bit b3 3 + bit b4 4 + bit b5 5 + bit b6 6 + bit b7 7 in
        Buffer.add_char buf hexdig.[c lsr 4]; Buffer.add_char buf hexdig.[c land 15];
        go r in
  go s;
  Buffer.contents buf

let z_of_string (s : string) : M.z =
  if S.length s > 0 && s.[0] = '-' then
    (match n_of_string (S.sub s 1 (S.length s - 1)) with M.N0 -> M.Z0 | M.Npos p -> M.Zneg p)
  else (match n_of_string s with M.N0 -> M.Z0 | M.Npos p -> M.Zpos p)

let num = function A s -> n_of_string s | _ -> failwith "number expected"
let nm = function A s -> name_of s | _ -> failwith "name expected"

let def_of (e : sexp) : M.definition =
  match e with
  | Lst [A "p"; sz] -> M.Primitive (num sz)
  | Lst [A "s"; lw; lo; hi; el] -> M.Sequence (num lw, num lo, num hi, nm el)
  | Lst (A "t" :: els) -> M.Tuple (L.map nm els)
  | Lst (A "e" :: tw :: vs) ->
      M.Enum (num tw, L.map (function
        | Lst [A d; vn; dc] -> ((z_of_string d, nm vn), nm dc)
        | _ -> failwith "variant syntax") vs)
  | Lst (A "sn" :: fs) ->
      M.Struct (M.NamedFields (L.map (function
        | Lst [fn; dc] -> (nm fn, nm dc)
        | _ -> failwith "field syntax") fs))
  | Lst (A "su" :: fs) -> M.Struct (M.UnnamedFields (L.map nm fs))
  | Lst [A "se"] -> M.Struct M.EmptyFields
  | _ -> failwith "definition syntax"

let container_of (s : string) : M.container =
  match parse_sexp s with
  | Lst (A "c" :: rt :: ds) ->
      { M.root = nm rt;
        M.defs = L.map (function
          | Lst [k; d] -> (nm k, def_of d)
          | _ -> failwith "declaration syntax") ds }
  | _ -> failwith "container syntax"

let ccache : (string, M.container) Hashtbl.t = Hashtbl.create 16
let container (s : string) : M.container =
  match Hashtbl.find_opt ccache s with
  | Some c -> c
  | None ->
      let c = container_of s in
      if Hashtbl.length ccache > 4 then Hashtbl.reset ccache;
      Hashtbl.add ccache s c; c

let sres_s (ok : 'a -> string) (er : 'e -> string) (r : ('e, 'a) M.sres) : string =
  match r with
  | M.SOk a -> ok a
  | M.SErr e -> "err " ^ er e
  | M.SFuel -> "fuel"
  | M.SPanic -> "panic"

let mserr_s = function
  | M.Overflow -> "Overflow"
  | M.MRecursive -> "Recursive"
  | M.MMissingDefinition d -> "MissingDefinition " ^ hex_of_name d
let zserr_s = function
  | M.ZRecursive -> "Recursive"
  | M.ZMissingDefinition d -> "MissingDefinition " ^ hex_of_name d
let verr_s = function
  | M.ZSTSequence d -> "ZSTSequence " ^ hex_of_name d
  | M.TagTooWide d -> "TagTooWide " ^ hex_of_name d
  | M.TagTooNarrow d -> "TagTooNarrow " ^ hex_of_name d
  | M.TagNotPowerOfTwo d -> "TagNotPowerOfTwo " ^ hex_of_name d
  | M.VMissingDefinition d -> "MissingDefinition " ^ hex_of_name d
  | M.EmptyLengthRange d -> "EmptyLengthRange " ^ hex_of_name d

let size_s r = sres_s (fun n -> "ok " ^ string_of_n n) mserr_s r
let valid_s r = sres_s (fun () -> "ok") verr_s r

let () =
  reg_untyped "sch-maxsize" (function
    | [c] -> size_s (M.max_size (container c))
    | _ -> failwith "sch-maxsize: args");
  reg_untyped "sch-maxsize32" (function
    | [c] -> size_s (M.max_size_at (n_of_int 32) (container c))
    | _ -> failwith "sch-maxsize32: args");
  reg_untyped "sch-unb" (function
    | [c] -> size_s (M.max_unbounded (container c))
    | _ -> failwith "sch-unb: args");
  reg_untyped "sch-validate" (function
    | [c] -> valid_s (M.validate (container c))
    | _ -> failwith "sch-validate: args");
  reg_untyped "sch-zerosize" (function
    | [c; d] -> sres_s (fun b -> "ok " ^ bool_s b) zserr_s (M.is_zero_size (container c) (name_of d))
    | _ -> failwith "sch-zerosize: args");
  reg_untyped "sch-both" (function
    | [c] -> let c = container c in size_s (M.max_size c) ^ " | " ^ valid_s (M.validate c)
    | _ -> failwith "sch-both: args")
