"""Type universe of the correspondence check: Python terms, their S-expression
(the Coq `ty` term), their Rust spelling, and capability predicates.

A type is a nested tuple:
  ('prim', name) ('unit', k) ('raw', k) ('text', k) ('seq', k, T) ('array', n, T)
  ('prod', kind, [T..]) ('sum', kind, [T..]) ('wrap', w, T)
prod kind: 'tuple' | ('range', r) | 'sockv4' | 'sockv6' | ('struct', name, fnames, skips) | ('variant', fnames, skips)
sum kind:  'option' | 'result' | 'ipaddr' | 'sockaddr' | ('enum', name, vnames, tags)
"""
import random

UINTS = ['u8', 'u16', 'u32', 'u64', 'u128']
SINTS = ['i8', 'i16', 'i32', 'i64', 'i128']
NZU = ['nzu8', 'nzu16', 'nzu32', 'nzu64', 'nzu128']
NZI = ['nzi8', 'nzi16', 'nzi32', 'nzi64', 'nzi128']
PRIMS = UINTS + SINTS + ['usize', 'isize'] + NZU + NZI + ['nzusize', 'f32', 'f64', 'bool', 'asciichar']
PRIM_WIDTH = {}
for _n in PRIMS:
    if _n in ('usize', 'isize', 'nzusize', 'f64'):
        PRIM_WIDTH[_n] = 8
    elif _n == 'f32':
        PRIM_WIDTH[_n] = 4
    elif _n in ('bool', 'asciichar'):
        PRIM_WIDTH[_n] = 1
    else:
        PRIM_WIDTH[_n] = int(''.join(c for c in _n if c.isdigit())) // 8
PRIM_RUST = {'asciichar': 'ascii::AsciiChar', 'nzusize': 'core::num::NonZeroUsize'}
for _n in NZU + NZI:
    PRIM_RUST[_n] = 'core::num::NonZero' + _n[2].upper() + _n[3:]


def prim_signed(n):
    return n in SINTS or n == 'isize' or n in NZI


def P(n):
    return ('prim', n)


U8 = P('u8')
UNIT = ('unit', 'unit')
NONE_PAYLOAD = ('prod', ('variant', (), ()), ())


def opt(t):
    return ('sum', 'option', (NONE_PAYLOAD, t))


def res(a, b):
    return ('sum', 'result', (a, b))


def tup(*ts):
    return ('prod', 'tuple', tuple(ts))


def seq(k, t):
    return ('seq', k, t)


def mapk(k, a, b):
    return ('seq', k, tup(a, b))


def arr(n, t):
    return ('array', n, t)


def wrap(w, t):
    return ('wrap', w, t)


IPV4 = ('raw', 'ipv4')
IPV6 = ('raw', 'ipv6')
SOCKV4 = ('prod', 'sockv4', (IPV4, P('u16')))
SOCKV6 = ('prod', 'sockv6', (IPV6, P('u16')))
IPADDR = ('sum', 'ipaddr', (IPV4, IPV6))
SOCKADDR = ('sum', 'sockaddr', (SOCKV4, SOCKV6))

MAP_KINDS = ('btreemap', 'hashmap', 'indexmap')
SET_KINDS = ('btreeset', 'hashset', 'indexset')
ORDERED_KINDS = ('btreeset', 'hashset', 'btreemap', 'hashmap')


# ---------------------------------------------------------------- S-expression
def sexp(t):
    k = t[0]
    if k in ('prim', 'unit', 'raw', 'text'):
        return '(%s %s)' % (k, t[1])
    if k == 'seq':
        return '(seq %s %s)' % (t[1], sexp(t[2]))
    if k == 'array':
        return '(array %d %s)' % (t[1], sexp(t[2]))
    if k == 'wrap':
        return '(wrap %s %s)' % (t[1], sexp(t[2]))
    if k == 'prod':
        kind = t[1]
        if isinstance(kind, str):
            ks = kind
        elif kind[0] == 'range':
            ks = '(range %s)' % kind[1]
        elif kind[0] == 'struct':
            ks = '(struct %s (%s) (%s))' % (kind[1], ' '.join(kind[2]), ' '.join('1' if s else '0' for s in kind[3]))
        else:
            ks = '(variant (%s) (%s))' % (' '.join(kind[1]), ' '.join('1' if s else '0' for s in kind[2]))
        return '(prod %s)' % ' '.join([ks] + [sexp(x) for x in t[2]])
    if k == 'sum':
        kind = t[1]
        if isinstance(kind, str):
            ks = kind
        else:
            ks = '(enum %s (%s) (%s))' % (kind[1], ' '.join(kind[2]), ' '.join(str(x) for x in kind[3]))
        return '(sum %s)' % ' '.join([ks] + [sexp(x) for x in t[2]])
    raise ValueError(t)


# ---------------------------------------------------------------- Rust spelling
# items whose Rust path is not crate::items::<declaration>: same declaration, different modules
RUST_PATH = {('struct', 'Msg', ('a', 'b'), (False, False)): 'v1::Msg',
             ('struct', 'Msg', ('id',), (False,)): 'v2::Msg'}


def rust(t):
    k = t[0]
    if k == 'prim':
        return PRIM_RUST.get(t[1], t[1])
    if k == 'unit':
        return {'unit': '()', 'phantom': 'core::marker::PhantomData<String>', 'rangefull': 'core::ops::RangeFull'}[t[1]]
    if k == 'raw':
        return {'ipv4': 'std::net::Ipv4Addr', 'ipv6': 'std::net::Ipv6Addr', 'oid': 'bson::oid::ObjectId'}[t[1]]
    if k == 'text':
        return {'string': 'String', 'asciistring': 'ascii::AsciiString', 'bytes': 'bytes::Bytes',
                'bytesmut': 'bytes::BytesMut', 'str': 'str', 'asciistr': 'ascii::AsciiStr'}[t[1]]
    if k == 'seq':
        kind, e = t[1], t[2]
        if kind in MAP_KINDS:
            a, b = e[2]
            name = {'btreemap': 'BTreeMap', 'hashmap': 'HashMap', 'indexmap': 'indexmap::IndexMap'}[kind]
            return '%s<%s, %s>' % (name, rust(a), rust(b))
        if kind == 'slice':
            return '[%s]' % rust(e)
        name = {'vec': 'Vec', 'deque': 'VecDeque', 'list': 'LinkedList', 'btreeset': 'BTreeSet',
                'hashset': 'HashSet', 'indexset': 'indexmap::IndexSet'}[kind]
        return '%s<%s>' % (name, rust(e))
    if k == 'array':
        return '[%s; %d]' % (rust(t[2]), t[1])
    if k == 'wrap':
        w, e = t[1], t[2]
        inner = rust(e)
        if w == 'ref':
            return "&'static %s" % inner
        if w == 'cow':
            return "std::borrow::Cow<'static, %s>" % inner
        return {'box': 'Box', 'rc': 'std::rc::Rc', 'arc': 'std::sync::Arc', 'cell': 'core::cell::Cell',
                'refcell': 'core::cell::RefCell'}[w] + '<%s>' % inner
    if k == 'prod':
        kind = t[1]
        if kind == 'tuple':
            return '(%s,)' % ', '.join(rust(x) for x in t[2])
        if kind == 'sockv4':
            return 'std::net::SocketAddrV4'
        if kind == 'sockv6':
            return 'std::net::SocketAddrV6'
        if kind[0] == 'range':
            name = {'range': 'Range', 'inclusive': 'RangeInclusive', 'from': 'RangeFrom', 'to': 'RangeTo',
                    'toinclusive': 'RangeToInclusive'}[kind[1]]
            return 'core::ops::%s<%s>' % (name, rust(t[2][0]))
        if kind[0] == 'struct':
            return 'crate::items::' + RUST_PATH.get(kind, kind[1])
        raise ValueError('variant payload has no Rust type')
    if k == 'sum':
        kind = t[1]
        if kind == 'option':
            return 'Option<%s>' % rust(t[2][1])
        if kind == 'result':
            return 'Result<%s, %s>' % (rust(t[2][0]), rust(t[2][1]))
        if kind == 'ipaddr':
            return 'std::net::IpAddr'
        if kind == 'sockaddr':
            return 'std::net::SocketAddr'
        return 'crate::items::' + kind[1]
    raise ValueError(t)


# ---------------------------------------------------------------- predicates
def children(t):
    k = t[0]
    if k in ('seq', 'wrap'):
        return [t[2]]
    if k == 'array':
        return [t[2]]
    if k in ('prod', 'sum'):
        return list(t[2])
    return []


def subterms(t):
    yield t
    for c in children(t):
        yield from subterms(c)


def needs_std(t):
    """True when the type exists only in the std build of the harness."""
    for s in subterms(t):
        if s[0] == 'raw':
            return True
        if s[0] == 'text' and s[1] in ('asciistring', 'asciistr', 'bytes', 'bytesmut'):
            return True
        if s[0] == 'prim' and s[1] == 'asciichar':
            return True
        if s[0] == 'seq' and s[1] in ('indexset', 'indexmap'):
            return True
        if s[0] == 'sum' and s[1] in ('ipaddr', 'sockaddr'):
            return True
        if s[0] == 'prod' and s[1] in ('sockv4', 'sockv6'):
            return True
    return False


def is_unsized(t):
    return (t[0] == 'seq' and t[1] == 'slice') or (t[0] == 'text' and t[1] in ('str', 'asciistr'))


def can_de(t):
    """BorshDeserialize exists."""
    for s in subterms(t):
        if s[0] == 'wrap' and s[1] == 'ref':
            return False
    return True


def mem_zst(t):
    k = t[0]
    if k == 'unit':
        return True
    if k == 'array':
        return t[1] == 0 or mem_zst(t[2])
    if k == 'prod':
        if t[1] == ('range', 'inclusive'):
            return False
        return all(mem_zst(x) for x in t[2])
    if k == 'sum':
        return len(t[2]) == 1 and mem_zst(t[2][0])
    if k == 'wrap':
        return t[1] == 'cell' and mem_zst(t[2])
    return False


def is_copy(t):
    k = t[0]
    if k == 'prim':
        return True
    if k == 'unit':
        return True
    if k == 'raw':
        return True
    if k == 'array':
        return is_copy(t[2])
    if k == 'prod':
        if t[1] == 'tuple':
            return all(is_copy(x) for x in t[2])
        if t[1] in ('sockv4', 'sockv6'):
            return True
        return False
    if k == 'sum':
        if t[1] in ('option', 'result'):
            return all(is_copy(x) for x in t[2] if x != NONE_PAYLOAD)
        if t[1] in ('ipaddr', 'sockaddr'):
            return True
        return False
    if k == 'wrap' and t[1] == 'ref':
        return True
    return False


def is_clone(t):
    k = t[0]
    if k == 'wrap' and t[1] in ('ref',):
        return True
    if k == 'wrap' and is_unsized(t[2]):
        return t[2][0] == 'text' or is_clone(t[2][2])
    return all(is_clone(c) for c in children(t))


def key_ok(t):
    """Usable as element of ordered/hashed/indexed collections: Rust has Ord+Hash+Eq,
    and the Coq model's key_ok holds."""
    k = t[0]
    if k == 'prim':
        return t[1] not in ('f32', 'f64')
    if k == 'unit':
        return t[1] in ('unit', 'phantom')
    if k == 'raw':
        return True
    if k == 'text':
        return t[1] in ('string', 'asciistring')
    if k == 'seq':
        return t[1] in ('vec', 'btreeset') and key_ok(t[2])
    if k == 'array':
        return key_ok(t[2])
    if k == 'prod':
        kind = t[1]
        if kind == 'tuple':
            return len(t[2]) <= 12 and all(key_ok(x) for x in t[2])
        if kind == 'sockv4':
            return True
        if kind == 'sockv6':      # Ord/Hash/Eq see flowinfo and scope_id, the format does not (finding F22): not a key type
            return False
        if isinstance(kind, tuple) and kind[0] == 'struct':
            return not any(kind[3]) and all(key_ok(x) for x in t[2])
        if isinstance(kind, tuple) and kind[0] == 'variant':
            return not any(kind[2]) and all(key_ok(x) for x in t[2])
        return False
    if k == 'sum':
        return all(key_ok(x) for x in t[2])
    if k == 'wrap':      # Ord / Hash delegate to the contents; `str` exists only behind such a wrapper
        return t[1] in ('box', 'rc', 'arc', 'cow') and (key_ok(t[2]) or t[2] == ('text', 'str'))
    return False


def has_default(t):
    k = t[0]
    if k == 'prim':
        return not t[1].startswith('nz') and t[1] != 'asciichar'
    if k == 'unit':
        return True
    if k == 'raw':
        return False
    if k == 'text':
        return t[1] in ('string', 'bytes', 'bytesmut', 'asciistring')
    if k == 'seq':
        return t[1] != 'slice'
    if k == 'array':
        return t[1] <= 32 and has_default(t[2])
    if k == 'prod':
        if isinstance(t[1], tuple) and t[1][0] == 'struct':      # the harness items that derive Default
            return t[1][1] in DEFAULT_ITEMS and all(has_default(x) for x in t[2])
        return t[1] == 'tuple' and len(t[2]) <= 12 and all(has_default(x) for x in t[2])
    if k == 'sum':
        return t[1] == 'option'
    if k == 'wrap':
        return t[1] in ('box', 'rc', 'arc', 'cell', 'refcell', 'cow') and (has_default(t[2]) or t[2] == ('text', 'str'))
    return False


DEFAULT_ITEMS = {'SInnerD'}


def wf(t):
    """Mirror of the Coq `wf` plus Rust well-formedness (a Sized type everywhere a Sized
    type is required, trait bounds of the harness's Model impls)."""
    k = t[0]
    if is_unsized(t):
        return False  # only legal directly under a wrapper, handled below
    if k == 'seq':
        kind, e = t[1], t[2]
        if not wf(e):
            return False
        if kind in MAP_KINDS:
            if not (e[0] == 'prod' and e[1] == 'tuple' and len(e[2]) == 2):
                return False
            if not key_ok(e[2][0]):
                return False
        elif kind in SET_KINDS:
            if not key_ok(e):
                return False
        return True
    if k == 'array':
        return wf(t[2])
    if k == 'prod':
        kind = t[1]
        n = len(t[2])
        if kind == 'tuple' and not (1 <= n <= 20):
            return False
        if isinstance(kind, tuple) and kind[0] == 'range':
            if n != (2 if kind[1] in ('range', 'inclusive') else 1):
                return False
            if n == 2 and t[2][0] != t[2][1]:
                return False
            if n == 2 and not is_clone(t[2][0]):
                return False
        return all(wf(x) for x in t[2])
    if k == 'sum':
        return all(x == NONE_PAYLOAD or (x[0] == 'prod' and isinstance(x[1], tuple) and x[1][0] == 'variant' and all(wf(y) for y in x[2])) or wf(x)
                   for x in t[2])
    if k == 'wrap':
        w, e = t[1], t[2]
        if is_unsized(e):
            if w in ('cell', 'refcell'):
                return False
            if e[0] == 'seq':
                return wf(e[2]) and is_clone(e[2]) and not mem_zst(e[2])
            if e == ('text', 'asciistr'):
                return w == 'ref'
            return True
        if not wf(e):
            return False
        if w == 'cell':
            return is_copy(e)
        if w == 'cow':
            return is_clone(e)
        return True
    return True


# ---------------------------------------------------------------- random types
LEAVES = [P(n) for n in PRIMS] + [('unit', 'unit'), ('unit', 'phantom'), ('unit', 'rangefull'),
                                   IPV4, IPV6, ('raw', 'oid'),
                                   ('text', 'string'), ('text', 'asciistring'), ('text', 'bytes'), ('text', 'bytesmut'),
                                   IPADDR, SOCKADDR, SOCKV4, SOCKV6]
KEY_LEAVES = [x for x in LEAVES if key_ok(x)]


def rand_type(rng, depth, key=False):
    """A random well-formed Sized type; key=True restricts to key types."""
    for _ in range(200):
        t = _rand_type(rng, depth, key)
        if wf(t) and (not key or key_ok(t)):
            return t
    return P('u8')


def _rand_type(rng, depth, key):
    if depth <= 0 or rng.random() < 0.25:
        return rng.choice(KEY_LEAVES if key else LEAVES)
    r = rng.random()
    sub = lambda k=key: _rand_type(rng, depth - 1, k)
    if key:
        c = rng.choice(['vec', 'btreeset', 'array', 'tuple', 'option', 'result', 'box'])
    else:
        c = rng.choice(['vec', 'vec', 'deque', 'list', 'btreeset', 'hashset', 'indexset', 'btreemap', 'hashmap',
                        'indexmap', 'array', 'tuple', 'tuple', 'range', 'option', 'option', 'result', 'box', 'rc',
                        'arc', 'cow', 'cell', 'refcell', 'boxslice', 'rcslice', 'cowslice', 'boxstr'])
    if c in ('vec', 'deque', 'list'):
        return seq(c, sub())
    if c in SET_KINDS:
        return seq(c, sub(True))
    if c in MAP_KINDS:
        return mapk(c, sub(True), sub())
    if c == 'array':
        return arr(rng.choice([0, 1, 2, 3, 4, 7, 33]), sub())
    if c == 'tuple':
        n = rng.choice([1, 2, 2, 3, 3, 4, 5])
        return tup(*[sub() for _ in range(n)])
    if c == 'range':
        rk = rng.choice(['range', 'inclusive', 'from', 'to', 'toinclusive'])
        e = sub()
        return ('prod', ('range', rk), (e, e) if rk in ('range', 'inclusive') else (e,))
    if c == 'option':
        return opt(sub())
    if c == 'result':
        return res(sub(), sub())
    if c in ('box', 'rc', 'arc', 'cow', 'cell', 'refcell'):
        return wrap(c, sub())
    if c in ('boxslice', 'rcslice', 'cowslice'):
        return wrap(c[:-5], seq('slice', sub()))
    if c == 'boxstr':
        return wrap(rng.choice(['box', 'rc', 'arc', 'cow']), ('text', 'str'))
    raise ValueError(c)


def has_schema(t):
    """Mirror of the Coq `has_schema` (coq/SchemaOf.v): a BorshSchema impl exists."""
    k = t[0]
    if k in ('prim', 'unit'):
        return True
    if k == 'raw':
        return t[1] in ('ipv4', 'ipv6')
    if k == 'text':
        return t[1] in ('string', 'str', 'asciistring', 'asciistr')
    if k == 'seq':
        kind, e = t[1], t[2]
        if kind in ('indexset', 'indexmap'):
            return False
        if kind in MAP_KINDS and not (e[0] == 'prod' and e[1] == 'tuple' and len(e[2]) == 2):
            return False
        return has_schema(e)
    if k == 'array':
        return has_schema(t[2])
    if k == 'prod':
        kind = t[1]
        if kind == 'tuple':
            return 1 <= len(t[2]) <= 21 and all(has_schema(x) for x in t[2])
        if kind in ('sockv4', 'sockv6'):
            return False
        if kind[0] == 'range':
            return all(has_schema(x) for x in t[2])
        if kind[0] == 'struct':
            return (not kind[2] or len(kind[2]) == len(t[2])) and len(kind[3]) == len(t[2]) and all(has_schema(x) for x, s in zip(t[2], kind[3]) if not s)
        return False
    if k == 'sum':
        kind = t[1]
        if kind == 'option':
            return len(t[2]) == 2 and t[2][0] == NONE_PAYLOAD and has_schema(t[2][1])
        if kind == 'result':
            return len(t[2]) == 2 and all(has_schema(x) for x in t[2])
        if kind == 'ipaddr':
            return tuple(t[2]) == (IPV4, IPV6)
        if kind == 'sockaddr':
            return False
        return all(x[0] == 'prod' and isinstance(x[1], tuple) and x[1][0] == 'variant' and len(x[1][2]) == len(x[2]) and (not x[1][1] or len(x[1][1]) == len(x[2])) and
                   all(has_schema(y) for y, sk in zip(x[2], x[1][2]) if not sk) for x in t[2])
    if k == 'wrap':
        return t[1] != 'ref' and has_schema(t[2])
    return False


def wire_min(t):
    """Least number of bytes an encoding of t can have."""
    k = t[0]
    if k == 'prim':
        return PRIM_WIDTH[t[1]]
    if k == 'unit':
        return 0
    if k == 'raw':
        return {'ipv4': 4, 'ipv6': 16, 'oid': 12}[t[1]]
    if k in ('text', 'seq'):
        return 4
    if k == 'array':
        return t[1] * wire_min(t[2])
    if k == 'prod':
        kind = t[1]
        skips = ()
        if isinstance(kind, tuple) and kind[0] == 'struct':
            skips = kind[3]
        elif isinstance(kind, tuple) and kind[0] == 'variant':
            skips = kind[2]
        return sum(wire_min(x) for i, x in enumerate(t[2]) if not (i < len(skips) and skips[i]))
    if k == 'sum':
        return 1 + min(wire_min(x) for x in t[2])
    if k == 'wrap':
        return wire_min(t[2])
    raise ValueError(t)


def unbounded_on_hostile_input(t):
    """A collection whose elements take no bytes on the wire but do occupy memory (e.g.
    Vec<RefCell<()>>, Vec<RangeInclusive<()>>): check_zst lets it through, so a bare length
    prefix of 2^32-1 makes the real decoder (and the model) loop and allocate for billions of
    elements.  C07 excludes such types from its family; the checks never feed them hostile
    lengths."""
    for s in subterms(t):
        if s[0] == 'seq':
            e = s[2]
            kt = e[2][0] if s[1] in MAP_KINDS else e
            if wire_min(e) == 0 and not mem_zst(kt):
                return True
        if s[0] == 'array' and s[1] > 0 and unbounded_on_hostile_input(s[2]):
            return True
    return False
