"""Recursive derived items (harness/src/items_rec.rs, catalogue ids 200000..) and their FINITE
UNFOLDINGS into the (non-recursive) type universe of gen/tyuniv.py / coq/Ty.v.

An *open type* is a tyuniv tuple type that may contain ('ref', name) nodes.  ENV maps the name of
each recursive item to its body (an open type).  unfold(X, n) replaces every reference to an item
by that item's body unfolded with fuel n-1, and at fuel 0 by the fixed placeholder

    CUT = (wrap ref (seq vec (unit unit)))          i.e.  &Vec<()>

which is well-formed, and on which the model's encoder and decoder ALWAYS fail with
`err InvalidData Zst` (borsh refuses collections of zero-sized types).  None of the four items
contains a collection of ZSTs, so a model answer `err InvalidData Zst` at an unfolding means
exactly "the cut was reached": the case is inconclusive at that fuel, never a disagreement.

A value of nesting depth d (number of nested item levels on the deepest path; a leaf item has
depth 1) is typed at every unfolding with fuel >= d, and at none below.

Values are generated as the S-expression strings the harness parses (conventions of
gen/values.py: `(l ...)`, `(v i payload)`, numbers, `(b hex)`; Box is transparent, Option is
`(v 0 (l))` / `(v 1 x)`, a map is a list of `(l key value)`)."""
import sys

from tyuniv import *  # noqa

sys.setrecursionlimit(max(sys.getrecursionlimit(), 100000))

CUT = wrap('ref', seq('vec', UNIT))
CUT_SEXP = sexp(CUT)
CUT_ANSWER = 'err InvalidData Zst'       # what the driver prints when enc/dec reaches CUT


def R(name):
    return ('ref', name)


_STRING = ('text', 'string')
_UNITV = ('prod', ('variant', (), ()), ())

ENV = {
    # struct Tree { label: u8, children: Vec<Tree> }
    'Tree': ('prod', ('struct', 'Tree', ('label', 'children'), (False, False)), (U8, seq('vec', R('Tree')))),
    # enum List { Nil, Cons(u32, Box<List>) }
    'List': ('sum', ('enum', 'List', ('Nil', 'Cons'), (0, 1)),
             (_UNITV, ('prod', ('variant', (), (False, False)), (P('u32'), wrap('box', R('List')))))),
    # enum Json { Null, Num(i64), Arr(Vec<Json>), Obj(BTreeMap<String, Json>) }
    'Json': ('sum', ('enum', 'Json', ('Null', 'Num', 'Arr', 'Obj'), (0, 1, 2, 3)),
             (_UNITV,
              ('prod', ('variant', (), (False,)), (P('i64'),)),
              ('prod', ('variant', (), (False,)), (seq('vec', R('Json')),)),
              ('prod', ('variant', (), (False,)), (mapk('btreemap', _STRING, R('Json')),)))),
    # struct Rec(Option<Box<Rec>>);
    'Rec': ('prod', ('struct', 'Rec', (), (False,)), (opt(wrap('box', R('Rec'))),)),
}

ITEMS = ('Tree', 'List', 'Json', 'Rec')
IDS = {'Tree': 200000, 'List': 200001, 'Json': 200002, 'Rec': 200003}     # gen/catalogue.py rec_entries()
RUST = {
    'Tree': 'struct Tree { label: u8, children: Vec<Tree> }',
    'List': 'enum List { Nil, Cons(u32, Box<List>) }',
    'Json': 'enum Json { Null, Num(i64), Arr(Vec<Json>), Obj(BTreeMap<String, Json>) }',
    'Rec': 'struct Rec(Option<Box<Rec>>);',
}


# ---------------------------------------------------------------- open types
def refs(t):
    """Names referenced by an open type, with multiplicity, in order."""
    if t[0] == 'ref':
        return [t[1]]
    k = t[0]
    out = []
    if k in ('seq', 'wrap', 'array'):
        out += refs(t[2])
    elif k in ('prod', 'sum'):
        for x in t[2]:
            out += refs(x)
    return out


def is_linear(name):
    """The unfolding grows linearly with the fuel: at most one reference per body, on every
    item reachable from `name`."""
    seen, todo = set(), [name]
    while todo:
        n = todo.pop()
        if n in seen:
            continue
        seen.add(n)
        rs = refs(ENV[n])
        if len(rs) > 1:
            return False
        todo += rs
    return True


LINEAR = {n: is_linear(n) for n in ENV}

# Least number of input bytes the decoder has consumed between entering one level of the item
# and entering the next level (Tree: label + length prefix; List: tag + u32; Json: tag + length
# prefix (+ key); Rec: the option tag).  Hence a decode of n bytes never reaches level
# n // LEVEL_BYTES + 2, and fuel n + 1 is conclusive for every item.
LEVEL_BYTES = {'Tree': 5, 'List': 5, 'Json': 5, 'Rec': 1}


def subst(t, f):
    """Replace every ('ref', name) node of the open type t by f(name)."""
    k = t[0]
    if k == 'ref':
        return f(t[1])
    if k in ('seq', 'wrap', 'array'):
        return (k, t[1], subst(t[2], f))
    if k in ('prod', 'sum'):
        return (k, t[1], tuple(subst(x, f) for x in t[2]))
    return t


_UNFOLD = {}


def unfold(x, fuel):
    """x: item name or open type.  Returns a closed tyuniv type.
    unfold(name, 0) = CUT;  unfold(name, n+1) = unfold(ENV[name], n);
    unfold(open type, n) replaces every reference Y by unfold(Y, n).
    (Sub-terms are shared, so even Json's exponential unfolding is small in memory; its
    S-expression is not.)"""
    if isinstance(x, str):
        for k in range(fuel + 1):            # bottom-up: no deep Python recursion
            if (x, k) not in _UNFOLD:
                _UNFOLD[(x, k)] = CUT if k == 0 else subst(ENV[x], lambda y: unfold(y, k - 1))
        return _UNFOLD[(x, fuel)]
    return subst(x, lambda y: unfold(y, fuel))


# S-expressions of unfoldings: built from a per-item template, not from the tuple (which for a
# 2000-level List is too deep for any recursive printer).
def _template(name):
    marks = {}

    def f(y):
        marks[y] = '(prim @%s@)' % y
        return ('prim', '@%s@' % y)
    return sexp(subst(ENV[name], f)), marks


_TEMPLATES = {}
_SEXP = {}


def sexp_unfold(name, fuel):
    """sexp(unfold(name, fuel)), memoised per (name, fuel)."""
    key = (name, fuel)
    if key in _SEXP:
        return _SEXP[key]
    if name not in _TEMPLATES:
        _TEMPLATES[name] = _template(name)
    tpl, marks = _TEMPLATES[name]
    if list(marks) == [name] and tpl.count(marks[name]) == 1:
        pre, suf = tpl.split(marks[name])        # self-recursive, one reference: pre^n CUT suf^n
        s = pre * fuel + CUT_SEXP + suf * fuel
    elif fuel == 0:
        s = CUT_SEXP
    else:
        s = tpl
        for y, m in marks.items():
            s = s.replace(m, sexp_unfold(y, fuel - 1))
    _SEXP[key] = s
    return s


def sexp_size(name, fuel):
    return len(sexp_unfold(name, fuel))


# ---------------------------------------------------------------- values
# Structured form as in gen/values.py: int | ('l', [..]) | ('v', i, x).
def L(xs):
    return ('l', list(xs))


NIL = ('v', 0, L([]))


def show(v):
    """Canonical printing (same as values.show / harness val.rs / driver), iterative."""
    out = []
    stack = [v]
    while stack:
        x = stack.pop()
        if isinstance(x, str):
            out.append(x)
        elif isinstance(x, int):
            out.append(str(x))
        elif x[0] == 'v':
            out.append('(v %d ' % x[1])
            stack.append(')')
            stack.append(x[2])
        else:
            l = x[1]
            if not l:
                out.append('(l)')
            elif all(isinstance(e, int) and e < 256 for e in l):
                out.append('(b %s)' % bytes(l).hex())
            else:
                out.append('(l')
                stack.append(')')
                for e in reversed(l):
                    stack.append(e)
                    stack.append(' ')
    return ''.join(out)


def parse(s):
    """Inverse of show (iterative)."""
    toks = s.replace('(', ' ( ').replace(')', ' ) ').split()
    stack = [[]]
    for t in toks:
        if t == '(':
            stack.append([])
        elif t == ')':
            items = stack.pop()
            h = items[0]
            num = lambda x: int(x) if isinstance(x, str) else x
            if h == 'l':
                v = ('l', [num(x) for x in items[1:]])
            elif h == 'b':
                v = ('l', list(bytes.fromhex(items[1])) if len(items) > 1 else [])
            elif h == 'v':
                v = ('v', int(items[1]), num(items[2]))
            else:
                raise ValueError('value syntax: %r' % (h,))
            stack[-1].append(v)
        else:
            stack[-1].append(t)
    assert len(stack) == 1 and len(stack[0]) == 1, 'value syntax'
    x = stack[0][0]
    return int(x) if isinstance(x, str) else x


def _depth_open(t, v):
    """Deepest item level below a value v of the open type t (0: no item inside)."""
    k = t[0]
    if k == 'ref':
        return depth(t[1], v)
    if k == 'wrap':
        return _depth_open(t[2], v)
    if k in ('seq', 'array'):
        return max([_depth_open(t[2], e) for e in v[1]] + [0])
    if k == 'prod':
        return max([_depth_open(x, e) for x, e in zip(t[2], v[1])] + [0])
    if k == 'sum':
        return _depth_open(t[2][v[1]], v[2])
    return 0


def depth(name, value):
    """Nesting depth of a value (structured form or S-expression string) of item `name`:
    the least fuel at which the value is typed.  A leaf item has depth 1."""
    if isinstance(value, str):
        value = parse(value)
    # the two linear chains iteratively (a 2000-deep List must not recurse through Python)
    if name == 'List':
        d = 1
        while value[1] == 1:
            value = value[2][1][1]
            d += 1
        return d
    if name == 'Rec':
        d = 1
        while value[1][0][1] == 1:
            value = value[1][0][2]
            d += 1
        return d
    return 1 + _depth_open(ENV[name], value)


# ---------------------------------------------------------------- generation
BOUND32 = [0, 1, 0x7f, 0x80, 0xff, 0x100, 0xffff, 0x7fffffff, 0x80000000, 0xffffffff]
BOUND64 = [0, 1, 0xff, 0x7fffffffffffffff, 0x8000000000000000, 0xffffffffffffffff, 0x100000000]
KEYS = ['', 'a', 'ab', 'b', 'k', 'key', 'é', '€', 'z', '𝄞', 'a\x00', 'aa', 'B', '0']


def _u32(rng):
    return rng.choice(BOUND32) if rng.random() < 0.5 else rng.randrange(1 << 32)


def _i64(rng):
    return rng.choice(BOUND64) if rng.random() < 0.5 else rng.randrange(1 << 64)


def _key(s):
    return L(list(s.encode('utf-8')))


def _keys(rng, n):
    """n distinct keys, ascending in byte order (the order BTreeMap<String, _> iterates in)."""
    pool = set(rng.sample(KEYS, min(n, len(KEYS))))
    while len(pool) < n:
        pool.add(''.join(chr(rng.randrange(0x61, 0x7b)) for _ in range(rng.randrange(1, 6))))
    return sorted(pool, key=lambda s: s.encode('utf-8'))


def _width(rng, size):
    r = rng.random()
    if r < 0.25:
        return 0
    if r < 0.5:
        return 1
    return rng.randrange(2, max(3, size))


def _place(rng, n, shape):
    """Index, among n >= 1 siblings, of the one that carries the depth."""
    if shape == 'left':
        return 0
    if shape == 'right':
        return n - 1
    return rng.randrange(n)


def gen_tree(rng, d, size, shape='random'):
    """A Tree of depth exactly d.  shape: 'left'/'right' = the first/last child carries the
    depth; 'spine' = a single chain; 'full' = every child has full depth (small size only)."""
    label = rng.randrange(256)
    if d <= 1:
        return L([label, L([])])
    if shape == 'spine':
        return L([label, L([gen_tree(rng, d - 1, size, shape)])])
    if shape == 'full':
        return L([label, L([gen_tree(rng, d - 1, size, shape) for _ in range(2)])])
    n = max(1, _width(rng, size))
    deep = _place(rng, n, shape)
    sub = max(1, size - 1)
    kids = []
    for i in range(n):
        if i == deep:
            kids.append(gen_tree(rng, d - 1, sub, shape))
        else:
            kids.append(gen_tree(rng, rng.randrange(1, d), max(1, sub - 1), 'random' if shape != 'spine' else shape))
    return L([label, L(kids)])


def gen_list(rng, d, size=0, shape='random'):
    """A List of depth exactly d (d - 1 Cons cells), built iteratively."""
    v = NIL
    for _ in range(d - 1):
        v = ('v', 1, L([_u32(rng), v]))
    return v


def gen_rec(rng, d, size=0, shape='random'):
    v = L([NIL])
    for _ in range(d - 1):
        v = L([('v', 1, v)])
    return v


def gen_json(rng, d, size, shape='random', _lvl=0):
    """A Json of depth exactly d.  shape: 'left'/'right' (deep element first/last), 'arr', 'obj'
    (nest through one container only), 'alt' (alternately Arr and Obj), 'random'."""
    if d <= 1:
        c = rng.randrange(4)
        if c == 0:
            return NIL
        if c == 1:
            return ('v', 1, L([_i64(rng)]))
        if c == 2:
            return ('v', 2, L([L([])]))
        return ('v', 3, L([L([])]))
    if shape == 'arr':
        use_arr = True
    elif shape == 'obj':
        use_arr = False
    elif shape == 'alt':
        use_arr = _lvl % 2 == 0
    else:
        use_arr = rng.random() < 0.5
    n = 1 if shape in ('arr', 'obj', 'alt') and rng.random() < 0.5 else max(1, _width(rng, size))
    deep = _place(rng, n, shape)
    sub = max(1, size - 1)
    elems = []
    for i in range(n):
        if i == deep:
            elems.append(gen_json(rng, d - 1, sub, shape, _lvl + 1))
        else:
            elems.append(gen_json(rng, rng.randrange(1, d), max(1, sub - 1), 'random', _lvl + 1))
    if use_arr:
        return ('v', 2, L([L(elems)]))
    return ('v', 3, L([L([L([_key(k), e]) for k, e in zip(_keys(rng, n), elems)])]))


GEN = {'Tree': gen_tree, 'List': gen_list, 'Json': gen_json, 'Rec': gen_rec}
SHAPES = {'Tree': ['random', 'left', 'right', 'spine', 'full'],
          'List': ['random'],
          'Json': ['random', 'left', 'right', 'arr', 'obj', 'alt'],
          'Rec': ['random']}


def gen_value(name, rng, depth, size=4, shape='random'):
    """S-expression string of a value of item `name` with nesting depth exactly `depth`
    (map keys distinct and ascending, so the harness reports the same representation)."""
    if name == 'Tree' and shape == 'full' and depth > 7:
        shape = 'left'
    return show(GEN[name](rng, depth, size, shape))


if __name__ == '__main__':
    import random
    rng = random.Random(1)
    for n in ITEMS:
        print(n, LINEAR[n], [sexp_size(n, k) for k in (0, 1, 2, 5, 8)])
        assert all(sexp_unfold(n, k) == sexp(unfold(n, k)) for k in range(6))
        assert all(wf(unfold(n, k)) for k in range(6))
        for d in (1, 2, 3, 6):
            for sh in SHAPES[n]:
                s = gen_value(n, rng, d, 4, sh)
                assert depth(n, s) == d, (n, d, sh, s)
                assert show(parse(s)) == s
        print(' ', sexp_unfold(n, 1))
        print(' ', gen_value(n, rng, 3, 4))
    s = gen_value('List', rng, 2000)
    assert depth('List', s) == 2000
    print('ok')
