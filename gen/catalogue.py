"""The fixed catalogue of concrete Rust types the harness is compiled with.
Deterministic: hand-picked coverage list + seeded random types.  Emits harness/src/catalogue.rs."""
import random
import sys
import os
sys.path.insert(0, os.path.dirname(__file__))
from tyuniv import *  # noqa

CATALOGUE_SEED = 20260930
N_RANDOM = 170


def handpicked():
    ts = []
    ts += [P(n) for n in PRIMS]
    ts += [('unit', 'unit'), ('unit', 'phantom'), ('unit', 'rangefull')]
    ts += [IPV4, IPV6, ('raw', 'oid'), IPADDR, SOCKV4, SOCKV6, SOCKADDR]
    ts += [('text', k) for k in ('string', 'asciistring', 'bytes', 'bytesmut')]
    ts += [wrap(w, ('text', 'str')) for w in ('ref', 'box', 'rc', 'arc', 'cow')]
    ts += [wrap('ref', ('text', 'asciistr'))]
    for k in ('vec', 'deque', 'list'):
        ts += [seq(k, U8), seq(k, P('u32')), seq(k, ('text', 'string')), seq(k, opt(P('i16')))]
    for k in SET_KINDS:
        ts += [seq(k, U8), seq(k, P('i32')), seq(k, ('text', 'string')), seq(k, tup(P('i8'), P('bool')))]
    for k in MAP_KINDS:
        ts += [mapk(k, U8, U8), mapk(k, P('i64'), ('text', 'string')), mapk(k, ('text', 'string'), seq('vec', P('u16'))),
               mapk(k, opt(P('i8')), P('f32'))]
    for w in ('ref', 'box', 'rc', 'arc', 'cow'):
        ts += [wrap(w, seq('slice', U8)), wrap(w, seq('slice', P('u16')))]
    ts += [arr(0, U8), arr(1, U8), arr(5, U8), arr(33, U8), arr(0, P('u32')), arr(3, P('u32')), arr(2, ('text', 'string')),
           arr(4, opt(U8)), arr(2, arr(3, U8)), arr(3, UNIT), arr(0, ('text', 'string'))]
    prims_cycle = [P(n) for n in PRIMS if n != 'asciichar']
    for n in range(1, 21):
        ts.append(tup(*[prims_cycle[(i * 7 + n) % len(prims_cycle)] for i in range(n)]))
    ts += [tup(('text', 'string'), seq('vec', U8), opt(P('bool'))), tup(UNIT, U8), tup(UNIT, UNIT)]
    for rk in ('range', 'inclusive', 'from', 'to', 'toinclusive'):
        for e in (P('u32'), ('text', 'string'), P('i8')):
            ts.append(('prod', ('range', rk), (e, e) if rk in ('range', 'inclusive') else (e,)))
    ts += [opt(U8), opt(opt(U8)), opt(('text', 'string')), opt(UNIT), opt(seq('vec', U8)), opt(P('f64')),
           res(U8, ('text', 'string')), res(UNIT, UNIT), res(opt(P('u16')), res(P('i8'), P('bool'))), res(seq('vec', U8), P('u64'))]
    for w in ('ref', 'box', 'rc', 'arc', 'cow', 'cell', 'refcell'):
        ts += [wrap(w, P('u32')), wrap(w, tup(U8, P('i16')))]
    for w in ('ref', 'box', 'rc', 'arc', 'cow', 'refcell'):
        ts += [wrap(w, seq('vec', U8)), wrap(w, ('text', 'string'))]
    # zero-sized element collections (must be refused) and the usable neighbours
    zsts = [UNIT, ('unit', 'phantom'), ('unit', 'rangefull'), arr(0, U8), arr(3, UNIT), tup(UNIT, UNIT), tup(arr(0, U8), arr(0, U8)),
            arr(0, ('text', 'string')), wrap('cell', UNIT)]
    for z in zsts:
        ts.append(seq('vec', z))
    for k in ('deque', 'list'):
        ts += [seq(k, UNIT), seq(k, arr(0, P('u16')))]
    for k in SET_KINDS:
        ts += [seq(k, UNIT), seq(k, tup(UNIT, UNIT))]
    for k in MAP_KINDS:
        ts += [mapk(k, UNIT, U8), mapk(k, U8, UNIT), mapk(k, UNIT, UNIT)]
    ts += [seq('vec', seq('vec', UNIT)), opt(seq('vec', UNIT)), seq('vec', opt(UNIT)), seq('vec', wrap('refcell', UNIT)),
           seq('vec', ('prod', ('range', 'inclusive'), (UNIT, UNIT))), seq('vec', ('prod', ('range', 'range'), (UNIT, UNIT)))]
    # nesting
    ts += [seq('vec', seq('vec', U8)), seq('vec', seq('vec', P('u32'))), seq('hashset', seq('vec', U8)),
           mapk('hashmap', ('text', 'string'), seq('vec', opt(tup(U8, P('f32'))))),
           seq('btreeset', seq('btreeset', P('i8'))), mapk('btreemap', tup(P('i8'), ('text', 'string')), mapk('hashmap', P('u16'), P('bool'))),
           seq('deque', seq('deque', U8)), seq('list', wrap('box', seq('slice', U8))), opt(wrap('box', seq('vec', opt(P('u64'))))),
           seq('hashset', opt(P('i16'))), seq('btreeset', res(P('i8'), P('u8'))), seq('hashset', IPADDR), seq('btreeset', IPV4),
           seq('hashset', arr(2, P('i8'))), seq('indexset', tup(('text', 'string'), P('u8')))]
    return ts


# ---------------------------------------------------------------- hand-written derived items
# (harness/src/items.rs); appended AFTER the random types so that no earlier id shifts
def derived_items():
    u8, u16, u32, i8, i16 = P('u8'), P('u16'), P('u32'), P('i8'), P('i16')
    string = ('text', 'string')
    unitv = ('prod', ('variant', (), ()), ())
    snamed = ('prod', ('struct', 'SNamed', ('a', 'b', 'c'), (False, True, False)), (u8, u32, string))
    stuple = ('prod', ('struct', 'STuple', (), (False, True, False)), (u16, seq('vec', u8), P('bool')))
    sunit = ('prod', ('struct', 'SUnit', (), ()), ())
    eplain = ('sum', ('enum', 'EPlain', ('A', 'B', 'C'), (0, 1, 2)),
              (unitv, ('prod', ('variant', (), (False, False)), (u8, string)),
               ('prod', ('variant', ('x', 'y'), (False, True)), (i16, u8))))
    edisc = ('sum', ('enum', 'EDisc', ('X', 'Y', 'Z', 'W'), (5, 6, 8, 9)), (unitv, unitv, unitv, unitv))
    kstruct = ('prod', ('struct', 'KStruct', ('a', 'b'), (False, False)), (i8, string))
    kenum = ('sum', ('enum', 'KEnum', ('P', 'Q', 'R'), (0, 1, 2)),
             (unitv, ('prod', ('variant', (), (False,)), (u8,)), ('prod', ('variant', ('n',), (False,)), (i16,))))
    snest = ('prod', ('struct', 'SNest', ('head', 'items', 'tag', 'pair'), (False, False, False, False)),
             (eplain, seq('vec', snamed), opt(edisc), tup(stuple, sunit)))
    ts = [snamed, stuple, sunit, eplain, edisc, kstruct, kenum, snest,
          seq('vec', snamed), opt(eplain), arr(2, stuple), seq('deque', eplain), res(edisc, kstruct),
          seq('btreeset', kstruct), mapk('hashmap', kstruct, snamed), seq('hashset', kenum), mapk('btreemap', kenum, seq('vec', edisc)),
          seq('hashset', edisc), seq('vec', sunit), wrap('box', snest), tup(eplain, edisc, kenum)]
    # same declaration "Msg", different definitions (crate::items::v1::Msg / v2::Msg); appended last
    # so that earlier catalogue ids do not move
    ts += [('prod', ('struct', 'Msg', ('a', 'b'), (False, False)), (u32, u32)),
           ('prod', ('struct', 'Msg', ('id',), (False,)), (P('u64'),))]
    return ts


def late_additions():
    """appended after everything else so that earlier ids do not move.
    Collections whose ELEMENT is larger than 4096 bytes in memory (and exactly 4096): `hint::cautious`
    computes 4096 / size_of::<T>() = 0 there and clamps the capacity to 1 - the only types on which that
    clamp is observable."""
    u8, u64 = P('u8'), P('u64')
    big = [seq('vec', arr(4097, u8)), seq('vec', arr(4096, u8)), seq('deque', arr(513, u64)),
           seq('list', arr(4097, u8)), mapk('btreemap', u8, arr(5000, u8)), seq('hashset', arr(4100, u8))]
    # keys behind Rc / Arc / Cow / Box<str> (key_ok of the model covers them since they order and hash like their contents)
    st = ('text', 'str')
    keys = [mapk('btreemap', wrap('rc', st), u8), seq('hashset', wrap('arc', P('u32'))), seq('btreeset', wrap('box', st)),
            mapk('hashmap', wrap('cow', st), P('u16')), seq('btreeset', wrap('rc', seq('vec', P('i16')))),
            mapk('hashmap', wrap('arc', tup(P('i8'), ('text', 'string'))), seq('vec', u8))]
    # a single-variant unit enum without `repr`: zero-sized in memory, one tag byte on the wire
    u0 = ('sum', ('enum', 'U0', ('A',), (0,)), (('prod', ('variant', (), ()), ()),))
    single = [u0, seq('vec', u0), opt(u0), arr(3, u0), seq('btreeset', u0), tup(u0, u8)]
    # key enums and the order `derive(Ord)` gives them: by DISCRIMINANT VALUE, not by position in the declaration.
    # KDesc { A = 5, B = 1, C = 3 } with use_discriminant = true (tags = discriminants, B < C < A): a model that
    # orders by ordinal rejects the representation a BTreeSet<KDesc> really has and answers MKeyOrder for the bytes
    # the strict decoder accepts.  KAsc { A = 2, B = 7, C = 9 } with use_discriminant = false (tags = ordinals).
    unitv = ('prod', ('variant', (), ()), ())
    kdesc = ('sum', ('enum', 'KDesc', ('A', 'B', 'C'), (5, 1, 3)), (unitv, unitv, unitv))
    kasc = ('sum', ('enum', 'KAsc', ('A', 'B', 'C'), (0, 1, 2)), (unitv, unitv, unitv))
    order = [kdesc, seq('btreeset', kdesc), seq('hashset', kdesc), mapk('btreemap', kdesc, u8),
             mapk('hashmap', kdesc, ('text', 'string')), seq('vec', kdesc), seq('btreeset', tup(kdesc, u8)),
             kasc, seq('btreeset', kasc), mapk('hashmap', kasc, u8)]
    # a skipped field of a derived struct type (has_default of the model covers #[derive(Default)] structs), of Cow<str>
    sinner = ('prod', ('struct', 'SInnerD', ('x', 'y'), (False, False)), (P('u32'), ('text', 'string')))
    souter = ('prod', ('struct', 'SOuter', ('a', 'b', 'c', 'd'), (False, True, False, True)),
              (u8, sinner, seq('vec', u8), wrap('cow', ('text', 'str'))))
    skipped = [souter, seq('vec', souter), mapk('btreemap', u8, souter), opt(souter)]
    return big + keys + single + skipped + order


def grid():
    """Every keyed collection over EVERY primitive key type, and every container over every one-byte element type.
    The crate specialises on the element type (the hidden `u8_slice` / `vec_from_reader` / `array_from_reader` hooks);
    a hook granted to one more element type, or consulted by one more container, changes the bytes of exactly one
    (container, element) pair - `HashSet<i8>` sorted as bytes, say - so the pairs are enumerated rather than sampled."""
    out = []
    keys = [P(n) for n in PRIMS if key_ok(P(n))]
    for k in ('hashset', 'btreeset'):
        out += [seq(k, e) for e in keys]
    for k in ('hashmap', 'btreemap'):
        out += [mapk(k, e, P('u8')) for e in keys]
    unitv = ('prod', ('variant', (), ()), ())
    kasc = ('sum', ('enum', 'KAsc', ('A', 'B', 'C'), (0, 1, 2)), (unitv, unitv, unitv))
    one_byte = [P('u8'), P('i8'), P('bool'), P('nzu8'), P('nzi8'), P('asciichar'), kasc]
    for e in one_byte:
        out += [seq('vec', e), seq('deque', e), seq('list', e), arr(3, e), arr(33, e), opt(e), wrap('box', seq('slice', e)),
                wrap('cow', seq('slice', e)), seq('vec', seq('vec', e)), seq('vec', arr(2, e))]
        if key_ok(e):
            out += [seq('indexset', e), mapk('indexmap', e, P('u8'))]
    # the slice path (Vec, the two halves of a VecDeque, arrays) over every primitive: a bulk-copy specialisation for
    # integer slices would touch exactly these
    for n in PRIMS:
        out += [seq('vec', P(n)), seq('deque', P(n)), arr(3, P(n))]
    # values of one-byte types next to the keys of the maps above
    for e in (P('i8'), P('bool'), P('nzi8')):
        out += [mapk('hashmap', P('u8'), e), mapk('btreemap', P('i8'), e)]
    return out


def catalogue_types():
    rng = random.Random(CATALOGUE_SEED)
    out = []
    seen = set()
    for t in handpicked():
        assert wf(t), t
        if t not in seen:
            seen.add(t)
            out.append(t)
    tries = 0
    while len(out) < len(seen) + 0 and False:
        pass
    n0 = len(out)
    while len(out) < n0 + N_RANDOM and tries < 100000:
        tries += 1
        t = rand_type(rng, rng.choice([1, 2, 2, 3, 3]))
        if t in seen or not wf(t):
            continue
        if len(sexp(t)) > 400:
            continue
        seen.add(t)
        out.append(t)
    for t in derived_items() + late_additions():
        assert wf(t), t
        assert t not in seen
        seen.add(t)
        out.append(t)
    for t in grid():
        assert wf(t), t
        if t not in seen:
            seen.add(t)
            out.append(t)
    return list(enumerate(out))


# ---------------------------------------------------------------- C03: history entries
# A SEPARATE list with its own id range: the ids of catalogue_types() do not shift, and no
# other check sees these entries.  Each is compiled with the typed ops of
# harness/src/ops_canon.rs (histreps / dequereps) for a HashSet<T, S> / HashMap<K, V, S>
# with the default hasher and three seeds of a custom BuildHasher, or a VecDeque<T>.
CANON_BASE = 100000


def canon_entries():
    """[(id, type, constructor)] -- constructor is the Rust expression building the Entry."""
    string = ('text', 'string')
    sets = [P('u32'), U8, string, tup(P('i8'), P('bool')), seq('vec', U8), opt(P('i16')), P('i64'), arr(2, P('i8')),
            P('i8'), P('nzi8'), P('bool'), P('i16'), P('u16')]    # one-byte elements: the types the crate's hooks specialise on
    maps = [(U8, U8), (P('i64'), string), (string, seq('vec', P('u16'))), (opt(P('i8')), P('f32')),
            (tup(P('u16'), string), opt(tup(U8, P('f32')))), (P('u32'), seq('hashset', P('i16'))),
            (P('i8'), U8), (P('bool'), P('i8')), (P('nzi8'), P('nzi8'))]
    deques = [U8, P('u32'), string, opt(P('i16')), tup(U8, seq('vec', U8)), seq('deque', U8)]
    out = []
    i = CANON_BASE
    for e in sets:
        out.append((i, seq('hashset', e), 'crate::ops_canon::hashset_entry::<%s>' % rust(e)))
        i += 1
    for (a, b) in maps:
        out.append((i, mapk('hashmap', a, b), 'crate::ops_canon::hashmap_entry::<%s, %s>' % (rust(a), rust(b))))
        i += 1
    for e in deques:
        out.append((i, seq('deque', e), 'crate::ops_canon::deque_entry::<%s>' % rust(e)))
        i += 1
    for (_, t, _) in out:
        assert wf(t) and not needs_std(t), t
    return out


# ---------------------------------------------------------------- recursive derived items
# (harness/src/items_rec.rs).  A THIRD id range: `ty` has no recursive types, so these entries
# have no catalogue type at all -- lib/reccorr.py types their values at finite unfoldings
# (gen/rectypes.py) and names the Rust type by these ids only.  catalogue_types() and
# canon_entries() are unchanged; no other check sees these entries.
REC_BASE = 200000
REC_ITEMS = ('Tree', 'List', 'Json', 'Rec')


def rec_entries():
    """[(id, item name)]"""
    return [(REC_BASE + i, n) for i, n in enumerate(REC_ITEMS)]


def emit_rs(path):
    cat = catalogue_types()
    lines = ['// GENERATED by gen/catalogue.py -- do not edit.',
             '#![allow(unused_imports)]',
             'use crate::ops::*;',
             'use std::collections::{BTreeMap, BTreeSet, LinkedList, VecDeque};',
             '#[cfg(feature = "cfg_std")]',
             'use std::collections::{HashMap, HashSet};',
             '#[cfg(feature = "cfg_nostd")]',
             'use hashbrown::{HashMap, HashSet};',
             'pub fn catalogue() -> Vec<Entry> {',
             '    let mut v: Vec<Entry> = Vec::new();']
    for (i, t) in cat:
        r = rust(t)
        fn = 'full' if can_de(t) else 'ser_only'
        guard = '    #[cfg(feature = "cfg_std")]\n' if needs_std(t) else ''
        lines.append('%s    v.push(%s::<%s>(%d, %s));' % (guard, fn, r, i, '"' + r.replace('"', '') + '"'))
    for (i, t, ctor) in canon_entries():
        lines.append('    v.push(%s(%d, "%s"));' % (ctor, i, rust(t)))
    for (i, name) in rec_entries():
        lines.append('    v.push(full::<crate::items_rec::%s>(%d, "%s"));' % (name, i, name))
    lines += ['    v', '}',
              '// second registration list: types with a BorshSchema impl (tyuniv.has_schema); same ids',
              'pub fn schema_catalogue() -> Vec<(u32, RunFn)> {',
              '    let mut v: Vec<(u32, RunFn)> = Vec::new();']
    for (i, t) in cat:
        if has_schema(t) and can_de(t):
            guard = '    #[cfg(feature = "cfg_std")]\n' if needs_std(t) else ''
            lines.append('%s    v.push(sch::<%s>(%d));' % (guard, rust(t), i))
    for (i, name) in rec_entries():
        lines.append('    v.push(sch::<crate::items_rec::%s>(%d));' % (name, i))
    lines += ['    v', '}', '']
    src = '\n'.join(lines)
    old = open(path).read() if os.path.exists(path) else None
    if old != src:
        with open(path, 'w') as f:
            f.write(src)
    return cat


if __name__ == '__main__':
    cat = emit_rs(sys.argv[1] if len(sys.argv) > 1 else '/verif/harness/src/catalogue.rs')
    print(len(cat), 'types')
