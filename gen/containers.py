"""Generator of schema containers for C09/C10.  Everything derives from one integer seed.

Groups (the prefix of the case id names the group):
  x1_  every 1-declaration container over the small alphabet, roots A and (dangling) M
  x2_  every 2-declaration container {A, B} with root A in which A mentions B
       (symmetry reduction: when A does not mention B the container behaves like a
       1-declaration one; those, and other roots, are in the s2_ sample)
  s2_  seeded stride sample of the full 2-declaration product x roots {A, B, M}
  x3_  seeded stride sample of the lazily enumerated 3-declaration product (396^3),
       with a dangling or non-first root and a duplicate key now and then
  z3_  the 3-declaration family "A = dynamic sequence of B, B mentions C, C anything" (4 x 120 x 396
       containers; exercises is_zero_size through two levels and repeated members): a seeded stride
       sample in quick, all of it in thorough
  b_   boundary family: one sequence over every length width 0..9/255 x boundary lengths
       (2^8, 2^16, 2^32, 2^56, 2^63, 2^64-1 and neighbours) x lo in {0, 1, hi} x element
       {1 byte, 0 bytes, undefined}; enum tag widths 0..10/255; totals within +-1 of usize::MAX
  h_   a few hand-written containers (witnesses of the known findings, boundary sums)
  r_   seeded random graphs with 4..12 declarations, boundary numbers, odd names

Structured form of a container (see lib/schema_oracle.py):
  {'root': str, 'defs': [(name, DEF)...]}
API: gen_structured(seed, tier) -> [(cid, container-dict)], gen_containers(seed, tier) -> [(cid, sexp)].
"""
import math
import os
import random
import sys

sys.path.insert(0, (os.environ.get('VERIF_ROOT') or os.path.dirname(os.path.dirname(os.path.abspath(__file__)))) + '/lib')
from schema_oracle import container_sexp  # noqa

U32M = (1 << 32) - 1
U64M = (1 << 64) - 1

PRIMS = [0, 1, 255]
LWS = [0, 1, 2, 3, 4, 8, 9]
RANGES = [(0, 0), (0, 1), (3, 3), (0, 255), (0, U32M), (0, U64M), (5, 3), (3, 0)]
TWS = [0, 1, 4, 8, 9]
DANGLING = 'M'


def name_lists(pool):
    """All lists of 0..2 names (a name may repeat)."""
    out = [[]]
    out += [[x] for x in pool]
    out += [[x, y] for x in pool for y in pool]
    return out


def alphabet(pool):
    """The small alphabet of definitions over a pool of referable names, in a fixed order.
    Size 3 + 56p + 8(1 + p + p^2) + 1 for p = len(pool)."""
    out = [('p', s) for s in PRIMS]
    for lw in LWS:
        for lo, hi in RANGES:
            for el in pool:
                out.append(('s', lw, lo, hi, el))
    nl = name_lists(pool)
    for l in nl:
        out.append(('t', list(l)))
    for tw in TWS:
        for l in nl:
            out.append(('e', tw, [((-1 if i else 0), 'V%d' % i, x) for i, x in enumerate(l)]))
    for l in nl:
        out.append(('sn', [('f%d' % i, x) for i, x in enumerate(l)]))
    for l in nl:
        out.append(('su', list(l)))
    out.append(('se',))
    return out


def mentions(d, name):
    k = d[0]
    if k == 's':
        return d[4] == name
    if k in ('t', 'su'):
        return name in d[1]
    if k == 'e':
        return any(v[2] == name for v in d[2])
    if k == 'sn':
        return any(f[1] == name for f in d[1])
    return False


def stride_indices(N, n, rng):
    """n indices of range(N), evenly spread: offset + k*stride mod N with stride coprime to N."""
    if n >= N:
        return list(range(N))
    stride = max(1, N // n) | 1
    stride += 2 * rng.randrange(0, 50)
    while math.gcd(stride, N) != 1:
        stride += 2
    off = rng.randrange(N)
    return [(off + k * stride) % N for k in range(n)]


def exhaustive1():
    out = []
    al = alphabet(['A', DANGLING])
    for root in ('A', DANGLING):
        for i, d in enumerate(al):
            out.append(('x1_%s%d' % (root, i), {'root': root, 'defs': [('A', d)]}))
    return out


def exhaustive2():
    out = []
    al = alphabet(['A', 'B', DANGLING])
    for i, da in enumerate(al):
        if not mentions(da, 'B'):
            continue
        for j, db in enumerate(al):
            out.append(('x2_%d_%d' % (i, j), {'root': 'A', 'defs': [('A', da), ('B', db)]}))
    return out


def sample2(n, rng):
    al = alphabet(['A', 'B', DANGLING])
    L = len(al)
    out = []
    for idx in stride_indices(L * L * 3, n, rng):
        r, rest = idx % 3, idx // 3
        j, i = rest % L, rest // L
        out.append(('s2_%d' % idx, {'root': ('A', 'B', DANGLING)[r], 'defs': [('A', al[i]), ('B', al[j])]}))
    return out


def sample3(n, rng):
    al = alphabet(['A', 'B', 'C', DANGLING])
    L = len(al)
    out = []
    for idx in stride_indices(L * L * L, n, rng):
        k, rest = idx % L, idx // L
        j, i = rest % L, rest // L
        root = 'A'
        if idx % 16 == 0:
            root = DANGLING
        elif idx % 16 == 1:
            root = 'B'
        elif idx % 16 == 2:
            root = 'C'
        third = 'C'
        if idx % 23 == 0:
            third = 'A'       # duplicate key: the first ('A', ...) wins on both sides
        elif idx % 23 == 1:
            third = 'B'
        out.append(('x3_%d' % idx, {'root': root, 'defs': [('A', al[i]), ('B', al[j]), (third, al[k])]}))
    return out


def family_z3(n, rng):
    """A = non-array sequence of B; B mentions C; C ranges over the whole alphabet."""
    pool = ['A', 'B', 'C', DANGLING]
    al = alphabet(pool)
    a_defs = [('s', lw, lo, hi, 'B') for lw in (0, 4) for lo, hi in ((0, 1), (0, U32M))]
    b_defs = [d for d in al if mentions(d, 'C')]
    N = len(a_defs) * len(b_defs) * len(al)
    out = []
    for idx in (range(N) if n is None else stride_indices(N, n, rng)):
        k, rest = idx % len(al), idx // len(al)
        j, i = rest % len(b_defs), rest // len(b_defs)
        out.append(('z3_%d' % idx, {'root': 'A', 'defs': [('A', a_defs[i]), ('B', b_defs[j]), ('C', al[k])]}))
    return out


def boundary():
    out = []
    els = [('p', 1), ('p', 0), None]
    n = 0
    for lw in list(range(0, 10)) + [255]:
        for hi in NUMS:
            for lo in sorted(set([0, 1, hi])):
                for el in els:
                    defs = [('A', ('s', lw, lo, hi, 'B'))] + ([('B', el)] if el else [])
                    out.append(('b_s%d' % n, {'root': 'A', 'defs': defs}))
                    n += 1
    for tw in list(range(0, 11)) + [255]:
        for vs in ([], ['B'], ['B', 'C'], ['C', 'C']):
            d = ('e', tw, [(i, 'V%d' % i, x) for i, x in enumerate(vs)])
            out.append(('b_e%d_%d' % (tw, len(out)), {'root': 'A', 'defs': [('A', d), ('B', ('p', 2)), ('C', ('p', 0))]}))
    # totals around usize::MAX: hi * s + lw and sums of two halves
    n = 0
    for s_ in (1, 2, 255):
        for lw in (0, 1, 8):
            q = (U64M - lw) // s_
            for hi in (q - 1, q, q + 1):
                if hi <= U64M:
                    out.append(('b_o%d' % n, {'root': 'A', 'defs': [('A', ('s', lw, hi, hi, 'B')), ('B', ('p', s_))]}))
                    out.append(('b_o%dw' % n, {'root': 'R', 'defs': [('R', ('e', 1, [(0, 'X', 'A'), (1, 'Y', 'B')])),
                                                                     ('A', ('s', lw, 0, hi, 'B')), ('B', ('p', s_))]}))
                    n += 1
    return out


def hand():
    u8 = ('u8', ('p', 1))
    unit = ('()', ('p', 0))
    cs = [
        # F1: [Option<u8>; 10]
        {'root': '[Option<u8>; 10]', 'defs': [unit, ('Option<u8>', ('e', 1, [(0, 'None', '()'), (1, 'Some', 'u8')])),
                                              ('[Option<u8>; 10]', ('s', 0, 10, 10, 'Option<u8>')), u8]},
        # F2: Vec<([u8; 0], [u8; 0])>
        {'root': 'V', 'defs': [('P', ('t', ['Z', 'Z'])), ('V', ('s', 4, 0, U32M, 'P')), ('Z', ('s', 0, 0, 0, 'u8')), u8]},
        # F3: untagged 0..=u64::MAX
        {'root': 'X', 'defs': [('X', ('s', 0, 0, U64M, 'u8')), u8]},
        # exactly usize::MAX and one more
        {'root': 'X', 'defs': [('X', ('t', ['Y', 'Y'])), ('Y', ('s', 0, 0, (1 << 63) - 1, 'u8')), u8]},
        {'root': 'X', 'defs': [('X', ('t', ['Y', 'Y', 'u8'])), ('Y', ('s', 0, 0, (1 << 63) - 1, 'u8')), u8]},
        {'root': 'X', 'defs': [('X', ('t', ['Y', 'Y', 'u8', 'u8'])), ('Y', ('s', 0, 0, (1 << 63) - 1, 'u8')), u8]},
        {'root': 'X', 'defs': [('X', ('s', 0, U32M + 2, U32M + 2, 'Y')), ('Y', ('s', 0, U32M, U32M, 'u8')), u8]},
        {'root': 'X', 'defs': [('X', ('s', 1, U32M + 2, U32M + 2, 'Y')), ('Y', ('s', 0, U32M, U32M, 'u8')), u8]},
        # the empty name as a declaration, a field and a variant name
        {'root': '', 'defs': [('', ('sn', [('', ' ')])), (' ', ('e', 1, [(-9223372036854775808, '', '()')])), unit]},
        # recursion with an exit through a sequence / none at all
        {'root': 'R', 'defs': [('R', ('su', ['Vec<R>'])), ('Vec<R>', ('s', 4, 0, U32M, 'R'))]},
        {'root': 'R', 'defs': [('R', ('su', ['R']))]},
        # a cycle behind a sequence that can only be empty
        {'root': 'A', 'defs': [('A', ('t', ['S', 'u8'])), ('S', ('s', 2, 0, 0, 'A')), u8]},
        # F25: a cycle through untagged definitions - every value of X is empty (A, B(A), B(B(A)), ..): a dynamically
        # sized sequence of X, and X itself as the root; likewise a fixed-length untagged sequence of itself
        {'root': 'S', 'defs': [('S', ('s', 4, 0, 10, 'X')), ('X', ('e', 0, [(0, 'A', 'U'), (1, 'B', 'X')])), ('U', ('t', []))]},
        {'root': 'X', 'defs': [('X', ('e', 0, [(0, 'A', 'U'), (1, 'B', 'X')])), ('U', ('t', []))]},
        {'root': 'S', 'defs': [('S', ('s', 1, 0, 7, 'Y')), ('Y', ('s', 0, 0, 3, 'Y'))]},
        # huge zero-sized nested arrays
        {'root': 'A', 'defs': [('A', ('s', 0, U64M, U64M, 'B')), ('B', ('s', 0, U64M, U64M, '()')), unit]},
    ]
    return [('h_%d' % i, c) for i, c in enumerate(cs)]


NAME_POOL = ['A', 'B', 'C', 'D', 'E', 'F', 'G', 'H', 'I', 'J', 'K', 'L', '', ' ', 'a b', '(x)', ')(', 'x41',
             'Vec<u8>', '(u8, u16)', '[u8; 0]', 'é', '日本', '\U0001f980', 'a\tb', 'l\nm', 'a;;b', 'p|q', '"q"', '\\']
NUMS = [0, 1, 2, 3, 5, 10, 254, 255, 256, 257, 65535, 65536, 65537, (1 << 31), U32M - 1, U32M, U32M + 1, U32M + 2,
        (1 << 33), (1 << 48), (1 << 56) - 1, (1 << 56), (1 << 63) - 1, (1 << 63), U64M - 1, U64M]
GOOD_SEQ = [(4, 0, U32M), (1, 0, 255), (2, 0, 65535), (8, 0, U64M), (4, 1, 100), (0, 1, 5), (0, 4, 4), (0, 32, 32),
            (0, 0, 0), (1, 0, 0), (2, 3, 200), (0, 20, 65536), (8, 0, 3)]


def random_def(rng, refs, tidy):
    """refs: callable returning a referable name."""
    k = rng.random()
    if k < 0.22:
        return ('p', rng.choice([0, 0, 1, 1, 2, 4, 8, 16, 32, 128, 255, rng.randrange(256)]))
    if k < 0.52:
        if tidy and rng.random() < 0.75:
            lw, lo, hi = rng.choice(GOOD_SEQ)
        else:
            lw = rng.choice([0, 0, 1, 2, 3, 4, 4, 5, 6, 7, 8, 8, 9, 16, 255, rng.randrange(256)])
            a, b = rng.choice(NUMS), rng.choice(NUMS)
            if rng.random() < 0.8 and a > b:
                a, b = b, a
            if rng.random() < 0.15:
                a = b
            lo, hi = a, b
        return ('s', lw, lo, hi, refs())
    n = rng.choice([0, 1, 1, 2, 2, 2, 3, 3, 4])
    if k < 0.67:
        return ('t', [refs() for _ in range(n)])
    if k < 0.85:
        tw = rng.choice([1, 1, 1, 0, 2, 4, 8, 8] if tidy else [0, 1, 1, 2, 3, 4, 8, 9, 255, rng.randrange(256)])
        vs = []
        for i in range(n):
            dv = rng.choice([i, i, -i, rng.choice([-(1 << 63), (1 << 63) - 1, -1, 255, 256])])
            vs.append((dv, rng.choice(['V%d' % i, '', 'Some', rng.choice(NAME_POOL)]), refs()))
        return ('e', tw, vs)
    if k < 0.92:
        return ('sn', [(rng.choice(['f%d' % i, '', rng.choice(NAME_POOL)]), refs()) for i in range(n)])
    if k < 0.98:
        return ('su', [refs() for _ in range(n)])
    return ('se',)


def random_container(rng):
    n = rng.randrange(4, 13)
    names = rng.sample(NAME_POOL, n)
    mode = rng.choice(['dag', 'dag', 'any'])
    dangling = rng.choice(['M', 'missing', 'éé', '  '])
    p_dangle = rng.choice([0, 0, 0.02, 0.1])
    defs = []
    for i, nm in enumerate(names):
        if mode == 'dag':
            later = names[i + 1:]
        else:
            later = names

        def refs(later=later, i=i):
            if not later or rng.random() < p_dangle:
                # the last declaration of a dag has nothing to point at: reuse itself rarely, else dangle
                return dangling if (later or rng.random() < 0.5) else names[i]
            # prefer near successors so that chains get long
            if mode == 'dag' and rng.random() < 0.5:
                return later[0]
            return rng.choice(later)
        if mode == 'dag' and i == n - 1:
            d = ('p', rng.choice([0, 1, 1, 2, 8, 255]))
        else:
            d = random_def(rng, refs, tidy=(mode == 'dag' and rng.random() < 0.8))
        defs.append((nm, d))
    root = names[0] if rng.random() < 0.95 else rng.choice(names + [dangling])
    if rng.random() < 0.05:
        # a duplicate key (first wins) at a random later position
        defs.insert(rng.randrange(1, len(defs) + 1), (rng.choice(names), random_def(rng, lambda: rng.choice(names), False)))
    if rng.random() < 0.3:
        rng.shuffle(defs)
    return {'root': root, 'defs': defs}


TIERS = {
    # tier: (sample of 2-declaration product, sample of 3-declaration product, random graphs, z3 family sample)
    'quick': (5000, 60000, 10000, 20000),
    'thorough': (60000, 600000, 100000, None),
    # for the search after a break: no exhaustive part, other seeds
    'search': (5000, 60000, 15000, 20000),
}


def gen_structured(seed, tier='quick'):
    n2, n3, nr, nz = TIERS.get(tier, TIERS['quick'])
    rng = random.Random(seed * 1000003 + 17)
    out = []
    if tier != 'search':
        out += exhaustive1()
        out += exhaustive2()
    out += sample2(n2, rng)
    out += sample3(n3, rng)
    out += family_z3(nz, rng)
    out += boundary()
    out += hand()
    rr = random.Random(seed * 7919 + 5)
    for i in range(nr):
        out.append(('r_%d_%d' % (seed, i), random_container(rr)))
    return out


def gen_containers(seed, tier='quick'):
    return [(cid, container_sexp(c)) for cid, c in gen_structured(seed, tier)]


def group_of(cid):
    return cid.split('_', 1)[0]


GROUP_NAMES = {'x1': 'exhaustive-1-declaration', 'x2': 'exhaustive-2-declarations(root A mentions B)',
               's2': 'stride-sample-2-declarations', 'x3': 'stride-sample-3-declarations', 'h': 'hand-written', 'z3': 'family-3-declarations(A sequence of B, B mentions C)',
               'b': 'boundary-family',
               'r': 'random-graphs-4-12-declarations', 'T': 'rust-types'}


if __name__ == '__main__':
    seed = int(sys.argv[1]) if len(sys.argv) > 1 else 1
    tier = sys.argv[2] if len(sys.argv) > 2 else 'quick'
    from collections import Counter
    cs = gen_containers(seed, tier)
    print(Counter(group_of(c) for c, _ in cs), len(cs), len(set(s for _, s in cs)))
    for cid, s in cs[:3] + cs[-3:]:
        print(cid, s)
