#!/usr/bin/env python3
"""Writes MANIFEST.json from the table below (one place to keep it current)."""
import json
import os

V = os.path.dirname(os.path.dirname(os.path.abspath(__file__)))
ALL = ['C%02d' % i for i in range(1, 19)]

TRUST = ('Trusted: Coq 8.16.1 kernel (full .vo build, no axioms: every property theorem prints "Closed under the global context"); '
         'the hand-written Gallina model is tied to /repo only by differential execution of the extracted model (ExtrOcamlBasic) '
         'against a Rust harness rebuilt from the working tree on every run; generators, harness Model impls, canonical printers '
         'and the error-message classifier are part of the trusted base. rustc/std/dependency crates are exercised, not modelled.')

CLAIMED = {
    'C01': {
        'category': 'proof',
        'text': ('Kernel-checked theorem on the Gallina transcription of the encoder/decoder: for every type of the family without '
                 'ordered/hashed/indexed collections, every value and every trailing byte string, decode(encode v ++ rest) = '
                 '(logical v, rest), for both de_strict_order settings (unbounded: induction over types, loop invariants for the '
                 'element loop and the 1 MiB-chunk byte loop). Keyed collections are covered by the correspondence and the '
                 'implementation-only round-trip oracle until their theorem lands. Tie to the code: differential execution over a '
                 '397-type catalogue in 2 (quick) / 4 (thorough) feature configurations on every run.'),
        'design_ref': 'DESIGN.md section 5 C01, section 4',
        'technique': 'Coq proof (induction on the type universe + loop invariants) + model/implementation differential correspondence',
    },
}

NOT_YET = 'check not built yet in this tree (model and proof in progress; see DESIGN.md section 10)'


def main():
    checks = []
    for pid, c in CLAIMED.items():
        checks.append({
            'property_id': pid,
            'quick_cmd': 'bin/check %s --tier quick' % pid,
            'thorough_cmd': 'bin/check %s --tier thorough' % pid,
            'evidence_file': 'evidence/%s.json' % pid,
            'replay_cmd_template': 'bin/check %s --replay {path}' % pid,
            'engine': 'coq+correspondence',
            'level_claimed': {'category': c['category'], 'text': c['text'], 'design_ref': c['design_ref']},
            'level_note': c.get('note', TRUST),
            'technique': c['technique'],
        })
    na = [{'property_id': p, 'reason': NOT_YET} for p in ALL if p not in CLAIMED]
    m = {
        'version': 1,
        'setup_cmd': 'bin/setup',
        'hooks': {
            'guard': 'borsh_verif',
            'enable': 'no hook is needed: every observation goes through the public API (RUSTFLAGS="--cfg borsh_verif" is reserved and unused)',
            'baseline_off_cmd': 'cd /repo && cargo test --workspace --no-fail-fast --offline',
            'source_commits': [],
            'add_only': True,
        },
        'engines': [
            {'name': 'coq+correspondence', 'path': 'coq/, ocaml/, harness/, gen/, lib/, checks/',
             'serves_properties': sorted(CLAIMED), 'kind_free_text': 'Coq 8.16 theorems about a hand-written executable model; extracted OCaml driver vs Rust harness differential check'},
        ],
        'checks': checks,
        'not_applicable': na,
        'notes': 'fix: commits in /repo: 24bcbc6 e8708a2 c6a3c15 2986370 a5de4a0 8f0ba72 (see known_findings.txt)',
    }
    with open(V + '/MANIFEST.json', 'w') as f:
        json.dump(m, f, indent=1)
    print('claimed', sorted(CLAIMED), 'not claimed', [x['property_id'] for x in na])


if __name__ == '__main__':
    main()
