#!/usr/bin/env python3
"""Writes MANIFEST.json from the table below (one place to keep it current)."""
import json
import os

V = os.path.dirname(os.path.dirname(os.path.abspath(__file__)))
ALL = ['C%02d' % i for i in range(1, 19)]

TRUST = ('Trusted: Coq 8.16.1 kernel (full .vo build, no axioms: every property theorem prints "Closed under the global context"); '
         'the hand-written Gallina model is tied to /repo only by differential execution of the extracted model (ExtrOcamlBasic) '
         'against a Rust harness rebuilt from the working tree on every run; generators, harness Model impls, canonical printers '
         'and the error-message classifier are part of the trusted base. rustc/std/dependency crates are exercised, not modelled.')

CORR = ('Tie to the code: differential execution of the extracted model against a Rust harness rebuilt from /repo on every run, '
        'plus an implementation-only property oracle; a break triggers a search for a failing input.')

CLAIMED = {
    'C01': {
        'category': 'proof',
        'text': ('Kernel-checked theorem C01_round_trip on the Gallina transcription of every BorshSerialize/BorshDeserialize impl: for every well-formed type '
                 '(all constructors incl. ordered/hashed/indexed collections, deque, wrappers, skipped fields, enums), every value, both de_strict_order settings '
                 'and every trailing byte string, decode(encode v ++ rest) = (logical v, rest). Unbounded: induction over the type universe, loop invariants '
                 'for the element loop and the 1 MiB-chunk/doubling byte loop (all lengths), strict total order of the model of Ord. ' + CORR +
                 ' The implementors of BorshSerialize/BorshDeserialize as the compiler lists them (rustdoc JSON, both feature sets) must all be constructors of the universe exercised by the catalogue. '+str(len(__import__('catalogue').catalogue_types()))+'-type catalogue x generated values in 2 (quick) / 4 (thorough) feature configurations. Recursive derived items (no term of the type universe) are covered by '
                 'Properties/C01rec.v: an item is an environment of open terms, unfold e n replaces references below depth n by a type the codec refuses, and typing, bytes, logical value, '
                 'round trip and decoding are proved independent of the depth beyond the depth of the value (rec_fuel_monotone, C01_rec_round_trip, rec_decode_stable, rec_decode_final), so the '
                 'comparison of Tree/List/Json/Rec values (depth up to 3000) with finite unfoldings is conclusive.'),
        'design_ref': 'DESIGN.md section 5 C01, section 4',
        'technique': 'Coq proof (induction on the type universe + loop invariants + order theory) + model/implementation differential correspondence',
    },
    'C02': {
        'category': 'proof',
        'text': ('Kernel-checked: for every well-formed type and value the bytes of the model of the code are those of an INDEPENDENT reference encoder written from the Borsh specification (Spec.spec_enc on the logical value: own positional '
                 'little-endian, widths, NaN test, tag table, option-monad style; shares only the type universe, values and the order with the model), C02_conforms; the refused values are exactly those containing, in a written position, a NaN, '
                 'a dynamically sized collection with >= 2^32 elements or a guarded collection of memory-zero-sized elements, always InvalidData, never a panic (C02_refuses, C02_refusal_kind, C02_total). A mutably borrowed RefCell is not a value of the '
                 'model and is outside the theorem. ' + CORR + ' Oracle = implementation bytes vs the EXTRACTED reference encoder (not the model of the code); the 2^32 boundary is exercised through zero-sized slices of length up to 2^64-1.'),
        'design_ref': 'DESIGN.md section 5 C02; NOTES-spec.md',
        'technique': 'Coq proof (model encoder = independent specification encoder, by induction on types) + implementation vs extracted reference encoder',
    },
    'C03': {
        'category': 'proof',
        'text': ('Kernel-checked: bytes and refusal are functions of the logical value (C03_canonical, C03_canonical_refusal, C03_canonical_total); any permutation of a hash collection\'s iteration order gives the same bytes and the emitted keys ascend strictly '
                 '(= bytes of the B-tree twin, accepted by the strict decoder); every split of a deque = the Vec of the joined content; all seven wrappers transparent; [T] = Vec<T> for non-zero-sized elements; the u8 bulk path = the element path for slices, sequences and arrays. '
                 + CORR + ' >= 6 (median 12, up to 44) representations per logical value built on the implementation side: insertion/removal/reserve/shrink histories, the default hasher plus 3 seeds of a custom BuildHasher, every ring-buffer offset of a deque, each wrapper, repeated serialization.'),
        'design_ref': 'DESIGN.md section 5 C03; NOTES-spec.md',
        'technique': 'Coq proof (canonical form via the specification encoder + sorting theory) + multi-representation correspondence on the implementation',
    },
    'C04': {
        'category': 'proof',
        'text': ('Kernel-checked: completeness (every encoding of a value is accepted and yields it, = C01); soundness in both modes (whatever is accepted is a well-typed value in logical form: ranges, non-zero, '
                 'non-NaN, UTF-8/ASCII, valid tags, distinct ascending keys); under strict ordering the bytes consumed ARE the encoding of the returned value, so accepted byte strings and values are in one-to-one '
                 'correspondence (C04_strict_bijective, C04_strict_injective) for every type without IndexSet/IndexMap; for EVERY type and byte string the loose decoder accepts exactly what the strict one accepts plus inputs '
                 'the strict one rejects with the key-order error, with identical results otherwise (C04_loose_accepts_more / C04_strict_accepts_less). Known finding F8 (IndexSet/IndexMap accept repeated entries in every mode) is '
                 'a theorem (C04_index_refuted) and a KNOWN-FINDING line. The VALUE returned in non-strict mode for unsorted / repeated entries is pinned down: it is collect_sorted / collect_index of the plain list the same bytes give as a Vec (C04_loose_value), i.e. exactly the last entry of each key in strictly ascending key order - first-occurrence order for index kinds -, unique, every input key present (C04_loose_value_spec); an input the strict decoder accepts had strictly ascending entries and both modes return them (C04_strict_is_loose_on_sorted); every accepted input decodes to a value the encoder accepts (C04_accepted_is_encodable). ' + CORR + ' Bounded-exhaustive short byte strings for ~100 types, Vec-encodings with arbitrary order/repeats fed to every keyed collection, corruptions; '
                 'implementation-only oracles: re-encode equals consumed input (strict build), loose vs strict build differ only by the key-order error.'),
        'design_ref': 'DESIGN.md section 5 C04',
        'technique': 'Coq proof (parser invariant with typing and re-encoding relations; relational induction loose vs strict) + bounded-exhaustive differential correspondence',
    },
    'C05': {
        'category': 'proof',
        'text': ('Kernel-checked: for EVERY type and EVERY byte string a successful slice decode reads a prefix, is unaffected by what follows (C05_extend), and every proper '
                 'prefix of what it read is rejected with "unexpected length" (C05_consumes_prefix); with C01: streams of heterogeneous values read back in order, the four '
                 'whole-input entry points reject left-over bytes, all six entry points reject every proper prefix of a valid encoding. ' + CORR +
                 ' Streams of 1..8 values, all/sampled truncation points, tails, six entry points incl. a counting reader; hostile inputs for the recursive items at finite unfoldings (C05_rec_extend).'),
        'design_ref': 'DESIGN.md section 5 C05',
        'technique': 'Coq proof (parser-combinator invariant PS proved for the whole decoder by induction on types) + differential correspondence',
    },
    'C16': {
        'category': 'proof',
        'text': ('Kernel-checked: for EVERY type (no well-formedness needed), every byte string and both strictness settings the slice decoder fails only with InvalidData and '
                 'never panics or exhausts model fuel (C16_kind, C16_no_panic); truncated valid encodings give the unexpected-length message, leftovers the not-all-bytes-read '
                 'message, zero-sized collections the public ZST message. ' + CORR + ' Truncations, single-byte corruptions, random strings and adversarial length prefixes over '
                 'every deserializable catalogue type incl. all feature-gated impls; recursive items at finite unfoldings (C16_rec_kind; results equal to the placeholder refusal are counted as inconclusive, never as agreement).'),
        'design_ref': 'DESIGN.md section 5 C16',
        'technique': 'Coq proof (same parser invariant, error-kind clause) + differential correspondence on malformed inputs',
    },
    'C11': {
        'category': 'proof',
        'text': ('Kernel-checked: for every type, every data string and every schedule of short reads and Interrupted results (down to one byte per call, different for each call), decoding from the scheduled reader returns '
                 'exactly what decoding from the slice returns and leaves the reader exactly past the value, for both read_exact implementations (std default method and the no_std shim) (C11_fragment, via a generic '
                 'simulation lemma over the decoder and an invariant+measure analysis of the byte-vector loop incl. the chunk doubling and the Interrupted retry); a hard failure reached while the value is incomplete is returned '
                 'with kind and message unchanged (C11_failure); the whole-input entry points consume at most one byte beyond the value (C11_probe). ' + CORR +
                 ' All compositions of encodings up to 10 bytes, Interrupt at every call index, Fail at every byte offset, >1 MiB vectors, std and no_std builds.'),
        'design_ref': 'DESIGN.md section 5 C11; NOTES-io.md',
        'technique': 'Coq proof (reader simulation + loop invariant) + scheduled-reader differential correspondence',
    },
    'C12': {
        'category': 'proof',
        'text': ('Kernel-checked: for every value and writer schedule (splits, Interrupted, Ok(0), failures) the sink after to_writer is a prefix of the encoding, all of it on Ok; a failure or a full fixed buffer after j bytes returns '
                 'that error unchanged (WriteZero/"failed to write whole buffer" for a full buffer) with exactly the first j bytes delivered; a buffer of exactly the right size is filled; object_length equals the length of the encoding '
                 '(OutOfMemory only past 2^64); for the std write_all contract and the shim; and all of this for an ARBITRARY cut of the byte stream into write_all calls (Properties/C12rechunk.v), so the property does not depend on the serializer\'s chunking - '
                 'a mismatch under a scheduled writer is re-examined against the generalised model on the implementation\'s own chunking. ' + CORR + ' Fixed buffers of every capacity 0..len+1, failure at every offset, splitting schedules, both builds.'),
        'design_ref': 'DESIGN.md section 5 C12; NOTES-io.md',
        'technique': 'Coq proof (write_all loop invariant over the write trace) + scheduled-writer differential correspondence',
    },
    'C13': {
        'category': 'proof',
        'text': ('Kernel-checked: for every sequence of read/read_exact/write/write_all/by_ref operations on slice readers, slice writers and Vec writers the model of the no_std shim and the model of the std::io contract produce '
                 'the same observable outcomes wherever std specifies them (C13_io); encoder, decoder and entry points do not depend on which io implementation is used (C13_codec). PARTIAL by nature: that the two BUILDS link '
                 'different collection crates is tied by running both, not by proof. ' + CORR + ' The same seeded workload in the std and no_std+hashbrown builds must give identical transcripts equal to the model\'s; op sequences run '
                 'against real std::io and the real shim side by side in one binary (incl. flush and write_fmt, which the model does not have); the overridden write_all of the slice and vector writers equals the default loop over write, so an adaptor that forwards write_all and one that does not are the same writer (C13_write_all_overrides); raw error texts are compared between the builds; failures of every ErrorKind common to std and the shim, with a message or built from the kind alone.'),
        'design_ref': 'DESIGN.md section 5 C13; NOTES-io.md',
        'technique': 'Coq proof (op-sequence equivalence of two io models) + cross-build transcript comparison',
    },
    'C14': {
        'category': 'proof',
        'text': ('Kernel-checked on the model: every guarded collection kind with a memory-zero-sized element/key type is refused with InvalidData+ZST message on serialize for every value '
                 'and on deserialize for EVERY input incl. the empty one (no length read first); zero-sized types themselves and arrays/options of them encode and round-trip. '
                 'for sequence/set element types that are empty in memory and on the wire the run-time refusal and the ZSTSequence verdict of schema validation agree, and validation never gives that verdict for elements that occupy the wire (C14_agree, C14_agree_converse, under the decidable name-coherence hypothesis that finding F13 shows necessary). ' + CORR + ' mem_zst is compared with the real size_of::<T>() for all catalogue types on every run.'),
        'design_ref': 'DESIGN.md section 5 C14',
        'technique': 'Coq proof (direct from the transcribed guards + round trip) + size_of cross-check + differential correspondence',
    },
    'C15': {
        'category': 'proof',
        'text': ('Kernel-checked on an abstract machine transcribing ArrayDropGuard (fill_buffer: call, then write, then increment; Drop over [0, init_count); transmute_to_array: reset, then read): '
                 'for EVERY length N and EVERY element-decoder script no UB event (no drop/read of an unwritten or moved slot), every constructed element is dropped or returned exactly once, failure or '
                 'panic at position j drops exactly elements 0..j-1, success returns all N; the two classic bug variants are shown to produce UB/double drop. PARTIAL by nature: memory safety of the real '
                 'MaybeUninit/pointer casts is outside Gallina (Miri run in the thorough tier is supporting validation). ' + CORR + ' N = 0..17, 31..33, 64, every failing position x {Err, panic}, nested arrays, '
                 'event-for-event against an instrumented heap-owning element type, std and no_std builds.'),
        'design_ref': 'DESIGN.md section 5 C15; NOTES-array.md',
        'technique': 'Coq proof (loop invariant on the guard machine) + event-trace correspondence with an instrumented element type (+ Miri in thorough)',
    },
    'C06': {
        'category': 'proof',
        'text': ('Kernel-checked on a transcription of the derive macros\' decision logic over an abstract item syntax: the discriminant token splice (`#this + 1`, with the grouping rule) re-parsed by a '
                 'precedence-climbing parser evaluates to the language rule "previous + 1" for ALL expressions of the grammar (C06_discr; the pre-fix splice is shown wrong); accepted structs and enums '
                 'get exactly the documented wire type (fields in order, skipped omitted, tag = ordinal or discriminant; enums outside the type-dependent-discriminant class F12, C06_enum_refuted gives the witness); '
                 'init hook runs once on success and never on failure; deserialize_variant(tag) = deserialize on tag::rest; the inferred where-clause equals the documented one as a list, for all three derives (C06_bounds, on a transcription of FindTyParams); '
                 'the schema derive\'s per-variant inner structs keep exactly the parameters their fields mention and only predicates over kept parameters (C08gen_*, F9 as a theorem; F14 refutation). PARTIAL: that the emitted Rust compiles is validated by generated programs, not proved. ' + CORR + ' ~170 generated items (shapes, skips, discriminant expressions, generics, init hooks, *_with, macro-identifier field names) compiled against /repo per run, '
                 'encode/decode/truncations/deserialize_variant/init-count vs the model; implementation-only oracles: tag byte == rustc\'s own discriminant; the init hook rewrites skipped fields from the decoded value and counts its calls per object, and the actual contents of skipped fields are reported after decoding through every entry point incl. deserialize_variant (exactly one hook call on the decoded value; Default without a hook). '
                 'The corpus is also built in a crate that reaches borsh only through a re-export (crate = "reexporter::borsh") and with borsh-derive without its schema feature. ~880 bound probes at marker types per run (references, slices, pointers, lifetime and const parameters, raw identifiers). Known findings F10, F11, F12, F14, F19.'),
        'design_ref': 'DESIGN.md section 5 C06; NOTES-derive.md',
        'technique': 'Coq proof on a model of the macro logic + generated-program differential correspondence (cargo build per run)',
    },
    'C18': {
        'category': 'proof',
        'text': ('Kernel-checked on the transcription of check_attributes / field attribute checks / Discriminants::get / u8 tag typing: every rejection belongs to a violated rule of the property\'s list (C18_class) and, '
                 'outside the two named classes implicit-overflow (F11) and type-dependent discriminant (F12), an item is rejected iff it violates a rule (C18_exact_partial; refutation witnesses for both classes are theorems). '
                 'a key repeated inside one attribute is refused for every derive (C18_repeated_key; the behaviour before the repair F21 was "last occurrence wins"); an accepted item violates at most the discriminant-fit rule, no hypothesis (C18_accept_only_fit). '
                 'PARTIAL: rustc\'s diagnostics are observed, not modelled. ' + CORR + ' ~2,500 (item, derive) modules per run: one rule violation at every variant/field position (incl. a key repeated in one attribute, and source-level negatives for the nested bound/schema/with_funcs lists) plus positive controls incl. raw identifiers, lifetime and const parameters; a second build of a sample with borsh-derive WITHOUT its schema feature; '
                 'checked with cargo check --message-format=json, expansion-phase and type-check-phase negatives batched separately.'),
        'design_ref': 'DESIGN.md section 5 C18; NOTES-derive.md',
        'technique': 'Coq proof on a model of the macro checks + negative/positive generated-crate correspondence through rustc',
    },
    'C07': {
        'category': 'proof',
        'text': ('Kernel-checked on an instrumented transcription of the slice decoder (every with_capacity(cautious(len)), vec![0; min(len, 1 MiB)], resize and push growth recorded as allocation events; size_of a parameter supplied by the harness; '
                 'cautious transcribed with its division) that provably returns the same result as the decoder (C07_erasure): no panic for every type and byte string (C07_no_panic; the only hypothesis is that a type which is not zero-sized has a positive size_of - the earlier hypothesis size_of < 2^32 exposed defect F15, repaired; hint::cautious compiled from its source file is compared with the model on sizes up to 2^40); '
                 'cautious(len) * size_of <= max(4096, size_of) (C07_hint); the byte-loop buffer never exceeds max(min(len, 1 MiB), 2 * consumed) (C07_bulk, C07_bulk_requests); for every type of the family (collection elements take >= 1 byte on the wire or are refused as ZST) '
                 'the largest single request, the number of element decodes and the total requested bytes are bounded by explicit constants + constants * |input| (C07_prefix_alone, C07_work, C07_alloc, C07_consumed), and by TIGHT constants in which the failure constant is additive through nesting because only one element decode can fail '
                 '(C07_alloc_tight, C07_work_tight: total requested <= F0 + S1 * |input| with e.g. F0 = 1 MiB + 4 KiB, S1 = 101 for Vec<Vec<u8>>; C07_alloc_success: an accepted input costs at most S1 * bytes consumed, never the 1 MiB; C07_tight_le_loose). '
                 'The conversions into the final collection (collect into B-tree / hash / index collections and lists, Box::new, Rc::from, Bytes::from) are bounded too: units and bytes converted are linear in the elements decoded and in the input length (C07_conv_units_elems, C07_conv_bytes_elems, C07_conv_units, C07_conv_bytes, C07_conv_success); how many bytes the foreign constructor requests per converted byte is std\'s / hashbrown\'s and is measured, not proved. '
                 'PARTIAL by nature: the real allocator, Vec growth policy, stack depth and aborts are runtime behaviour. ' + CORR + ' Counting global allocator, hostile length prefixes (0xFFFFFFFF, 2^31, 2^20+1, 2^20) at every length position, corruptions, random strings up to 64 KiB, in child processes under a memory cap; '
                 'oracle: no panic/abort/dead child, max request and peak within stated linear bounds, elements decoded <= |input| + 1.'),
        'design_ref': 'DESIGN.md section 5 C07; NOTES-cost.md',
        'technique': 'Coq proof (instrumented decoder, erasure lemma, weighted-measure induction) + counting-allocator correspondence in capped child processes',
    },
    'C08': {
        'category': 'proof',
        'text': ('Kernel-checked on a transcription of every built-in BorshSchema impl and of the derive\'s schema expansion (declaration strings, DFS order of add_definition calls, no_recursion_flag, assert on conflicting redefinition): '
                 'the container of a type defines its root and every declaration it references and contains nothing else than the add_definition calls reachable from the type (C08_closed, C08_monotone, C08_covers); every primitive\'s schema width equals its wire width (C08_widths); '
                 'for every name-coherent type (each declaration string stands for one definition: decidable) a decoder driven ONLY by the container reads the encoding of any value completely and reconstructs names, order, tags, counts and widths (C08_decodes_partial, C08_decodes_stream); '
                 'the container validates iff the type has no dynamically sized collection with wire-empty elements (C08_validates, C10_rust, C08_zero_sized); run-time ZST refusal and the validation verdict agree (C14_agree, C14_agree_empty, C14_agree_converse). '
                 'The full-strength decoding statement without coherence is FALSE (C08_decodes_refuted, known finding F13). PARTIAL: generic derived items and derive acceptance are validated by generated programs. '
                 + CORR + ' for_type/validate/max_size vs the model for the 323 catalogue types with a schema and hand-written derived items; derive acceptance (F9 witness) in the C18 corpus.'),
        'design_ref': 'DESIGN.md section 5 C08; NOTES-schemaof.md',
        'technique': 'Coq proof (closure/provenance of schema_of) + schema-interpreter oracle + differential correspondence',
    },
    'C17': {
        'category': 'proof',
        'text': ('Kernel-checked: writing a value with its schema and reading it back with the same type returns the logical value (C17_round_trip, both strictness settings); reading with a type whose container differs is rejected with the schema-mismatch error or an earlier '
                 'InvalidData decode error (C17_foreign); for EVERY input acceptance implies that the schema part decoded to exactly the reader\'s own container, every refusal is InvalidData, never a panic (C17_corrupt, C17_corrupt_rejected); the container codec round-trips and '
                 'emits definitions in ascending name order (C17_container_canonical, C17_definitions_ascending: a theorem about schema_of). Remaining hypothesis: names are UTF-8 and numbers fit their fields (container_fits, decidable, true of every schema_of result exercised). '
                 + CORR + ' Ordered pairs of types, mutated schema prefixes, arbitrary containers through the real container codec vs the model\'s and a Python encoder; call histories (one process per ordered pair of types, always including two items with the same declaration and different definitions) against the stateless model.'),
        'design_ref': 'DESIGN.md section 5 C17; NOTES-schemaof.md',
        'technique': 'Coq proof (C01/C05 instantiated at the container type + equality test) + differential correspondence',
    },
    'C09': {
        'category': 'proof',
        'text': ('Kernel-checked on a statement-by-statement transcription of max_serialized_size_impl/is_zero_size_impl (explicit stack, count multiplier, checked arithmetic, every early return): '
                 'never panics/out of fuel; sound (no described value is longer) and attained (when inhabited) for every container; refines the unbounded-arithmetic maximum '
                 '(Ok n below 2^64, Overflow otherwise) for containers whose range ends are u64; Recursive only at a reachable cycle, MissingDefinition only for a reached undefined name. '
                 'The yardstick `sizes` is tied to real byte strings: the container-driven decoder only consumes byte counts that are sizes (C09_sdec_sizes, no hypotheses), the encoding of every value of a Rust type with a schema is a size of its container (C09_encodings_are_sizes) and is therefore at most the reported maximum (C09_bounds_encodings; hypotheses of C08_decodes: wf, typed defaults, name-coherent). '
                 + CORR + ' ~127k (quick) / ~980k (thorough) containers: bounded-exhaustive small graphs + random + for_type containers of Rust types, and an independent Python oracle.'),
        'design_ref': 'DESIGN.md section 5 C09; NOTES-schema.md',
        'technique': 'Coq proof (fuel induction with stack invariant, simulation against an unbounded-N specification) + bounded-exhaustive container correspondence',
    },
    'C10': {
        'category': 'proof',
        'text': ('Kernel-checked on the transcription of validate_impl/check_length_width/is_zero_size: total (no panic, fuel never exhausted) for every container; '
                 'is_zero_size = Ok true iff the inductive ZeroSized holds (every other answer refutes it); validate = Ok iff WellFormed (the conjunction in the property statement); '
                 'the declaration blamed by an error is reachable and has the named defect. ZeroSized is the code\'s least-fixed-point notion; that it is strictly weaker than "every value is empty" through untagged cycles is a theorem with a witness (C10_zero_sized_semantic_refuted, finding F25). ' + CORR + ' Same container corpus under catch_unwind, hostile ranges/widths/cycles included; implementation-only oracle with the greatest-fixed-point notion of zero-sized; a 200000-link chain of definitions in a child with an 8 MiB stack (finding F20).'),
        'design_ref': 'DESIGN.md section 5 C10; NOTES-schema.md',
        'technique': 'Coq proof (fuel induction, height-indexed derivations) + bounded-exhaustive container correspondence',
    },
}

NOT_YET = 'check not built yet in this tree (model and proof in progress; see DESIGN.md section 10)'


def main():
    checks = []
    for pid, c in CLAIMED.items():
        checks.append({
            'property_id': pid,
            'quick_cmd': 'bin/check %s --tier quick' % pid,
            'thorough_cmd': 'bin/check %s --tier thorough' % pid,
            'evidence_file': 'evidence/%s.json' % pid,
            'replay_cmd_template': 'bin/check %s --replay {path}' % pid,
            'engine': 'coq+correspondence',
            'level_claimed': {'category': c['category'], 'text': c['text'], 'design_ref': c['design_ref']},
            'level_note': c.get('note', TRUST),
            'technique': c['technique'],
        })
    na = [{'property_id': p, 'reason': NOT_YET} for p in ALL if p not in CLAIMED]
    m = {
        'version': 1,
        'setup_cmd': 'bin/setup',
        'hooks': {
            'guard': 'borsh_verif',
            'enable': 'no hook is needed: every observation goes through the public API (RUSTFLAGS="--cfg borsh_verif" is reserved and unused)',
            'baseline_off_cmd': 'cd /repo && cargo test --workspace --no-fail-fast --offline',
            'source_commits': [],
            'add_only': True,
        },
        'engines': [
            {'name': 'coq+correspondence', 'path': 'coq/, ocaml/, harness/, gen/, lib/, checks/',
             'serves_properties': sorted(CLAIMED), 'kind_free_text': 'Coq 8.16 theorems about a hand-written executable model; extracted OCaml driver vs Rust harness differential check'},
        ],
        'checks': checks,
        'not_applicable': na,
        'notes': 'fix: commits in /repo: 24bcbc6 e8708a2 c6a3c15 2986370 a5de4a0 8f0ba72 12e49aa 909991a 5177afa 95a0033 922f373 f6c47ad d8a8c35 (see known_findings.txt)',
    }
    with open(V + '/MANIFEST.json', 'w') as f:
        json.dump(m, f, indent=1)
    print('claimed', sorted(CLAIMED), 'not claimed', [x['property_id'] for x in na])


if __name__ == '__main__':
    main()
