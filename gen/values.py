"""Value generation and canonical printing (same format as the OCaml driver and the Rust harness)."""
from tyuniv import *  # noqa


def show(v):
    if isinstance(v, int):
        return str(v)
    if v[0] == 'v':
        return '(v %d %s)' % (v[1], show(v[2]))
    l = v[1]
    if not l:
        return '(l)'
    if all(isinstance(x, int) and x < 256 for x in l):
        return '(b %s)' % bytes(l).hex()
    return '(l %s)' % ' '.join(show(x) for x in l)


def L(xs):
    return ('l', list(xs))


BOUNDARY = [0, 1, 2, 0x7f, 0x80, 0xff, 0x100, 0x7fff, 0x8000, 0xffff, 0x7fffffff, 0x80000000, 0xffffffff]

UTF8_SAMPLES = ['', 'a', 'hello', 'é', '€', '𝄞', 'añb€c𝄞d', '\x00', 'x' * 40, '߿ࠀ￿', '퟿', '\U0010ffff']


def gen_prim(name, rng):
    w = PRIM_WIDTH[name]
    top = 1 << (8 * w)
    if name == 'bool':
        return rng.randrange(2)
    if name == 'asciichar':
        return rng.choice([0, 1, 65, 126, 127, rng.randrange(128)])
    if name in ('f32', 'f64'):
        if name == 'f32':
            specials = [0, 0x80000000, 0x7f800000, 0xff800000, 0x00000001, 0x3f800000, 0x7f7fffff, 0x007fffff,
                        0x7fc00000, 0x7f800001, 0xffc00001]
        else:
            specials = [0, 1 << 63, 0x7ff0000000000000, 0xfff0000000000000, 1, 0x3ff0000000000000,
                        0x7fefffffffffffff, 0x000fffffffffffff, 0x7ff8000000000000, 0x7ff0000000000001,
                        0xfff8000000000001]
        r = rng.random()
        if r < 0.45:
            return rng.choice(specials[:8])
        if r < 0.5:
            return rng.choice(specials[8:])     # NaN: must be refused
        return rng.randrange(top)
    r = rng.random()
    if r < 0.4:
        c = [x for x in BOUNDARY if x < top] + [top - 1, top // 2, top // 2 - 1]
        n = rng.choice(c)
    elif r < 0.6:
        n = rng.randrange(min(top, 256))
    else:
        n = rng.randrange(top)
    if name.startswith('nz') and n == 0:
        n = 1
    return n


def gen_len(rng, size):
    r = rng.random()
    if r < 0.2:
        return 0
    if r < 0.4:
        return 1
    if r < 0.9:
        return rng.randrange(2, max(3, size))
    return rng.randrange(size, 2 * size + 1)


def gen_text(kind, rng, size):
    if kind in ('string', 'str'):
        r = rng.random()
        if r < 0.5:
            s = rng.choice(UTF8_SAMPLES)
        else:
            n = gen_len(rng, size)
            s = ''.join(chr(rng.choice([rng.randrange(32, 127), rng.randrange(0x80, 0x800), rng.randrange(0x800, 0xd800),
                                        rng.randrange(0xe000, 0x10000), rng.randrange(0x10000, 0x110000)]))
                        for _ in range(n))
        return L(list(s.encode('utf-8')))
    if kind in ('asciistring', 'asciistr'):
        n = gen_len(rng, size)
        return L([rng.randrange(128) for _ in range(n)])
    n = gen_len(rng, size)
    return L([rng.randrange(256) for _ in range(n)])


def gen_val(t, rng, size=6):
    """A value of type t in *generator* form: collections may list duplicate or unsorted keys;
    the harness builds the Rust value and reports the representation it actually has."""
    k = t[0]
    if k == 'prim':
        return gen_prim(t[1], rng)
    if k == 'unit':
        return L([])
    if k == 'raw':
        n = {'ipv4': 4, 'ipv6': 16, 'oid': 12}[t[1]]
        return L([rng.randrange(256) for _ in range(n)])
    if k == 'text':
        return gen_text(t[1], rng, size)
    if k == 'seq':
        kind, e = t[1], t[2]
        if mem_zst(e) and kind != 'slice':
            n = rng.choice([0, 1, 3])
        else:
            n = gen_len(rng, size)
        sub = max(2, size - 2)
        elems = [gen_val(e, rng, sub) for _ in range(n)]
        if kind in ('btreeset', 'hashset', 'indexset', 'btreemap', 'hashmap', 'indexmap') and elems and rng.random() < 0.2:
            elems.append(elems[rng.randrange(len(elems))])   # duplicate key
        if kind == 'deque':
            cut = rng.randrange(len(elems) + 1)
            return L([L(elems[:cut]), L(elems[cut:])])
        return L(elems)
    if k == 'array':
        sub = max(2, size - 2)
        return L([gen_val(t[2], rng, sub) for _ in range(t[1])])
    if k == 'prod':
        return L([gen_val(x, rng, size) for x in t[2]])
    if k == 'sum':
        i = rng.randrange(len(t[2]))
        return ('v', i, gen_val(t[2][i], rng, size))
    if k == 'wrap':
        return gen_val(t[2], rng, size)
    raise ValueError(t)
