"""Seeded generator of derive inputs (properties C06 and C18).

An item description is a dict (see `gen_item`); from one description this module emits
  (a) the Rust source with the derives                          -> rust_item()
  (b) the Item.v term as an S-expression for the OCaml driver   -> item_sexp()
      and, independently of Coq, the `ty` of the documented semantics -> doc_ty()
  (c) a `Model` impl (from_val / to_val / to_repr / describe)   -> rust_model()
Negative variants (one C18 rule violation at one position of a legal item) come from
`mutations()`.

Discriminant expressions are nested tuples
  ('lit', n) | ('paren', e) | ('neg', e) | ('not', e) | ('bin', op, l, r)
and are canonical (what a parser produces) by construction.
"""
import random
import sys
import os
sys.path.insert(0, os.path.dirname(__file__))
from tyuniv import *  # noqa

RESERVED = ['writer', 'reader', 'variant_idx', 'return_value', 'variant_tag', 'tag', 'id0', 'id1', 'definitions', 'fields']
PLAIN = ['a', 'b', 'c', 'd', 'e', 'f', 'g', 'h', 'x', 'y', 'count', 'data']
# raw identifiers (keywords written r#kw): legal names of fields and variants; the macros must treat them like any
# other identifier (95a0033: the BorshSchema derive built the inner struct name "Er#type" and panicked)
RAW_IDENTS = ['r#type', 'r#match', 'r#fn', 'r#loop', 'r#struct', 'r#impl']


def unraw(n):
    """the identifier without the r# prefix (syn: Ident::unraw)"""
    return n[2:] if n.startswith('r#') else n


def rawify(it, idx):
    """Deterministically (no random draws: the rest of the seeded corpus stays what it was) rename fields / a variant
    of some items to raw identifiers.  idx % 4 == 1: the first and the last field of the first named field list;
    enums with idx % 4 == 3 or idx % 8 == 1 (then next to raw field names): one variant."""
    k = idx // 4
    if idx % 4 == 1:
        lists = [it['fields']] if it['kind'] == 'struct' else [v['fields'] for v in it['variants']]
        for fs in lists:
            if fs and not fs[0]['name'].isdigit():
                fs[0]['name'] = RAW_IDENTS[k % len(RAW_IDENTS)]
                if len(fs) > 1:
                    fs[-1]['name'] = RAW_IDENTS[(k + 1) % len(RAW_IDENTS)]
                break
    if it['kind'] == 'enum' and (idx % 4 == 3 or idx % 8 == 1):
        vs = it['variants']
        vs[k % len(vs)]['name'] = RAW_IDENTS[(k + 2) % len(RAW_IDENTS)]

OPS = {'mul': ('*', 7), 'div': ('/', 7), 'rem': ('%', 7), 'add': ('+', 6), 'sub': ('-', 6),
       'shl': ('<<', 5), 'shr': ('>>', 5), 'and': ('&', 4), 'xor': ('^', 3), 'or': ('|', 2)}
ATOM = 10


# ------------------------------------------------------------------ expressions
def level(e):
    return OPS[e[1]][1] if e[0] == 'bin' else ATOM


def expr_rust(e):
    k = e[0]
    if k == 'lit':
        return str(e[1])
    if k == 'paren':
        return '(' + expr_rust(e[1]) + ')'
    if k == 'neg':
        return '-' + expr_rust(e[1])
    if k == 'not':
        return '!' + expr_rust(e[1])
    return '%s %s %s' % (expr_rust(e[2]), OPS[e[1]][0], expr_rust(e[3]))


def expr_sexp(e):
    k = e[0]
    if k == 'lit':
        return '(lit %d)' % e[1]
    if k in ('paren', 'neg', 'not'):
        return '(%s %s)' % (k, expr_sexp(e[1]))
    return '(bin %s %s %s)' % (e[1], expr_sexp(e[2]), expr_sexp(e[3]))


class Unevaluable(Exception):
    pass


def _wrap(z, bits, signed):
    z %= 1 << bits
    if signed and z >= 1 << (bits - 1):
        z -= 1 << bits
    return z


def expr_eval(e, ty='isize'):
    """Python mirror of rustc's constant evaluation at an integer type; raises Unevaluable
    where rustc reports an error (used to build rustc-legal enums, NOT as the expected
    result of a check: expectations come from the Coq model)."""
    bits, signed = {'isize': (64, True), 'u8': (8, False), 'i32': (32, True)}[ty]
    lo, hi = (-(1 << (bits - 1)), (1 << (bits - 1)) - 1) if signed else (0, (1 << bits) - 1)

    def chk(z):
        if not (lo <= z <= hi):
            raise Unevaluable()
        return z

    k = e[0]
    if k == 'lit':
        return chk(e[1])
    if k == 'paren':
        return expr_eval(e[1], ty)
    if k == 'neg':
        if not signed:
            raise Unevaluable()
        return chk(-expr_eval(e[1], ty))
    if k == 'not':
        x = expr_eval(e[1], ty)
        return (hi - x) if not signed else (-x - 1)
    op = e[1]
    x = expr_eval(e[2], ty)
    if op in ('shl', 'shr'):
        s = expr_eval(e[3], 'i32')
        if not (0 <= s < bits):
            raise Unevaluable()
        return _wrap(x << s, bits, signed) if op == 'shl' else x >> s
    y = expr_eval(e[3], ty)
    if op == 'mul':
        return chk(x * y)
    if op in ('div', 'rem'):
        if y == 0:
            raise Unevaluable()
        q = abs(x) // abs(y) * (1 if (x >= 0) == (y >= 0) else -1)
        return chk(q) if op == 'div' else chk(x - q * y)
    if op == 'add':
        return chk(x + y)
    if op == 'sub':
        return chk(x - y)
    if op == 'and':
        return x & y
    if op == 'xor':
        return x ^ y
    if op == 'or':
        return x | y
    raise ValueError(op)


def has_not(e):
    if e[0] == 'not':
        return True
    if e[0] in ('paren', 'neg'):
        return has_not(e[1])
    if e[0] == 'bin':
        return has_not(e[2]) or (e[1] not in ('shl', 'shr') and has_not(e[3]))
    return False


def gen_expr(rng, depth, minlevel=0, maxlit=40, allow_unary=False):
    """A canonical expression whose top level binds at least as tightly as minlevel."""
    choices = ['lit', 'lit']
    if depth > 0:
        choices += ['paren'] + [op for op, (_, p) in OPS.items() if p >= minlevel] * 2
        if allow_unary:
            choices += ['neg', 'not']
    c = rng.choice(choices)
    if c == 'lit':
        return ('lit', rng.choice([0, 1, 2, 3, 5, 7, rng.randrange(maxlit)]))
    if c == 'paren':
        return ('paren', gen_expr(rng, depth - 1, 0, maxlit, allow_unary))
    if c in ('neg', 'not'):
        return (c, gen_expr(rng, depth - 1, ATOM, maxlit, allow_unary))
    p = OPS[c][1]
    l = gen_expr(rng, depth - 1, max(p, minlevel), maxlit, allow_unary)
    r = gen_expr(rng, depth - 1, p + 1, maxlit, allow_unary)
    if c in ('shl', 'shr'):
        r = ('lit', rng.randrange(0, 4))
    return ('bin', c, l, r)


FIXED_EXPRS = [
    ('bin', 'or', ('lit', 1), ('lit', 2)),                                          # 1 | 2
    ('bin', 'add', ('lit', 2), ('bin', 'mul', ('lit', 3), ('lit', 2))),             # 2 + 3 * 2
    ('bin', 'shl', ('lit', 1), ('lit', 3)),                                         # 1 << 3
    ('paren', ('lit', 5)),                                                          # (5)
    ('paren', ('bin', 'or', ('lit', 16), ('lit', 1))),                              # (16 | 1)
    ('bin', 'sub', ('bin', 'mul', ('lit', 4), ('lit', 5)), ('lit', 1)),             # 4 * 5 - 1
    ('bin', 'xor', ('lit', 12), ('lit', 5)),                                        # 12 ^ 5
    ('bin', 'and', ('lit', 63), ('lit', 42)),                                       # 63 & 42
    ('bin', 'rem', ('lit', 47), ('lit', 10)),                                       # 47 % 10
    ('bin', 'shr', ('lit', 200), ('lit', 1)),                                       # 200 >> 1
    ('bin', 'or', ('bin', 'and', ('lit', 6), ('lit', 3)), ('bin', 'shl', ('lit', 1), ('lit', 5))),  # 6 & 3 | 1 << 5
    ('bin', 'mul', ('paren', ('bin', 'add', ('lit', 1), ('lit', 2))), ('lit', 9)),  # (1 + 2) * 9
    ('bin', 'div', ('lit', 90), ('lit', 4)),                                        # 90 / 4
    ('lit', 77),
]


def assign_discriminants(rng, n, mode, use_disc):
    """Explicit/implicit discriminants for n variants such that rustc accepts the enum
    (distinct values) and, under use_disc=True, every tag is a u8 constant the macro's
    typing accepts (no `!`, no u8 overflow anywhere).  Returns list of expr|None."""
    for _ in range(200):
        out = []
        used = set()
        nxt = 0
        ok = True
        for i in range(n):
            explicit = {'none': False, 'all': True, 'first': i == 0, 'last': i == n - 1}.get(mode)
            if explicit is None:
                explicit = rng.random() < 0.4
            if explicit:
                found = None
                for _ in range(60):
                    e = rng.choice(FIXED_EXPRS) if rng.random() < 0.5 else gen_expr(rng, 3, 0, 40 if use_disc else 3000,
                                                                                       allow_unary=not use_disc)
                    try:
                        v = expr_eval(e, 'isize')
                        if use_disc:
                            if has_not(e) or expr_eval(e, 'u8') != v:
                                continue
                            if v + (n - i) > 255:
                                continue
                    except Unevaluable:
                        continue
                    if v in used or any((v + d) in used for d in range(1, 4)):
                        continue
                    found = (e, v)
                    break
                if not found:
                    ok = False
                    break
                out.append(found[0])
                nxt = found[1]
            else:
                out.append(None)
            if nxt in used or (use_disc and nxt > 255):
                ok = False
                break
            used.add(nxt)
            nxt += 1
        if ok:
            return out
    return [None] * n


def discr_values(ds):
    vals = []
    nxt = 0
    for d in ds:
        if d is not None:
            nxt = expr_eval(d, 'isize')
        vals.append(nxt)
        nxt += 1
    return vals


# ------------------------------------------------------------------ field types
SKIPPABLE = [P('u8'), P('u32'), P('i64'), P('bool'), ('text', 'string'), seq('vec', P('u16')), opt(P('u8')),
             tup(P('u8'), ('text', 'string')), arr(3, P('u8')), UNIT, P('f32'), wrap('box', P('u64'))]
LEAF_TYPES = [P('u8'), P('u16'), P('u32'), P('u64'), P('u128'), P('i8'), P('i32'), P('i64'), P('bool'),
              ('text', 'string'), UNIT, P('f64'), P('nzu16')]


def wire_zero(t):
    """the encoding of every value of t is empty"""
    k = t[0]
    if k == 'unit':
        return True
    if k == 'array':
        return t[1] == 0 or wire_zero(t[2])
    if k == 'wrap':
        return wire_zero(t[2])
    if k == 'prod':
        kind = t[1]
        skips = kind[-1] if isinstance(kind, tuple) and kind[0] in ('struct', 'variant') else [False] * len(t[2])
        return all(s or wire_zero(x) for s, x in zip(skips, t[2]))
    return False


def unbounded_seq(t):
    """contains a collection whose elements take no bytes on the wire although they take memory
    (Vec<Box<()>>, Vec of a struct whose fields are all skipped): a corrupted length prefix then makes
    the decoder build up to 2^32 elements from no input -- out of scope here (property C07), and it would
    exhaust the memory of both the harness and the model driver"""
    if t[0] == 'seq':
        e = t[2]
        if wire_zero(e) and not mem_zst(e):
            return True
    return any(unbounded_seq(c) for c in children(t))


def rand_field_type(rng, earlier, depth=2):
    for _ in range(50):
        t = _rand_field_type(rng, earlier, depth)
        if not unbounded_seq(t):
            return t
    return P('u8')


def _rand_field_type(rng, earlier, depth=2):
    r = rng.random()
    if earlier and r < 0.22:
        t = rng.choice(earlier)
        c = rng.random()
        if c < 0.5:
            return t
        if c < 0.75:
            return seq('vec', t)
        return opt(t)
    if depth <= 0 or r < 0.55:
        return rng.choice(LEAF_TYPES)
    c = rng.choice(['vec', 'opt', 'tup', 'arr', 'box', 'map', 'res'])
    sub = lambda: _rand_field_type(rng, earlier, depth - 1)
    if c == 'vec':
        return seq('vec', sub())
    if c == 'opt':
        return opt(sub())
    if c == 'tup':
        return tup(*[sub() for _ in range(rng.choice([1, 2, 3]))])
    if c == 'arr':
        return arr(rng.choice([0, 1, 2, 4]), sub())
    if c == 'box':
        return wrap('box', sub())
    if c == 'map':
        return mapk('btreemap', rng.choice([P('u8'), P('i16'), ('text', 'string')]), sub())
    return res(sub(), sub())


WIDEN = {'u16': 'u32', 'u32': 'u64', 'u8': 'u16'}


def gen_field(rng, idx, named, earlier, names_used, in_enum, allow_attrs=True):
    f = {'skip': False, 'with': None, 'param': None}
    r = rng.random()
    if allow_attrs and r < 0.2:
        f['skip'] = True
        f['ty'] = rng.choice(SKIPPABLE)
    elif allow_attrs and r < 0.3:
        src = rng.choice(sorted(WIDEN))
        f['ty'] = P(src)
        f['with'] = P(WIDEN[src])           # wire semantics of the serialize_with/deserialize_with pair
    else:
        f['ty'] = rand_field_type(rng, earlier)
    if named:
        for _ in range(50):
            n = rng.choice(RESERVED) if rng.random() < 0.35 else rng.choice(PLAIN)
            if n in names_used:
                continue
            # F10: a bound (non-skipped) field called `writer` in an enum struct variant does not compile;
            # exercised separately by the hygiene probe of checks/c06.py
            if in_enum and n == 'writer' and not f['skip']:
                continue
            break
        else:
            n = 'f%d' % idx
        names_used.add(n)
        f['name'] = n
    else:
        f['name'] = str(idx)
    return f


def gen_fields(rng, shape, count, earlier, in_enum):
    used = set()
    return [gen_field(rng, i, shape == 'named', earlier, used, in_enum) for i in range(count)]


def gen_item(rng, idx, earlier, force=None):
    """force: dict overriding random choices (kind, shape, nfields, nvariants, use_disc, mode, init, generic)."""
    force = force or {}
    name = 'It%d' % idx
    kind = force.get('kind') or rng.choice(['struct', 'struct', 'enum', 'enum', 'enum'])
    it = {'name': name, 'kind': kind, 'init': force.get('init', rng.random() < 0.2), 'use_disc': None,
          'generic': force.get('generic', rng.random() < 0.15)}
    if kind == 'struct':
        shape = force.get('shape') or rng.choice(['named', 'named', 'tuple', 'unit'])
        n = 0 if shape == 'unit' else force.get('nfields', rng.choice([0, 1, 1, 2, 2, 3, 4, 5, 6, 7, 8]))
        it['shape'] = shape
        it['fields'] = gen_fields(rng, shape, n, earlier, False)
    else:
        nv = force.get('nvariants') or rng.choice([1, 1, 2, 2, 3, 3, 4, 5, 6, 9, 17])
        use_disc = force['use_disc'] if 'use_disc' in force else rng.choice([None, None, True, True, False])
        mode = force.get('mode') or (rng.choice(['random', 'random', 'all', 'first', 'last', 'none']) if use_disc is not None else 'none')
        it['use_disc'] = use_disc
        ds = assign_discriminants(rng, nv, mode, bool(use_disc))
        variants = []
        had_struct = False
        for i in range(nv):
            if nv > 40:
                shape = rng.choice(['unit', 'unit', 'unit', 'tuple', 'named'])
            else:
                shape = rng.choice(['unit', 'tuple', 'named', 'named'])
            if had_struct and rng.random() < 0.4:
                shape = 'unit'          # unit variants after struct variants
            if shape == 'named':
                had_struct = True
            n = 0 if shape == 'unit' else (rng.choice([0, 1, 2, 3]) if nv > 40 else rng.choice([0, 1, 1, 2, 2, 3, 4, 5, 8]))
            variants.append({'name': 'V%d' % i, 'discr': ds[i], 'shape': shape,
                             'fields': gen_fields(rng, shape, n, earlier if nv <= 40 else [], True), 'attrs': []})
        it['variants'] = variants
    if it['generic']:
        make_generic(rng, it)
    if not it['generic']:
        it['params'] = []
    rawify(it, idx)
    if it['init']:
        add_hook_fields(it, idx)
    return it


# ---- the init hook made observable on the decoded VALUE: items with `init` get two skipped fields the hook rewrites,
#      `init_calls: u32` (incremented) and `init_sum: u64` (a checksum of the non-skipped integer / bool fields of the
#      object the hook is called on).  After decoding they must hold exactly what ONE call on the decoded object produces.
SUMMABLE = ('u8', 'u16', 'u32', 'u64', 'u128', 'i8', 'i16', 'i32', 'i64', 'i128', 'bool')


def _hook_field(role, name):
    return {'name': name, 'skip': True, 'with': None, 'param': None, 'hook': role,
            'ty': P('u32') if role == 'calls' else P('u64')}


def _insert_hook_fields(fields, shape, where):
    """where: 0 = both at the end, 1 = both at the front, 2 = counter first, checksum last"""
    c, m = _hook_field('calls', 'init_calls'), _hook_field('sum', 'init_sum')
    out = {0: fields + [c, m], 1: [c, m] + fields, 2: [c] + fields + [m]}[where]
    if shape == 'tuple':
        for i, f in enumerate(out):
            f['name'] = str(i)
    return out


def add_hook_fields(it, idx):
    """No random draws (the rest of the seeded corpus stays what it was).  Unit structs / unit variants cannot hold them:
    there the hook only bumps the per-type counter."""
    if it['kind'] == 'struct':
        if it['shape'] != 'unit':
            it['fields'] = _insert_hook_fields(it['fields'], it['shape'], idx % 3)
    elif it['kind'] == 'enum':
        for vi, v in enumerate(it['variants']):
            if v['shape'] != 'unit':
                v['fields'] = _insert_hook_fields(v['fields'], v['shape'], (idx + vi) % 3)


def hook_fields(fields):
    c = [f for f in fields if f.get('hook') == 'calls']
    m = [f for f in fields if f.get('hook') == 'sum']
    return (c[0], m[0]) if c and m else None


def checksum_expr(fields, acc):
    """acc(i, f) -> Rust expression of the field's value; wrapping, position-weighted, never 0 for an empty list"""
    e = '0x5EEDu64'
    for i, f in enumerate(fields):
        if not f['skip'] and f.get('param') is None and f['ty'][0] == 'prim' and f['ty'][1] in SUMMABLE:
            e += '.wrapping_add((%s as u64).wrapping_mul(%d))' % (acc(i, f), i + 1)
    return e


def all_item_fields(it):
    if it['kind'] == 'struct':
        return it['fields']
    return [f for v in it['variants'] for f in v['fields']]


def make_generic(rng, it):
    """Turn up to two field types into type parameters (instantiated at the field's concrete type)."""
    cands = [f for f in all_item_fields(it) if f['with'] is None and is_param_ok(f['ty'])]
    if not cands:
        it['generic'] = False
        return
    rng.shuffle(cands)
    params = []
    for f in cands[:2]:
        pname = 'T%d' % len(params)
        # the whole field type, or the element type of a Vec/Option field
        if f['ty'][0] == 'seq' and f['ty'][1] == 'vec' and rng.random() < 0.6 and is_param_ok(f['ty'][2]) and not f['skip']:
            f['param'] = ('vec', pname)
            params.append((pname, f['ty'][2]))
        else:
            f['param'] = ('whole', pname)
            params.append((pname, f['ty']))
    it['params'] = params


def is_param_ok(t):
    return not mem_zst(t)


# ------------------------------------------------------------------ the documented semantics, as a ty
def field_sem_ty(f):
    if f['with'] is not None and not f['skip']:
        return f['with']
    return f['ty']


def field_val_ty(f):
    """the type values are generated at (the Rust field type)"""
    return f['ty']


def prod_ty(kind_head, fields, sem=True):
    names = tuple(f['name'] for f in fields)
    skips = tuple(bool(f['skip']) for f in fields)
    return ('prod', kind_head + (names, skips), tuple((field_sem_ty(f) if sem else field_val_ty(f)) for f in fields))


def ident(it):
    return it['name'] + ('G' if it['generic'] else '')


def doc_ty(it, sem=True):
    """Reference semantics written from the rustdoc: fields in order, skipped ones absent/default,
    *_with overrides in place, tag = ordinal unless use_discriminant = true (then the discriminant)."""
    if it['kind'] == 'struct':
        return prod_ty(('struct', ident(it)), it['fields'], sem)
    vs = it['variants']
    if it['use_disc'] is True:
        tags = tuple(discr_values([v['discr'] for v in vs]))
    else:
        tags = tuple(range(len(vs)))
    return ('sum', ('enum', ident(it), tuple(v['name'] for v in vs), tags),
            tuple(prod_ty(('variant',), v['fields'], sem) for v in vs))


# ------------------------------------------------------------------ Item.v term (S-expression)
def field_attr_metas(f):
    ms = []
    if f['skip']:
        ms.append('skip')
    if f['with'] is not None:
        ms.append('(serwith %s %s)' % (with_fn(f, 'ser'), sexp(f['with'])))
        ms.append('(dewith %s %s)' % (with_fn(f, 'de'), sexp(f['with'])))
    ms += f.get('extra_metas', [])
    return ms


def field_sexp(f):
    attrs = list(f.get('attrs_override') or [])
    if not attrs:
        ms = field_attr_metas(f)
        if ms:
            attrs = ['(%s)' % ' '.join(ms)]
        attrs += f.get('extra_attrs', [])
    return '(field %s (%s) %s)' % (f['name'], ' '.join(attrs), sexp(f['ty']))


def fields_sexp(shape, fields):
    if shape == 'unit':
        return 'unit'
    return '(%s %s)' % (shape, ' '.join(field_sexp(f) for f in fields))


def item_metas(it):
    ms = []
    if it.get('use_disc') is not None:
        ms.append('(usedisc %s)' % ('true' if it['use_disc'] else 'false'))
    if it.get('init'):
        ms.append('(init (path init_hook))')
    ms += it.get('extra_metas', [])
    return ms


def item_sexp(it):
    attrs = list(it.get('attrs_override') or [])
    if not attrs:
        ms = item_metas(it)
        if ms:
            attrs = ['(%s)' % ' '.join(ms)]
        attrs += it.get('extra_attrs', [])
    if it['kind'] == 'struct':
        body = '(struct %s)' % fields_sexp(it['shape'], it['fields'])
    elif it['kind'] == 'union':
        body = '(union %s)' % ' '.join(field_sexp(f) for f in it['fields'])
    else:
        body = '(enum %s)' % ' '.join(
            '(variant %s (%s) %s %s)' % (v['name'], ' '.join(v.get('attrs', [])),
                                         expr_sexp(v['discr']) if v['discr'] is not None else 'none',
                                         fields_sexp(v['shape'], v['fields'])) for v in it['variants'])
    return '(item %s (%s) %s)' % (ident(it), ' '.join(attrs), body)


# ------------------------------------------------------------------ Rust source
def with_fn(f, side):
    src = f['ty'][1]
    dst = f['with'][1]
    return 'crate::withfns::%s_%s_as_%s' % (side, src, dst)


def field_rust_type(f):
    if f.get('param'):
        how, p = f['param']
        return p if how == 'whole' else 'Vec<%s>' % p
    return rust(f['ty'])


def sexp_attr_to_rust(attr_sexp):
    """'(skip (other bogus))' -> '#[borsh(skip, bogus)]' for the metas the negatives use."""
    from_s = parse_s(attr_sexp)
    parts = []
    for m in from_s:
        parts.append(meta_rust(m))
    return '#[borsh(%s)]' % ', '.join(parts)


def meta_rust(m):
    if m == 'skip':
        return 'skip'
    head = m[0]
    if head == 'serwith':
        return 'serialize_with = "%s"' % m[1]
    if head == 'dewith':
        return 'deserialize_with = "%s"' % m[1]
    if head == 'other':
        return m[1] if len(m) < 3 else '%s = %s' % (m[1], val_rust(m[2]))
    if head == 'bound':
        parts = []
        if m[1] == '1':
            parts.append('serialize = ""')
        if m[2] == '1':
            parts.append('deserialize = ""')
        return 'bound(%s)' % ', '.join(parts)
    if head == 'schema':
        parts = []
        if m[1] == '1':
            parts.append('params = ""')
        if m[2] != 'none':
            wf = []
            if m[2][1] == '1':
                wf.append('declaration = "crate::withfns::decl"')
            if m[2][2] == '1':
                wf.append('definitions = "crate::withfns::defs"')
            parts.append('with_funcs(%s)' % ', '.join(wf))
        return 'schema(%s)' % ', '.join(parts)
    if head in ('usedisc', 'init', 'crate'):
        key = {'usedisc': 'use_discriminant', 'init': 'init', 'crate': 'crate'}[head]
        v = val_rust(m[1])
        return key if v is None else '%s = %s' % (key, v)
    raise ValueError(m)


def val_rust(v):
    if v == 'none':
        return None
    if v in ('true', 'false'):
        return v
    if v == 'other':
        return '3'
    if v[0] == 'path':
        return v[1]
    if v[0] == 'str':
        return '"%s"' % v[1]
    raise ValueError(v)


def parse_s(s):
    """tiny S-expression reader -> nested lists/atoms"""
    toks = s.replace('(', ' ( ').replace(')', ' ) ').split()
    pos = [0]

    def one():
        t = toks[pos[0]]
        pos[0] += 1
        if t == '(':
            out = []
            while toks[pos[0]] != ')':
                out.append(one())
            pos[0] += 1
            return out
        return t
    return one()


def field_attr_rust(f):
    attrs = list(f.get('attrs_override') or [])
    if not attrs:
        ms = field_attr_metas(f)
        if ms:
            attrs = ['(%s)' % ' '.join(ms)]
        attrs += f.get('extra_attrs', [])
    out = ' '.join(sexp_attr_to_rust(a) for a in attrs)
    if f.get('params_text'):          # the model's `(schema 1 ..)` only says "params given"; the source needs the entries
        out = out.replace('params = ""', 'params = "%s"' % f['params_text'])
    return out


def field_rust(f, named, vis='pub '):
    a = field_attr_rust(f)
    ty = field_rust_type(f)
    if named:
        return '%s%s%s: %s' % (a + ' ' if a else '', vis, f['name'], ty)
    return '%s%s%s' % (a + ' ' if a else '', vis, ty)


def fields_rust(shape, fields, vis='pub '):
    if shape == 'unit':
        return ''
    if shape == 'named':
        return ' { ' + ', '.join(field_rust(f, True, vis) for f in fields) + ' }'
    return '(' + ', '.join(field_rust(f, False, vis) for f in fields) + ')'


def item_attr_rust(it):
    attrs = list(it.get('attrs_override') or [])
    if not attrs:
        ms = item_metas(it)
        if ms:
            attrs = ['(%s)' % ' '.join(ms)]
        attrs += it.get('extra_attrs', [])
    return '\n'.join(sexp_attr_to_rust(a) for a in attrs)


def needs_repr(it):
    return it['kind'] == 'enum' and any(v['discr'] is not None for v in it['variants']) and \
        any(v['shape'] != 'unit' for v in it['variants'])


def rust_item(it, derives=('BorshSerialize', 'BorshDeserialize'), extra_derives=('Debug', 'Clone')):
    """The item definition with its derives (and, for `init`, the hook)."""
    lines = []
    d = ', '.join(['borsh::%s' % x for x in derives] + list(extra_derives))
    lines.append('#[derive(%s)]' % d)
    a = item_attr_rust(it)
    if a:
        lines.append(a)
    gen = ''
    if it.get('params'):
        gen = '<%s>' % ', '.join(p for p, _ in it['params'])
    if it['kind'] == 'struct':
        body = fields_rust(it['shape'], it['fields'])
        lines.append('pub struct %s%s%s%s' % (ident(it), gen, body, '' if it['shape'] == 'named' else ';'))
    elif it['kind'] == 'union':
        lines.append('pub union %s { %s }' % (ident(it), ', '.join(field_rust(f, True) for f in it['fields'])))
    else:
        if needs_repr(it):
            lines.append('#[repr(isize)]')
        vs = []
        for v in it['variants']:
            va = ' '.join('#[borsh(%s)]' % k.strip('()') for k in v.get('attrs', []))
            vs.append('%s%s%s%s' % (va + ' ' if va else '', v['name'], fields_rust(v['shape'], v['fields'], ''),
                                    ' = %s' % expr_rust(v['discr']) if v['discr'] is not None else ''))
        lines.append('pub enum %s%s { %s }' % (ident(it), gen, ', '.join(vs)))
    if it.get('params'):
        lines.append('pub type %s = %s<%s>;' % (it['name'], ident(it), ', '.join(rust(t) for _, t in it['params'])))
    if it.get('init'):
        lines.append('pub static INIT_%s: std::sync::atomic::AtomicU32 = std::sync::atomic::AtomicU32::new(0);' % it['name'].upper())
        lines.append('impl%s %s%s { pub fn init_hook(&mut self) { INIT_%s.fetch_add(1, std::sync::atomic::Ordering::SeqCst);%s } }'
                     % (gen, ident(it), gen, it['name'].upper(), hook_body(it)))
    return '\n'.join(lines)


def hook_body(it):
    """the part of the hook that rewrites the object it is called on (empty when the item has no hook fields)"""
    if it['kind'] == 'struct':
        h = hook_fields(it['fields'])
        if not h:
            return ''
        c, m = h
        return ' self.%s = self.%s.wrapping_add(1); self.%s = %s;' % (
            c['name'], c['name'], m['name'], checksum_expr(it['fields'], lambda i, f: 'self.%s' % f['name']))
    if it['kind'] != 'enum' or not any(hook_fields(v['fields']) for v in it['variants']):
        return ''
    arms = []
    for v in it['variants']:
        h = hook_fields(v['fields'])
        pat = _pattern('%s::%s' % (ident(it), v['name']), v['shape'], v['fields'])
        if not h:
            arms.append('%s => {}' % pat)
            continue
        ci, mi = v['fields'].index(h[0]), v['fields'].index(h[1])
        arms.append('%s => { *m%d = m%d.wrapping_add(1); *m%d = %s; }' % (
            pat, ci, ci, mi, checksum_expr(v['fields'], lambda i, f: '(*m%d)' % i)))
    return ' match self { %s }' % ' '.join(arms)


def skipped_check_body(it):
    """Rust statements pushing onto `bad` one text per skipped field of `self` that does not hold what a freshly decoded
    object must hold: Default::default(); for the two hook fields 1 and the checksum of the object's own fields."""
    def one(fields, place, num):
        # place(i, f): the field as a place expression (auto-ref'd by method calls); num(i, f): its value
        out = []
        for i, f in enumerate(fields):
            if not f['skip']:
                continue
            if f.get('hook') == 'calls':
                out.append('if %s != 1u32 { bad.push(format!("%s (hook calls seen by the object) = {}, expected 1", %s)); }' % (num(i, f), f['name'], num(i, f)))
            elif f.get('hook') == 'sum':
                out.append('{ let want: u64 = %s; if %s != want { bad.push(format!("%s (checksum written by the hook) = {}, expected {}", %s, want)); } }'
                           % (checksum_expr(fields, num), num(i, f), f['name'], num(i, f)))
            else:
                out.append('if %s.to_val() != <%s as Default>::default().to_val() { bad.push(format!("skipped field %s = {}, expected Default", show(&%s.to_val()))); }'
                           % (place(i, f), _fty(f), f['name'], place(i, f)))
        return out
    if it['kind'] == 'struct':
        return ' '.join(one(it['fields'], lambda i, f: 'self.%s' % f['name'], lambda i, f: 'self.%s' % f['name']))
    arms = []
    for v in it['variants']:
        pat = _pattern('%s::%s' % (ident(it), v['name']), v['shape'], v['fields'])
        arms.append('%s => { %s }' % (pat, ' '.join(one(v['fields'], lambda i, f: 'm%d' % i, lambda i, f: '(*m%d)' % i))))
    return 'match self { %s }' % ' '.join(arms)


def _ctor(path, shape, fields, exprs):
    if shape == 'unit':
        return path
    if shape == 'named':
        return '%s { %s }' % (path, ', '.join('%s: %s' % (f['name'], e) for f, e in zip(fields, exprs)))
    return '%s(%s)' % (path, ', '.join(exprs))


def _pattern(path, shape, fields):
    if shape == 'unit':
        return path
    if shape == 'named':
        return '%s { %s }' % (path, ', '.join('%s: m%d' % (f['name'], i) for i, f in enumerate(fields)))
    return '%s(%s)' % (path, ', '.join('m%d' % i for i in range(len(fields))))


def _fty(f):
    return rust(f['ty'])


def rust_model(it, schema=False):
    """`impl Model` + `impl ItemExt` for the (instantiated) item."""
    name = it['name']
    T = name
    sem = sexp(doc_ty(it))
    L = ['impl Model for %s {' % T,
         '    fn describe() -> String { "%s".into() }' % sem]
    if it['kind'] == 'struct':
        fs = it['fields']
        shape = it['shape']
        n = len(fs)
        ctor = _ctor(ident(it), shape, fs, ['<%s as Model>::from_val(&l[%d])?' % (_fty(f), i) for i, f in enumerate(fs)])
        L += ['    fn from_val(v: &Val) -> Option<Self> {',
              '        let l = match v { Val::L(l) if l.len() == %d => l, _ => return None };' % n,
              '        Some(%s)' % ctor,
              '    }']
        acc = lambda f: ('self.%s' % f['name'])
        L += ['    fn to_val(&self) -> Val { Val::L(vec![%s]) }' % ', '.join(
            ('<%s as Default>::default().to_val()' % _fty(f)) if f['skip'] else ('%s.to_val()' % acc(f)) for f in fs)]
        L += ['    fn to_repr(&self) -> Val { Val::L(vec![%s]) }' % ', '.join('%s.to_repr()' % acc(f) for f in fs)]
    else:
        vs = it['variants']
        L += ['    fn from_val(v: &Val) -> Option<Self> {',
              '        let (i, p) = match v { Val::V(i, p) => (*i, &**p), _ => return None };',
              '        let l = match p { Val::L(l) => l, _ => return None };',
              '        match i {']
        for i, v in enumerate(vs):
            fs = v['fields']
            ctor = _ctor('%s::%s' % (ident(it), v['name']), v['shape'], fs,
                         ['<%s as Model>::from_val(&l[%d])?' % (_fty(f), j) for j, f in enumerate(fs)])
            L.append('            %d => { if l.len() != %d { return None; } Some(%s) }' % (i, len(fs), ctor))
        L += ['            _ => None,', '        }', '    }']
        for fn, meth in (('to_val', 'to_val'), ('to_repr', 'to_repr')):
            L += ['    fn %s(&self) -> Val {' % fn, '        match self {']
            for i, v in enumerate(vs):
                fs = v['fields']
                items = []
                for j, f in enumerate(fs):
                    if f['skip'] and fn == 'to_val':
                        items.append('{ let _ = m%d; <%s as Default>::default().to_val() }' % (j, _fty(f)))
                    else:
                        items.append('m%d.%s()' % (j, meth))
                L.append('            %s => Val::V(%d, Box::new(Val::L(vec![%s]))),' % (
                    _pattern('%s::%s' % (ident(it), v['name']), v['shape'], fs), i, ', '.join(items)))
            L += ['        }', '    }']
    L.append('}')
    # ItemExt
    L.append('impl ItemExt for %s {' % T)
    if any(f['skip'] for f in all_item_fields(it)):
        L.append('    fn skipped_check(&self) -> Vec<String> { let mut bad: Vec<String> = Vec::new(); %s bad }' % skipped_check_body(it))
    if schema:
        L.append('    fn schema_ok() -> Option<String> { let c = borsh::schema::BorshSchemaContainer::for_type::<Self>(); '
                 'Some(match c.validate() { Ok(()) => format!("ok {}", c.declaration()), Err(e) => format!("invalid {:?}", e) }) }')
    if it.get('init'):
        L.append('    fn init_calls() -> Option<u32> { Some(INIT_%s.load(std::sync::atomic::Ordering::SeqCst)) }' % name.upper())
        L.append('    fn reset_init() { INIT_%s.store(0, std::sync::atomic::Ordering::SeqCst); }' % name.upper())
    if it['kind'] == 'enum':
        L.append('    fn de_variant(tag: u8, r: &mut &[u8]) -> Option<borsh::io::Result<Self>> { Some(<Self as borsh::de::EnumExt>::deserialize_variant(r, tag)) }')
        if needs_repr(it):
            L.append('    fn discr(&self) -> Option<i128> { Some(unsafe { *(self as *const Self as *const isize) } as i128) }')
        elif all(v['shape'] == 'unit' for v in it['variants']):
            arms = ' '.join('%s::%s => %s::%s as isize,' % (ident(it), v['name'], ident(it), v['name']) for v in it['variants'])
            L.append('    fn discr(&self) -> Option<i128> { Some((match self { %s }) as i128) }' % arms)
    L.append('}')
    return '\n'.join(L)


WITHFNS_RS = '''// GENERATED: serialize_with / deserialize_with pairs (a narrower integer written as a wider one)
use borsh::io::{Read, Result, Write, Error, ErrorKind};
use borsh::{BorshDeserialize, BorshSerialize};
macro_rules! widen {
    ($ser:ident, $de:ident, $src:ty, $dst:ty) => {
        pub fn $ser<W: Write>(x: &$src, w: &mut W) -> Result<()> { (*x as $dst).serialize(w) }
        pub fn $de<R: Read>(r: &mut R) -> Result<$src> {
            let v = <$dst>::deserialize_reader(r)?;
            <$src>::try_from(v).map_err(|_| Error::new(ErrorKind::InvalidData, "user:7"))
        }
    };
}
widen!(ser_u8_as_u16, de_u8_as_u16, u8, u16);
widen!(ser_u16_as_u32, de_u16_as_u32, u16, u32);
widen!(ser_u32_as_u64, de_u32_as_u64, u32, u64);
pub fn decl() -> borsh::schema::Declaration { "x".into() }
pub fn defs(_d: &mut std::collections::BTreeMap<borsh::schema::Declaration, borsh::schema::Definition>) {}
'''


# ------------------------------------------------------------------ the corpus of positive items
def gen_items(seed, count):
    """Deterministic list of item descriptions: a fixed coverage part, then seeded random items."""
    rng = random.Random(seed * 104729 + 17)
    items = []
    earlier = []

    def add(force=None):
        it = gen_item(rng, len(items), earlier, force)
        items.append(it)
        # items usable as field types of later items (Vec/Option of them too)
        # (without *_with fields: for those the value type and the wire type differ)
        if not it['generic'] and len(sexp(doc_ty(it))) < 300 and doc_ty(it) == doc_ty(it, sem=False) \
                and not (needs_repr(it) and len(it['variants']) == 1):     # #[repr(isize)] makes a one-variant enum non-zero-sized
            earlier.append(doc_ty(it))
        return it

    # bounded-exhaustive small shapes
    for shape in ('named', 'tuple'):
        for n in range(0, 9):
            add({'kind': 'struct', 'shape': shape, 'nfields': n, 'generic': False, 'init': n == 3})
    add({'kind': 'struct', 'shape': 'unit', 'generic': False})
    for nv in (1, 2, 3):
        for ud in (None, True, False):
            for mode in (['none'] if ud is None else ['all', 'first', 'last', 'random']):
                add({'kind': 'enum', 'nvariants': nv, 'use_disc': ud, 'mode': mode, 'generic': False})
    add({'kind': 'enum', 'nvariants': 256, 'use_disc': None, 'generic': False, 'init': False})
    add({'kind': 'enum', 'nvariants': 200, 'use_disc': True, 'mode': 'first', 'generic': False, 'init': True})
    add({'kind': 'enum', 'nvariants': 64, 'use_disc': True, 'mode': 'random', 'generic': False})
    add({'kind': 'struct', 'shape': 'named', 'nfields': 4, 'generic': True})
    add({'kind': 'enum', 'nvariants': 3, 'use_disc': True, 'mode': 'all', 'generic': True, 'init': True})
    while len(items) < count:
        add()
    return items[:count] if count >= 60 else items


def value_ty(it):
    """the ty values are generated at: like doc_ty but *_with fields at their Rust type"""
    return doc_ty(it, sem=False)


def emit_items_rs(items, derives=None):
    """derives: default BorshSerialize + BorshDeserialize; with 'BorshSchema' in it the items also get `schema_ok`"""
    derives = derives or ('BorshSerialize', 'BorshDeserialize')
    out = ['// GENERATED by gen/items.py -- do not edit.',
           '#![allow(dead_code, unused_imports, unused_variables, unused_mut, non_camel_case_types, non_snake_case, unused_parens, clippy::all)]',
           'use crate::model::Model;', 'use crate::val::{show, Val};', 'use crate::ItemExt;',
           'use std::collections::{BTreeMap, BTreeSet, LinkedList, VecDeque};', '']
    for it in items:
        out.append(rust_item(it, derives=derives))
        out.append(rust_model(it, schema='BorshSchema' in derives))
        out.append('')
    out.append('pub fn catalogue() -> Vec<crate::ItemEntry> {')
    out.append('    let mut v: Vec<crate::ItemEntry> = Vec::new();')
    for i, it in enumerate(items):
        out.append('    v.push(crate::entry::<%s>(%d, "%s"));' % (it['name'], i, it['name']))
    out.append('    v')
    out.append('}')
    return '\n'.join(out) + '\n'


if __name__ == '__main__':
    its = gen_items(int(sys.argv[1]) if len(sys.argv) > 1 else 1, int(sys.argv[2]) if len(sys.argv) > 2 else 30)
    for it in its[:int(sys.argv[3]) if len(sys.argv) > 3 else 8]:
        print(rust_item(it))
        print(item_sexp(it))
        print(sexp(doc_ty(it)))
        print()


# ------------------------------------------------------------------ C18: legal base items and single-rule violations
def _f(name, ty, skip=False, with_=None):
    return {'name': name, 'ty': ty, 'skip': skip, 'with': with_, 'param': None}


def base_items(seed):
    """Legal items the violations are applied to (each is also a positive control)."""
    S = ('text', 'string')
    b = []
    b.append({'name': 'BaseS', 'kind': 'struct', 'shape': 'named', 'init': False, 'use_disc': None, 'generic': False, 'params': [],
              'fields': [_f('a', P('u8')), _f('reader', S, skip=True), _f('c', P('u16'), with_=P('u32')), _f('d', seq('vec', P('u32')))]})
    b.append({'name': 'BaseT', 'kind': 'struct', 'shape': 'tuple', 'init': True, 'use_disc': None, 'generic': False, 'params': [],
              'fields': [_f('0', P('u64')), _f('1', opt(P('u8')), skip=True), _f('2', S)]})
    b.append({'name': 'BaseE', 'kind': 'enum', 'init': False, 'use_disc': None, 'generic': False, 'params': [],
              'variants': [{'name': 'A', 'discr': None, 'shape': 'unit', 'fields': [], 'attrs': []},
                           {'name': 'B', 'discr': None, 'shape': 'tuple', 'fields': [_f('0', P('u8')), _f('1', S, skip=True)], 'attrs': []},
                           {'name': 'C', 'discr': None, 'shape': 'named', 'fields': [_f('x', P('u16'), with_=P('u32')), _f('tag', P('i8'))], 'attrs': []},
                           {'name': 'D', 'discr': None, 'shape': 'unit', 'fields': [], 'attrs': []}]})
    b.append({'name': 'BaseD', 'kind': 'enum', 'init': True, 'use_disc': True, 'generic': False, 'params': [],
              'variants': [{'name': 'A', 'discr': ('bin', 'or', ('lit', 1), ('lit', 2)), 'shape': 'unit', 'fields': [], 'attrs': []},
                           {'name': 'B', 'discr': None, 'shape': 'tuple', 'fields': [_f('0', P('u8'))], 'attrs': []},
                           {'name': 'C', 'discr': ('bin', 'add', ('lit', 2), ('bin', 'mul', ('lit', 3), ('lit', 2))), 'shape': 'named',
                            'fields': [_f('x', P('u16')), _f('y', P('bool'), skip=True)], 'attrs': []},
                           {'name': 'D', 'discr': None, 'shape': 'unit', 'fields': [], 'attrs': []}]})
    b.append({'name': 'BaseF', 'kind': 'enum', 'init': False, 'use_disc': False, 'generic': False, 'params': [],
              'variants': [{'name': 'A', 'discr': ('lit', 1000), 'shape': 'unit', 'fields': [], 'attrs': []},
                           {'name': 'B', 'discr': None, 'shape': 'unit', 'fields': [], 'attrs': []},
                           {'name': 'C', 'discr': ('neg', ('lit', 5)), 'shape': 'unit', 'fields': [], 'attrs': []}]})
    rng = random.Random(seed * 7 + 3)
    n = 0
    while n < 3:
        it = gen_item(rng, 900 + n, [], {'generic': False})
        if len(all_item_fields(it)) > 10 or (it['kind'] == 'enum' and len(it['variants']) > 6):
            continue
        it['name'] = 'BaseR%d' % n
        b.append(it)
        n += 1
    return b


def _copy(it):
    import copy
    return copy.deepcopy(it)


def _field_positions(it):
    """[(path, field)] over a deep copy-able item: path = ('fields', i) | ('variants', vi, i)"""
    out = []
    if it['kind'] == 'struct':
        for i, _ in enumerate(it['fields']):
            out.append(('f', i))
    elif it['kind'] == 'enum':
        for vi, v in enumerate(it['variants']):
            for i, _ in enumerate(v['fields']):
                out.append(('v', vi, i))
    return out


def _get_field(it, path):
    return it['fields'][path[1]] if path[0] == 'f' else it['variants'][path[1]]['fields'][path[2]]


def _plain_field_attr(f, extra):
    ms = field_attr_metas(f) + extra
    return ['(%s)' % ' '.join(ms)]


def mutations(bases):
    """[(name, rule, where, item)]: exactly one C18 rule violation applied at one position of a legal item.
    `rule` is the rule of the property statement the mutation violates by construction."""
    out = []

    def add(rule, where, it):
        out.append(('n%d' % len(out), rule, where, it))

    for base in bases:
        nm = base['name']
        # --- item level
        for meta, rule in (('(other bogus)', 'unknown'), ('(other bogus other)', 'unknown'), ('(init none)', 'undocumented'),
                           ('(crate other)', 'undocumented'), ('(crate (path borsh))', 'undocumented'), ('(crate none)', 'undocumented')):
            it = _copy(base)
            it['extra_metas'] = [meta]
            add(rule, nm + ' item ' + meta, it)
        it = _copy(base)
        it['extra_attrs'] = ['()']
        if not item_metas(it):
            it['attrs_override'] = ['()', '()']
        add('repeated', nm + ' item two attributes', it)
        it = _copy(base)
        it['extra_attrs'] = ['((crate (str borsh 1)))']
        if not item_metas(it):
            it['attrs_override'] = ['()', '((crate (str borsh 1)))']
        add('repeated', nm + ' item two attributes (second meaningful)', it)
        # --- the same key twice inside ONE item-level attribute (refused since 922f373; before it the last
        #     occurrence silently won): every key the item carries, and `crate`, at the front / the back / around the
        #     other (legal) entries
        legal = item_metas(base)
        CR = '(crate (str borsh 1))'
        for metas, what in ([(legal + [CR, CR], 'crate twice at the end')] + ([([CR] + legal + [CR], 'crate at both ends')] if legal else []) +
                            [(legal[:j + 1] + [m] + legal[j + 1:], '%s twice in a row' % parse_s(m)[0]) for j, m in enumerate(legal)] +
                            [([m] + [CR] + [x for x in legal if x != m] + [m], '%s first and last' % parse_s(m)[0]) for m in legal]):
            it = _copy(base)
            it['attrs_override'] = ['(%s)' % ' '.join(metas)]
            add('repeated-key', nm + ' item ' + what, it)
        if base['kind'] == 'enum' and base['use_disc'] is not None:
            other = '(usedisc %s)' % ('false' if base['use_disc'] else 'true')
            it = _copy(base)
            it['attrs_override'] = ['(%s)' % ' '.join(legal + [other])]
            add('repeated-key', nm + ' item use_discriminant = true and = false', it)
            it = _copy(base)
            it['attrs_override'] = ['(%s)' % ' '.join([other] + legal)]
            add('repeated-key', nm + ' item use_discriminant = false and = true', it)
        if base['kind'] == 'enum' and base['use_disc'] is None:
            for a, b in (('false', 'false'), ('true', 'false'), ('false', 'true')):
                it = _copy(base)
                it['attrs_override'] = ['(%s)' % ' '.join(['(usedisc %s)' % a] + legal + ['(usedisc %s)' % b])]
                add('repeated-key', nm + ' item use_discriminant = %s, .., use_discriminant = %s' % (a, b), it)
        if base['kind'] == 'struct':
            for v in ('true', 'false'):
                it = _copy(base)
                it['extra_metas'] = ['(usedisc %s)' % v]
                add('use_discriminant-on-struct', nm + ' use_discriminant = ' + v, it)
        if base['kind'] == 'enum':
            for v in ('other', '(str true 0)', '(path yes)'):
                it = _copy(base)
                it['use_disc'] = None
                it['extra_metas'] = ['(usedisc %s)' % v]
                add('use_discriminant-value', nm + ' use_discriminant = ' + v, it)
            it = _copy(base)
            it['use_disc'] = None
            it['extra_metas'] = ['(usedisc none)']
            add('undocumented', nm + ' use_discriminant without value', it)
            if base['use_disc'] is None:
                for vi in range(len(base['variants'])):
                    it = _copy(base)
                    it['variants'][vi]['discr'] = ('lit', 40 + vi)
                    add('discriminant-without-setting', nm + ' explicit discriminant at variant %d' % vi, it)
            if base['use_disc'] is not None and any(v['discr'] is not None for v in base['variants']):
                it = _copy(base)
                it['use_disc'] = None
                add('discriminant-without-setting', nm + ' setting removed', it)
            # discriminants that do not fit one byte, at every position
            for vi in range(len(base['variants'])):
                for e, tagk in ((('lit', 256), 'literal'), (('lit', 1000), 'literal'),
                                (('bin', 'sub', ('lit', 256), ('lit', 1)), 'literal'),
                                (('bin', 'add', ('lit', 200), ('lit', 100)), 'arith'),
                                (('bin', 'mul', ('lit', 16), ('lit', 16)), 'arith'),
                                (('bin', 'shl', ('lit', 1), ('lit', 8)), 'arith'),
                                (('neg', ('lit', 1)), 'type'),
                                (('bin', 'add', ('neg', ('lit', 1)), ('lit', 300)), 'type')):
                    it = _copy(base)
                    it['use_disc'] = True
                    for v in it['variants']:
                        v['discr'] = None
                    it['variants'][vi]['discr'] = e
                    add('discriminant-fit', nm + ' variant %d = %s [%s]' % (vi, expr_rust(e), tagk), it)
                # implicit successor of 255 (F11), type-dependent expressions (F12)
                if vi + 1 < len(base['variants']):
                    it = _copy(base)
                    it['use_disc'] = True
                    for v in it['variants']:
                        v['discr'] = None
                    it['variants'][vi]['discr'] = ('lit', 255)
                    if vi + 2 < len(it['variants']):
                        it['variants'][vi + 2]['discr'] = ('lit', 7 + vi)
                    add('discriminant-fit', nm + ' variant %d = 255 then implicit [implicit-overflow]' % vi, it)
                for e in (('not', ('lit', 0)), ('bin', 'shl', ('lit', 128), ('lit', 1))):
                    it = _copy(base)
                    it['use_disc'] = True
                    for j, v in enumerate(it['variants']):
                        v['discr'] = ('lit', 10 + 3 * j)
                    it['variants'][vi]['discr'] = e
                    add('discriminant-fit', nm + ' variant %d = %s [type-dependent]' % (vi, expr_rust(e)), it)
            # attributes on variants
            for vi in range(len(base['variants'])):
                for a in ('(skip)', '(bogus)'):
                    it = _copy(base)
                    it['variants'][vi]['attrs'] = [a]
                    add('unknown', nm + ' variant %d #[borsh%s]' % (vi, a), it)
                it = _copy(base)
                it['variants'][vi]['attrs'] = ['(skip)', '(skip)']
                add('repeated', nm + ' variant %d two attributes' % vi, it)
        # --- field level, at every field position
        for path in _field_positions(base):
            f0 = _get_field(base, path)
            tys = sexp(f0['ty'])
            where = nm + ' field ' + '.'.join(str(x) for x in path[1:])
            # `skip` next to EVERY non-empty combination of the four overrides it conflicts with (a check that combines the
            # overrides with xor / an early `else` refuses each alone and lets a pair through)
            combos = []
            for mask in range(1, 16):
                ms = ['skip']
                if mask & 1:
                    ms.append('(serwith crate::withfns::any_ser %s)' % tys)
                if mask & 2:
                    ms.append('(dewith crate::withfns::any_de %s)' % tys)
                if mask & 12:
                    ms.append('(schema %d %s)' % (1 if mask & 4 else 0, '(wf 1 1)' if mask & 8 else 'none'))
                if bin(mask).count('1') >= 2:
                    combos.append((ms, 'skip-conflict'))
                    if mask in (3, 12, 15):
                        combos.append((ms[1:] + ['skip'], 'skip-conflict'))       # skip written last
            for metas, rule in tuple(combos) + (
                    (['skip', '(serwith crate::withfns::any_ser %s)' % tys], 'skip-conflict'),
                    (['skip', '(dewith crate::withfns::any_de %s)' % tys], 'skip-conflict'),
                    (['(serwith crate::withfns::any_ser %s)' % tys, '(bound 1 0)', 'skip'], 'skip-conflict'),
                    (['skip', '(schema 1 none)'], 'skip-conflict'),
                    (['skip', '(schema 0 (wf 1 1))'], 'skip-conflict'),
                    (['(other bogus)'], 'unknown'),
                    (['(other serialise_with other)'], 'unknown'),
                    (['(schema 0 (wf 1 0))'], 'undocumented'),
                    (['(bound 0 0)'], 'undocumented'),
                    (['(schema 0 none)'], 'undocumented'),
                    (['(schema 0 (wf 0 0))'], 'undocumented')):
                it = _copy(base)
                f = _get_field(it, path)
                f['attrs_override'] = ['(%s)' % ' '.join(metas)]
                add(rule, where + ' ' + ' '.join(metas), it)
            it = _copy(base)
            f = _get_field(it, path)
            f['attrs_override'] = (_plain_field_attr(f, []) if field_attr_metas(f) else ['()']) + ['((bound 1 1))']
            add('repeated', where + ' two attributes', it)
            # the same key twice inside ONE field attribute, next to the field's own (legal) entries
            own = field_attr_metas(f0)
            B = '(bound 1 1)'
            dups = [(own + [B, B], 'bound twice at the end'), (['(bound 1 0)'] + own + ['(bound 0 1)'], 'bound at both ends')]
            if f0['skip']:
                dups += [(own + ['skip'], 'skip twice'), (own + [B, 'skip'], 'skip, bound, skip')]
            else:
                SP, SW = '(schema 1 none)', '(schema 0 (wf 1 1))'
                dups += [(own + [SP, SP], 'schema(params) twice'), ([SW] + own + [B, SW], 'schema(with_funcs) at both ends'),
                         ([SP] + own + [SW], 'schema(params) and schema(with_funcs) as two entries')]
            if f0['with'] is not None:
                dups += [(own + [own[-2]], 'serialize_with again at the end'), ([own[-1]] + own, 'deserialize_with again at the front')]
            elif not f0['skip']:
                SE, DE = '(serwith crate::withfns::any_ser %s)' % tys, '(dewith crate::withfns::any_de %s)' % tys
                dups += [([SE, SE], 'serialize_with twice'), ([DE, B, DE], 'deserialize_with, bound, deserialize_with')]
            for metas, what in dups:
                it = _copy(base)
                f = _get_field(it, path)
                f['attrs_override'] = ['(%s)' % ' '.join(metas)]
                add('repeated-key', where + ' ' + what, it)
    # --- whole-item shapes
    big = {'name': 'Big257', 'kind': 'enum', 'init': False, 'use_disc': None, 'generic': False, 'params': [],
           'variants': [{'name': 'V%d' % i, 'discr': None, 'shape': 'unit', 'fields': [], 'attrs': []} for i in range(257)]}
    add('too-many-variants', '257 unit variants', big)
    big2 = _copy(big)
    big2['use_disc'] = False
    big2['variants'][3] = {'name': 'V3', 'discr': None, 'shape': 'tuple', 'fields': [_f('0', P('u8'))], 'attrs': []}
    add('too-many-variants', '257 variants, use_discriminant = false', big2)
    un = {'name': 'Un', 'kind': 'union', 'init': False, 'use_disc': None, 'generic': False, 'params': [],
          'fields': [_f('a', P('u8')), _f('b', P('u32'))]}
    add('union', 'union', un)
    return out


def controls(bases):
    """Legal items (must compile): the bases, plus legal neighbours of the violations."""
    out = [('c%d' % i, 'base', b) for i, b in enumerate(bases)]
    big = {'name': 'Big256', 'kind': 'enum', 'init': False, 'use_disc': None, 'generic': False, 'params': [],
           'variants': [{'name': 'V%d' % i, 'discr': None, 'shape': 'unit', 'fields': [], 'attrs': []} for i in range(256)]}
    out.append(('c256', '256 variants', big))
    big2 = _copy(big)
    big2['use_disc'] = True
    out.append(('c256d', '256 variants, use_discriminant = true (implicit 0..255)', big2))
    # raw identifiers as field and variant names (95a0033: derive(BorshSchema) panicked on `enum E { r#type }`)
    S = ('text', 'string')
    out.append(('craw_s', 'raw identifiers as field names', {
        'name': 'RawS', 'kind': 'struct', 'shape': 'named', 'init': False, 'use_disc': None, 'generic': False, 'params': [],
        'fields': [_f('r#type', P('u8')), _f('r#match', S, skip=True), _f('r#fn', P('u16'), with_=P('u32')), _f('r#struct', seq('vec', P('u32')))]}))
    out.append(('craw_e', 'raw identifiers as variant and field names', {
        'name': 'RawE', 'kind': 'enum', 'init': False, 'use_disc': None, 'generic': False, 'params': [],
        'variants': [{'name': 'r#type', 'discr': None, 'shape': 'unit', 'fields': [], 'attrs': []},
                     {'name': 'r#match', 'discr': None, 'shape': 'tuple', 'fields': [_f('0', P('u8')), _f('1', S, skip=True)], 'attrs': []},
                     {'name': 'r#loop', 'discr': None, 'shape': 'named', 'fields': [_f('r#fn', P('u16')), _f('r#impl', P('i8'), skip=True)], 'attrs': []},
                     {'name': 'D', 'discr': None, 'shape': 'unit', 'fields': [], 'attrs': []}]}))
    out.append(('craw_d', 'raw identifiers as variant names, use_discriminant = true, init', {
        'name': 'RawD', 'kind': 'enum', 'init': True, 'use_disc': True, 'generic': False, 'params': [],
        'variants': [{'name': 'r#type', 'discr': ('lit', 3), 'shape': 'unit', 'fields': [], 'attrs': []},
                     {'name': 'r#struct', 'discr': None, 'shape': 'named', 'fields': [_f('r#type', P('u16'))], 'attrs': []},
                     {'name': 'r#fn', 'discr': ('bin', 'shl', ('lit', 1), ('lit', 3)), 'shape': 'unit', 'fields': [], 'attrs': []}]}))
    for i, b in enumerate(bases):
        it = _copy(b)
        it['extra_metas'] = ['(crate (str borsh 1))']
        out.append(('cc%d' % i, 'crate = "borsh"', it))
        for path in _field_positions(b)[:3]:
            it = _copy(b)
            f = _get_field(it, path)
            f['attrs_override'] = ['(%s)' % ' '.join(field_attr_metas(f) + ['(bound 1 1)'] + ([] if f['skip'] else ['(schema 1 none)']))]
            out.append(('cb%d_%s' % (i, '_'.join(str(x) for x in path[1:])), 'bound(..)/schema(params) added', it))
        if b['kind'] == 'enum' and b['use_disc'] is None:
            for v in (True, False):
                it = _copy(b)
                it['use_disc'] = v
                it['variants'][-1]['discr'] = ('lit', 255)
                out.append(('cd%d_%s' % (i, v), 'last variant = 255, use_discriminant = %s' % v, it))
    return out


C18_WITHFNS = WITHFNS_RS + '''
pub fn any_ser<T, W: borsh::io::Write>(_x: &T, _w: &mut W) -> borsh::io::Result<()> { Ok(()) }
pub fn any_de<T: Default, R: borsh::io::Read>(_r: &mut R) -> borsh::io::Result<T> { Ok(T::default()) }
'''


# ------------------------------------------------------------------ C06_bounds: generic items with type EXPRESSIONS
# (coq/Generics.v).  A generic item description:
#   {'name', 'kind': 'struct'|'enum', 'params': [(P, default gty | None)], 'tr': {P,..} (inline `P: crate::Tr`),
#    'where': [pred], 'fields': [gfield] | 'variants': [{'name', 'fields'}]}
#   optional: 'lifetimes': ["'a", ..] (written before the type parameters), 'consts': [(N, type)] (written after them),
#             'clone': {P,..} (inline `P: Clone`), 'kinds': the derive kinds that make sense for the item (default: all three;
#             ('ser',) for items with a serialized reference: references have no BorshDeserialize / BorshSchema impl)
#   gfield = {'name', 'skip', 'bser': None|[pred], 'bde': None|[pred], 'sparams': None|[(P, gty)], 'ty': gty}
#   pred   = ('user', gty, [trait path, ...])
#   gty    = ('param', P) | ('path', q|None, qpos, colon, [(ident, args)]) | ('wrap', w, gty) | ('tuple', [gty])
#          | ('fn', [gty], out|None) | ('macro', name, [ident]) | ('other', text)
#   args   = None | ('angle', [('ty', gty) | ('assoc', id, gty) | ('other', text)])
#   w      = ('array', n) | 'slice' | ('ref', lifetime, mut) | ('ptr', mut) | 'paren'
def g_name(n):
    return ('path', None, 0, False, [(s, None) for s in n.split('::')])


def g_app(n, *args):
    segs = [(s, None) for s in n.split('::')]
    segs[-1] = (segs[-1][0], ('angle', [('ty', a) for a in args]))
    return ('path', None, 0, False, segs)


def g_param(p):
    return ('param', p)


def g_assoc(p):
    return ('path', None, 0, False, [(p, None), ('A', None)])


def g_qassoc(p):
    return ('path', ('param', p), 2, False, [('crate', None), ('Tr', None), ('A', None)])


def g_phantom(t):
    return g_app('core::marker::PhantomData', t)


def gty_rust(t):
    k = t[0]
    if k == 'param':
        return t[1]
    if k == 'path':
        _, q, qpos, colon, segs = t
        parts = []
        for ident, args in segs:
            s = ident
            if args is not None:
                s += '<' + ', '.join(gty_rust(a[1]) if a[0] == 'ty' else ('%s = %s' % (a[1], gty_rust(a[2])) if a[0] == 'assoc' else a[1])
                                     for a in args[1]) + '>'
            parts.append(s)
        lead = '::' if colon else ''
        if q is None:
            return lead + '::'.join(parts)
        inside = '::'.join(parts[:qpos])
        rest = '::'.join(parts[qpos:])
        return '<%s%s>::%s' % (gty_rust(q), (' as ' + lead + inside) if qpos else '', rest)
    if k == 'wrap':
        w = t[1]
        if w == 'slice':
            return '[%s]' % gty_rust(t[2])
        if w == 'paren':
            return '(%s)' % gty_rust(t[2])
        if w[0] == 'array':
            return '[%s; %s]' % (gty_rust(t[2]), w[1])
        if w[0] == 'ref':
            return '&%s%s%s' % (w[1] + ' ' if w[1] else '', 'mut ' if w[2] else '', gty_rust(t[2]))
        if w[0] == 'ptr':
            return '*%s %s' % ('mut' if w[1] else 'const', gty_rust(t[2]))
    if k == 'tuple':
        return '(' + ''.join(gty_rust(x) + ', ' for x in t[1]) + ')'
    if k == 'fn':
        return 'fn(%s)%s' % (', '.join(gty_rust(x) for x in t[1]), '' if t[2] is None else ' -> ' + gty_rust(t[2]))
    if k == 'macro':
        return '%s!(%s)' % (t[1], ' '.join(t[2]))
    if k == 'other':
        return t[1]
    raise ValueError(t)


def gty_sexp(t):
    k = t[0]
    if k == 'param':
        return '(param %s)' % t[1]
    if k == 'path':
        _, q, qpos, colon, segs = t

        def args_s(a):
            if a is None:
                return 'none'
            return '(angle %s)' % ' '.join('(ty %s)' % gty_sexp(x[1]) if x[0] == 'ty' else
                                          ('(assoc %s %s)' % (x[1], gty_sexp(x[2])) if x[0] == 'assoc' else '(other %s)' % x[1].replace(' ', ''))
                                          for x in a[1])
        return '(path %s %d %d %s)' % ('none' if q is None else gty_sexp(q), qpos, 1 if colon else 0,
                                       ' '.join('(seg %s %s)' % (i, args_s(a)) for i, a in segs))
    if k == 'wrap':
        w = t[1]
        ws = w if isinstance(w, str) else ('(array %s)' % w[1] if w[0] == 'array' else
                                           '(ptr %d)' % (1 if w[1] else 0) if w[0] == 'ptr' else '(ref %s %d)' % (w[1] or '-', 1 if w[2] else 0))
        return '(wrap %s %s)' % (ws, gty_sexp(t[2]))
    if k == 'tuple':
        return '(tuple %s)' % ' '.join(gty_sexp(x) for x in t[1])
    if k == 'fn':
        return '(fn (%s) %s)' % (' '.join(gty_sexp(x) for x in t[1]), 'none' if t[2] is None else gty_sexp(t[2]))
    if k == 'macro':
        return '(macro %s %s)' % (t[1], ' '.join(t[2]))
    if k == 'other':
        return '(other %s)' % t[1].replace(' ', '')
    raise ValueError(t)


def gpred_rust(p):
    return '%s: %s' % (gty_rust(p[1]), ' + '.join(p[2])) if p[2] else '%s:' % gty_rust(p[1])


def _trait_sexp(tr):
    """a trait bound: a plain path `a::b::C`, or `Name<P>` with one type-parameter argument"""
    if '<' in tr:
        name, arg = tr[:-1].split('<')
        return '(trait 0 (seg %s (angle (ty (param %s)))))' % (name, arg)
    return '(trait 0 %s)' % ' '.join('(seg %s none)' % s for s in tr.split('::'))


def gpred_sexp(p):
    return '(user %s %s)' % (gty_sexp(p[1]), ' '.join(_trait_sexp(tr) for tr in p[2]))


def gty_params(t):
    """the identifiers in type position of a type expression (what rustc counts as a use of a parameter)"""
    k = t[0]
    if k == 'param':
        return {t[1]}
    if k == 'path':
        out = set() if t[1] is None else gty_params(t[1])
        if t[1] is None and not t[3]:
            out.add(t[4][0][0])
        for _, args in t[4]:
            if args is not None:
                for a in args[1]:
                    if a[0] == 'ty':
                        out |= gty_params(a[1])
                    elif a[0] == 'assoc':
                        out |= gty_params(a[2])
        return out
    if k == 'wrap':
        return gty_params(t[2])
    if k == 'tuple':
        return set().union(*[gty_params(x) for x in t[1]]) if t[1] else set()
    if k == 'fn':
        out = set().union(*[gty_params(x) for x in t[1]]) if t[1] else set()
        return out | (gty_params(t[2]) if t[2] is not None else set())
    return set()


def gfield_attr_rust(f):
    parts = []
    if f['skip']:
        parts.append('skip')
    b = []
    if f['bser'] is not None:
        b.append('serialize = "%s"' % ', '.join(gpred_rust(p) for p in f['bser']))
    if f['bde'] is not None:
        b.append('deserialize = "%s"' % ', '.join(gpred_rust(p) for p in f['bde']))
    if b:
        parts.append('bound(%s)' % ', '.join(b))
    if f['sparams'] is not None:
        parts.append('schema(params = "%s")' % ', '.join('%s => %s' % (p, gty_rust(t)) for p, t in f['sparams']))
    return '#[borsh(%s)] ' % ', '.join(parts) if parts else ''


def gfield_sexp(f):
    def preds(l):
        return 'none' if l is None else '(preds %s)' % ' '.join(gpred_sexp(p) for p in l)
    sp = 'none' if f['sparams'] is None else '(params %s)' % ' '.join('(%s %s)' % (p, gty_sexp(t)) for p, t in f['sparams'])
    return '(gfield %s %d %s %s %s %s)' % (f['name'], 1 if f['skip'] else 0, preds(f['bser']), preds(f['bde']), sp, gty_sexp(f['ty']))


def gitem_fields(it):
    return it['fields'] if it['kind'] == 'struct' else [f for v in it['variants'] for f in v['fields']]


def gitem_sexp(it):
    ps = ' '.join(['(lifetime %s)' % l for l in it.get('lifetimes', [])] +
                  ['(type %s %s)' % (p, 'none' if d is None else gty_sexp(d)) for p, d in it['params']] +
                  ['(const %s)' % n for n, _ in it.get('consts', [])])
    w = ' '.join(gpred_sexp(p) for p in it['where'])
    if it['kind'] == 'struct':
        body = '(struct %s)' % ' '.join(gfield_sexp(f) for f in it['fields'])
    else:
        body = '(enum %s)' % ' '.join('(variant %s %s)' % (v['name'], ' '.join(gfield_sexp(f) for f in v['fields'])) for v in it['variants'])
    return '(gitem %s (%s) (%s) %s)' % (it['name'], ps, w, body)


CONST_INST = '2'        # the value const generic parameters are instantiated at by the probes


def gitem_inst(it, tyargs):
    """the generic argument list of an instantiation: lifetimes at 'static, the type parameters at `tyargs`, consts at 2"""
    args = ["'static"] * len(it.get('lifetimes', [])) + list(tyargs) + [CONST_INST] * len(it.get('consts', []))
    return '<%s>' % ', '.join(args) if args else ''


def gitem_kinds(it):
    return tuple(it.get('kinds', ('ser', 'de', 'schema')))


def gitem_rust(it, derives=('BorshSerialize', 'BorshDeserialize', 'BorshSchema')):
    """the definition with the given derives; tuple-shaped when the field names are numbers"""
    def inline(p):
        bs = (['crate::Tr'] if p in it['tr'] else []) + (['Clone'] if p in it.get('clone', ()) else [])
        return ': ' + ' + '.join(bs) if bs else ''
    gen = '<%s>' % ', '.join(list(it.get('lifetimes', [])) +
                             ['%s%s%s' % (p, inline(p), '' if d is None else ' = ' + gty_rust(d)) for p, d in it['params']] +
                             ['const %s: %s' % c for c in it.get('consts', [])])
    if gen == '<>':
        gen = ''
    where = (' where ' + ', '.join(gpred_rust(p) for p in it['where'])) if it['where'] else ''

    def body(fields, vis):
        if not fields:
            return None
        if fields[0]['name'].isdigit():
            return '(' + ', '.join('%s%s%s' % (gfield_attr_rust(f), vis, gty_rust(f['ty'])) for f in fields) + ')'
        return ' { ' + ', '.join('%s%s%s: %s' % (gfield_attr_rust(f), vis, f['name'], gty_rust(f['ty'])) for f in fields) + ' }'
    lines = ['#[derive(%s)]' % ', '.join('borsh::' + d for d in derives)]
    if it['kind'] == 'struct':
        b = body(it['fields'], 'pub ')
        if b is None:
            lines.append('pub struct %s%s%s;' % (it['name'], gen, where))
        elif b.startswith('('):
            lines.append('pub struct %s%s%s%s;' % (it['name'], gen, b, where))
        else:
            lines.append('pub struct %s%s%s%s' % (it['name'], gen, where, b))
    else:
        lines.append('pub enum %s%s%s { %s }' % (it['name'], gen, where, ', '.join(v['name'] + (body(v['fields'], '') or '') for v in it['variants'])))
    return '\n'.join(lines)


SER, DE, SCH = 'borsh::ser::BorshSerialize', 'borsh::de::BorshDeserialize', 'borsh::BorshSchema'


def _gf(name, ty, skip=False, bser=None, bde=None, sparams=None):
    return {'name': name, 'ty': ty, 'skip': skip, 'bser': bser, 'bde': bde, 'sparams': sparams}


def gen_gfield(rng, name, params, it):
    """one field over the parameters; records in it['tr'] which parameters need `: crate::Tr`"""
    P = rng.choice(params)
    Q = rng.choice(params)
    p, q = g_param(P), g_param(Q)
    c = rng.choice(['whole', 'whole', 'vec', 'opt', 'box', 'arr', 'tup', 'nested', 'phantom', 'phantom2', 'assoc', 'assoc_nested',
                    'qassoc', 'hashmap', 'skip', 'skip_nobound', 'skip_fn', 'skip_phantom', 'skip_assoc', 'bound_ser_only',
                    'primary', 'macro', 'concrete', 'concrete', 'paren'])
    if c == 'whole':
        return _gf(name, p)
    if c == 'vec':
        return _gf(name, g_app('Vec', p))
    if c == 'opt':
        return _gf(name, g_app('Option', p))
    if c == 'box':                               # (Box<T>: BorshDeserialize needs T: Clone through ToOwned -- not used)
        return _gf(name, g_app('std::collections::VecDeque', p))
    if c == 'arr':
        return _gf(name, ('wrap', ('array', '2'), p))
    if c == 'paren':
        return _gf(name, ('wrap', 'paren', g_app('Vec', p)))
    if c == 'tup':
        return _gf(name, ('tuple', [p, g_name('u8')]))
    if c == 'nested':
        return _gf(name, ('tuple', [g_name('u16'), g_app('Vec', g_app('Option', q)), p]))
    if c == 'phantom':
        return _gf(name, g_phantom(p))
    if c == 'phantom2':
        return _gf(name, g_phantom(('tuple', [p, g_app('Vec', q)])))
    if c == 'assoc':
        it['tr'].add(P)
        return _gf(name, g_assoc(P))
    if c == 'assoc_nested':                      # not inferred at all: all three need the override
        it['tr'].add(P)
        a = g_assoc(P)
        return _gf(name, g_app('Vec', a), bser=[('user', a, [SER])], bde=[('user', a, [DE])], sparams=[(P, a)])
    if c == 'qassoc':                            # inferred "erroneously" as P: Trait
        it['tr'].add(P)
        a = g_qassoc(P)
        if rng.random() < 0.5:
            return _gf(name, a, bser=[('user', a, [SER])], bde=[('user', a, [DE])], sparams=[(P, a)])
        it['where'].append(('user', a, [SER, DE, SCH]))
        return _gf(name, a)
    if c == 'hashmap':
        return _gf(name, g_app('std::collections::HashMap', p, q),
                   bser=[('user', p, [SER, 'Ord']), ('user', q, [SER])],
                   bde=[('user', p, [DE, 'Ord', 'core::hash::Hash', 'Eq']), ('user', q, [DE])])
    if c == 'skip':
        return _gf(name, g_app('Vec', p), skip=True)
    if c == 'skip_nobound':
        return _gf(name, g_app('Vec', p), skip=True, bde=[])
    if c == 'skip_fn':
        return _gf(name, g_app('Option', ('fn', [p], q)), skip=True)
    if c == 'skip_phantom':
        return _gf(name, g_phantom(p), skip=True)
    if c == 'skip_assoc':
        it['tr'].add(P)
        return _gf(name, g_assoc(P), skip=True)
    if c == 'bound_ser_only':
        return _gf(name, g_app('Vec', p), bser=[('user', p, [SER, 'Clone'])])
    if c == 'primary':
        return _gf(name, g_app('crate::PrimaryMap', p, q), sparams=[(Q, q)])
    if c == 'macro':
        return _gf(name, ('macro', P, []))
    return _gf(name, rng.choice([g_name('u8'), g_name('String'), g_app('Vec', g_name('u16'))]))


def gen_bounds_item(rng, idx):
    n = rng.choice([1, 2, 2, 3])
    params = ['T%d' % i for i in range(n)]
    it = {'name': 'G%d' % idx, 'kind': rng.choice(['struct', 'struct', 'enum']), 'tr': set(), 'where': [],
          'params': [(p, None) for p in params]}
    if n >= 2 and rng.random() < 0.2:           # a defaulted last parameter (`without_defaults`)
        it['params'][-1] = (params[-1], g_name('u8'))
    if it['kind'] == 'struct':
        named = rng.random() < 0.6
        k = rng.choice([1, 2, 3, 4, 5])
        it['fields'] = [gen_gfield(rng, ('f%d' % i) if named else str(i), params, it) for i in range(k)]
    else:
        it['variants'] = []
        for v in range(rng.choice([1, 2, 3])):
            named = rng.random() < 0.5
            k = rng.choice([0, 1, 2, 3])
            it['variants'].append({'name': 'V%d' % v,
                                   'fields': [gen_gfield(rng, ('f%d' % i) if named else str(i), params, it) for i in range(k)]})
    _use_all_params(rng, it, params)
    return it


def _use_all_params(rng, it, params):
    """every parameter must be used by the definition itself (E0392): add a PhantomData field for the unused ones"""
    used = set().union(*[gty_params(f['ty']) for f in gitem_fields(it)]) if gitem_fields(it) else set()
    for p in params:
        if p not in used:
            fs = it['fields'] if it['kind'] == 'struct' else None
            if fs is None:
                if not it['variants'] or (it['variants'][-1]['fields'] and not it['variants'][-1]['fields'][0]['name'].isdigit()):
                    it['variants'].append({'name': 'V%d' % len(it['variants']), 'fields': []})
                fs = it['variants'][-1]['fields']
            named = bool(fs) and not fs[0]['name'].isdigit()
            if it['kind'] == 'enum' and rng.random() < 0.6:     # (a PhantomData-only variant runs into F14 under BorshSchema)
                fs.append(_gf(('ph%d' % len(fs)) if named else str(len(fs)), g_param(p), skip=True))
            else:
                fs.append(_gf(('ph%d' % len(fs)) if named else str(len(fs)), g_phantom(g_param(p))))


def gitem_of_item(it):
    """the generic items of gen_items() as generic item descriptions: parameter positions, skip flags kept;
    concrete field types (which may name other generated items) replaced by u8"""
    def conv(f):
        if f.get('param'):
            how, p = f['param']
            ty = g_param(p) if how == 'whole' else g_app('Vec', g_param(p))
        else:
            ty = g_name('u8')
        name = f['name'] if not f['name'].isdigit() else f['name']
        return _gf(name if name not in RESERVED else name + '_', ty, skip=bool(f['skip']))
    g = {'name': it['name'] + 'G', 'kind': it['kind'], 'tr': set(), 'where': [], 'params': [(p, None) for p, _ in it['params']]}
    if it['kind'] == 'struct':
        g['fields'] = [conv(f) for f in it['fields']]
    else:
        g['variants'] = [{'name': v['name'], 'fields': [conv(f) for f in v['fields']]} for v in it['variants']]
    return g


# ---- second family of shapes: references / slices / raw pointers over a parameter (visitor arms Type::Reference, Type::Slice,
# Type::Ptr), lifetime and const generic parameters (GPLifetime, GPConst: kept by every per-variant inner struct of the
# BorshSchema derive), raw identifiers as field / variant names.  Generated by its own functions and appended to the corpus
# so that the items of the first family stay exactly what they were.
LT = "'a"


def g_cow(t, lt=LT):
    return ('path', None, 0, False, [('std', None), ('borrow', None), ('Cow', ('angle', [('other', lt), ('ty', t)]))])


def g_ref(t, lt=LT):
    return ('wrap', ('ref', lt, False), t)


def g_slice(t):
    return ('wrap', 'slice', t)


def g_ptr(t, mut=False):
    return ('wrap', ('ptr', mut), t)


def _need_lt(it):
    if LT not in it.setdefault('lifetimes', []):
        it['lifetimes'].append(LT)


def _need_const(it):
    if not it.setdefault('consts', []):
        it['consts'].append(('N', 'usize'))


GFIELD2_SHAPES = ['box_slice', 'box_slice', 'vec_box_slice', 'cow_slice', 'cow_str',
                  'skip_ref_slice', 'skip_ref_slice', 'skip_opt_ref', 'skip_ptr', 'skip_ptr', 'skip_ptr_slice',
                  'const_arr', 'const_arr', 'const_arr_u8', 'const_nested']
GFIELD2_REFS = ['ref', 'ref_slice', 'ref_slice', 'ref_tuple']      # serialized references: items derived with BorshSerialize only


def gen_gfield2(rng, name, params, it, refs=False):
    """one field of the second family; records what the item then needs: a lifetime parameter, a const parameter,
    `P: Clone` ([P]: ToOwned, for Box<[P]> / Cow<[P]> to be deserializable), the restriction to BorshSerialize"""
    P = rng.choice(params)
    p = g_param(P)
    c = rng.choice(GFIELD2_REFS if refs and rng.random() < 0.5 else GFIELD2_SHAPES)
    if c == 'box_slice':                         # Type::Slice inside a path argument
        it['clone'].add(P)
        return _gf(name, g_app('Box', g_slice(p)))
    if c == 'vec_box_slice':
        it['clone'].add(P)
        return _gf(name, g_app('Vec', g_app('Box', g_slice(p))))
    if c == 'cow_slice':                         # lifetime argument + Type::Slice
        it['clone'].add(P)
        _need_lt(it)
        return _gf(name, g_cow(g_slice(p)))
    if c == 'cow_str':
        _need_lt(it)
        return _gf(name, g_cow(g_name('str')))
    if c in ('ref', 'ref_slice', 'ref_tuple'):   # a serialized reference: BorshSerialize only
        _need_lt(it)
        it['kinds'] = ('ser',)
        if c == 'ref':
            return _gf(name, g_ref(p))
        if c == 'ref_slice':
            return _gf(name, g_ref(g_slice(p)))
        return _gf(name, ('tuple', [g_ref(p), g_name('u8')]))
    if c == 'skip_ref_slice':                    # `&[T]: Default` exists: legal under all three derives
        _need_lt(it)
        return _gf(name, g_ref(g_slice(p)), skip=True)
    if c == 'skip_opt_ref':
        _need_lt(it)
        return _gf(name, g_app('Option', g_ref(p)), skip=True)
    if c == 'skip_ptr':                          # Type::Ptr: only a skipped field can hold a raw pointer
        return _gf(name, g_app('Option', g_ptr(p, rng.random() < 0.5)), skip=True)
    if c == 'skip_ptr_slice':
        return _gf(name, g_app('Option', g_ptr(g_slice(p))), skip=True)
    if c == 'const_arr':
        _need_const(it)
        return _gf(name, ('wrap', ('array', 'N'), p))
    if c == 'const_arr_u8':
        _need_const(it)
        return _gf(name, ('wrap', ('array', 'N'), g_name('u8')))
    if c == 'const_nested':
        _need_const(it)
        return _gf(name, g_app('Vec', ('wrap', ('array', 'N'), p)))
    raise ValueError(c)


def _names(rng, k, named, prefix):
    """k field / variant names: `f0..` (`V0..`) with some raw identifiers mixed in; numbers for tuple shapes"""
    if not named:
        return [str(i) for i in range(k)]
    raw = list(RAW_IDENTS)
    rng.shuffle(raw)
    return [raw[i] if rng.random() < 0.3 else '%s%d' % (prefix, i) for i in range(k)]


def variant_mentions(v, lt):
    return any(lt in gty_rust(f['ty']) for f in v['fields'])


def gen_bounds_item2(rng, idx):
    n = rng.choice([1, 1, 2, 2, 3])
    params = ['T%d' % i for i in range(n)]
    it = {'name': 'X%d' % idx, 'kind': rng.choice(['struct', 'enum']), 'tr': set(), 'clone': set(), 'where': [],
          'params': [(p, None) for p in params]}
    refs = rng.random() < 0.25            # an item with serialized references (BorshSerialize only)

    def fields(k, named):
        return [gen_gfield2(rng, nm, params, it, refs) if rng.random() < 0.6 else gen_gfield(rng, nm, params, it)
                for nm in _names(rng, k, named, 'f')]
    if it['kind'] == 'struct':
        it['fields'] = fields(rng.choice([1, 2, 3, 4]), rng.random() < 0.6)
    else:
        vnames = _names(rng, rng.choice([1, 2, 3]), True, 'V')
        it['variants'] = [{'name': vn, 'fields': fields(rng.choice([0, 1, 2, 3]), rng.random() < 0.5)} for vn in vnames]
    _use_all_params(rng, it, params)
    if it['kind'] == 'enum' and it.get('lifetimes') and 'schema' in gitem_kinds(it):
        # CANDIDATE FINDING (NOTES-gen.md): the per-variant inner structs of the BorshSchema derive keep EVERY lifetime
        # parameter of the enum (filter_used_params: `Lifetime | Const => true`), so a variant that does not mention the
        # lifetime becomes `struct EB<'a>;` -> E0392 "lifetime parameter `'a` is never used" (BorshSerialize and
        # BorshDeserialize accept the enum).  That shape is kept out of the BorshSchema corpus: either every variant gets
        # a field that mentions the lifetime, or the item is derived without BorshSchema.
        lacking = [v for v in it['variants'] if not variant_mentions(v, LT)]
        if lacking and rng.random() < 0.5:
            it['kinds'] = ('ser', 'de')
            it['candidate'] = 'schema-inner-struct-unused-lifetime'
        else:
            for v in lacking:
                named = bool(v['fields']) and not v['fields'][0]['name'].isdigit()
                v['fields'].append(_gf('lt%d' % len(v['fields']) if named else str(len(v['fields'])), g_cow(g_name('str'))))
    return it


def fixed_bounds_items2():
    """the reviewer's examples and one item per visitor arm / parameter kind, always part of the corpus"""
    T, U = g_param('T0'), g_param('T1')

    def item(name, kind, params, **kw):
        it = {'name': name, 'kind': kind, 'tr': set(), 'clone': set(), 'where': [], 'params': [(p, None) for p in params]}
        it.update(kw)
        return it
    u8 = g_name('u8')
    arrN = lambda t: ('wrap', ('array', 'N'), t)
    return [
        # --- Type::Slice / Type::Reference / Type::Ptr
        item('BoxSliceS', 'struct', ['T0'], clone={'T0'}, fields=[_gf('a', g_app('Box', g_slice(T)))]),
        item('BoxSliceE', 'enum', ['T0', 'T1'], clone={'T0'},
             variants=[{'name': 'A', 'fields': [_gf('0', g_app('Box', g_slice(T)))]}, {'name': 'B', 'fields': [_gf('x', U)]}]),
        item('RefSliceV', 'struct', ['T0'], lifetimes=[LT], kinds=('ser',), fields=[_gf('items', g_ref(g_slice(T)))]),
        item('RefS', 'struct', ['T0', 'T1'], lifetimes=[LT], kinds=('ser',),
             fields=[_gf('x', g_ref(T)), _gf('y', g_app('Vec', g_ref(U))), _gf('z', g_ref(g_name('str')))]),
        item('RefE', 'enum', ['T0'], lifetimes=[LT], kinds=('ser',),
             variants=[{'name': 'A', 'fields': [_gf('0', g_ref(g_slice(T)))]}, {'name': 'B', 'fields': []}]),
        item('SkipRefSliceS', 'struct', ['T0', 'T1'], lifetimes=[LT],
             fields=[_gf('items', g_ref(g_slice(T)), skip=True), _gf('b', U)]),
        item('SkipOptRefT', 'struct', ['T0'], lifetimes=[LT],
             fields=[_gf('0', g_app('Option', g_ref(T)), skip=True), _gf('1', u8)]),
        item('SkipPtrS', 'struct', ['T0', 'T1'],
             fields=[_gf('p', g_app('Option', g_ptr(T)), skip=True), _gf('q', g_app('Option', g_ptr(g_slice(U), True)), skip=True), _gf('r', u8)]),
        item('SkipPtrE', 'enum', ['T0', 'T1'],          # the inner struct of A must declare T0 (found through Type::Ptr)
             variants=[{'name': 'A', 'fields': [_gf('0', g_app('Option', g_ptr(T, True)), skip=True), _gf('1', U)]}, {'name': 'B', 'fields': []}]),
        item('SkipRefE', 'enum', ['T0'], lifetimes=[LT],  # the inner struct of A must declare T0 (Type::Reference, Type::Slice)
             variants=[{'name': 'A', 'fields': [_gf('items', g_ref(g_slice(T)), skip=True), _gf('n', u8)]},
                       {'name': 'B', 'fields': [_gf('0', g_cow(g_name('str')))]}]),
        # --- lifetime / const parameters
        item('ConstE', 'enum', [], consts=[('N', 'usize')],
             variants=[{'name': 'A', 'fields': [_gf('0', arrN(u8))]}, {'name': 'B', 'fields': []}]),
        item('ConstS', 'struct', ['T0'], consts=[('N', 'usize')], fields=[_gf('a', arrN(T)), _gf('b', g_app('Vec', arrN(u8)))]),
        item('ConstTE', 'enum', ['T0', 'T1'], consts=[('N', 'usize')],
             variants=[{'name': 'A', 'fields': [_gf('xs', arrN(T))]}, {'name': 'B', 'fields': [_gf('0', U), _gf('1', arrN(g_name('u16')))]},
                       {'name': 'C', 'fields': []}]),
        item('LifeE', 'enum', [], lifetimes=[LT],
             variants=[{'name': 'A', 'fields': [_gf('0', g_cow(g_name('str')))]}, {'name': 'B', 'fields': [_gf('0', g_cow(g_slice(u8)))]}]),
        item('LifeTE', 'enum', ['T0'], lifetimes=[LT], clone={'T0'},
             variants=[{'name': 'A', 'fields': [_gf('xs', g_cow(g_slice(T)))]}, {'name': 'B', 'fields': [_gf('0', g_cow(g_name('str'))), _gf('1', u8)]}]),
        item('LifeS', 'struct', ['T0'], lifetimes=[LT], clone={'T0'}, fields=[_gf('name', g_cow(g_name('str'))), _gf('xs', g_cow(g_slice(T)))]),
        item('MixE', 'enum', ['T0'], lifetimes=[LT], consts=[('N', 'usize')], clone={'T0'},
             variants=[{'name': 'A', 'fields': [_gf('xs', g_cow(g_slice(T)))]},
                       {'name': 'B', 'fields': [_gf('0', arrN(T)), _gf('1', g_cow(g_name('str')))]}]),
        # the enum of the candidate finding (a variant that does not mention the lifetime): without BorshSchema
        item('LifeUnusedE', 'enum', [], lifetimes=[LT], kinds=('ser', 'de'), candidate='schema-inner-struct-unused-lifetime',
             variants=[{'name': 'A', 'fields': [_gf('0', g_cow(g_name('str')))]}, {'name': 'B', 'fields': []}]),
        # --- raw identifiers
        item('RawE', 'enum', ['T0'],
             variants=[{'name': 'r#type', 'fields': []}, {'name': 'r#match', 'fields': [_gf('r#fn', T), _gf('r#loop', u8, skip=True)]},
                       {'name': 'C', 'fields': [_gf('0', u8)]}]),
        item('RawS', 'struct', ['T0'], fields=[_gf('r#type', g_app('Vec', T)), _gf('r#struct', u8)]),
        item('RawPlainE', 'enum', [], variants=[{'name': 'r#type', 'fields': []}, {'name': 'r#impl', 'fields': [_gf('r#type', u8)]}]),
    ]


FIXED_BOUNDS_ITEMS = None


def fixed_bounds_items():
    """the examples of the rustdoc and of NOTES-derive2.md, always part of the corpus"""
    T, U, V, K = g_param('T0'), g_param('T1'), g_param('T2'), g_param('T0')
    a = g_qassoc('T0')
    out = [
        {'name': 'DocA', 'kind': 'struct', 'tr': set(), 'where': [], 'params': [('T0', None), ('T1', None)],
         'fields': [_gf('x', T), _gf('y', U)]},
        {'name': 'DocASkip', 'kind': 'struct', 'tr': set(), 'where': [], 'params': [('T0', None), ('T1', None)],
         'fields': [_gf('x', T), _gf('y', U, skip=True)]},
        {'name': 'DocHashMapSkip', 'kind': 'struct', 'tr': set(), 'where': [], 'params': [('T0', None), ('T1', None), ('T2', None)],
         'fields': [_gf('0', g_app('std::collections::HashMap', T, U), skip=True, bde=[]), _gf('1', V)]},
        {'name': 'DocQAssoc', 'kind': 'struct', 'tr': {'T0'}, 'where': [], 'params': [('T0', None), ('T1', None)],
         'fields': [_gf('field', a, bser=[('user', a, [SER])], bde=[('user', a, [DE])], sparams=[('T0', a)]), _gf('another', U)]},
        {'name': 'SnapAssoc', 'kind': 'struct', 'tr': {'T1'}, 'where': [], 'params': [('T0', None), ('T1', None)],
         'fields': [_gf('field', g_assoc('T1')), _gf('another', T)]},
        {'name': 'DocPrimary', 'kind': 'struct', 'tr': set(), 'where': [], 'params': [('T0', None), ('T1', None)],
         'fields': [_gf('x', g_app('crate::PrimaryMap', T, U), sparams=[('T1', U)]), _gf('y', g_name('String'))]},
        {'name': 'PhantomS', 'kind': 'struct', 'tr': set(), 'where': [], 'params': [('T0', None)],
         'fields': [_gf('a', g_phantom(T)), _gf('b', g_name('u8'))]},
        {'name': 'PhantomE', 'kind': 'enum', 'tr': set(), 'where': [], 'params': [('T0', None)],
         'variants': [{'name': 'A', 'fields': [_gf('0', g_phantom(T))]}, {'name': 'B', 'fields': [_gf('0', g_name('u8'))]}]},
        {'name': 'F9', 'kind': 'enum', 'noprobe': True, 'tr': set(), 'where': [('user', T, ['Into<T1>'])], 'params': [('T0', None), ('T1', None)],
         'variants': [{'name': 'X', 'fields': [_gf('0', T)]}, {'name': 'Y', 'fields': [_gf('0', U)]}]},
        {'name': 'MacroS', 'kind': 'struct', 'tr': set(), 'where': [], 'params': [('T0', None)],
         'fields': [_gf('mac', ('macro', 'T0', [])), _gf('marker', g_phantom(T))]},
        {'name': 'SkipE', 'kind': 'enum', 'tr': set(), 'where': [], 'params': [('T0', None), ('T1', None)],
         'variants': [{'name': 'A', 'fields': [_gf('0', T, skip=True), _gf('1', g_name('u8'))]},
                      {'name': 'B', 'fields': [_gf('x', g_app('Vec', U))]}, {'name': 'C', 'fields': []}]},
    ]
    return out


def gen_bounds_items(seed, count):
    rng = random.Random(seed * 7919 + 23)
    items = fixed_bounds_items()
    for it in gen_items(seed, 170):
        if it.get('generic'):
            items.append(gitem_of_item(it))
    i = 0
    while len(items) < count:
        items.append(gen_bounds_item(rng, i))
        i += 1
    # the second family (references / slices / pointers, lifetime and const parameters, raw identifiers): appended, own generator
    items += fixed_bounds_items2()
    rng2 = random.Random(seed * 6007 + 41)
    for j in range(max(24, count // 4)):
        items.append(gen_bounds_item2(rng2, j))
    return items
