"""C15  Array decoding neither leaks nor double-drops under failure at any element.

Proof side: Properties/C15.v (theorems about the array-guard machine of ArrayGuard.v,
the transcription of ArrayDropGuard's bookkeeping).  Correspondence: for N = 0..16 (and a
few larger lengths), every failing position, both failure modes (error return, panic),
end of input, and the all-success case, the event trace of an instrumented heap-owning
element type under `<[Tracked; N]>::deserialize_reader` is compared event for event with
the machine's trace (Construct / Drop / Return, outcome, number of element-decoder calls);
nested arrays against the machine composed with itself; the `[u8; N]` fast path against the
obvious answer.  Property oracle (implementation only, independent of the model): computed
from the implementation's own event log - every constructed id is dropped or returned
exactly once inside the call, nothing that was never constructed is dropped, on success all
N ids are returned in order, and after the caller drops the array every id has been
dropped exactly once (no leak, no double drop).  Thorough tier: the same cases under Miri."""
import concurrent.futures as cf
import json
import os
import random
import subprocess
import time
from collections import Counter

from vlib import *  # noqa

PID = 'C15'
NS = list(range(0, 17))
EXTRA_NS = [17, 31, 32, 33, 64]
# lengths around a one-byte counter and well beyond: failing positions sampled (first, around 128 and 256, last)
BIG_NS = [255, 256, 257, 1000]
NEST = [(3, 2), (2, 3), (2, 2), (1, 1), (4, 0), (0, 4)]


# ------------------------------------------------------------------ cases
def line(cid, op, *args):
    return '\t'.join([cid, op, '-', '-'] + [str(a) if str(a) != '' else '-' for a in args])


def scripts_for(total):
    """every failing position x {E, P, end of input} + success (with and without leftover)"""
    out = [('ok', 'o' * total), ('ok+tail', 'o' * total + 'EPo')]
    for j in range(total):
        for m in 'EPIUW':     # E/I/U/W: element decoder errors of different kinds; P: panic
            out.append(('%s@%d' % (m, j), 'o' * j + m + 'o' * (total - 1 - j)))
            # a second failure behind the first one must not be reached
            out.append(('%s@%d+' % (m, j), 'o' * j + m + ('E' if m == 'P' else 'P') * (total - 1 - j)))
        out.append(('eof@%d' % j, 'o' * j))
    return out


def gen_cases(tier, seed):
    """[(cid, op, args, total_elements)]"""
    cases = []
    for n in NS + EXTRA_NS:
        for tag, s in scripts_for(n):
            cases.append(('a%d_%s' % (n, tag), 'arr', [n, s], n))
    for n in BIG_NS:
        cases.append(('a%d_ok' % n, 'arr', [n, 'o' * n], n))
        for j in sorted(set(x for x in (0, 1, 127, 128, 254, 255, 256, 257, n - 2, n - 1) if 0 <= x < n)):
            for m in 'EPI':
                cases.append(('a%d_%s@%d' % (n, m, j), 'arr', [n, 'o' * j + m + 'o' * (n - 1 - j)], n))
            cases.append(('a%d_eof@%d' % (n, j), 'arr', [n, 'o' * j], n))
    for (o, i) in NEST:
        for tag, s in scripts_for(o * i):
            cases.append(('n%dx%d_%s' % (o, i, tag), 'arrnest', [o, i, s], o * i))
    rng = random.Random(seed * 104729 + 15)
    nrand = 4000 if tier == 'thorough' else 600
    for k in range(nrand):
        if rng.random() < 0.8:
            n = rng.choice(NS + EXTRA_NS[:1])
            ln = rng.randint(0, n + 2)
            s = ''.join(rng.choice('ooooooEP') for _ in range(ln))
            cases.append(('r%d' % k, 'arr', [n, s], n))
        else:
            o, i = rng.choice(NEST)
            ln = rng.randint(0, o * i + 2)
            s = ''.join(rng.choice('ooooooooEP') for _ in range(ln))
            cases.append(('r%d' % k, 'arrnest', [o, i, s], o * i))
    return cases


def u8_cases(seed):
    rng = random.Random(seed * 31 + 7)
    out = []
    for n in NS + EXTRA_NS + BIG_NS:
        for tag, ln in (('exact', n), ('tail', n + 3), ('short', n - 1), ('empty', 0)):
            if ln < 0:
                continue
            b = bytes(rng.randrange(256) for _ in range(ln))
            exp = ('ok %s left=%d' % (b[:n].hex() or '-', ln - n)) if ln >= n else 'err InvalidData UnexpectedLength'
            out.append(('u%d_%s' % (n, tag), n, b.hex() or '-', exp))
    return out


# ------------------------------------------------------------------ running, with crash isolation
def _proc(exe, text, timeout=300):
    try:
        p = subprocess.run([exe], input=text, stdout=subprocess.PIPE, stderr=subprocess.PIPE, text=True, env=ENV, timeout=timeout)
        return p.returncode, p.stdout, p.stderr
    except subprocess.TimeoutExpired as e:
        return -999, (e.stdout or b'').decode() if isinstance(e.stdout, bytes) else (e.stdout or ''), 'timeout'


def _parse(out):
    res = {}
    for l in out.split('\n'):
        if l:
            i, _, r = l.partition('\t')
            res[i] = r
    return res


def run_robust(exe, lines, shards=NPROC):
    """One process per shard.  A shard whose process dies (double free, segfault, abort,
    timeout) loses its buffered answers: every unanswered case of it is then re-run in a
    process of its own, and a case whose own process dies gets the result 'died rc=...'.
    Returns ({id: result}, [shard death descriptions])."""
    if not lines:
        return {}, []
    n = max(1, min(shards, len(lines) // 40 + 1))
    parts = [lines[i::n] for i in range(n)]
    res, deaths, redo = {}, [], []
    with cf.ThreadPoolExecutor(max_workers=n) as ex:
        for part, (rc, out, err) in zip(parts, ex.map(lambda p: _proc(exe, '\n'.join(p) + '\n'), parts)):
            got = _parse(out)
            res.update(got)
            if rc != 0:
                deaths.append('rc=%d %s' % (rc, err[-200:].replace('\n', ' ')))
                redo += [l for l in part if l.split('\t', 1)[0] not in got]
    if redo:
        with cf.ThreadPoolExecutor(max_workers=NPROC) as ex:
            for l, (rc, out, err) in zip(redo, ex.map(lambda l: _proc(exe, l + '\n', 60), redo)):
                cid = l.split('\t', 1)[0]
                got = _parse(out)
                if rc != 0:
                    res[cid] = 'died rc=%d %s%s' % (rc, err[-160:].replace('\n', ' ').strip(),
                                                     (' after: ' + got[cid]) if cid in got else '')
                elif cid in got:
                    res[cid] = got[cid]
    return res, deaths


# ------------------------------------------------------------------ the property, on the implementation's own log
def parse_impl(r):
    """'EVENTS OUTCOME calls=K | post=E live=IDS left=N err=K' -> dict, or None"""
    first, sep, rest = r.partition(' | ')
    f = first.split(' ')
    if not sep or len(f) != 3 or not f[2].startswith('calls='):
        return None
    d = {'first': first, 'events': [] if f[0] == '-' else f[0].split(','), 'outcome': f[1], 'calls': int(f[2][6:])}
    for kv in rest.split(' '):
        k, _, v = kv.partition('=')
        d[k] = v
    d['post'] = [] if d.get('post', '-') == '-' else d['post'].split(',')
    return d


def oracle(total, r):
    """Violations of C15 visible in one observation (list of strings; empty = holds)."""
    if r is None:
        return ['no answer from the harness']
    if r.startswith('died') or r.startswith('panic') or r.startswith('harness-error'):
        return ['the process running this case did not survive or the call escaped: ' + r]
    d = parse_impl(r)
    if d is None:
        return ['unparsable observation: ' + r]
    bad = []
    cons, drops_in, ret = [], [], None
    for e in d['events']:
        if e.startswith('C'):
            cons.append(e[1:])
        elif e.startswith('D'):
            drops_in.append(e[1:])
        elif e.startswith('R'):
            if ret is not None:
                bad.append('more than one Return')
            ret = [x for x in e[1:].split('.') if x != '']
    drops_post = [e[1:] for e in d['post'] if e.startswith('D')]
    if '?' in drops_in + drops_post or (ret and '?' in ret):
        bad.append('a destructor ran on (or the caller received) a slot that was never initialised')
    if len(set(cons)) != len(cons):
        bad.append('an id was constructed twice')
    cset = set(cons)
    for x in set(drops_in + drops_post + (ret or [])) - cset - {'?'}:
        bad.append('id %s dropped/returned but never constructed' % x)
    for x in cons:
        inside = drops_in.count(x) + (ret or []).count(x)
        if inside == 0:
            bad.append('id %s neither dropped nor returned when the call ended (leak)' % x)
        elif inside > 1:
            bad.append('id %s disposed of %d times inside the call (dropped %d, returned %d)' % (x, inside, drops_in.count(x), (ret or []).count(x)))
        tot = drops_in.count(x) + drops_post.count(x)
        if tot != 1:
            bad.append('id %s: destructor ran %d times in total' % (x, tot))
    if d['outcome'] == 'returned':
        if ret is None:
            bad.append('success without Return')
        else:
            if len(ret) != total:
                bad.append('success returned %d ids, expected %d' % (len(ret), total))
            if ret != cons:
                bad.append('returned ids %s differ from the constructed ids %s' % (ret, cons))
        if drops_in:
            bad.append('destructors ran inside a successful call: %s' % drops_in)
    else:
        if ret is not None:
            bad.append('Return on a failing call')
    if d.get('live', '-') != '-':
        bad.append('leaked ids: ' + d['live'])
    return bad


SCRIPTED = {'I': 'Interrupted:scripted_interrupted', 'U': 'UnexpectedEof:scripted_eof', 'W': 'WriteZero:scripted_write-zero'}


def script_expect(total, script):
    """What the script itself says the call must report: (outcome, bytes left, err text).
    Independent of the machine: element j reads one byte; 'o' is a value, 'P' a panic, every other
    byte the element decoder's own error, no byte left the crate's "Unexpected length of input"."""
    for j in range(total):
        if j >= len(script):
            return 'failed', 0, 'InvalidData:Unexpected_length_of_input'
        b = script[j]
        if b == 'o':
            continue
        if b == 'P':
            return 'panicked', len(script) - j - 1, '-'
        return 'failed', len(script) - j - 1, SCRIPTED.get(b, 'InvalidData:scripted_error')
    return 'returned', len(script) - total, '-'


def script_oracle(total, script, r):
    """disagreements between the observation and the script's own meaning (error identity, bytes consumed)"""
    d = parse_impl(r or '')
    if d is None:
        return []       # already reported by oracle()
    out, left, err = script_expect(total, script)
    bad = []
    if d['outcome'] != out:
        bad.append('outcome %s, the script says %s' % (d['outcome'], out))
    if d.get('left') != str(left):
        bad.append('%s bytes left unread, the script says %d' % (d.get('left'), left))
    if d.get('err') != err:
        bad.append('error reported to the caller %s, the failing element produced %s' % (d.get('err'), err))
    return bad


def failure_of(cfg, exe, c, r, model, probs):
    cid, op, args, total = c
    l = line(cid, op, *args)
    return {'class': 'array-ownership', 'key': '%s %s' % (op, ' '.join(str(a) or '-' for a in args)),
            'what': 'C15 fails on the implementation [%s]: %s %s: %s' % (cfg, op, ' '.join(str(a) or '-' for a in args), '; '.join(probs[:4])),
            'cfg': cfg, 'op': op, 'args': [str(a) for a in args], 'elements': total,
            'implementation_trace': r, 'machine_trace': model, 'problems': probs,
            'case_line': l, 'replay_cmd': "printf '%s\\n' | %s" % (l.replace('\t', '\\t'), exe)}


def stage(cfg, exe, driver_res, cases):
    """run the cases on one harness build; returns (disagreements, failures, results, deaths)"""
    lines = [line(cid, op, *args) for cid, op, args, _ in cases]
    impl, deaths = run_robust(exe, lines)
    dis, fails = [], []
    for c in cases:
        cid, op, args, total = c
        r = impl.get(cid)
        m = driver_res.get(cid)
        probs = oracle(total, r)
        if probs:
            fails.append(failure_of(cfg, exe, c, r, m, probs))
        first = (r or '').partition(' | ')[0]
        sbad = script_oracle(total, '' if str(args[-1]) == '-' else str(args[-1]), r)
        if sbad:
            dis.append({'what': '%s %s [%s]: %s' % (op, ' '.join(str(a) or '-' for a in args), cfg, '; '.join(sbad)),
                        'case': line(cid, op, *args), 'impl': r, 'cfg': cfg})
        if r is None or first != m:
            dis.append({'what': '%s %s [%s]: implementation "%s", machine "%s"' % (op, ' '.join(str(a) or '-' for a in args), cfg, r, m),
                        'case': line(cid, op, *args), 'impl': r, 'model': m, 'cfg': cfg})
    for dth in deaths:
        if not fails:
            dis.append({'what': 'a harness process died (%s) and no single case reproduces it [%s]' % (dth, cfg), 'cfg': cfg})
    return dis, fails, impl, deaths


# ------------------------------------------------------------------ Miri (supporting validation, thorough tier)
def run_miri(cases, budget_s=2400):
    """Run the arr/arrnest cases under `cargo +nightly miri run` (nostd feature set: fewest
    dependencies).  Returns a dict for evidence and a list of problems."""
    info = {'attempted': True}
    lines = [line(cid, op, *args) for cid, op, args, _ in cases]
    t0 = time.time()
    env = dict(ENV, MIRIFLAGS='-Zmiri-disable-isolation', CARGO_NET_OFFLINE='true')
    cmd = ['timeout', str(budget_s), 'cargo', '+nightly', 'miri', 'run', '--offline', '--features', 'cfg_nostd',
           '--target-dir', CACHE + '/target-miri' + TAG]
    try:
        p = subprocess.run(cmd, cwd=harness_dir(), input='\n'.join(lines) + '\n', stdout=subprocess.PIPE, stderr=subprocess.PIPE,
                           text=True, env=env, timeout=budget_s + 60)
    except Exception as e:  # miri unusable here: not a verdict
        info.update({'usable': False, 'why': repr(e)[:300]})
        return info, []
    info['wall_s'] = round(time.time() - t0, 1)
    got = _parse(p.stdout)
    info['cases'] = len(lines)
    info['answered'] = len([l for l in lines if l.split('\t', 1)[0] in got])
    ub = [l for l in p.stderr.split('\n') if 'Undefined Behavior' in l or 'memory leaked' in l or 'error: ' in l]
    info['rc'] = p.returncode
    info['diagnostics'] = ub[:6]
    problems = []
    if p.returncode != 0 and not got and not ub:
        info.update({'usable': False, 'why': p.stderr[-400:]})
        return info, []
    info['usable'] = True
    if p.returncode != 0 or ub:
        first_missing = next((l for l in lines if l.split('\t', 1)[0] not in got), None)
        problems.append({'what': 'Miri reports a problem (rc=%d): %s; first unanswered case: %s' % (p.returncode, ' | '.join(ub[:3]) or p.stderr[-300:], first_missing),
                         'miri_stderr': p.stderr[-1500:], 'case': first_missing})
    return info, problems


# ------------------------------------------------------------------ the check
def run(tier, seed, t0):
    coq = coq_property(PID)
    driver = ensure_driver()
    cfgs = ['std-strict', 'nostd-strict'] if tier == 'quick' else ['std-strict', 'std-loose', 'nostd-strict', 'nostd-loose']
    exes, disagreements = ensure_harnesses(cfgs)
    cases = gen_cases(tier, seed)
    dlines = [line(cid, op, *args) for cid, op, args, _ in cases]
    model = run_cases(driver, dlines)
    # what the machine says about the two classic mistakes on the same scripts (for the evidence)
    full = run_cases(driver, [line('f1', 'arrfull', 'as-written', 3, 'oEo'), line('f2', 'arrfull', 'incr-first', 3, 'oEo'),
                              line('f3', 'arrfull', 'no-reset', 2, 'oo'), line('f4', 'arrfull', 'as-written', 2, 'oo')])
    failures = []
    stats = {'evaluations': 0, 'configs': list(exes), 'samples': [], 'lengths': NS + EXTRA_NS, 'nested_shapes': ['[[T;%d];%d]' % (i, o) for o, i in NEST]}
    outcomes = Counter()
    per_len = Counter()
    ucases = u8_cases(seed)
    deaths_total = 0
    for cfg, exe in exes.items():
        dis, fails, impl, deaths = stage(cfg, exe, model, cases)
        disagreements += dis
        failures += fails
        deaths_total += len(deaths)
        stats['evaluations'] += len(cases)
        for cid, op, args, total in cases:
            d = parse_impl(impl.get(cid) or '')
            if d:
                outcomes[d['outcome'] + (':' + d['err'] if d['outcome'] == 'failed' else '')] += 1
                if op == 'arr':
                    per_len[args[0]] += 1
        ures = run_cases(exe, [line(cid, 'arru8', n, h) for cid, n, h, _ in ucases])
        stats['evaluations'] += len(ucases)
        for cid, n, h, exp in ucases:
            if ures.get(cid) != exp:
                disagreements.append({'what': '[u8; %d] fast path on %s [%s]: implementation "%s", expected "%s"' % (n, h, cfg, ures.get(cid), exp), 'cfg': cfg})
        if not stats['samples']:
            want = ['a3_E@1', 'a3_P@2', 'a3_ok', 'a3_eof@1', 'a0_ok', 'a16_P@15', 'n3x2_E@3', 'n3x2_ok']
            bycid = {c[0]: c for c in cases}
            stats['samples'] = [{'case': '%s %s' % (bycid[w][1], ' '.join(str(a) or '-' for a in bycid[w][2])),
                                 'implementation': impl.get(w), 'machine': model.get(w)} for w in want if w in bycid]
    stats['outcome_classes'] = dict(outcomes)
    stats['cases_per_config'] = len(cases)
    stats['u8_fast_path_cases_per_config'] = len(ucases)
    stats['arr_cases_per_length_all_configs'] = {str(k): v for k, v in sorted(per_len.items())}
    stats['harness_process_deaths'] = deaths_total
    stats['machine_on_the_two_classic_mistakes'] = full
    stats['distinct_nontrivial'] = len(set((op, tuple(args)) for _, op, args, tot in cases if tot > 0))
    # the flat machine is the extracted ArrayGuard.deserialize; a nested array is two runs of it composed by the driver
    # (ocaml/ops_array.ml: nest) - no Coq definition and no theorem of its own, so those cases count as judged by the
    # implementation-only oracle plus a driver-side composition, not as validation of the proved model
    flat = sum(1 for _, op, _, _ in cases if op == 'arr')
    stats['traces_validated_against_impl'] = flat * len(exes)
    stats['nested_cases_judged_by_oracle_and_composed_machine'] = (len(cases) - flat) * len(exes)
    stats['rule'] = ('for every length N in 0..16 and 17,31,32,33,64 and every nested shape: all-success (with and without leftover input), '
                     'every failing position j<N x {error, panic} (with and without a second failure behind it), end of input at every j<N; '
                     'plus seeded random scripts; non-trivial = at least one element; every case is compared with the machine AND judged by the '
                     'implementation-only oracle')
    # coverage floors: a run that did not exercise all three outcomes at every length is a broken check
    if exes:
        need = {'returned', 'panicked'}
        if not need <= set(k.split(':')[0] for k in outcomes) or not any(k.startswith('failed') for k in outcomes):
            disagreements.append({'what': 'coverage floor missed: outcome classes seen %s' % dict(outcomes)})
        for n in NS:
            if per_len.get(n, 0) < (2 if n == 0 else 3 * n):
                disagreements.append({'what': 'coverage floor missed: only %d cases for length %d' % (per_len.get(n, 0), n)})
    if tier == 'thorough':
        mcases = [c for c in cases if not c[0].startswith('r')][:1200] + [c for c in cases if c[0].startswith('r')][:300]
        info, problems = run_miri(mcases)
        stats['miri'] = info
        disagreements += problems
    else:
        stats['miri'] = {'attempted': False, 'why': 'thorough tier only'}

    def search():
        found = []
        for cfg, exe in exes.items():
            for s2 in range(1, 4):
                more = gen_cases('thorough', seed * 1000 + s2)
                impl, _ = run_robust(exe, [line(cid, op, *args) for cid, op, args, _ in more])
                for c in more:
                    probs = oracle(c[3], impl.get(c[0]))
                    if probs:
                        found.append(failure_of(cfg, exe, c, impl.get(c[0]), None, probs))
                if found:
                    return found
        return found

    # report the smallest failing case first, each (case, configuration) once
    failures.sort(key=lambda f: (f['elements'], len(f['args'][-1]), f['key'], f['cfg']))
    seen, uniq = set(), []
    for f in failures:
        if (f['key'], f['cfg']) not in seen:
            seen.add((f['key'], f['cfg']))
            uniq.append(f)
    failures = uniq
    return conclude(PID, tier, seed, t0, coq, stats, disagreements, failures, search,
                    level_note='theorem about the Gallina transcription of ArrayDropGuard\'s bookkeeping (slots, init_count, drop range, read); '
                               'tie to the Rust code by comparing event traces of an instrumented element type on this run',
                    extra_assumptions=[
                        'memory safety of the real pointer casts (MaybeUninit::uninit().assume_init() of an array of MaybeUninit, '
                        'drop_in_place on the reinterpreted slice, ptr::read of the buffer as [T; N]) is outside Gallina: the machine '
                        'models ownership of slots, not memory; Miri (thorough tier) and the trace comparison are supporting validation',
                        'the element decoder is an arbitrary script of {value, error, panic}; an element destructor that itself panics is not modelled',
                        'the [u8; N] fast path (array_from_reader) involves no guard and is only sanity-checked',
                    ])


def replay(path):
    d = json.load(open(path))
    f = d.get('failure')
    print(json.dumps(f or d.get('broken'), indent=1))
    if f and f.get('case_line'):
        exes, _ = ensure_harnesses([f.get('cfg', 'std-strict')])
        for cfg, exe in exes.items():
            res, deaths = run_robust(exe, [f['case_line']])
            r = res.get(f['case_line'].split('\t', 1)[0])
            probs = oracle(f.get('elements', 0), r)
            print('now [%s]: %s' % (cfg, r))
            print('property on this observation: %s' % ('; '.join(probs) if probs else 'holds'))
            return 1 if probs else 0
    return 0
