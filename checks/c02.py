"""C02  Encoded bytes equal the Borsh specification encoding.

Proof side: Properties/C02.v -- the model of the code produces the bytes of the independent
reference encoder coq/Spec.v (`spec_enc`, written from the Borsh specification) and refuses
exactly the values `refusable` describes, always with InvalidData.

Correspondence: for every catalogue type and generated value, implementation bytes / error ==
model `enc` on the representation the implementation reports.

Property oracle (does not involve the model of the code): implementation bytes == the
EXTRACTED reference encoder on the logical value (`specenc`), and the implementation refuses
<-> `refusable`, with kind InvalidData.  Plus the one reachable ">= 2^32 elements" case: a
`&[Z]` slice of a zero-sized Z of length 2^32 (built without memory) must be refused with
InvalidData, 2^32-1 must encode to ff ff ff ff; compared with the model's `emit_len` clause
and with theorem C02_too_long_slice."""
import random
from collections import Counter

from codec import *  # noqa

PID = 'C02'


def constructors(t, acc):
    k = t[0]
    if k == 'seq':
        acc['seq:' + t[1]] += 1
    elif k == 'wrap':
        acc['wrap:' + t[1]] += 1
    elif k in ('prod', 'sum'):
        kind = t[1] if isinstance(t[1], str) else t[1][0]
        acc[k + ':' + kind] += 1
    elif k == 'prim':
        acc['prim:' + t[1]] += 1
    else:
        acc[k] += 1
    for c in children(t):
        constructors(c, acc)


def oracle(driver, recs, cfg):
    """Implementation against the extracted reference encoder and `refusable`."""
    run = [r for r in recs if r['status'] == 'run']
    spec = run_cases(driver, [case_line(r['cid'], 'specenc', r['tid'], r['type'], r['repr']) for r in run])
    refu = run_cases(driver, [case_line(r['cid'], 'refusable', r['tid'], r['type'], r['repr']) for r in run])
    fails = []
    n = Counter()

    def fail(r, cls, what, s, rf):
        line = case_line(r['cid'], 'enc', r['tid'], r['type'], r['gen'])
        fails.append({'class': cls, 'key': '%s %s' % (r['type'], r['repr']),
                      'what': '%s: type %s value %s: implementation %s, reference encoder %s, refusable %s [%s]'
                              % (what, r['type'], r['repr'], r['impl'], s, rf, cfg),
                      'type': r['type'], 'value': r['repr'], 'generated': r['gen'], 'impl': r['impl'], 'spec': s,
                      'refusable': rf, 'cfg': cfg,
                      'replay_cmd': "printf '%s\\n' | <harness-%s>   # then: printf '%s\\n' | <driver>"
                                    % (line, cfg, case_line(r['cid'], 'specenc', r['tid'], r['type'], r['repr']))})

    for r in run:
        impl = r['impl']
        s = spec.get(r['cid'])
        rf = refu.get(r['cid'])
        if s is None or rf not in ('0', '1') or s.startswith('driver-error'):
            fails.append({'class': 'oracle-broken', 'key': r['cid'], 'what': 'reference encoder gave no answer for %s %s: %s / %s' % (r['type'], r['repr'], s, rf)})
            continue
        p = impl.split(' ')
        if p[0] == 'ok':
            n['encoded'] += 1
            if s != 'some ' + p[1]:
                fail(r, 'spec-bytes', 'bytes differ from the specification encoding', s, rf)
            elif rf != '0':
                fail(r, 'encoded-refusable', 'a value the format cannot represent was encoded', s, rf)
            if len(p[1]) > 2:
                n['encoded-nontrivial'] += 1
        elif p[0] == 'err':
            n['refused:' + p[2].split(':')[0]] += 1
            if rf != '1':
                fail(r, 'refused-representable', 'a representable value was refused', s, rf)
            elif p[1] != 'InvalidData':
                fail(r, 'refusal-kind', 'refusal with a kind other than InvalidData', s, rf)
        else:
            fail(r, 'no-result', 'neither bytes nor an error', s, rf)
    return fails, n


BIG = [('unit', 0), ('unit', 1), ('phantom', 70000), ('arr0', 65536), ('unit', 2 ** 32 - 1), ('unit', 2 ** 32), ('phantom', 2 ** 32),
       ('arr0', 2 ** 32), ('unit', 2 ** 32 + 1), ('phantom', 2 ** 40), ('arr0', 2 ** 63), ('unit', 2 ** 64 - 1)]


def big_slices(exe, driver, cfg):
    """&[Z] of a zero-sized Z: the length prefix clause, up to and beyond 2^32."""
    lines = [case_line('z%d' % i, 'zstslice', '-', '-', kind, n) for i, (kind, n) in enumerate(BIG)]
    dl = [case_line('z%d' % i, 'emitlen', '-', '-', n) for i, (kind, n) in enumerate(BIG)]
    impl = run_cases(exe, lines, shards=len(lines))
    model = run_cases(driver, dl)
    dis, fails, rows = [], [], []
    for i, (kind, n) in enumerate(BIG):
        a, m = impl.get('z%d' % i), model.get('z%d' % i)
        rows.append({'elem': kind, 'len': n, 'impl': a, 'model_emit_len': m})
        if a != m:
            dis.append({'what': '&[%s] of length %d: implementation %s, model length clause %s [%s]' % (kind, n, a, m, cfg)})
        want = 'err InvalidData' if n >= 2 ** 32 else 'ok ' + (n.to_bytes(4, 'little').hex())
        # below 2^32: exactly the four prefix bytes (zero-sized elements add nothing); at or above: a refusal with InvalidData
        if a is None or (a != want if n < 2 ** 32 else not a.startswith(want)):
            fails.append({'class': 'length-prefix', 'key': 'zstslice %s %d' % (kind, n),
                          'what': 'a slice of %d zero-sized elements: expected %s, implementation %s [%s]' % (n, want, a, cfg),
                          'replay_cmd': "printf '%s\\n' | <harness-%s>" % (lines[i], cfg)})
    return dis, fails, rows


def big_collections(exe, cfg):
    """Collections of 257, 300 and 70001 elements of every kind that writes its own length prefix (implementation only: the
    model's insertion sort is quadratic): the prefix is the element count on four little-endian bytes, the length is
    prefix + elements, the value round-trips, sorted and hashed kinds are written in ascending order."""
    kinds = [('btreeset', 4, True), ('hashset', 4, True), ('indexset', 4, False), ('list', 4, False), ('deque', 4, False),
             ('btreemap', 5, True), ('hashmap', 5, True), ('indexmap', 5, False)]
    ns = [257, 300, 70001]       # coprime with the scrambling multiplier: exactly n distinct elements
    lines = [case_line('q%s%d' % (k, n), 'bigcoll', '-', '-', k, n) for k, _, _ in kinds for n in ns]
    impl = run_cases(exe, lines, shards=4)
    fails, rows = [], []
    for k, w, srt in kinds:
        for n in ns:
            a = impl.get('q%s%d' % (k, n)) or ''
            f = dict(x.split('=', 1) for x in a.split(' ')[1:] if '=' in x)
            rows.append({'kind': k, 'elements': n, 'impl': a})
            ok = (a.startswith('ok ') and f.get('prefix') == n.to_bytes(4, 'little').hex() and f.get('len') == str(4 + w * n)
                  and f.get('rt') == 'same' and (not srt or f.get('elems') == 'ascending'))
            if not ok:
                fails.append({'class': 'length-prefix', 'key': 'bigcoll %s %d' % (k, n),
                              'what': 'a %s of %d elements: expected prefix %s, %d bytes, a round trip%s; implementation: %s [%s]'
                                      % (k, n, n.to_bytes(4, 'little').hex(), 4 + w * n, ' and ascending entries' if srt else '', a, cfg),
                              'replay_cmd': "printf 'q\\tbigcoll\\t-\\t-\\t%s\\t%d\\n' | <harness-%s>" % (k, n, cfg)})
    return fails, rows


def huge_seqs(exe, cfg):
    """thorough tier: Vec<u8> / VecDeque<u8> / Box<[u8]> / &[u8] of exactly 2^32 elements (one child each, ~4 GiB of
    untouched zero pages): every one of the length-prefix clauses that can be reached with a real value must refuse."""
    kinds = ['vec', 'deque', 'boxslice', 'slice']
    impl = run_cases(exe, [case_line('g%d' % i, 'hugeseq', '-', '-', k) for i, k in enumerate(kinds)], shards=2)
    fails, rows = [], []
    for i, k in enumerate(kinds):
        a = impl.get('g%d' % i)
        rows.append({'kind': k, 'len': 2 ** 32, 'impl': a})
        if a is None or not a.startswith('err InvalidData'):
            fails.append({'class': 'length-prefix', 'key': 'hugeseq ' + k,
                          'what': 'a %s of 2^32 bytes has no encoding (the length does not fit the u32 prefix): expected a refusal with InvalidData, implementation %s [%s]' % (k, a, cfg),
                          'replay_cmd': "printf 'g\\thugeseq\\t-\\t-\\t%s\\n' | <harness-%s>" % (k, cfg)})
    return fails, rows


def run(tier, seed, t0):
    coq = coq_property(PID)
    driver = ensure_driver()
    cfgs = ['std-strict', 'nostd-strict'] if tier == 'quick' else ['std-strict', 'std-loose', 'nostd-strict', 'nostd-loose']
    exes, disagreements = ensure_harnesses(cfgs)
    tmap = dict(catmod.catalogue_types())
    failures = []
    stats = {'evaluations': 0, 'configs': list(exes), 'samples': [], 'big_slices': {}}
    classes = Counter()
    cons = Counter()
    distinct = set()
    for cfg, exe in exes.items():
        flt = (lambda t: not needs_std(t)) if cfg.startswith('nostd') else None
        cases = gen_enc_cases(seed, tier, flt)
        recs = stage_enc(cfg, exe, driver, cases)
        stats['evaluations'] += len(recs)
        for r in recs:
            if r['status'] == 'run' and not r['agree']:
                disagreements.append({'what': 'enc %s %s: impl %s, model %s [%s]' % (r['type'], r['repr'], r['impl'], r['model'], cfg), **r})
            if r['status'] in ('missing', 'bad'):
                disagreements.append({'what': 'harness gave no answer for %s %s: %s' % (r['type'], r['gen'], r.get('impl')), **r})
            if r['status'] == 'run':
                constructors(tmap[r['tid']], cons)
                if r['impl'].startswith('ok') and len(r['impl']) > 4:
                    distinct.add((r['type'], r['repr']))
            else:
                classes[r['status']] += 1
        f, n = oracle(driver, recs, cfg)
        failures += f
        classes.update(n)
        stats['evaluations'] += sum(1 for r in recs if r['status'] == 'run')
        d, f, rows = big_slices(exe, driver, cfg)
        disagreements += d
        failures += f
        stats['big_slices'][cfg] = rows
        stats['evaluations'] += len(rows)
        if cfg == 'std-strict':
            f, rows = big_collections(exe, cfg)
            failures += f
            stats['big_collections'] = rows
            stats['evaluations'] += len(rows)
        if tier != 'quick' and cfg == 'std-strict':
            f, rows = huge_seqs(exe, cfg)
            failures += f
            stats['huge_byte_collections'] = rows
            stats['evaluations'] += len(rows)
        if not stats['samples']:
            stats['samples'] = [{'type': r['type'], 'value': r['repr'], 'impl': r['impl']} for r in recs[7:400:55] if r['status'] == 'run']
    stats['result_classes'] = dict(classes)
    stats['constructor_occurrences'] = dict(cons)
    stats['distinct_nontrivial'] = len(distinct)
    stats['rule'] = ('catalogue of %d concrete Rust types x generated values (NaN bit patterns, boundary integers, empty/one/many '
                     'collections, zero-sized element collections); oracle = extracted Spec.spec_enc on Ty.logical of the representation the '
                     'implementation reports, and Spec.refusable; a case is non-trivial when it encodes to at least one byte' % len(tmap))
    stats['traces_validated_against_impl'] = stats['evaluations']
    floors = []
    if classes['refused:NaNSer'] < 5 or classes['refused:Zst'] < 5 or classes['encoded-nontrivial'] < 500:
        floors.append({'what': 'generator floor missed: %s' % dict(classes)})
    disagreements += floors

    def search():
        found = []
        for cfg, exe in exes.items():
            for s2 in range(1, 4):
                flt = (lambda t: not needs_std(t)) if cfg.startswith('nostd') else None
                cases = gen_enc_cases(seed * 1000 + s2, 'thorough', flt)
                recs = stage_enc(cfg, exe, driver, cases)
                f, _ = oracle(driver, recs, cfg)
                found += f
                if found:
                    return found
        return found

    return conclude(PID, tier, seed, t0, coq, stats, disagreements, failures, search,
                    level_note='theorem about the Gallina model against an independent Gallina reference encoder; tie to the Rust code by '
                               'differential execution on this run; the property oracle compares the implementation with the extracted '
                               'reference encoder directly',
                    extra_assumptions=['a mutably borrowed RefCell (refused with "already mutably borrowed") is a program state, not a value: '
                                       'outside the theorem and never produced by the harness',
                                       'collections of 2^32 or more elements that occupy memory are not constructed; the length clause is '
                                       'exercised through zero-sized slices and proved for all lengths (C02_refuses, C02_too_long_slice)'])


def replay(path):
    import json
    d = json.load(open(path))
    print(json.dumps(d.get('failure') or d.get('broken'), indent=1))
    return 0
