"""C04  Decoder accepts exactly the valid encodings (bijective in strict mode).

Proof side: Properties/C04.v.  Correspondence (strict and loose builds): (a) bounded-exhaustive
short byte strings for every catalogue type whose smallest encoding is short, (b) encodings of
the same elements in arbitrary order / with repeats fed to the ordered, hashed and indexed
collection types, (c) single-byte corruptions of valid encodings: accept/reject, decoded value,
leftover and message class of the implementation vs the model.  Oracles (implementation only):
strict build: an accepted input re-serializes to exactly the bytes consumed; loose vs strict
build on the same input: same result, or strict fails with the key-order error."""
import itertools
import random
from collections import Counter

from codec import *  # noqa
from values import gen_val, show

PID = 'C04'
ALPHA = ['00', '01', '02', '7f', '80', 'ff']


def short_strings(maxlen):
    out = ['']
    out += ['%02x' % b for b in range(256)]
    for n in range(2, maxlen + 1):
        out += [''.join(p) for p in itertools.product(ALPHA, repeat=n)]
    return out


def has_index(t):
    return any(s[0] == 'seq' and s[1] in ('indexset', 'indexmap') for s in subterms(t))


def keyed_as_vec(t):
    """For a keyed collection type: the Vec type with the same element type (its wire format
    without the ordering/uniqueness requirement)."""
    if t[0] == 'seq' and t[1] in SET_KINDS + MAP_KINDS:
        return ('seq', 'vec', t[2])
    return None


def run(tier, seed, t0):
    coq = coq_property(PID)
    driver = ensure_driver()
    cfgs = ['std-strict', 'std-loose'] if tier == 'quick' else ['std-strict', 'std-loose', 'nostd-strict', 'nostd-loose']
    exes, disagreements = ensure_harnesses(cfgs)
    failures = []
    stats = {'evaluations': 0, 'configs': list(exes), 'samples': []}
    classes = Counter()
    distinct = set()
    rng = random.Random(seed * 41 + 9)
    tmap = dict(catmod.catalogue_types())
    maxlen = 3 if tier == 'quick' else 4
    strings = short_strings(maxlen)
    # inputs, built once (shared by all configurations so that builds can be compared)
    inputs = []   # (cid, tid, t, hex, kind)
    small = [(tid, t) for tid, t in tmap.items() if can_de(t) and not unbounded_on_hostile_input(t) and wire_min(t) <= maxlen]
    if tier == 'quick':
        small = small[::2]
    for tid, t in small:
        for i, h in enumerate(strings):
            inputs.append(('x%d_%d' % (tid, i), tid, t, h, 'exhaustive'))
    # keyed collections fed with unsorted / repeated entries (bytes produced by the model's Vec encoder)
    vec_lines, vec_meta = [], {}
    for tid, t in tmap.items():
        vt = keyed_as_vec(t)
        if vt is None or not can_de(t) or mem_zst(t[2][2][0] if t[1] in MAP_KINDS else t[2]):
            continue
        for j in range(6 if tier == 'quick' else 24):
            v = gen_val(vt, rng, 5)
            if rng.random() < 0.5 and len(v[1]) >= 1:
                v = ('l', v[1] + [rng.choice(v[1])])
            cid = 'k%d_%d' % (tid, j)
            vec_lines.append(case_line(cid, 'enc', '-', sexp(vt), show(v)))
            vec_meta[cid] = (tid, t)
    for cid, r in run_cases(driver, vec_lines).items():
        if r.startswith('ok '):
            tid, t = vec_meta[cid]
            inputs.append((cid, tid, t, r.split(' ')[1].replace('-', ''), 'keyed'))
    per_cfg = {}
    for cfg, exe in exes.items():
        flt = (lambda t: not needs_std(t)) if cfg.startswith('nostd') else (lambda t: True)
        cases = [(cid, tid, t, 'deserialize', h) for cid, tid, t, h, kind in inputs if flt(t)]
        # corruptions of valid encodings (per configuration: hash iteration order differs)
        recs, good = encodings(cfg, exe, driver, seed, 'quick', flt if cfg.startswith('nostd') else None)
        for gi, (r, t, h) in enumerate(good):
            if len(h) > 400:
                continue
            for ci, cor in enumerate(corruptions(h, rng, 4 if tier == 'quick' else 12)):
                cases.append(('c%d_%d' % (gi, ci), r['tid'], t, 'deserialize', cor))
        # encodings longer than the decoder's 1 MiB first chunk: exact, followed by two bytes, cut by one byte
        long_expect = {}
        for gi, (r, t, h) in enumerate(good):
            if len(h) <= 2 * (1 << 20):
                continue
            for tag, mode, inp, want in (('a', 'try_from_slice', h + '6162', 'err'), ('b', 'try_from_slice', h, 'ok'),
                                         ('c', 'deserialize', h + '6162', 'ok'), ('d', 'try_from_slice', h[:-2], 'err')):
                cases.append(('L%d_%s' % (gi, tag), r['tid'], t, mode, inp))
                long_expect['L%d_%s' % (gi, tag)] = want
        stats['long_encodings'] = stats.get('long_encodings', 0) + len(long_expect) // 4
        kindof = {cid: kind for cid, _, _, _, kind in inputs}
        drecs = stage_decm(cfg, exe, driver, cases)
        for r in drecs:
            want = long_expect.get(r['cid'])
            if want and not (r['impl'] or 'missing').startswith(want):
                failures.append({'class': 'long-encoding', 'key': '%s %s %d' % (r['type'], r['cid'][-1], len(r['input']) // 2),
                                 'what': 'an encoding of %d bytes of %s %s: %s gives %s [%s]' % (
                                     len(r['input']) // 2 - {'a': 2, 'c': 2, 'd': -1}.get(r['cid'][-1], 0), r['type'],
                                     {'a': 'followed by two more bytes must be refused', 'b': 'must be accepted', 'c': 'followed by two more bytes must decode and leave them',
                                      'd': 'cut by its last byte must be refused'}[r['cid'][-1]], r['mode'], (r['impl'] or 'missing')[:120], cfg),
                                 'type': r['type'], 'input_len': len(r['input']) // 2, 'cfg': cfg,
                                 'input': 'the implementation\'s own encoding of the big case of this type (lib/codec.py gen_big_cases, seed %d)%s' % (
                                     seed, {'a': ' + 6162', 'c': ' + 6162', 'd': ' minus its last byte', 'b': ''}[r['cid'][-1]])})
        stats['evaluations'] += len(drecs)
        per_cfg[cfg] = {r['cid']: r for r in drecs}
        acc = [r for r in drecs if (r['impl'] or '').startswith('ok')]
        # oracle 1 (strict builds): accepted => re-encodes to the consumed bytes
        if CONFIGS[cfg][1]:
            ol = [case_line(r['cid'], 'dre', r['tid'], r['type'], r['input'] or '-') for r in acc]
            ores = run_cases(exe, ol)
            stats['evaluations'] += len(ol)
            # the known finding F8 is specific: an index collection collapses repeated entries.  A mismatch is classed as F8
            # only when (a) the type has an index collection, (b) the re-encoding is strictly shorter than what was consumed,
            # (c) the decoded value is the one the MODEL decodes, and (d) the re-encoding is the MODEL's encoding of that
            # value - i.e. exactly the collapse the model predicts; anything else on such a type is a new violation
            cand = {}
            for r in acc:
                o = ores.get(r['cid'])
                if o is not None and o.startswith('diff ') and has_index(tmap[r['tid']]) and r['agree']:
                    parts = o.split(' ')
                    if len(parts) == 3 and len(parts[2]) < len(parts[1]):
                        cand[r['cid']] = (r, parts[2])
            menc = run_cases(driver, [case_line(cid, 'enc', r['tid'], r['type'], r['impl'][3:].rsplit(' ', 1)[0]) for cid, (r, _) in cand.items()])
            f8 = {cid for cid, (r, again) in cand.items() if (menc.get(cid) or '').replace('-', '') == 'ok ' + again}
            for r in acc:
                o = ores.get(r['cid'])
                if o is None or not o.startswith('ok same'):
                    t = tmap[r['tid']]
                    cls = 'index-duplicates' if r['cid'] in f8 else 'strict-not-bijective'
                    sh = lambda x: x if len(str(x)) <= 400 else '%s... (%d characters)' % (str(x)[:120], len(str(x)))
                    failures.append({'class': cls, 'key': '%s %s' % (r['type'], sh(r['input'])),
                                     'what': 'strict mode accepted an input that does not re-serialize to itself: %s on %s -> %s; re-encode: %s [%s]' % (r['type'], sh(r['input']), sh(r['impl']), sh(o), cfg),
                                     'type': r['type'], 'input': sh(r['input']), 'result': sh(r['impl']), 'reencode': sh(o), 'cfg': cfg})
        for r in drecs:
            impl = r['impl'] or 'missing'
            classes[kindof.get(r['cid'], 'corrupt') + ':' + error_class(impl)] += 1
            if impl.startswith('ok'):
                distinct.add((r['type'], r['input']))
            if not r['agree']:
                disagreements.append({'what': 'deserialize %s on %s: impl %s, model %s [%s]' % (r['type'], r['input'], impl, r['model'], cfg), **r})
        if not stats['samples']:
            stats['samples'] = [{'type': r['type'], 'input': r['input'], 'result': r['impl']} for r in acc[5:4000:397]]
    # oracle 2: loose vs strict build on the same inputs
    for fam in ('std', 'nostd'):
        s_, l_ = per_cfg.get(fam + '-strict'), per_cfg.get(fam + '-loose')
        if not s_ or not l_:
            continue
        for cid, rl in l_.items():
            rs = s_.get(cid)
            if rs is None or not cid.startswith(('x', 'k')):
                continue
            a, b = rl['impl'] or 'missing', rs['impl'] or 'missing'
            stats['evaluations'] += 1
            if a != b and b != 'err InvalidData KeyOrder':
                failures.append({'class': 'loose-strict', 'key': '%s %s' % (rl['type'], rl['input']),
                                 'what': 'loose and strict builds differ by more than key order: %s on %s: loose %s, strict %s' % (rl['type'], rl['input'], a, b)})
            if b.startswith('ok') and a != b:
                failures.append({'class': 'loose-strict', 'key': '%s %s' % (rl['type'], rl['input']),
                                 'what': 'strict accepted what loose does not accept identically: %s on %s' % (rl['type'], rl['input'])})
    stats['result_classes'] = dict(classes)
    stats['distinct_nontrivial'] = len(distinct)
    stats['exhaustive_types'] = len(small)
    stats['exhaustive_strings_per_type'] = len(strings)
    stats['rule'] = ('all byte strings of length <= 1 and all strings of length <= %d over {00,01,02,7f,80,ff} for %d catalogue types with a minimal encoding of <= %d bytes; '
                     'Vec-encodings (arbitrary order, repeats) fed to every keyed collection type; single-byte corruptions of valid encodings; '
                     'non-trivial = accepted by the implementation; distinct = distinct (type, input)' % (maxlen, len(small), maxlen))
    stats['traces_validated_against_impl'] = stats['evaluations']
    return conclude(PID, tier, seed, t0, coq, stats, disagreements, failures, None,
                    level_note='theorems about the Gallina model; tie to the Rust code by differential execution on this run')


def replay(path):
    import json
    print(json.dumps(json.load(open(path)), indent=1)[:4000])
    return 0
