"""C17  Schema-prefixed encoding round-trips and rejects a foreign schema.

Proof side: Properties/C17.v.  Correspondence (std build, de_strict_order on and off):
 (1) `try_to_vec_with_schema` == model, on generated values of a subset of the catalogue types that
     have a schema (quick: ~60 types; thorough: all);
 (2) every ORDERED PAIR (T written, U read) of that subset: `try_from_slice_with_schema::<U>` on T's
     bytes == model;
 (3) corrupted schema prefixes: every truncation point inside the prefix (sampled when long),
     single-byte corruptions inside the prefix, the definitions written in another order, one
     definition duplicated, one definition duplicated with a different body: implementation == model;
 (5) call histories: one process per ordered pair (T, U) of a few types - always including catalogue
     items that share their declaration with a different item (crate::items::v1::Msg / v2::Msg) -
     write T, read T's bytes as U, write U, read U as U, read T as T: every step == the stateless model;
 (4) the container codec: `to_vec` / `from_slice` of BorshSchemaContainer on the C09 container corpus
     (sample) and on every for_type container == model's codec at `ty_container`.
Property oracle (implementation only):
  - same type: the value comes back (equal to what plain `deserialize` returns on the value bytes);
  - U's container differs from T's: rejected;
  - a corrupted prefix that is accepted parses (independent Python parser) to the same map as the
    reader's own schema, i.e. its meaning did not change; a prefix whose map differs is rejected;
  - container bytes == the Python encoder on the name-sorted entries (ascending order on the wire), and
    decoding them gives back the same map."""
import random
from collections import Counter

from codec import *  # noqa
import containers as gen
import schema_oracle as O
import schemaof as SO

PID = 'C17'


def pick_types(cat, tier, rng):
    # a reader type with wire-empty, memory-occupying elements (Vec<RefCell<()>>) would take a foreign length prefix
    # of 2^32-1 at face value and loop for billions of elements in implementation and model alike (C07's exclusion)
    ws = [(tid, t) for tid, t in cat if has_schema(t) and can_de(t) and not unbounded_on_hostile_input(t)]
    if tier != 'quick':
        return ws
    # coverage first: one per head constructor / kind, then aliases (same container, different type), then random
    chosen, seen = [], set()

    def key(t):
        return (t[0], t[1] if t[0] in ('seq', 'text', 'unit', 'raw', 'wrap') else (t[1] if isinstance(t[1], str) else t[1][0]) if t[0] in ('prod', 'sum') else None)
    for tid, t in ws:
        k = key(t)
        if k not in seen and len(sexp(t)) < 160:
            seen.add(k)
            chosen.append((tid, t))
    want = {'usize', 'u64', 'isize', 'i64', 'u8', 'u16', 'nzu8', 'bool'}
    for tid, t in ws:
        if t[0] == 'prim' and t[1] in want and (tid, t) not in chosen:
            chosen.append((tid, t))
    chosen += [x for x in same_declaration(ws) if x not in chosen]
    rest = [x for x in ws if x not in chosen and len(sexp(x[1])) < 200]
    rng.shuffle(rest)
    return (chosen + rest)[:60]


def item_name(t):
    return t[1][1] if t[0] in ('prod', 'sum') and isinstance(t[1], tuple) and t[1][0] in ('struct', 'enum') else None


def same_declaration(ws):
    """the catalogue items that share their declaration with a DIFFERENT item"""
    names = Counter(item_name(t) for _, t in ws if item_name(t))
    return [(tid, t) for tid, t in ws if names.get(item_name(t), 0) > 1]


def run(tier, seed, t0):
    coq = coq_property(PID)
    driver = ensure_driver()
    exes, disagreements = ensure_harnesses(['std-strict', 'std-loose'])
    failures = []
    stats = {'evaluations': 0, 'configs': list(exes), 'samples': []}
    classes = Counter()
    cat = catmod.catalogue_types()
    tmap = dict(cat)
    distinct = set()
    for cfg, exe in exes.items():
        strict = '1' if CONFIGS[cfg][1] else '0'
        rng = random.Random(seed * 101 + 3)
        types = pick_types(cat, tier, rng)
        stats['types'] = len(types)
        # containers of the chosen types
        sres = run_cases(exe, [case_line('s%d' % tid, 'schema', tid, sexp(t)) for tid, t in types])
        cont = {}
        for tid, t in types:
            r = sres.get('s%d' % tid)
            if r is None or not r.startswith('ok '):
                disagreements.append({'what': 'schema op failed for %s: %s' % (rust(t), r)})
                continue
            cont[tid] = O.parse_container(r[3:].split('\t')[0])
        # (1) encws
        nval = 2 if tier == 'quick' else 3
        cases = []
        for tid, t in types:
            for j in range(nval):
                cases.append(('w%d_%d' % (tid, j), tid, t, show(gen_val(t, rng, 5))))
        impl = run_cases(exe, [case_line(cid, 'encws', tid, sexp(t), v) for cid, tid, t, v in cases])
        mlines, recs = [], []
        for cid, tid, t, v in cases:
            r = impl.get(cid)
            if r is None or '\t' not in r:
                classes['encws:' + str(r)[:24]] += 1
                if r is None or not r.startswith('skip'):
                    disagreements.append({'what': 'encws %s %s: %s' % (sexp(t), v, r)})
                continue
            repr_, res = r.split('\t', 1)
            recs.append((cid, tid, t, repr_, res))
            mlines.append(case_line(cid, 'encws', tid, sexp(t), repr_))
            mlines.append(case_line(cid + 'v', 'enc', tid, sexp(t), repr_))
        model = run_cases(driver, mlines)
        written = []
        for cid, tid, t, repr_, res in recs:
            stats['evaluations'] += 1
            classes['encws:' + error_class(res)] += 1
            if model.get(cid) != res:
                disagreements.append({'what': 'try_to_vec_with_schema %s %s: impl %s, model %s [%s]' % (sexp(t), repr_, res, model.get(cid), cfg)})
            if res.startswith('ok ') and tid in cont:
                mv = model.get(cid + 'v') or ''
                vb = mv[3:].replace('-', '') if mv.startswith('ok ') else None
                written.append((cid, tid, t, repr_, res[3:].replace('-', ''), vb))
        # (2) ordered pairs
        plines_i, plines_m, pairs = [], [], []
        for cid, tid, t, repr_, h, vb in written:
            for uid, u in types:
                k = '%s>%d' % (cid, uid)
                pairs.append((k, tid, t, uid, u, repr_, h, vb))
                plines_i.append(case_line(k, 'decws', uid, sexp(u), h))
                plines_m.append(case_line(k, 'decws', uid, sexp(u), strict, h))
        pi = run_cases(exe, plines_i)
        pm = run_cases(driver, plines_m)
        # what plain deserialize returns on the value bytes (the reference for "the value comes back")
        vlines = [case_line(cid + 'd', 'dec', tid, sexp(t), 'deserialize', vb or '-') for cid, tid, t, _, _, vb in written if vb is not None]
        vd = run_cases(exe, vlines)
        for k, tid, t, uid, u, repr_, h, vb in pairs:
            stats['evaluations'] += 1
            a, b = pi.get(k), pm.get(k)
            classes[('same:' if tid == uid else 'pair:') + error_class(a)] += 1
            if a is None or a != b:
                disagreements.append({'what': 'try_from_slice_with_schema::<%s> on bytes of %s %s: impl %s, model %s [%s]' % (rust(u), rust(t), repr_, a, b, cfg)})
            if a is None:
                continue
            same_schema = uid in cont and cont[uid] == cont[tid]
            if tid == uid:
                ref = vd.get(k.split('>')[0] + 'd')
                if ref is None or not ref.startswith('ok '):
                    disagreements.append({'what': 'no reference decode of the value bytes of %s %s: %s [%s]' % (rust(t), repr_, ref, cfg)})
                elif a != 'ok ' + ref[3:].rsplit(' ', 1)[0]:
                    failures.append({'class': 'ws-roundtrip', 'key': '%s %s' % (sexp(t), repr_),
                                     'what': 'try_from_slice_with_schema(try_to_vec_with_schema(v)) != v: type %s value %s -> %s [%s]' % (rust(t), repr_, a, cfg),
                                     'type': sexp(t), 'value': repr_, 'bytes': h, 'result': a})
                else:
                    distinct.add((sexp(t), repr_))
            elif not same_schema and a.startswith('ok'):
                failures.append({'class': 'foreign-accepted', 'key': '%s>%s' % (sexp(t), sexp(u)),
                                 'what': 'bytes written as %s (value %s) were accepted when read as %s although the schemas differ: %s [%s]'
                                         % (rust(t), repr_, rust(u), a, cfg), 'written': sexp(t), 'read': sexp(u), 'bytes': h, 'result': a})
        # (2b) types kept out of the pairs because a FOREIGN length prefix would make them loop (elements that take no
        # bytes on the wire but occupy memory: Vec<RefCell<()>>, Vec<RangeInclusive<()>>, ...): their own bytes are
        # harmless, and their schemas are the ones `validate()` refuses - same-type round trip only
        wet = [(tid, t) for tid, t in cat if has_schema(t) and can_de(t) and unbounded_on_hostile_input(t)]
        wcases = [('q%d_%d' % (tid, j), tid, t, show(gen_val(t, rng, 4))) for tid, t in wet for j in range(nval)]
        wi = run_cases(exe, [case_line(cid, 'encws', tid, sexp(t), v) for cid, tid, t, v in wcases])
        wl_i, wl_m, wrecs = [], [], []
        for cid, tid, t, v in wcases:
            r = wi.get(cid)
            if r is None or '\t' not in r:
                if r is None or not r.startswith('skip'):
                    disagreements.append({'what': 'encws %s %s: %s' % (sexp(t), v, r)})
                continue
            repr_, res = r.split('\t', 1)
            classes['wire-empty encws:' + error_class(res)] += 1
            if res.startswith('ok '):
                h = res[3:].replace('-', '')
                wrecs.append((cid, tid, t, repr_, h))
                wl_i.append(case_line(cid, 'decws', tid, sexp(t), h))
                wl_m.append(case_line(cid, 'decws', tid, sexp(t), strict, h))
                wl_m.append(case_line(cid + 'w', 'encws', tid, sexp(t), repr_))
        wd, wm = run_cases(exe, wl_i), run_cases(driver, wl_m)
        stats['wire_empty_element_types'] = len(wet)
        for cid, tid, t, repr_, h in wrecs:
            stats['evaluations'] += 1
            a, b = wd.get(cid), wm.get(cid)
            classes['wire-empty same:' + error_class(a)] += 1
            if (wm.get(cid + 'w') or '').replace('-', '') != 'ok ' + h:
                disagreements.append({'what': 'try_to_vec_with_schema %s %s: impl ok %s, model %s [%s]' % (sexp(t), repr_, h[:80], wm.get(cid + 'w'), cfg)})
            if a is None or a != b:
                disagreements.append({'what': 'try_from_slice_with_schema::<%s> on its own bytes of %s: impl %s, model %s [%s]' % (rust(t), repr_, a, b, cfg)})
            if a is None or not a.startswith('ok '):
                failures.append({'class': 'ws-roundtrip', 'key': '%s %s' % (sexp(t), repr_),
                                 'what': 'try_from_slice_with_schema(try_to_vec_with_schema(v)) is refused: type %s value %s -> %s [%s]' % (rust(t), repr_, a, cfg),
                                 'type': sexp(t), 'value': repr_, 'bytes': h, 'result': a})
            else:
                distinct.add((sexp(t), repr_))
        # (3) corrupted prefixes
        clines_i, clines_m, muts = [], [], []
        for cid, tid, t, repr_, h, vb in written[::2]:
            if vb is None:
                continue
            data = bytes.fromhex(h)
            plen = len(data) - len(vb) // 2
            c = cont[tid]
            entries = list(c['defs'])
            variants = []
            for cut in truncations(h[:2 * plen], rng, 12):
                variants.append(('trunc', cut))           # nothing after the cut: the value is gone as well
            for m in corruptions(h[:2 * plen], rng, 14):
                variants.append(('corrupt', m + h[2 * plen:]))
            if len(entries) >= 2:
                sw = list(entries)
                i = rng.randrange(len(sw) - 1)
                sw[i], sw[i + 1] = sw[i + 1], sw[i]
                variants.append(('reordered', SO.container_bytes(c, sw).hex() + h[2 * plen:]))
                variants.append(('reversed', SO.container_bytes(c, entries[::-1]).hex() + h[2 * plen:]))
            j = rng.randrange(len(entries))
            variants.append(('dup-same', SO.container_bytes(c, entries[:j + 1] + entries[j:]).hex() + h[2 * plen:]))
            variants.append(('dup-same-end', SO.container_bytes(c, entries + [entries[j]]).hex() + h[2 * plen:]))
            other = ('p', 3) if entries[j][1] != ('p', 3) else ('p', 5)
            variants.append(('dup-other-after', SO.container_bytes(c, entries[:j + 1] + [(entries[j][0], other)] + entries[j + 1:]).hex() + h[2 * plen:]))
            variants.append(('dup-other-before', SO.container_bytes(c, entries[:j] + [(entries[j][0], other)] + entries[j:]).hex() + h[2 * plen:]))
            variants.append(('extra-def', SO.container_bytes(c, entries + [('~zz', ('p', 1))]).hex() + h[2 * plen:]))
            variants.append(('root-renamed', SO.container_bytes({'root': c['root'] + 'x', 'defs': entries}).hex() + h[2 * plen:]))
            for n, (kind, mh) in enumerate(variants):
                k = '%s#%d' % (cid, n)
                muts.append((k, kind, tid, t, mh, plen, c))
                clines_i.append(case_line(k, 'decws', tid, sexp(t), mh or '-'))
                clines_m.append(case_line(k, 'decws', tid, sexp(t), strict, mh or '-'))
        ci = run_cases(exe, clines_i)
        cm = run_cases(driver, clines_m)
        for k, kind, tid, t, mh, plen, c in muts:
            stats['evaluations'] += 1
            a, b = ci.get(k), cm.get(k)
            classes['mut:%s:%s' % (kind, error_class(a))] += 1
            if a is None or a != b:
                disagreements.append({'what': 'corrupted schema (%s) read as %s, input %s: impl %s, model %s [%s]' % (kind, rust(t), mh[:120], a, b, cfg)})
            if a is None:
                continue
            try:
                root, entries, used = SO.container_parse(bytes.fromhex(mh))
                meaning = SO.as_map(root, entries)
            except SO.BadContainer:
                meaning = None
            own = SO.canonical(c)
            if a.startswith('ok') and meaning != own:
                failures.append({'class': 'corrupt-accepted', 'key': mh[:80],
                                 'what': 'a schema prefix that does not stand for the reader\'s schema was accepted (%s): type %s input %s -> %s [%s]'
                                         % (kind, rust(t), mh, a, cfg), 'type': sexp(t), 'input': mh, 'result': a})
        # (5) call history: the helpers are functions of their arguments, whatever was written or read
        # before on the same thread.  One harness process per ordered pair (T, U): write T, read T's
        # bytes as U, write U, read U's bytes as U, read T's bytes as T - every answer must be the
        # (stateless) model's.  Items sharing a declaration with another item are always among them.
        wmap = {}
        for cid, tid, t, repr_, h, vb in written:
            wmap.setdefault(tid, (t, repr_, h))
        hs = [tid for tid, _ in same_declaration(types) if tid in wmap]
        hs += [tid for tid in list(wmap)[:: max(1, len(wmap) // (4 if tier == 'quick' else 12))] if tid not in hs]
        nhist = 0
        for ta in hs:
            for ub in hs:
                if ta == ub:
                    continue
                (t, rt, ht), (u, ru, hu) = wmap[ta], wmap[ub]
                seq = [('encws', ta, t, rt), ('decws', ub, u, ht), ('encws', ub, u, ru), ('decws', ub, u, hu), ('decws', ta, t, ht)]
                li = [case_line('h%d' % n, op, i, sexp(x), a) for n, (op, i, x, a) in enumerate(seq)]
                lm = [case_line('h%d' % n, op, i, sexp(x), a) if op == 'encws' else case_line('h%d' % n, op, i, sexp(x), strict, a)
                      for n, (op, i, x, a) in enumerate(seq)]
                hi = run_cases(exe, li, shards=1)
                hm = run_cases(driver, lm, shards=1)
                nhist += 1
                for n, (op, i, x, a) in enumerate(seq):
                    stats['evaluations'] += 1
                    ra, rb = hi.get('h%d' % n), hm.get('h%d' % n)
                    if op == 'encws' and ra is not None and '\t' in ra:
                        ra = ra.split('\t', 1)[1]
                    classes['hist:' + error_class(ra)] += 1
                    if ra is None or ra != rb:
                        disagreements.append({'what': 'call history (write %s, read as %s, write %s, read, read): step %d %s::<%s> gives %s, the model (and a fresh process) %s [%s]'
                                                      % (rust(t), rust(u), rust(u), n, op, rust(x), ra, rb, cfg),
                                              'replay_cmd': "printf '%s\\n' | $VERIF_ROOT/.cache/target-%s/debug/harness" % ('\\n'.join(li).replace('\t', '\\t'), cfg)})
                    if n == 1 and ra is not None and ra.startswith('ok') and cont.get(ta) != cont.get(ub):
                        failures.append({'class': 'foreign-accepted', 'key': 'hist %s>%s' % (sexp(t), sexp(u)),
                                         'what': 'after writing a %s on the same thread, its bytes were accepted when read as %s although the schemas differ: %s [%s]'
                                                 % (rust(t), rust(u), ra, cfg), 'written': sexp(t), 'read': sexp(u), 'bytes': ht, 'result': ra})
        stats['histories'] = nhist
        # (6) recursive derived items (no model type): same-type round trip through the helpers, every ordered pair of
        # different items rejected - on the implementation alone
        import rectypes as RT
        import reccorr
        rplan = [p_ for p_ in reccorr.plan(seed, 'quick') if p_[2] <= 4][::3]
        rw = run_cases(exe, [case_line(cid, 'encws', RT.IDS[name], RT.sexp_unfold(name, d), v) for cid, name, d, sh, v in rplan])
        rlines, rmeta = [], []
        for cid, name, d, sh, v in rplan:
            r = rw.get(cid) or ''
            if '\t' not in r or not r.split('\t', 1)[1].startswith('ok '):
                if not r.startswith('skip'):
                    disagreements.append({'what': 'try_to_vec_with_schema of the recursive item %s value %s: %s [%s]' % (name, v[:80], r, cfg)})
                continue
            h = r.split('\t', 1)[1][3:].replace('-', '')
            for other in RT.ITEMS:
                k = '%s>%s' % (cid, other)
                rlines.append(case_line(k, 'decws', RT.IDS[other], RT.sexp_unfold(other, d + 1), h))
                rmeta.append((k, name, other, v, h))
        rr = run_cases(exe, rlines)
        nrec = 0
        for k, name, other, v, h in rmeta:
            a = rr.get(k)
            stats['evaluations'] += 1
            nrec += 1
            classes[('rec-same:' if name == other else 'rec-pair:') + error_class(a)] += 1
            if name == other:
                if a is None or not a.startswith('ok ') or a[3:] != v:
                    failures.append({'class': 'ws-roundtrip', 'key': 'rec %s %s' % (name, v[:80]),
                                     'what': 'try_from_slice_with_schema(try_to_vec_with_schema(v)) != v for the recursive item %s: value %s -> %s [%s]' % (name, v[:200], str(a)[:200], cfg),
                                     'item': name, 'value': v, 'bytes': h, 'result': a})
            elif a is not None and a.startswith('ok'):
                failures.append({'class': 'foreign-accepted', 'key': 'rec %s>%s' % (name, other),
                                 'what': 'bytes written as the recursive item %s (value %s) were accepted when read as %s: %s [%s]' % (name, v[:200], other, a[:200], cfg),
                                 'written': name, 'read': other, 'bytes': h, 'result': a})
        stats['recursive_item_pairs'] = nrec
        # a container with an exhausted RangeInclusive in a Sequence (not expressible in the container syntax of the model)
        ex = run_cases(exe, [case_line('ex', 'sch-exhausted', '-', '-')]).get('ex') or ''
        stats['evaluations'] += 1
        if not ex.startswith('equal='):
            disagreements.append({'what': 'sch-exhausted gave %r [%s]' % (ex, cfg)})
        elif not ex.startswith('equal=true'):
            failures.append({'class': 'exhausted-range-container', 'key': 'exhausted 0..=0',
                             'what': 'a container whose Sequence has the length range 0..=0 in its exhausted state does not round-trip to an equal container: %s [%s]' % (ex, cfg),
                             'replay_cmd': "printf 'x\\tsch-exhausted\\t-\\t-\\n' | " + exe})
        # (4) the container codec
        corpus = [(cid, c) for cid, c in gen.gen_structured(seed, tier) if SO.fits_codec(c)]
        if tier == 'quick':
            first = [x for x in corpus if x[0].startswith(('h', 'b', 'r'))][:6000]
            taken = {cid for cid, _ in first}
            corpus = first + [x for x in corpus[::40] if x[0] not in taken]
        corpus += [('T%d' % tid, c) for tid, c in cont.items()]
        elines = [case_line(cid, 'cont-enc', '-', '-', O.container_sexp(c)) for cid, c in corpus]
        ei = run_cases(exe, elines)
        em = run_cases(driver, elines)
        dl_i, dl_m = [], []
        for cid, c in corpus:
            stats['evaluations'] += 1
            a, b = ei.get(cid), em.get(cid)
            can = SO.canonical(c)
            classes['cont-enc:' + error_class(a)] += 1
            if a is None or a != b:
                disagreements.append({'what': 'container to_vec %s: impl %s, model %s' % (O.container_sexp(c)[:200], a, b)})
            if a is None or not a.startswith('ok '):
                if a is not None:
                    failures.append({'class': 'container-codec', 'key': O.container_sexp(c)[:100], 'what': 'to_vec(&container) failed: %s -> %s' % (O.container_sexp(c), a)})
                continue
            if a[3:] != SO.container_bytes(can).hex():
                failures.append({'class': 'container-order', 'key': O.container_sexp(c)[:100],
                                 'what': 'to_vec(&container) is not the name-sorted encoding: %s -> %s' % (O.container_sexp(can), a)})
            dl_i.append(case_line(cid, 'cont-dec', '-', '-', a[3:]))
            dl_m.append(case_line(cid, 'cont-dec', '-', '-', strict, a[3:]))
        di = run_cases(exe, dl_i)
        dm = run_cases(driver, dl_m)
        for cid, c in corpus:
            if cid not in di:
                continue
            stats['evaluations'] += 1
            a, b = di.get(cid), dm.get(cid)
            if a != b:
                disagreements.append({'what': 'container from_slice: impl %s, model %s' % (str(a)[:200], str(b)[:200])})
            if a != 'ok ' + O.container_sexp(SO.canonical(c)):
                failures.append({'class': 'container-codec', 'key': O.container_sexp(c)[:100],
                                 'what': 'from_slice(to_vec(&container)) != container: %s -> %s' % (O.container_sexp(SO.canonical(c)), a)})
            else:
                distinct.add(O.container_sexp(c))
        if not stats['samples']:
            stats['samples'] = [{'written': rust(t), 'read': rust(u), 'value': r, 'result': pi.get(k)} for k, _, t, _, u, r, _, _ in pairs[7:4000:331]]
            stats['pairs'] = len(pairs)
            stats['mutations'] = len(muts)
            stats['containers'] = len(corpus)
    stats['result_classes'] = dict(classes)
    stats['distinct_nontrivial'] = len(distinct)
    stats['rule'] = ('ordered pairs over %s catalogue types with a schema x generated values; mutated schema prefixes; containers of the C09 corpus '
                     'whose numbers fit the Rust fields; distinct = distinct (type, value) that round-trip + distinct containers that round-trip'
                     % stats.get('types'))
    stats['traces_validated_against_impl'] = stats['evaluations']
    return conclude(PID, tier, seed, t0, coq, stats, disagreements, failures, None,
                    level_note='theorems about the Gallina model; tie to the Rust code by differential execution on this run')


def replay(path):
    import json
    d = json.load(open(path))
    print(json.dumps(d.get('failure') or d.get('broken'), indent=1))
    return 0
