"""C09  BorshSchemaContainer::max_serialized_size: never panics; an Ok bound is sound
(no described value is larger) and attained; errors name a real condition.

Proof side: Properties/C09.v.  Correspondence: for every container of the corpus
(gen/containers.py: bounded-exhaustive small containers, stride samples of the 2- and
3-declaration products, hand-written and random graphs, plus for_type::<T>() of real
Rust types from the harness) the implementation's result string equals the extracted
model's (`sch-maxsize`), including the declaration named in an error.
Property oracle (implementation only, lib/schema_oracle.py, bottom-up, no stack walk):
  - no panic;
  - `ok m`: every height-bounded largest value of the root is <= m (soundness), and = m when
    every reachable declaration is defined and inhabited (attainment);
  - `err MissingDefinition d`: d is reachable and undefined; `err Recursive`: a reachable
    declaration lies on a cycle; `err Overflow`: the unbounded maximum is >= 2^64 (when it is defined);
  - acyclic and fully defined: the result is exactly the unbounded maximum, or Overflow from 2^64 on;
  - Rust types: to_vec(&value).len() <= m.
Model-side cross-checks (driver only): the Coq specification function max_unbounded agrees with the
oracle's formula; max_size refines max_unbounded; the 32-bit instance max_size_at 32 passes the same
soundness oracle (it exercises the usize::try_from failure branch, dead on x86_64).

Debug switch SCHEMA_SKIP_COQ=1 (off by default): see lib/schemacorr.py."""
from collections import Counter

from schemacorr import *  # noqa

PID = 'C09'
OP = 'sch-maxsize'


def oracle(cs, impl, lens):
    fails = []
    for cid, sx, c in cs:
        r = impl.get(cid)
        for cls, text in O.check_c09(c, r, value_len=lens.get(cid)):
            fails.append(failure(PID, cls, text, cid, sx, OP, r))
    return fails


def nontrivial(r):
    if r is None:
        return False
    if r == 'err Overflow':
        return True
    p = r.split(' ')
    return p[0] == 'ok' and len(p) > 1 and p[1] != '0'


def model_checks(driver, cs, model):
    """Ties between the oracle, the Coq specification and the transcription, on the model alone."""
    out = []
    unb = run_op(driver, 'sch-unb', cs)
    m32 = run_op(driver, 'sch-maxsize32', cs)
    n_unb_ok = 0
    c32 = Counter()
    zero_product_refusals = []
    for cid, sx, c in cs:
        u = unb.get(cid)
        m = O.defs_map(c)
        r = O.reach(c, m)
        if all(x in m for x in r) and not O.on_cycle(c, m, r):
            want = 'ok %d' % O.unbounded(c, m)
            if u != want:
                out.append({'what': 'Coq max_unbounded vs oracle formula on %s: model %s, oracle %s' % (sx, u, want), 'container': sx})
        if u is not None and u.startswith('ok '):
            n_unb_ok += 1
            n = int(u[3:])
            want = u if n < O.U64 else 'err Overflow'
            if model.get(cid) != want:
                out.append({'what': 'model max_size does not refine max_unbounded on %s: %s vs unbounded %s' % (sx, model.get(cid), u), 'container': sx})
        r32 = m32.get(cid)
        c32[O.result_class(r32)] += 1
        for cls, text in O.check_c09(c, r32, bound=1 << 32, complete=False):
            if cls == 'bad-overflow':
                # at 32 bits the code decides by is_zero_size, not by the value: a non-zero-sized element
                # whose formula value is 0 (empty range ending at 0) is refused although the product is 0
                zero_product_refusals.append(sx)
                continue
            if cls == 'cyclic-zero-size':
                # finding F25 is the code's behaviour, which the model transcribes: not a defect of the 32-bit instance
                continue
            out.append({'what': 'model max_size_at 32 violates the oracle on %s: %s (%s)' % (sx, text, r32), 'container': sx})
    return out, {'model_unbounded_ok': n_unb_ok, 'model_usize32_classes': dict(c32),
                 'model_usize32_overflow_below_bound': {'count': len(zero_product_refusals), 'examples': zero_product_refusals[:3]}, 'model_only_evaluations': 2 * len(cs)}


def catalogue_values(exe, seed, tier):
    """The bound against VALUES of real Rust types: for every catalogue type with a BorshSchema impl,
    max_serialized_size of for_type::<T>() >= len(to_vec(v)) for generated values v; and the free functions
    borsh::max_serialized_size::<T>() / borsh::schema_container_of::<T>() agree with the methods."""
    import random
    import codec as K
    rng = random.Random(seed * 7919 + 5)
    cat = [(tid, t) for tid, t in K.catmod.catalogue_types() if K.has_schema(t)]
    hres = run_cases(exe, [case_line('h%d' % tid, 'schema-helpers', tid, K.sexp(t)) for tid, t in cat])
    nval = 4 if tier == 'quick' else 16
    cases = [('v%d_%d' % (tid, j), tid, t, K.show(K.gen_val(t, rng, 6 if tier == 'quick' else 12))) for tid, t in cat for j in range(nval)]
    eres = run_cases(exe, [case_line(cid, 'enc', tid, K.sexp(t), v) for cid, tid, t, v in cases])
    dis, fails = [], []
    bound = {}
    for tid, t in cat:
        r = hres.get('h%d' % tid)
        if r is None or not r.startswith('ok '):
            dis.append({'what': 'schema-helpers gave %r for %s' % (r, K.rust(t))})
            continue
        same, helper, method = r[3:].split('\t')
        if same != 'true' or helper != method:
            fails.append({'class': 'helper', 'key': K.sexp(t),
                          'what': 'borsh::max_serialized_size::<%s>() = %s but for_type::<T>().max_serialized_size() = %s; schema_container_of == for_type: %s'
                                  % (K.rust(t), helper, method, same), 'type': K.sexp(t)})
        if method.startswith('ok '):
            bound[tid] = int(method[3:])
    checked = over = 0
    worst = (0.0, None)
    for cid, tid, t, v in cases:
        r = eres.get(cid) or ''
        if '\t' not in r:
            if not r.startswith('skip'):
                dis.append({'what': 'enc of %s %s gave %r' % (K.rust(t), v[:80], r[:160])})
            continue
        repr_, res = r.split('\t', 1)
        if not res.startswith('ok') or tid not in bound:
            continue
        n = len(res[3:].replace('-', '')) // 2
        checked += 1
        if bound[tid]:
            worst = max(worst, (n / bound[tid], K.rust(t)))
        if n > bound[tid]:
            over += 1
            fails.append({'class': 'bound-below-value', 'key': '%s %s' % (K.sexp(t), repr_[:80]),
                          'what': 'max_serialized_size of %s is %d but the value %s serializes to %d bytes' % (K.rust(t), bound[tid], repr_[:200], n),
                          'type': K.sexp(t), 'value': repr_, 'bytes': res[3:], 'bound': bound[tid]})
    if checked < 300:
        dis.append({'what': 'only %d catalogue values were compared with their bound (floor 300)' % checked})
    return ({'catalogue_types_with_bound': len(bound), 'catalogue_values_checked_against_bound': checked,
             'largest_value/bound': {'ratio': round(worst[0], 4), 'type': worst[1]}, 'helper_functions_compared': len(cat)}, dis, fails)


def run(tier, seed, t0):
    coq = coq_side(PID)
    driver = ensure_driver()
    exes, disagreements = ensure_harnesses(['std-strict'])
    exe = exes.get('std-strict')
    stats = {'evaluations': 0, 'configs': list(exes), 'proof_skipped': bool(coq.get('skipped'))}
    failures = []
    if exe is not None:
        cs, lens, names, comp = corpus(seed, tier, exe)
        impl = run_op(exe, OP, cs)
        model = run_op(driver, OP, cs)
        disagreements += compare(OP, cs, impl, model, 'max_serialized_size')
        failures = oracle(cs, impl, lens)
        more, mstats = model_checks(driver, cs, model)
        disagreements += more
        classes = Counter(O.result_class(impl.get(cid)) for cid, _, _ in cs)
        distinct = set(sx for cid, sx, _ in cs if nontrivial(impl.get(cid)))
        by_class = {}
        for cid, sx, _ in cs[::97] + cs[-70:]:
            by_class.setdefault(O.result_class(impl.get(cid)), []).append({'container': sx, 'result': impl.get(cid), 'rust_type': names.get(cid)})
        stats.update({
            'evaluations': len(cs),
            'distinct_containers': len(set(sx for _, sx, _ in cs)),
            'distinct_nontrivial': len(distinct),
            'rule': ('distinct container S-expressions on which the implementation returns `ok m` with m >= 1 or `err Overflow`, '
                     'i.e. the size arithmetic ran to a non-zero total; `ok 0`, `err Recursive` and `err MissingDefinition` count as trivial'),
            'result_classes': dict(classes),
            'corpus': comp,
            'rust_types_with_value': len(lens),
            'rust_type_bounds': [{'type': names[cid], 'max': impl.get(cid), 'value_len': lens.get(cid)} for cid in sorted(names, key=lambda x: int(x[2:]))][:80],
            'samples': [x for v in by_class.values() for x in ([v[0], v[-1]] if len(v) > 1 else v)],
            'oracle_evaluations': len(cs),
            'traces_validated_against_impl': len(cs),
        })
        stats.update(mstats)

    if exe is not None:
        vstats, vdis, vfail = catalogue_values(exe, seed, tier)
        stats.update(vstats)
        disagreements += vdis
        failures += vfail

    if exe is not None:
        dst, dfail = deep_chain(exe, 'maxsize', PID)
        stats['deep_chain'] = dst
        failures += dfail

    def search():
        found = []
        if exe is None:
            return found
        for s2 in range(1, 4):
            cs2, _, _, _ = corpus(seed * 1000 + s2, 'search', None)
            found += oracle(cs2, run_op(exe, OP, cs2), {})
            if found:
                break
        return found

    return conclude(PID, tier, seed, t0, coq, stats, disagreements, failures, search,
                    level_note='theorem about the Gallina model; tie to the Rust code by differential execution on this run'
                    + ('; PROOF SIDE SKIPPED (SCHEMA_SKIP_COQ=1)' if coq.get('skipped') else ''))


def replay(path):
    import json
    d = json.load(open(path))
    f = d.get('failure')
    print(json.dumps(f or d.get('broken'), indent=1))
    if not f or 'container' not in f:
        return 0
    exes, bad = ensure_harnesses(['std-strict'])
    if bad:
        print(bad)
        return 3
    c = O.parse_container(f['container'])
    r = run_op(exes['std-strict'], OP, [('replay', f['container'], c)]).get('replay')
    v = O.check_c09(c, r)
    print('now: %s -> %s; oracle: %s' % (f['container'], r, v or 'holds'))
    return 1 if v else 0
