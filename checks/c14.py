"""C14  Collections of zero-sized elements are refused consistently.

Proof side: Properties/C14.v.  Correspondence: (1) the model's mem_zst agrees with the real
size_of::<T>() == 0 for every catalogue type; (2) for every collection type whose element
(map: key) type is memory-zero-sized: to_vec of any value and decoding of any input --
the empty input, a bare huge length prefix, random bytes -- through several entry points give
InvalidData + the public ZST message, in implementation and model; (3) arrays / tuples /
options of zero-sized types round-trip.  Oracle (implementation only): guarded kind with
size_of == 0 element => Err(InvalidData, ZST message) even on empty input.
The agreement with schema validation is checked by C10/C08 (Vec<([u8;0],[u8;0])> witness)."""
import random
from collections import Counter

from codec import *  # noqa

PID = 'C14'
GUARDED = ('vec', 'deque', 'list', 'btreeset', 'hashset', 'indexset', 'btreemap', 'hashmap', 'indexmap')


def _wire_empty(t):
    k = t[0]
    if k == 'unit':
        return True
    if k == 'array':
        return t[1] == 0 or _wire_empty(t[2])
    if k == 'prod':
        kind = t[1]
        skips = ()
        if isinstance(kind, tuple) and kind[0] == 'struct':
            skips = kind[3]
        elif isinstance(kind, tuple) and kind[0] == 'variant':
            skips = kind[2]
        return all(_wire_empty(x) for i, x in enumerate(t[2]) if not (i < len(skips) and skips[i]))
    if k == 'wrap':
        return _wire_empty(t[2])
    return False


def _has_empty_collection(t):
    return any(s[0] == 'seq' and _wire_empty(s[2]) for s in subterms(t))


def zst_collections(tmap):
    out = []
    for tid, t in tmap.items():
        for s in subterms(t):
            pass
        if t[0] == 'seq' and t[1] in GUARDED:
            e = t[2]
            k = e[2][0] if t[1] in MAP_KINDS else e
            if mem_zst(k):
                out.append((tid, t))
    return out


def run(tier, seed, t0):
    coq = coq_property(PID)
    driver = ensure_driver()
    cfgs = ['std-strict', 'nostd-strict'] if tier == 'quick' else ['std-strict', 'std-loose', 'nostd-strict', 'nostd-loose']
    exes, disagreements = ensure_harnesses(cfgs)
    failures = []
    stats = {'evaluations': 0, 'configs': list(exes), 'samples': []}
    classes = Counter()
    distinct = set()
    rng = random.Random(seed * 13 + 1)
    tmap = dict(catmod.catalogue_types())
    for cfg, exe in exes.items():
        flt = (lambda t: not needs_std(t)) if cfg.startswith('nostd') else (lambda t: True)
        # (1) size_of vs mem_zst
        rc, out = sh([exe, 'describe'])
        described = 0
        for line in out.split('\n'):
            f = line.split('\t')
            if len(f) < 4:
                continue
            tid = int(f[0])
            described += 1
            stats['evaluations'] += 1
            if (f[2] == '1') != mem_zst(tmap[tid]):
                disagreements.append({'what': 'size_of::<%s>() == 0 is %s but the model says mem_zst = %s' % (f[3], f[2], mem_zst(tmap[tid]))})
        want = len([1 for t in tmap.values() if flt(t)])
        if rc != 0 or described < want:
            disagreements.append({'what': '`harness describe` (rc %s) listed %d types, the catalogue has %d in this configuration: size_of was not compared for all of them [%s]' % (rc, described, want, cfg)})
        drv = run_cases(driver, [case_line(tid, 'zst', tid, sexp(t)) for tid, t in tmap.items()])
        for tid, t in tmap.items():
            if drv.get(str(tid)) != ('1' if mem_zst(t) else '0'):
                disagreements.append({'what': 'Coq mem_zst and generator mem_zst differ on %s' % sexp(t)})
        # the catalogue is filtered by the Python mirror of `wf`: the theorems' hypothesis is asked of the extracted `wf` itself
        wfr = run_cases(driver, [case_line('w%d' % tid, 'wf', tid, sexp(t)) for tid, t in tmap.items()])
        stats['evaluations'] += len(tmap)
        stats['catalogue_types_wf_in_coq'] = sum(1 for tid in tmap if wfr.get('w%d' % tid) == '1')
        for tid, t in tmap.items():
            if wfr.get('w%d' % tid) != '1':
                disagreements.append({'what': 'a catalogue type is not `wf` for the Coq model (answer %s), so no theorem speaks about it: %s' % (wfr.get('w%d' % tid), sexp(t))})
        # (2) refusal
        zc = [(tid, t) for tid, t in zst_collections(tmap) if flt(t)]
        enc_cases = []
        dec_cases = []
        for tid, t in zc:
            for j in range(4):
                from values import gen_val, show
                enc_cases.append(('z%d_%d' % (tid, j), tid, t, show(gen_val(t, rng, 4))))
            inputs = ['', '00000000', '01000000', 'ffffffff', '03000000000000', bytes(rng.randrange(256) for _ in range(9)).hex()]
            for j, h in enumerate(inputs):
                for mode in ['deserialize', 'from_slice', 'try_from_reader']:
                    dec_cases.append(('d%d_%d_%s' % (tid, j, mode), tid, t, mode, h))
        erecs = stage_enc(cfg, exe, driver, enc_cases)
        drecs = stage_decm(cfg, exe, driver, dec_cases)
        stats['evaluations'] += len(erecs) + len(drecs)
        for r in erecs:
            impl = r.get('impl') or 'missing'
            classes['enc:' + error_class(impl)] += 1
            distinct.add((r['type'], r.get('repr')))
            if r['status'] == 'run' and not r['agree']:
                disagreements.append({'what': 'enc %s %s: impl %s, model %s [%s]' % (r['type'], r['repr'], impl, r['model'], cfg)})
            if impl != 'err InvalidData Zst':
                failures.append({'class': 'zst-accepted', 'key': r['type'],
                                 'what': 'serializing a collection of zero-sized elements was not refused: %s value %s -> %s [%s]' % (r['type'], r['gen'], impl, cfg),
                                 'type': r['type'], 'value': r['gen'], 'result': impl, 'cfg': cfg})
        for r in drecs:
            impl = r['impl'] or 'missing'
            classes['dec:' + error_class(impl)] += 1
            distinct.add((r['type'], r['input'], r['mode']))
            if not r['agree']:
                disagreements.append({'what': '%s %s on %s: impl %s, model %s [%s]' % (r['mode'], r['type'], r['input'], impl, r['model'], cfg)})
            # the property: refused with an InvalidData error before any length is TRUSTED.  Reading the four bytes of
            # the length prefix and then refusing (or failing on their absence) trusts nothing; which InvalidData message
            # comes back, and whether the prefix was read first, is pinned by the model comparison above, not here
            if not impl.startswith('err InvalidData'):
                failures.append({'class': 'zst-accepted', 'key': r['type'],
                                 'what': 'decoding a collection of zero-sized elements was not refused with InvalidData: %s %s on "%s" -> %s [%s]' % (r['mode'], r['type'], r['input'], impl, cfg),
                                 'type': r['type'], 'mode': r['mode'], 'input': r['input'], 'result': impl, 'cfg': cfg})
            if r['pulled'] not in (None, 0) and int(r['pulled']) > 4:
                failures.append({'class': 'zst-read-first', 'key': r['type'],
                                 'what': 'more than the length prefix (%s bytes) was pulled from the reader before the ZST refusal: %s %s [%s]' % (r['pulled'], r['mode'], r['type'], cfg)})
        # (2b) element types built from an UNINHABITED type (`enum Never {}`, Option<Never>, Result<(), Never>, [Never; 3]):
        # they occupy no memory, the model's universe does not have them (`wf` wants a variant), so the first sentence of
        # the property is judged on the implementation alone
        if cfg.startswith('std'):
            r = run_cases(exe, [case_line('nv', 'nevercolls', '-', '-')]).get('nv') or 'no answer'
            stats['evaluations'] += 1
            parts = r.split('|')
            stats['uninhabited_element_collections'] = len(parts) - 1
            for part in parts[:-1]:
                f = dict(x.split('=', 1) for x in part.replace('err InvalidData', 'err_InvalidData').split(' ')[1:] if '=' in x)
                if not all(f.get(k, '').startswith('err_InvalidData') for k in ('ser', 'de0', 'de1')):
                    failures.append({'class': 'zst-accepted', 'key': part.split(' ')[0],
                                     'what': 'a collection whose element type occupies no memory (it is built from an uninhabited type) is not refused with InvalidData in both directions: %s [%s]' % (part, cfg),
                                     'cfg': cfg, 'replay_cmd': "printf 'n\\tnevercolls\\t-\\t-\\n' | " + exe})
            if len(parts) < 7 or not parts[-1].startswith('Option<Never> ser=ok [0] de0=ok true de1=err'):
                failures.append({'class': 'zst-unusable', 'key': 'Option<Never>',
                                 'what': 'Option<Never> must stay usable (None is one zero byte; a Some is refused): %s [%s]' % (parts[-1], cfg), 'cfg': cfg})
        # (3) usable neighbours: arrays / tuples / options / wrappers of ZSTs round trip
        usable = [(tid, t) for tid, t in tmap.items() if flt(t) and can_de(t) and any(mem_zst(s) for s in subterms(t))
                  and not any(s[0] == 'seq' and s[1] in GUARDED and mem_zst(s[2][2][0] if s[1] in MAP_KINDS else s[2]) for s in subterms(t))]
        ucases = []
        for tid, t in usable:
            for j in range(3):
                ucases.append(('u%d_%d' % (tid, j), tid, t, show(gen_val(t, rng, 4)), rng.choice(['', 'aa'])))
        ures = run_cases(exe, [case_line(cid, 'rt', tid, sexp(t), v, tail or '-') for cid, tid, t, v, tail in ucases])
        # the encode side is judged too: a value whose round trip was skipped because to_vec failed must be one the MODEL's
        # encoder refuses as well (a NaN member); a zero-size guard added to the serializer of arrays / tuples / options
        # would otherwise turn every case into an accepted `skip encerr`
        uenc = {r['cid']: r for r in stage_enc(cfg, exe, driver, [(cid, tid, t, v) for cid, tid, t, v, tail in ucases if (ures.get(cid) or '').startswith('skip encerr')])}
        stats['evaluations'] += len(ucases)
        for cid, tid, t, v, tail in ucases:
            r = ures.get(cid)
            classes['usable:' + (r or 'missing').split(' ')[0]] += 1
            if r is not None and r.startswith('skip encerr'):
                e = uenc.get(cid)
                if e is None or e['status'] != 'run' or not e['agree'] or (e['model'] or '').startswith('ok'):
                    failures.append({'class': 'zst-unusable', 'key': sexp(t),
                                     'what': 'an array/tuple/option of zero-sized types does not serialize although the model encodes it: %s %s -> %s, model %s [%s]'
                                             % (sexp(t), v, (e or {}).get('impl'), (e or {}).get('model'), cfg)})
                continue
            if r is None or not (r.startswith('ok same') or r.startswith('skip from_val')):
                failures.append({'class': 'zst-unusable', 'key': sexp(t),
                                 'what': 'an array/tuple/option of zero-sized types does not round-trip: %s %s -> %s [%s]' % (sexp(t), v, r, cfg)})
        # (4) agreement with schema validation: for every sequence/set type (with a schema) whose
        # element is empty in memory AND on the wire the run-time refusal (checked above) and
        # validate()'s zero-sized-sequence verdict must agree; for elements that occupy the wire
        # validation must not give that verdict.  (Theorems C14_agree / C14_agree_converse.)
        agree_lines, agree_meta = [], {}
        for tid, t in tmap.items():
            if not flt(t) or t[0] != 'seq' or t[1] in MAP_KINDS or t[1] not in GUARDED or not has_schema(t) or not can_de(t):
                continue
            cid = 'a%d' % tid
            agree_lines.append(case_line(cid, 'schema', tid, sexp(t)))
            agree_meta[cid] = t
        ares = run_cases(exe, agree_lines)
        stats['evaluations'] += len(agree_lines)
        for cid, t in agree_meta.items():
            r = ares.get(cid) or 'missing'
            verdict = r.split('\t')[1] if r.count('\t') >= 2 else r
            e = t[2]
            classes['agree:' + ' '.join(verdict.split(' ')[:2])] += 1
            if mem_zst(e) and wire_min(e) == 0 and _wire_empty(e):
                if not verdict.startswith('err ZSTSequence'):
                    failures.append({'class': 'zst-schema-disagree', 'key': sexp(t),
                                     'what': 'run-time refuses %s (zero-sized, wire-empty elements) but schema validation says: %s [%s]' % (sexp(t), verdict, cfg),
                                     'type': sexp(t), 'rust': rust(t), 'validate': verdict, 'cfg': cfg})
            elif not _has_empty_collection(t):
                if verdict.startswith('err ZSTSequence'):
                    failures.append({'class': 'zst-schema-disagree', 'key': sexp(t),
                                     'what': 'schema validation reports a zero-sized sequence for %s whose elements occupy the wire: %s [%s]' % (sexp(t), verdict, cfg)})
        if not stats['samples']:
            stats['samples'] = [{'type': r['type'], 'mode': r['mode'], 'input': r['input'], 'result': r['impl']} for r in drecs[0:600:67]]
            stats['agreement_types'] = len(agree_meta)
            stats['zst_collection_types'] = [sexp(t) for _, t in zc]
            stats['usable_types'] = len(usable)
    stats['result_classes'] = dict(classes)
    stats['distinct_nontrivial'] = len(distinct)
    stats['rule'] = ('every catalogue collection type whose element/key type is memory-zero-sized (all nine guarded kinds incl. feature-gated; unit, PhantomData, RangeFull, '
                     'zero-length arrays, tuples and nestings of these) x generated values x inputs {empty, bare lengths 0/1/2^32-1, random}; distinct = distinct (type, input, entry point)')
    stats['traces_validated_against_impl'] = stats['evaluations']
    return conclude(PID, tier, seed, t0, coq, stats, disagreements, failures, None,
                    level_note='theorems about the Gallina model; tie to the Rust code by differential execution on this run; mem_zst is cross-checked against size_of on every catalogue type')


def replay(path):
    import json
    print(json.dumps(json.load(open(path)), indent=1)[:4000])
    return 0
