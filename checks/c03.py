"""C03  Canonical encoding: equal values always produce identical bytes.

Proof side: Properties/C03.v -- bytes and refusal are functions of the logical value
(C03_canonical, C03_canonical_refusal); permutations of a hash collection, ascending output,
deque splits, the seven wrappers, borrowed slices, the u8 bulk path.

Correspondence + oracle.  For each logical value the implementation is made to hold it in many
representations, all of which must serialize to ONE byte string (oracle, implementation only),
equal to the model's `enc` on every representation the implementation reports:
  A  every catalogue type: `encreps` -- serialized twice, through to_writer, behind & / && /
     Box<&T>, and rebuilt from scratch (fresh allocations, fresh hasher keys in every nested
     std HashMap/HashSet) behind Box / Rc / Arc / RefCell (12 byte strings per value);
  B  every catalogue type with a hash collection or deque at any depth: 6 generator-side
     variants (insertion order forward / reverse / 4 seeded shuffles at every nested hash
     collection, a fresh split of every nested deque);
  C  hand-written history entries (gen/catalogue.py canon_entries): HashSet<T,S>, HashMap<K,V,S>
     with the default hasher and 3 seeds of a custom BuildHasher x 11 histories (orders,
     with_capacity / reserve / shrink_to_fit, remove + reinsert, foreign elements inserted and
     removed, retain, overwrite, clone, collect); VecDeque<T> with push_back / push_front
     histories, every ring-buffer offset, rotations, make_contiguous, growth, shrinking, and the
     Vec of the same content;
  D  groups of catalogue types that differ only in wrappers (&, Box, Cow, Rc, Arc, Cell,
     RefCell) or in [T] versus Vec<T> / str versus String: one value, all spellings."""
import random
from collections import Counter, defaultdict

from codec import *  # noqa
from values import L

PID = 'C03'
HASHK = ('hashset', 'hashmap')


def freeze(v):
    if isinstance(v, int):
        return v
    if v[0] == 'v':
        return ('v', v[1], freeze(v[2]))
    return ('l', tuple(freeze(x) for x in v[1]))


def canon_key(t, v):
    """Hashable canonical form of a key value: equal Rust keys <-> equal forms.  Key types are
    integers, bool, text, raw bytes and Vec / BTreeSet / array / tuple / Option / Result / Box of
    those; only a BTreeSet has several generator forms (any order, repeats)."""
    k = t[0]
    if k == 'seq':
        xs = [canon_key(t[2], x) for x in v[1]]
        if t[1] == 'btreeset':
            xs = sorted(set(xs), key=repr)
        return ('l', tuple(xs))
    if k == 'array':
        return ('l', tuple(canon_key(t[2], x) for x in v[1]))
    if k == 'prod':
        return ('l', tuple(canon_key(tt, x) for tt, x in zip(t[2], v[1])))
    if k == 'sum':
        return ('v', v[1], canon_key(t[2][v[1]], v[2]))
    if k == 'wrap':
        return canon_key(t[2], v)
    return freeze(v)


def dedupe(kind, e, elems):
    seen, out = set(), []
    for x in elems:
        k = canon_key(e[2][0], x[1][0]) if kind.endswith('map') else canon_key(e, x)
        if k not in seen:
            seen.add(k)
            out.append(x)
    return out


def has_freedom(t):
    return any(s[0] == 'seq' and s[1] in HASHK + ('deque',) for s in subterms(t))


def variant(t, v, rng, mode):
    """The same logical value in another generator form: hash collections listed in another
    order (so inserted in another order), deques split elsewhere -- at every depth."""
    k = t[0]
    if k == 'seq':
        kind, e = t[1], t[2]
        if kind == 'deque':
            elems = [variant(e, x, rng, mode) for x in v[1][0][1] + v[1][1][1]]
            cut = len(elems) if mode == 'forward' else rng.randrange(len(elems) + 1)
            return L([L(elems[:cut]), L(elems[cut:])])
        elems = v[1]
        if kind in HASHK:
            elems = dedupe(kind, e, elems)
        elems = [variant(e, x, rng, mode) for x in elems]
        if kind in HASHK:
            if mode == 'reverse':
                elems.reverse()
            elif mode != 'forward':
                rng.shuffle(elems)
        return L(elems)
    if k == 'array':
        return L([variant(t[2], x, rng, mode) for x in v[1]])
    if k == 'prod':
        return L([variant(tt, x, rng, mode) for tt, x in zip(t[2], v[1])])
    if k == 'sum':
        return ('v', v[1], variant(t[2][v[1]], v[2], rng, mode))
    if k == 'wrap':
        return variant(t[2], v, rng, mode)
    return v


def strip(t):
    """The type with wrappers removed and borrowed sequences/strings made owned."""
    k = t[0]
    if k == 'wrap':
        return strip(t[2])
    if k == 'seq':
        return ('seq', 'vec' if t[1] == 'slice' else t[1], strip(t[2]))
    if k == 'text':
        return ('text', {'str': 'string', 'asciistr': 'asciistring'}.get(t[1], t[1]))
    if k == 'array':
        return ('array', t[1], strip(t[2]))
    if k in ('prod', 'sum'):
        return (k, t[1], tuple(strip(x) for x in t[2]))
    return t


def key_of(kind, e):
    return e[2][0] if kind in MAP_KINDS else e


def zsig(t):
    """Which guarded collections have a memory-zero-sized element/key type.  Wrappers other than
    Cell occupy memory (RefCell<()> holds a borrow flag, Box<()> a pointer), so Vec<RefCell<()>>
    is NOT refused while Vec<()> and Vec<Cell<()>> are: the zero-size guard looks at memory
    size (C14).  Spellings are compared only when they agree on this signature."""
    return tuple(mem_zst(key_of(s[1], s[2])) for s in subterms(t) if s[0] == 'seq' and s[1] != 'slice')


def wrappers_in(t):
    return sorted(set(s[1] for s in subterms(t) if s[0] == 'wrap') | set('slice' for s in subterms(t) if s[0] == 'seq' and s[1] == 'slice'))


class Acc:
    def __init__(self):
        self.failures = []
        self.disagreements = []
        self.evals = 0
        self.values = 0
        self.reps = Counter()          # per mechanism: representations serialized
        self.per_value = []            # byte strings compared per logical value
        self.orders = []               # distinct iteration orders / splits seen per value
        self.labels = Counter()
        self.samples = []

    def group(self, what, typ, results, cfg, replay, extra=False):
        """results: [(label, result)] of one logical value; all must be equal.
        extra: a comparison on top of the >= 6 representations (wrapper spellings, part D)."""
        self.values += 1
        if not extra:
            self.per_value.append(len(results))
        rs = set(r for _, r in results)
        if len(rs) > 1 or None in rs:
            by = defaultdict(list)
            for l, r in results:
                by[r].append(l)
            self.failures.append({'class': 'bytes-differ', 'key': '%s %s' % (typ, what),
                                  'what': 'one logical value of %s serialized to %d different results [%s]: %s'
                                          % (typ, len(rs), cfg, '; '.join('%s <- %s' % (r, ','.join(ls[:4])) for r, ls in list(by.items())[:4])),
                                  'type': typ, 'value': what, 'results': {str(r): ls for r, ls in by.items()}, 'cfg': cfg,
                                  'replay_cmd': replay})


def part_a(acc, cfg, exe, driver, cases):
    lines = [case_line(cid, 'encreps', tid, sexp(t), v) for cid, tid, t, v in cases]
    impl = run_cases(exe, lines)
    dl, meta = [], {}
    for (cid, tid, t, v), line in zip(cases, lines):
        r = impl.get(cid)
        if r is None or r.startswith('harness-error') or r == 'panic':
            acc.disagreements.append({'what': 'encreps gave no answer for %s %s: %s' % (sexp(t), v, r)})
            continue
        if r.startswith('skip'):
            continue
        f = r.split('\t')
        if len(f) != 3:
            acc.disagreements.append({'what': 'encreps: malformed answer for %s %s: %s' % (sexp(t), v, r[:200])})
            continue
        res = [tuple(x.split(':', 1)) for x in f[2].split('|')]
        acc.group(f[0], sexp(t), res, cfg, "printf '%s\\n' | <harness-%s>" % (line, cfg))
        acc.reps['A:encreps'] += len(res)
        for l, _ in res:
            acc.labels[l] += 1
        acc.orders.append(len(set(f[:2])))
        meta[cid] = (sexp(t), f[0], f[1], res[0][1])
        dl.append(case_line(cid + 'a', 'enc', tid, sexp(t), f[0]))
        if f[1] != f[0]:
            dl.append(case_line(cid + 'b', 'enc', tid, sexp(t), f[1]))
    model = run_cases(driver, dl)
    acc.evals += len(lines) + len(dl)
    for cid, (ts, r1, r2, first) in meta.items():
        for suffix, rp in (('a', r1), ('b', r2)):
            m = model.get(cid + suffix)
            if (suffix == 'a' or r2 != r1) and m != first:
                acc.disagreements.append({'what': 'enc %s %s: impl %s, model %s [%s]' % (ts, rp, first, m, cfg)})
    if not acc.samples:
        acc.samples = [{'type': sexp(t), 'answer': (impl.get(cid) or '')[:300]} for cid, tid, t, v in cases[11:400:97]]


def part_b(acc, cfg, exe, driver, cases, rng):
    modes = ['forward', 'reverse', 'shuffle1', 'shuffle2', 'shuffle3', 'shuffle4']
    vcases, groups = [], defaultdict(list)
    from values import gen_val, show
    for cid, tid, t, v in cases:
        for m in modes:
            vv = show(variant(t, v, rng, m))
            vcases.append(('%s_%s' % (cid, m), tid, t, vv))
            groups[cid].append('%s_%s' % (cid, m))
    recs = {r['cid']: r for r in stage_enc(cfg, exe, driver, vcases)}
    acc.evals += 2 * len(vcases)
    for cid, members in groups.items():
        rs = [recs[m] for m in members if recs[m]['status'] == 'run']
        if not rs:
            continue
        for r in rs:
            if not r['agree']:
                acc.disagreements.append({'what': 'enc %s %s: impl %s, model %s [%s]' % (r['type'], r['repr'], r['impl'], r['model'], cfg)})
        line = case_line(rs[0]['cid'], 'enc', rs[0]['tid'], rs[0]['type'], rs[0]['gen'])
        acc.group(rs[0]['repr'], rs[0]['type'], [(r['cid'].rsplit('_', 1)[1], r['impl']) for r in rs], cfg,
                  "for every 'gen' in results: printf '%s\\n' | <harness-%s>" % (line, cfg))
        acc.reps['B:insertion-orders-and-splits'] += len(rs)
        acc.orders.append(len(set(r['repr'] for r in rs)))


def distinct_elems(e, rng, n, size, is_map=False, avoid=()):
    from values import gen_val
    ck = (lambda x: canon_key(e[2][0], x[1][0])) if is_map else (lambda x: canon_key(e, x))
    seen = set(ck(x) for x in avoid)
    out = []
    tries = 0
    while len(out) < n and tries < 50 * n + 50:
        tries += 1
        x = gen_val(e, rng, size)
        k = ck(x)
        if k in seen:
            continue
        seen.add(k)
        out.append(x)
    return out


def part_c(acc, cfg, exe, driver, seed, tier, rng):
    from values import show
    sizes = [0, 1, 2, 3, 7, 20, 60] if tier == 'quick' else [0, 1, 2, 3, 5, 7, 12, 20, 33, 60, 150, 400]
    lines, meta = [], {}
    for (tid, t, _ctor) in catmod.canon_entries():
        kind, e = t[1], t[2]
        op = 'dequereps' if kind == 'deque' else 'histreps'
        for j, n in enumerate(sizes):
            elems = distinct_elems(e, rng, n, 5, kind == 'hashmap') if kind != 'deque' else [__import__('values').gen_val(e, rng, 5) for _ in range(n)]
            extra = distinct_elems(e, rng, 4, 5, kind == 'hashmap', avoid=elems) if kind != 'deque' else [__import__('values').gen_val(e, rng, 5) for _ in range(3)]
            cid = 'h%d_%d' % (tid, j)
            lines.append(case_line(cid, op, tid, sexp(t), seed * 100 + j, show(L(elems)), show(L(extra))))
            meta[cid] = (tid, t, lines[-1])
    impl = run_cases(exe, lines)
    dl, want = [], {}
    for cid, (tid, t, line) in meta.items():
        r = impl.get(cid)
        if r is None or r.startswith('harness-error') or r == 'panic' or r.startswith('skip'):
            acc.disagreements.append({'what': 'history op gave no answer for %s: %s' % (sexp(t), r)})
            continue
        reps = [x.split(';', 2) for x in r.split('|')]
        if any(len(x) != 3 for x in reps):
            acc.disagreements.append({'what': 'history op: malformed answer for %s: %s' % (sexp(t), r[:200])})
            continue
        acc.group(reps[0][1], sexp(t), [(l, b) for l, _, b in reps], cfg, "printf '%s\\n' | <harness-%s>" % (line, cfg))
        acc.reps['C:' + t[1]] += len(reps)
        for l, _, _ in reps:
            acc.labels[l.split('-', 1)[0] if t[1] != 'deque' else 'deque'] += 1
        distinct = sorted(set(rp for _, rp, _ in reps))
        acc.orders.append(len(distinct))
        for i, rp in enumerate(distinct):
            dl.append(case_line('%s_%d' % (cid, i), 'enc', tid, sexp(t), rp))
            want['%s_%d' % (cid, i)] = (sexp(t), rp, reps[0][2])
        # the reference encoder on the logical value, once per case
        if reps[0][2].startswith('ok '):
            dl.append(case_line(cid + '_s', 'specenc', tid, sexp(t), distinct[0]))
            want[cid + '_s'] = (sexp(t), distinct[0], reps[0][2].replace('ok ', 'some ', 1))
    model = run_cases(driver, dl)
    acc.evals += len(lines) + len(dl)
    for k, (ts, rp, first) in want.items():
        if model.get(k) != first:
            acc.disagreements.append({'what': '%s %s %s: impl %s, model/spec %s [%s]' % ('specenc' if k.endswith('_s') else 'enc', ts, rp, first, model.get(k), cfg)})


def part_d(acc, cfg, exe, driver, tier, rng, flt):
    from values import gen_val, show
    groups = defaultdict(list)
    for tid, t in catmod.catalogue_types():
        if flt(t):
            groups[(strip(t), zsig(t))].append((tid, t))
    groups = {k: v for k, v in groups.items() if len(v) > 1}
    per = 4 if tier == 'quick' else 16
    cases, meta = [], defaultdict(list)
    for gi, ((base, _sig), members) in enumerate(groups.items()):
        for j in range(per):
            v = show(gen_val(base, rng, 6))
            for tid, t in members:
                cid = 'w%d_%d_%d' % (gi, j, tid)
                cases.append((cid, tid, t, v))
                meta[(gi, j)].append((cid, t))
    recs = {r['cid']: r for r in stage_enc(cfg, exe, driver, cases)}
    acc.evals += 2 * len(cases)
    wr = Counter()
    for (gi, j), members in meta.items():
        rs = [(t, recs[cid]) for cid, t in members if recs[cid]['status'] == 'run']
        if len(rs) < 2:
            continue
        for t, r in rs:
            if not r['agree']:
                acc.disagreements.append({'what': 'enc %s %s: impl %s, model %s [%s]' % (r['type'], r['repr'], r['impl'], r['model'], cfg)})
            for w in wrappers_in(t):
                wr[w] += 1
        line = case_line(rs[0][1]['cid'], 'enc', rs[0][1]['tid'], rs[0][1]['type'], rs[0][1]['gen'])
        acc.group(rs[0][1]['gen'], 'wrapper group of ' + sexp(strip(rs[0][0])), [(rust(t), r['impl']) for t, r in rs], cfg,
                  "same value under each spelling, e.g. printf '%s\\n' | <harness-%s>" % (line, cfg), extra=True)
        acc.reps['D:wrappers'] += len(rs)
    return dict(wr), len(groups)


def run_all(tier, seed, exes, driver, acc, values_per_type=None):
    from values import gen_val, show
    info = {}
    for cfg, exe in exes.items():
        rng = random.Random(seed * 101 + 3)
        nostd = cfg.startswith('nostd')
        flt = (lambda t: not needs_std(t)) if nostd else (lambda t: True)
        par = tier_params(tier)
        n = values_per_type or (5 if tier == 'quick' else 14)
        cases_a, cases_b = [], []
        for tid, t in catmod.catalogue_types():
            if not flt(t):
                continue
            for j in range(n):
                v = gen_val(t, rng, par['size'])
                cases_a.append(('a%d_%d' % (tid, j), tid, t, show(v)))
                if has_freedom(t):
                    cases_b.append(('b%d_%d' % (tid, j), tid, t, v))
            if has_freedom(t):
                for j in range(n, 2 * n):
                    cases_b.append(('b%d_%d' % (tid, j), tid, t, gen_val(t, rng, par['size'] + 3)))
        part_a(acc, cfg, exe, driver, cases_a)
        part_b(acc, cfg, exe, driver, cases_b, rng)
        part_c(acc, cfg, exe, driver, seed, tier, rng)
        wr, ng = part_d(acc, cfg, exe, driver, tier, rng, flt)
        if not nostd:
            part_index(acc, cfg, exe, rng)
        info[cfg] = {'wrapper_groups': ng, 'wrapper_occurrences': wr, 'types_with_hash_or_deque': len(set(c[1] for c in cases_b))}
    return info


def part_index(acc, cfg, exe, rng):
    """IndexSet / IndexMap: values that compare equal (indexmap's `==` ignores the order) built by inserting the same
    entries forwards and backwards.  The property speaks of "two values that compare equal"; the model's logical
    value of an index collection is the entry SEQUENCE, so the model cannot see this - the implementation is asked."""
    lists = ['0102', '00ff', '050403020100', bytes(rng.randrange(256) for _ in range(9)).hex(), '07']
    res = run_cases(exe, ['x%d\tindexeq\t-\t-\t%s' % (i, h) for i, h in enumerate(lists)])
    for i, h in enumerate(lists):
        r = res.get('x%d' % i)
        acc.evals += 1
        if not r or ';' not in r:
            acc.disagreements.append({'what': 'indexeq gave no answer for %s: %r [%s]' % (h, r, cfg)})
            continue
        for part in r.split(';'):
            f = dict(x.split('=', 1) for x in part.split(' ')[1:] if '=' in x)
            kind = part.split(' ')[0]
            if f.get('eq') == 'true' and f.get('bytes') == 'false':
                acc.failures.append({'class': 'index-insertion-order', 'key': 'Index%s %s' % (kind, h),
                                     'what': 'two Index%s values with the entries %s compare equal (==) and serialize to different bytes: %s / %s [%s]'
                                             % ('Set<u8>' if kind == 'set' else 'Map<u8, u16>', h, f.get('first', '?'), f.get('second', '?'), cfg),
                                     'entries': h, 'cfg': cfg, 'replay_cmd': "printf 'x\\tindexeq\\t-\\t-\\t%s\\n' | %s" % (h, exe)})


def run(tier, seed, t0):
    coq = coq_property(PID)
    driver = ensure_driver()
    cfgs = ['std-strict', 'nostd-strict'] if tier == 'quick' else ['std-strict', 'std-loose', 'nostd-strict', 'nostd-loose']
    exes, disagreements = ensure_harnesses(cfgs)
    acc = Acc()
    info = run_all(tier, seed, exes, driver, acc)
    pv = sorted(acc.per_value)
    od = Counter(min(o, 10) for o in acc.orders)
    stats = {'evaluations': acc.evals, 'configs': list(exes), 'logical_values': acc.values,
             'representations_serialized': dict(acc.reps),
             'representations_per_value': {'min': pv[0] if pv else 0, 'median': pv[len(pv) // 2] if pv else 0, 'max': pv[-1] if pv else 0,
                                           'values_with_at_least_6': sum(1 for x in pv if x >= 6)},
             'distinct_orders_or_splits_per_value(10=10+)': {str(k): v for k, v in sorted(od.items())},
             'mechanism_labels': dict(acc.labels), 'per_config': info, 'samples': acc.samples,
             'distinct_nontrivial': sum(1 for o in acc.orders if o > 1),
             'rule': 'a logical value counts as non-trivial when the implementation was observed holding it in at least two different '
                     'representations (iteration orders / deque splits); every value is serialized in >= 6 ways',
             'traces_validated_against_impl': acc.evals}
    disagreements += acc.disagreements
    if not acc.values or stats['representations_per_value']['min'] < 6 or stats['distinct_nontrivial'] < 200:
        disagreements.append({'what': 'generator floor missed: min representations %s, values seen in >= 2 representations %s'
                                      % (stats['representations_per_value']['min'], stats['distinct_nontrivial'])})

    def search():
        acc2 = Acc()
        for s2 in range(1, 4):
            run_all('quick', seed * 1000 + s2, exes, driver, acc2, values_per_type=8)
            if acc2.failures:
                break
        return acc2.failures

    return conclude(PID, tier, seed, t0, coq, stats, disagreements, acc.failures, search,
                    level_note='theorem about the Gallina model; tie to the Rust code by differential execution on this run; the oracle '
                               '(one byte string per logical value) is evaluated on the implementation alone',
                    extra_assumptions=['IndexMap / IndexSet: the logical value is the entry SEQUENCE (the format carries insertion order), '
                                       'so their insertion order is not permuted (DESIGN.md section 5, C03)',
                                       'hash iteration being a permutation of the entries is a fact about std/hashbrown, observed here, not proved'])


def replay(path):
    import json
    d = json.load(open(path))
    print(json.dumps(d.get('failure') or d.get('broken'), indent=1))
    return 0
