"""C18  Derives refuse definitions whose encoding would be ambiguous or unrepresentable.

Proof side: Properties/C18.v (C18_class, C18_exact_partial and the three refutations).
Correspondence (programs): legal base items and, for every rule of the property, that rule violated at
every variant / field position of a base item (gen/items.py `mutations`), each with one derive
(BorshSerialize / BorshDeserialize / BorshSchema) in its own `mod`.  The expected verdict and the
compiler phase come from the Coq model (`check`, driver op `derive`); items are batched by phase so that
one failing phase does not mask another: expansion errors, type errors (E0600), literal lints
(cargo check), arithmetic lints (cargo build), and a crate of everything the model accepts (cargo build).
Property oracle, independent of the model: every mutation violates a rule by construction and so has to
be refused; every control has to compile.
Source-level cases (outside the item syntax of the model): RAW_CONTROLS must compile, RAW_NEGATIVES (a key repeated
inside bound(..) / schema(..) / with_funcs(..)) must be refused by each of the three derives.
A sample of the corpus is built a second time against `borsh = { features = ["derive"] }` (borsh-derive without its
`schema` feature): violations are still refused, legal items compile, and a schema(..) field attribute is refused as an
unknown key."""
import random
from collections import Counter

from codec import *  # noqa
from derivelib import *  # noqa

PID = 'C18'
KINDS = {'ser': 'BorshSerialize', 'de': 'BorshDeserialize', 'schema': 'BorshSchema'}
PHASE = {'TagType': 'type', 'TagLiteral': 'literal', 'TagArith': 'arith'}

# positive controls given as source (outside the item grammar of the model): must compile
RAW_CONTROLS = [
    ('raw_f9_schema', 'F9 witness: where-clause naming another parameter, BorshSchema (fixed by 909991a)',
     '#[derive(borsh::BorshSerialize, borsh::BorshDeserialize, borsh::BorshSchema)]\npub enum G<T, U> where T: Into<U> { X(T), Y(U) }\n'
     'pub fn touch() -> borsh::schema::BorshSchemaContainer { borsh::schema::BorshSchemaContainer::for_type::<G<u8, u16>>() }'),
    ('raw_f9_assoc', 'where-clause over an associated type and a second parameter, BorshSchema',
     'pub trait Tr { type A; }\n#[derive(borsh::BorshSchema)]\npub enum H<T: Tr, U> where T::A: core::fmt::Debug, U: Clone { X(T::A, u8), Y(U) }'),
    ('raw_zero_variants', 'enum without variants, all three derives (F28: BorshSerialize failed with E0004; fixed by f6c47ad)',
     '#[derive(borsh::BorshSerialize, borsh::BorshDeserialize, borsh::BorshSchema)]\npub enum Never {}\n'
     '#[derive(borsh::BorshSerialize, borsh::BorshDeserialize, borsh::BorshSchema)]\npub struct HasNever { pub o: Option<Never>, pub r: Result<u8, Never> }\n'
     'pub fn touch() -> Vec<u8> { borsh::to_vec(&HasNever { o: None, r: Ok(3) }).unwrap() }'),
    ('raw_lifetime_enum', 'enum with a lifetime parameter (used by every variant), all three derives',
     '#[derive(borsh::BorshSerialize, borsh::BorshDeserialize, borsh::BorshSchema)]\n'
     "pub enum L<'a> { A(std::borrow::Cow<'a, str>), B { x: std::borrow::Cow<'a, [u8]>, y: u8 } }\n"
     "pub fn touch() -> borsh::schema::BorshSchemaContainer { borsh::schema::BorshSchemaContainer::for_type::<L<'static>>() }"),
    ('raw_const_enum', 'enum with a const generic parameter, all three derives',
     '#[derive(borsh::BorshSerialize, borsh::BorshDeserialize, borsh::BorshSchema)]\npub enum C<const N: usize> { A([u8; N]), B }\n'
     'pub fn touch() -> borsh::schema::BorshSchemaContainer { borsh::schema::BorshSchemaContainer::for_type::<C<3>>() }'),
    ('raw_lifetime_const_generic_enum', 'enum with lifetime, type and const parameters, all three derives',
     '#[derive(borsh::BorshSerialize, borsh::BorshDeserialize, borsh::BorshSchema)]\n'
     "pub enum M<'a, T: Clone, const N: usize> { A { xs: std::borrow::Cow<'a, [T]> }, B([T; N], std::borrow::Cow<'a, str>) }\n"
     "pub fn touch() -> borsh::schema::BorshSchemaContainer { borsh::schema::BorshSchemaContainer::for_type::<M<'static, u8, 2>>() }"),
    ('raw_ref_slice_struct', 'struct over a borrowed slice of a type parameter: BorshSerialize; skipped: all three derives',
     "#[derive(borsh::BorshSerialize)]\npub struct V<'a, T> { pub items: &'a [T] }\n"
     '#[derive(borsh::BorshSerialize, borsh::BorshDeserialize, borsh::BorshSchema)]\n'
     "pub struct K<'a, T, U: Clone> { #[borsh(skip)] pub items: &'a [T], pub b: Box<[U]>, #[borsh(skip)] pub p: Option<*const T> }\n"
     'pub fn touch(v: &V<u8>) -> Vec<u8> { borsh::to_vec(v).unwrap() }'),
    ('raw_ident_generic_enum', 'raw identifiers as variant / field names of a generic enum, all three derives',
     '#[derive(borsh::BorshSerialize, borsh::BorshDeserialize, borsh::BorshSchema)]\n'
     'pub enum R<T> { r#type, r#match { r#fn: T, #[borsh(skip)] r#loop: u8 }, C(u8) }\n'
     'pub fn touch() -> borsh::schema::BorshSchemaContainer { borsh::schema::BorshSchemaContainer::for_type::<R<u8>>() }'),
    ('raw_variant_other_attrs', 'non-borsh attributes on variants at every position stay legal',
     '#[derive(borsh::BorshSerialize, borsh::BorshDeserialize, borsh::BorshSchema)]\npub enum V { #[allow(dead_code)] A, #[doc = "b"] B(u8), #[cfg(all())] C { x: u16 }, /// doc\n D }'),
]


# negative controls given as source: a key repeated inside the NESTED lists the item syntax of the model cannot express
# (`get_nested_meta_logic` serves bound(..), schema(..) and with_funcs(..) too; refused since 922f373, before it the last
# occurrence silently won).  Each is compiled once per derive and must be REFUSED by every one of them (all three derives
# parse the field attributes); the twin without the repetition is a positive control (all three derives in one module).
_B2 = 'bound(serialize = "T: borsh::BorshSerialize", serialize = "T: borsh::BorshSerialize", deserialize = "T: borsh::BorshDeserialize")'
_B1 = 'bound(serialize = "T: borsh::BorshSerialize", deserialize = "T: borsh::BorshDeserialize")'
_B2D = 'bound(deserialize = "T: borsh::BorshDeserialize", serialize = "T: borsh::BorshSerialize", deserialize = "T: borsh::BorshDeserialize + Default")'
_P2 = 'schema(params = "T => T", params = "T => T")'
_P1 = 'schema(params = "T => T")'
_W2 = 'schema(with_funcs(declaration = "crate::withfns::decl", declaration = "crate::withfns::decl", definitions = "crate::withfns::defs"))'
_W2D = 'schema(with_funcs(definitions = "crate::withfns::defs", declaration = "crate::withfns::decl", definitions = "crate::withfns::defs"))'
_W1 = 'schema(with_funcs(declaration = "crate::withfns::decl", definitions = "crate::withfns::defs"))'
_SHAPES = [('struct', 'pub struct S<T> { pub a: u8, #[borsh(%s)] pub b: Vec<T>, #[borsh(skip)] pub c: u8 }'),
           ('enum', 'pub enum S<T> { A, B(u8, #[borsh(%s)] Vec<T>), C { #[borsh(skip)] x: u8, y: u16 } }')]
RAW_NEGATIVES = []        # (id, where, body with one %s for the derive path)
for _sid, _shape in _SHAPES:
    for _nid, _what, _neg, _pos in (('bound_ser', 'bound(serialize = .., serialize = .., deserialize = ..)', _B2, _B1),
                                    ('bound_de', 'bound(deserialize = .., serialize = .., deserialize = ..)', _B2D, _B1),
                                    ('params', 'schema(params = .., params = ..)', _P2, _P1),
                                    ('wf_decl', 'schema(with_funcs(declaration = .., declaration = .., definitions = ..))', _W2, _W1),
                                    ('wf_defs', 'schema(with_funcs(definitions = .., declaration = .., definitions = ..))', _W2D, _W1),
                                    ('bound_params', 'bound(..) legal next to schema(params = .., params = ..)', _B1 + ', ' + _P2, _B1 + ', ' + _P1)):
        RAW_NEGATIVES.append(('rawneg_%s_%s' % (_nid, _sid), 'a key twice in a nested list: %s on a field of a generic %s' % (_what, _sid),
                              '#[derive(%s)]\n' + _shape % _neg))
        if _nid in ('bound_ser', 'params', 'wf_decl', 'bound_params'):
            RAW_CONTROLS.append(('raw_twin_%s_%s' % (_nid, _sid), 'legal twin of the nested-list repetition: %s on a field of a generic %s' % (_pos, _sid),
                                 '#[derive(borsh::BorshSerialize, borsh::BorshDeserialize, borsh::BorshSchema)]\n' + _shape % _pos))


def known_class(rule, where):
    if '[implicit-overflow]' in where:
        return 'implicit-discr-overflow'
    if '[type-dependent]' in where:
        return 'discr-type-dependent'
    return 'not-refused:' + rule


def module_body(it, kind):
    extra = () if it['kind'] == 'union' else ('Clone',)
    if kind == 'schema':
        extra = ()
    return 'use std::collections::BTreeMap;\n' + I.rust_item(it, derives=(KINDS[kind],), extra_derives=extra)


def kinds_for(it, tier):
    if it['name'].startswith('BaseR') or it['name'].startswith('Big'):
        return ('ser', 'de')
    return ('ser', 'de', 'schema')


def has_schema_key(it):
    return '(schema ' in I.item_sexp(it)


def evaluate(tier, seeds, driver, tagname='', noschema=False):
    """Model verdicts + compile verdicts for the negatives and controls of the given seeds.
    noschema: the second build -- borsh with `features = ["derive"]` only, i.e. borsh-derive WITHOUT its `schema` feature
    (no BorshSchema derive, `schema` not in the field key map): a sample of the same corpus (one of BorshSerialize /
    BorshDeserialize per item, alternating; every 4th of the discriminant-fit negatives), the model reading every
    `schema(..)` entry as an unknown key (derivelib.without_schema_feature).
    Returns (stats, disagreements, failures)."""
    disagreements, failures = [], []
    stats = {'evaluations': 0, 'samples': []}
    allcases = []
    for sd in seeds:
        bases = I.base_items(sd)
        muts = I.mutations(bases)
        ctrls = I.controls(bases)
        for n_, (name, rule, where, it) in enumerate(muts):
            if noschema and rule == 'discriminant-fit' and n_ % 4:
                continue
            for k in (kinds_for(it, tier) if not noschema else (('ser', 'de')[n_ % 2],)):
                allcases.append({'id': 's%d_%s_%s' % (sd, name, k), 'neg': True, 'rule': rule, 'where': where, 'it': it, 'kind': k})
        for n_, (name, where, it) in enumerate(ctrls):
            for k in (kinds_for(it, tier) if not noschema else (('ser', 'de')[n_ % 2],)):
                allcases.append({'id': 's%d_%s_%s' % (sd, name, k), 'neg': False, 'rule': 'control', 'where': where, 'it': it, 'kind': k})
    if not noschema:
        raw = [{'id': 's%d_%s' % (seeds[0], rid), 'where': where, 'src': src} for rid, where, src in RAW_CONTROLS]
        rawneg = [{'id': 's%d_%s_%s' % (seeds[0], rid, k), 'where': where, 'kind': k, 'src': src % ('borsh::' + KINDS[k])}
                  for rid, where, src in RAW_NEGATIVES for k in ('ser', 'de', 'schema')]
    else:
        # the repetitions inside bound(..) are refused as such; those inside schema(..) already because `schema` is unknown;
        # the legal bound(..) twins (BorshSchema taken off the derive list) still compile
        raw = [{'id': 's%d_%s' % (seeds[0], rid), 'where': where, 'src': src.replace(', borsh::BorshSchema', '')}
               for rid, where, src in RAW_CONTROLS if rid.startswith('raw_twin_bound_ser')]
        rawneg = [{'id': 's%d_%s_%s' % (seeds[0], rid, k), 'where': where, 'kind': k, 'src': src % ('borsh::' + KINDS[k])}
                  for rid, where, src in RAW_NEGATIVES for k in ('ser', 'de')]
    mv = model_verdicts(driver, [(c['id'], c['kind'], c['it']) for c in allcases], fix=without_schema_feature if noschema else None)
    stats['evaluations'] += len(allcases)
    batches = {'expansion': [], 'type': [], 'literal': [], 'arith': [], 'accept': []}
    classes = Counter()
    for c in allcases:
        m = mv.get(c['id'], {})
        c['model'] = m
        v = m.get('verdict')
        if v is None:
            disagreements.append({'what': 'model gave no verdict on %s: %s' % (c['where'], m.get('error'))})
            continue
        classes['model:' + v] += 1
        # the model against its own rule list (instances of C18_exact / C18_class)
        flags = m['flags']
        exceptional = flags.get('f11') == '1' or flags.get('f12') == '1'
        if not exceptional and ((v == 'accept') != (not m['viol'])):
            disagreements.append({'what': 'model: check = %s but violations = %s on %s' % (v, m['viol'], c['where'])})
        if v == 'accept':
            batches['accept'].append(c)
        else:
            batches[PHASE.get(v.split(':')[1], 'expansion')].append(c)
    withfns = I.C18_WITHFNS if not noschema else '\n'.join(l for l in I.C18_WITHFNS.split('\n') if 'borsh::schema::' not in l)
    prelude = 'pub mod withfns {\n' + withfns + '\n}'
    results = {}
    late_failures = []       # source-level negatives: reported after the generated ones
    stats['batches'] = {}
    for bname, cs in batches.items():
        if not cs:
            continue
        mods = [(c['id'], module_body(c['it'], c['kind'])) for c in cs]
        if bname == 'accept':
            mods += [(r['id'], r['src']) for r in raw]
        if bname == 'expansion':
            mods += [(r['id'], r['src']) for r in rawneg]
        d, ranges = cp.module_crate(('c18ns_' if noschema else 'c18_') + bname + tagname, mods, prelude=prelude,
                                    deps=cp.DEPS_NOSCHEMA if noschema else None)
        if bname in ('arith', 'accept'):
            # arithmetic_overflow is a MIR lint: reported by `cargo build`, not by `cargo check`
            cmd_build = True
        else:
            cmd_build = False
        rc, errs, tail = cargo_run(d, 'target-c18', cmd_build)
        by_mod, lost = cp.failing_modules(errs, ranges)
        if rc != 0 and not errs:
            # a timeout or a failed build of borsh itself: no verdict about any item of the batch (NOT "everything compiles")
            raise CheckBroken('batch %s: cargo failed (rc %s) without a diagnostic: %s' % (bname, rc, tail[-300:]))
        if lost:
            disagreements.append({'what': 'batch %s: %d diagnostics could not be attributed, first: %s' % (bname, len(lost), lost[0][:200])})
        stats['batches'][bname] = {'items': len(cs), 'failed_to_compile': len([1 for c in cs if by_mod.get(c['id'])])}
        for c in cs:
            results[c['id']] = by_mod.get(c['id'])
        if bname == 'expansion':
            for r in rawneg:
                stats['evaluations'] += 1
                errs_ = by_mod.get(r['id'])
                stats.setdefault('raw_negatives', {})[r['where'] + ' [' + r['kind'] + ']'] = 'compiles' if errs_ is None else 'refused: ' + errs_[0][1][:80]
                if errs_ is None:
                    late_failures.append({'class': 'not-refused:repeated-key', 'key': r['id'], 'rule': 'repeated-key',
                                     'what': 'a definition violating the rule "repeated-key" compiles with derive(%s): %s' % (KINDS[r['kind']], r['where']),
                                     'source': r['src']})
        if bname == 'accept':
            for r in raw:
                stats['evaluations'] += 1
                errs_ = by_mod.get(r['id'])
                classes_raw = 'raw-control:' + ('compiles' if errs_ is None else 'refused')
                stats.setdefault('raw_controls', {})[r['where']] = classes_raw
                if errs_ is not None:
                    failures.append({'class': 'legal-item-refused', 'key': r['id'],
                                     'what': 'a legal definition is refused: %s: %s' % (r['where'], errs_[0][1][:200]), 'source': r['src']})
    stats['evaluations'] += len(results)
    phase_codes = Counter()
    for c in allcases:
        if c['id'] not in results:
            continue
        errs = results[c['id']]
        compiled = errs is None
        v = c['model']['verdict']
        src = module_body(c['it'], c['kind']).split('\n')
        src = '\n'.join(l for l in src if 'INIT_' not in l)
        if errs:
            phase_codes[str(errs[0][0] or 'macro')] += 1
        # model against implementation
        if (v == 'accept') != compiled:
            disagreements.append({'what': 'model says %s, rustc %s: %s [%s]%s' % (v, 'accepts' if compiled else 'refuses', c['where'], c['kind'],
                                                                                '' if compiled else ' -- ' + errs[0][1][:160]),
                                  'source': src, 'item': I.item_sexp(c['it']), 'kind': c['kind']})
        # the property itself
        if c['neg'] and compiled:
            failures.append({'class': known_class(c['rule'], c['where']), 'key': c['where'] + ' ' + c['kind'],
                             'what': 'a definition violating the rule "%s" compiles with derive(%s): %s' % (c['rule'], KINDS[c['kind']], c['where']),
                             'source': src, 'rule': c['rule']})
        if noschema and not c['neg'] and has_schema_key(c['it']):
            # legal with the schema feature; without it `schema(..)` is an unknown field key and has to be refused as such
            classes['control-with-schema-key' + (':compiles' if compiled else ':refused')] += 1
            if compiled:
                failures.append({'class': 'not-refused:schema-key-without-feature', 'key': c['where'] + ' ' + c['kind'],
                                 'what': 'borsh-derive without its schema feature accepts a schema(..) field attribute with derive(%s): %s' % (KINDS[c['kind']], c['where']),
                                 'source': src})
            continue
        if not c['neg'] and not compiled:
            failures.append({'class': 'legal-item-refused', 'key': c['where'] + ' ' + c['kind'],
                             'what': 'a legal definition is refused with derive(%s): %s: %s' % (KINDS[c['kind']], c['where'], errs[0][1][:200]),
                             'source': src})
        classes[('neg:' + c['rule'] if c['neg'] else 'control') + (':compiles' if compiled else ':refused')] += 1
    failures += late_failures
    stats['result_classes'] = dict(classes)
    stats['diagnostic_codes'] = dict(phase_codes)
    stats['distinct_nontrivial'] = len(set((c['where'], c['kind']) for c in allcases if c['id'] in results))
    stats['negatives'] = len([c for c in allcases if c['neg']])
    stats['controls'] = len([c for c in allcases if not c['neg']])
    stats['rule'] = ('8 legal base items per seed (5 fixed, 3 seeded) x every rule of the statement applied at every variant/field position x '
                     'derive kinds; a case is an (item, derive) pair in its own module; verdict = an error diagnostic whose span lies in the module')
    stats['samples'] = [{'where': c['where'], 'kind': c['kind'], 'model': c['model'].get('verdict'),
                         'rustc': 'compiles' if results.get(c['id']) is None else results[c['id']][0][1][:100]}
                        for c in allcases[7:len(allcases):max(1, len(allcases) // 10)] if c['id'] in results][:10]
    stats['traces_validated_against_impl'] = len(results)
    return stats, disagreements, failures


def run(tier, seed, t0):
    coq = coq_property(PID)
    driver = ensure_driver()
    seeds = [seed] if tier == 'quick' else [seed, seed + 1000, seed + 2000]
    stats, disagreements, failures = evaluate(tier, seeds, driver)
    # the second build: borsh-derive without its `schema` feature (plain `borsh = { features = ["derive"] }`)
    ns, ndis, nfails = evaluate(tier, seeds[:1], driver, noschema=True)
    for d_ in ndis:
        d_['what'] = '[features = ["derive"] only] ' + d_['what']
    for f_ in nfails:
        f_['what'] = '[features = ["derive"] only] ' + f_['what']
        f_['key'] = 'noschema ' + f_['key']
    disagreements += ndis
    failures += nfails
    stats['evaluations'] += ns['evaluations']
    stats['traces_validated_against_impl'] += ns['traces_validated_against_impl']
    stats['noschema_build'] = {k_: ns[k_] for k_ in ('result_classes', 'batches', 'negatives', 'controls', 'diagnostic_codes', 'raw_controls', 'raw_negatives', 'samples') if k_ in ns}

    def search():
        # something broke without a failing definition at hand: the property oracle on other seeds
        # (other random base items, hence other positions)
        _, _, more = evaluate(tier, [seed + 7000, seed + 8000], driver, '_search')
        return more

    return conclude(PID, tier, seed, t0, coq, stats, disagreements, failures, search,
                    level_note='theorem about the Gallina transcription of the macro checks and of the u8 typing of tag expressions; '
                               'rustc diagnostics are observed on generated programs in this run; C18_exact holds outside three named classes '
                               '(variant attributes, implicit discriminant overflow, type-dependent discriminant expressions), each refuted by a witness',
                    extra_assumptions=['the theorems are about borsh-derive built with its `schema` feature (field key `schema(...)` known to all three '
                                       'derives); for the build without it the model item is rewritten (every schema(..) entry becomes an unknown key) before '
                                       '`check` is asked, and only BorshSerialize / BorshDeserialize exist'])


def cargo_run(crate_dir, target, build):
    import json
    import subprocess
    cmd = ['timeout', '1500', 'cargo', 'build' if build else 'check', '--offline', '--message-format=json', '--target-dir', '%s/%s%s' % (CACHE, target, cp.TAG)]
    p = subprocess.run(cmd, cwd=crate_dir, env=ENV, stdout=subprocess.PIPE, stderr=subprocess.PIPE, text=True, timeout=1600)
    errs = []
    for line in p.stdout.split('\n'):
        if not line.startswith('{'):
            continue
        try:
            m = json.loads(line)
        except ValueError:
            continue
        if m.get('reason') == 'compiler-message' and m['message'].get('level') == 'error':
            errs.append(m['message'])
    return p.returncode, errs, p.stderr[-1500:]


def replay(path):
    import json
    d = json.load(open(path))
    print(json.dumps(d.get('failure') or d.get('broken'), indent=1))
    return 0
