"""C11  Decoding is independent of how the reader fragments or interrupts the stream.

Proof side: Properties/C11.v (C11_fragment, C11_failure, C11_failure_transparent, C11_probe).
Correspondence: the implementation reads catalogue values through a scheduled reader
implementing borsh::io::Read (std's trait in the std builds, the crate's shim in the nostd
builds); the extracted model runs the same schedule.  Compared: result (value / kind /
message) and the number of bytes pulled from the reader.
Property oracle (implementation only): the result under a schedule of deliveries and
interruptions equals the result of decoding the same bytes from a plain slice, and exactly the
value's bytes are pulled (plus one probed byte for try_from_reader / from_reader); a failure
injected before the value is complete comes back with its kind and message."""
from iolib import *  # noqa

PID = 'C11'
ENTRIES = ('deserialize_reader', 'try_from_reader', 'from_reader')


def build_cases(encs, rng, tier, seed):
    """encs: [(tid, type, hex)] valid encodings.  Returns list of dicts (cid, tid, t, entry, data, sched, fam, fail)."""
    cases = []

    def add(fam, tid, t, entry, data, items, fail=None):
        cases.append({'cid': 'c%d' % len(cases), 'tid': tid, 't': t, 'entry': entry, 'data': data,
                      'sched': sched_s(items), 'fam': fam, 'fail': fail, 'ncalls': len(items)})

    max_comp = 10 if tier == 'quick' else 12
    by_len = {}
    for tid, t, h in encs:
        by_len.setdefault(len(h) // 2, []).append((tid, t, h))
    # A. exhaustive compositions of the byte stream
    for L in sorted(by_len):
        if L == 0 or L > max_comp:
            continue
        pool = by_len[L]
        seen_t = set()
        picked = []
        for tid, t, h in pool:
            if tid not in seen_t:
                seen_t.add(tid)
                picked.append((tid, t, h))
        limit = len(picked) if L <= 7 else (24 if L <= 9 else 10)
        rng.shuffle(picked)
        for tid, t, h in picked[:limit]:
            tail = rng.choice(('', 'a5', '00ff'))
            for comp in compositions(L):
                add('compositions', tid, t, 'deserialize_reader', h + tail, ['d%d' % k for k in comp])
            for comp in list(compositions(L))[::7]:
                add('compositions', tid, t, rng.choice(ENTRIES[1:]), h, ['d%d' % k for k in comp])
    # B. an interruption at every call index of a fixed fragmentation
    sample = encs[:] if tier != 'quick' else encs[::2]
    for tid, t, h in sample:
        L = len(h) // 2
        if L == 0 or L > 48:
            continue
        step = rng.choice((1, 1, 2, 3))
        base = ['d%d' % step] * ((L + step - 1) // step)
        for j in range(len(base) + 1):
            it = base[:j] + [rng.choice(('i', 'i', 'i,i', 'fI:3'))] + base[j:]
            add('interrupt_at', tid, t, 'deserialize_reader', h + 'ee', it)
    # C. a hard failure at every byte offset
    for tid, t, h in sample:
        L = len(h) // 2
        if L > 48:
            continue
        for j in range(L + 2):
            k = rng.choice(USER_KINDS)
            n = rand_msg(rng)
            entry = 'deserialize_reader' if rng.random() < 0.7 else rng.choice(ENTRIES[1:])
            add('fail_at', tid, t, entry, h, ['d1'] * j + [fail_item(k, n)], fail=(j, k, n))
        # kinds with a meaning of their own: UnexpectedEof (mapped by the crate) and Interrupted
        j = rng.randrange(L + 1)
        n = rng.randrange(100)
        add('fail_eof', tid, t, 'deserialize_reader', h, ['d1'] * j + ['fE:%d' % n], fail=(j, 'E', n))
    # D. random schedules on everything, including long values
    reps = 2 if tier == 'quick' else 6
    for tid, t, h in encs:
        L = len(h) // 2
        for _ in range(reps):
            tail = rng.choice(('', '', '7f', '0102'))
            add('random', tid, t, rng.choice(ENTRIES), h + tail, rand_rsched(rng, L + len(tail) // 2 + 1, rng.choice((0.0, 0.2, 0.5))))
    # F. malformed input (truncations, corruptions) under random schedules
    for tid, t, h in sample:
        L = len(h) // 2
        if L == 0:
            continue
        cuts = range(L) if L <= 12 else sorted(rng.sample(range(L), 8))
        for c in cuts:
            add('truncated', tid, t, rng.choice(ENTRIES[:2]), h[:2 * c], rand_rsched(rng, c + 1, 0.2))
        for _ in range(0 if unbounded_on_hostile_input(t) else 2):
            p = rng.randrange(L)
            b = bytearray.fromhex(h)
            b[p] = rng.choice((0, 1, 2, 255, b[p] ^ 0x80))
            add('corrupted', tid, t, 'deserialize_reader', b.hex(), rand_rsched(rng, L + 1, 0.2))
    # E. byte vectors beyond 1 MiB: the chunked read with doubling
    tv = tid_of()[VEC_U8]
    sizes = [(1 << 20) + 4097, (1 << 20), (1 << 20) + 1] if tier == 'quick' else [(1 << 20) + 4097, 1 << 20, (1 << 20) + 1, 3 * (1 << 20) + 5]
    for i, n in enumerate(sizes):
        h = big_vec_hex(seed * 31 + i, n)
        add('big', tv, VEC_U8, 'deserialize_reader', h + 'ab', [])
        add('big', tv, VEC_U8, 'try_from_reader', h, ['d4', 'i', 'd%d' % (1 << 20), 'i', 'i', 'd4096', 'i'])
        add('big', tv, VEC_U8, 'deserialize_reader', h + 'ab', rand_rsched(rng, n + 5, 0.3, big=True))
        add('big', tv, VEC_U8, 'deserialize_reader', h, ['d3', 'd1', 'd%d' % ((1 << 20) - 1), 'i', 'd1', 'd65536', 'fI:1', 'd70000'])
        add('big', tv, VEC_U8, 'deserialize_reader', h[:len(h) - 20], ['d4', 'd%d' % (1 << 19), 'i'])   # truncated
        add('big', tv, VEC_U8, 'deserialize_reader', h, ['d4', 'd%d' % (1 << 20), 'f2:9'], fail=(4 + (1 << 20), 2, 9))
    return cases


def harness_lines(cases):
    return [case_line(c['cid'], 'decr', c['tid'], sexp(c['t']), c['entry'], hx(c['data']), c['sched']) for c in cases]


def driver_lines(cases, cfg):
    strict = '1' if CONFIGS[cfg][1] else '0'
    shim = '1' if is_shim(cfg) else '0'
    return [case_line(c['cid'], 'decr', c['tid'], sexp(c['t']), strict, shim, c['entry'], hx(c['data']), c['sched']) for c in cases]


def slice_results(exe, cases):
    """The implementation's own answer on a plain slice, per distinct (tid, data)."""
    keys = {}
    for c in cases:
        keys.setdefault((c['tid'], c['data']), (c['t'], len(keys)))
    lines = []
    for (tid, data), (t, i) in keys.items():
        lines.append(case_line('d%d' % i, 'dec', tid, sexp(t), 'deserialize', hx(data)))
        lines.append(case_line('t%d' % i, 'dec', tid, sexp(t), 'try_from_slice', hx(data)))
    res = run_cases(exe, lines)
    return {k: (res.get('d%d' % i), res.get('t%d' % i)) for k, (t, i) in keys.items()}


def oracle(c, hres, sl):
    """None if the property holds on this case, else a description."""
    res, pulled = split_res(hres)
    if res is None or res.startswith('panic') or res.startswith('harness-error'):
        return 'no result / panic: %s' % hres
    de, tr = sl
    if de is None or tr is None:
        return 'no slice reference for this input (deserialize / try_from_slice on the plain slice gave no answer)'
    n = len(c['data']) // 2
    de_p = split_ok(de)
    consumed = None
    if de_p[0] == 'ok':
        rest = de_p[2]
        consumed = n - (0 if rest == '-' else len(rest) // 2)
    f = c['fail']
    if f is not None:
        j, k, num = f
        if k == 'E':
            # an UnexpectedEof raised by the reader itself, with its own message: a genuine reader failure like any
            # other.  On read_exact paths the crate rewrites it into its own InvalidData error (finding F18, class
            # reader-eof-rewritten); the model comparison pins down where exactly.
            if consumed is not None and j is not None and j < consumed and res == 'err InvalidData UnexpectedLength':
                return ('EOF', 'an UnexpectedEof raised by the reader itself after %d of %d value bytes (message "user:%d") came back as %s' % (j, consumed, num, res))
            return None
        want = 'err User:%d %s' % (k, fail_msg(num))
        if consumed is not None and j is not None:
            if j < consumed:
                if res != want:
                    return 'failure injected after %d of %d value bytes came back as %r' % (j, consumed, res)
                # j = what the schedule offers before the failure; a reader is handed min(offer, request) per
                # call, and how much the decoder requests per call is its own business (chunk sizes)
                if pulled is not None and int(pulled) > j:
                    return 'pulled %s bytes, at most %d were on offer before the failure' % (pulled, j)
                return None
            if c['entry'] != 'deserialize_reader':
                return None if res in (want, 'err InvalidData NotAllBytesRead') or res.startswith('ok') else 'unexpected %r' % res
            # the failure lies after the bytes the schedule OFFERS for the value: a decoder that takes every
            # offer in full never reaches it; one that asks for less per call (its chunk size is its own
            # business) reaches it with the value still incomplete, and must then hand it back unchanged
            if res == want and pulled is not None and pulled < consumed:
                return None
        elif consumed is None:
            return None if res == want or res == de else 'neither the injected failure nor the slice error: %r (slice: %s)' % (res, de)
    if c['entry'] == 'deserialize_reader':
        if de_p[0] == 'ok':
            if res != 'ok ' + de_p[1]:
                return 'slice gives %s, reader gives %s' % (short(de), short(res))
            if pulled != consumed:
                return 'value occupies %d bytes, %s were pulled from the reader' % (consumed, pulled)
        elif res != de:
            return 'slice gives %s, reader gives %s' % (short(de), short(res))
        return None
    tr_p = split_ok(tr)
    if tr_p[0] == 'ok':
        if res != 'ok ' + tr_p[1]:
            return 'try_from_slice gives %s, reader gives %s' % (short(tr), short(res))
        if pulled != n:
            return 'input has %d bytes, %s pulled' % (n, pulled)
    else:
        if res != tr:
            return 'try_from_slice gives %s, reader gives %s' % (short(tr), short(res))
        if tr == 'err InvalidData NotAllBytesRead' and consumed is not None and pulled != consumed + 1:
            return 'value occupies %d bytes, %s pulled (probe must take exactly one more)' % (consumed, pulled)
    return None


def decisive(de):
    """a slice error that does not come from running out of input: the decoder saw enough bytes to refuse"""
    return de is not None and de.startswith('err ') and 'UnexpectedLength' not in de and 'FillWhole' not in de


def readahead_stage(cfg, exe, cases, sl, stats, failures):
    """Bytes pulled on a FAILING decode.  The model's `pulled` exists for successes only, so refusals are judged on the
    implementation alone: when the plain-slice decode refuses the input for a reason other than running out of bytes,
    the decision rests on a prefix of the input, so the same input followed by 64 more bytes must be refused in the
    same way having pulled the same number of bytes from the reader.  A decoder that drains the reader or reads
    ahead before reporting a bad tag / bad UTF-8 / a zero NonZero pulls more in the second run."""
    seen = {}
    for c in cases:
        k = (c['tid'], c['data'])
        if c['fail'] is None and k not in seen and decisive(sl[k][0]):
            seen[k] = c
    junk = bytes(range(0x40, 0x80)).hex()
    lines, meta = [], []
    for i, ((tid, data), c) in enumerate(seen.items()):
        n = len(data) // 2
        for tag, d, sch in (('a', data, '-'), ('b', data + junk, '-'), ('c', data + junk, ','.join(['d1'] * min(n + 8, 400)))):
            lines.append(case_line('ra%d%s' % (i, tag), 'decr', tid, sexp(c['t']), 'deserialize_reader', hx(d), sch))
        meta.append((i, tid, data, c))
    res = run_cases(exe, lines)
    stats['evaluations'] += len(lines)
    stats['refusals_checked_for_read_ahead'] = stats.get('refusals_checked_for_read_ahead', 0) + len(meta)
    for i, tid, data, c in meta:
        a, b, d1 = (split_res(res.get('ra%d%s' % (i, t))) for t in 'abc')
        de = sl[(tid, data)][0]
        why = None
        if a[0] != de:
            why = 'slice gives %s, reader gives %s' % (short(de), short(a[0]))
        elif b[0] != de or d1[0] != de:
            why = 'refused as %s, but as %s / %s when 64 more bytes follow' % (short(de), short(b[0]), short(d1[0]))
        elif a[1] is None or b[1] != a[1] or d1[1] != a[1]:
            why = ('refusal %s after pulling %s bytes of %d; with 64 more bytes behind the same input %s are pulled (everything on offer) '
                   'and %s (one byte per call)' % (short(de), a[1], len(data) // 2, b[1], d1[1]))
        elif a[1] > len(data) // 2:
            why = 'pulled %s of %d bytes' % (a[1], len(data) // 2)
        if why:
            failures.append({'class': 'reader-dependence', 'key': 'readahead %s %s' % (sexp(c['t']), short(hx(data), 80)),
                             'what': '%s [%s, deserialize_reader, input %s]' % (why, rust(c['t']), short(hx(data), 80)), 'cfg': cfg,
                             'type': sexp(c['t']), 'data': short(hx(data), 400),
                             'replay_cmd': "printf '%s\\n' | %s" % (short(case_line('r', 'decr', tid, sexp(c['t']), 'deserialize_reader', hx(data + junk), '-'), 600), exe)})


def run_cfg(cfg, exe, driver, tier, seed, stats, disagreements, failures, oracle_only=False):
    rng = random.Random(seed * 7 + (1 if is_shim(cfg) else 0) + (2 if CONFIGS[cfg][1] else 0))
    per_type = 2 if tier == 'quick' else 5
    encs = [(tid, t, ok_hex(r)) for tid, t, v, repr_, r in impl_encodings(exe, cfg, seed, per_type, 5, need_de=True)
            if ok_hex(r) is not None]
    cases = build_cases(encs, rng, tier, seed)
    impl = run_cases(exe, harness_lines(cases))
    sl = slice_results(exe, cases)
    model = {} if oracle_only else run_cases(driver, driver_lines(cases, cfg))
    fam = Counter()
    classes = Counter()
    for c in cases:
        h = impl.get(c['cid'])
        fam[c['fam']] += 1
        res, pulled = split_res(h)
        classes[res_class(res)] += 1
        why = oracle(c, h, sl[(c['tid'], c['data'])])
        rec = {'cfg': cfg, 'type': sexp(c['t']), 'rust': rust(c['t']), 'entry': c['entry'], 'data': short(hx(c['data']), 400),
               'schedule': short(c['sched'], 400), 'family': c['fam'], 'impl': short(h, 300),
               'replay_cmd': "printf '%s\\n' | %s" % (short(harness_lines([c])[0], 600), exe)}
        if isinstance(why, tuple):
            failures.append(dict(rec, **{'class': 'reader-eof-rewritten', 'key': '%s %s %s' % (sexp(c['t']), short(hx(c['data']), 80), short(c['sched'], 80)),
                                         'what': '%s [%s, %s, schedule %s]' % (why[1], rust(c['t']), c['entry'], short(c['sched'], 120))}))
        elif why is not None:
            failures.append(dict(rec, **{'class': 'reader-dependence', 'key': '%s %s %s' % (sexp(c['t']), short(hx(c['data']), 80), short(c['sched'], 80)),
                                         'what': '%s [%s, %s, schedule %s]' % (why, rust(c['t']), c['entry'], short(c['sched'], 120))}))
        if oracle_only:
            continue
        m = model.get(c['cid'])
        mres, mpulled = split_res(m)
        if h is None or m is None or mres != res or (mpulled is not None and mpulled != pulled):
            disagreements.append(dict(rec, model=short(m, 300), what='decr %s %s data %s schedule %s: impl %s, model %s [%s]' % (
                rust(c['t']), c['entry'], short(hx(c['data']), 60), short(c['sched'], 80), short(h, 120), short(m, 120), cfg)))
    stats['evaluations'] += len(cases) + 2 * len(sl)
    readahead_stage(cfg, exe, cases, sl, stats, failures)
    stats['families'][cfg] = dict(fam)
    for k, v in classes.items():
        stats['result_classes'][k] = stats['result_classes'].get(k, 0) + v
    stats['distinct_nontrivial'] += len({(c['tid'], c['data'], c['sched'], c['entry']) for c in cases if len(c['data']) > 2 and c['sched'] != '-'})
    stats['schedule_calls'] = dict(Counter(min(c['ncalls'], 20) for c in cases))
    if not stats['samples']:
        stats['samples'] = [{'type': rust(c['t']), 'entry': c['entry'], 'data': short(hx(c['data']), 60), 'schedule': short(c['sched'], 80),
                             'impl': short(impl.get(c['cid']), 100), 'model': short(model.get(c['cid']), 100)}
                            for c in cases[::max(1, len(cases) // 12)]]
    return cases


def run(tier, seed, t0):
    coq = coq_property(PID)
    driver = driver_big()
    cfgs = ['std-strict', 'nostd-strict'] if tier == 'quick' else ['std-strict', 'std-loose', 'nostd-strict', 'nostd-loose']
    exes, disagreements = ensure_harnesses(cfgs)
    failures = []
    stats = {'evaluations': 0, 'configs': list(exes), 'families': {}, 'result_classes': {}, 'samples': [], 'distinct_nontrivial': 0}
    for cfg, exe in exes.items():
        run_cfg(cfg, exe, driver, tier, seed, stats, disagreements, failures)
    stats['io_implementations'] = {cfg: ('nostd_io.rs shim' if is_shim(cfg) else 'std::io') for cfg in exes}
    stats['rule'] = ('catalogue values encoded by the implementation, then read back through a scheduled reader: all compositions of the '
                     'byte stream for encodings up to %d bytes, an interruption at every call index, a failure at every byte offset, random '
                     'schedules, truncated/corrupted inputs, byte vectors over 1 MiB; non-trivial = distinct (type, input, schedule, entry point) '
                     'with a non-empty schedule and more than one input byte' % (10 if tier == 'quick' else 12))
    stats['traces_validated_against_impl'] = stats['evaluations']
    floor_problems = []
    allfam = Counter()
    for f in stats['families'].values():
        allfam.update(f)
    for need in ('compositions', 'interrupt_at', 'fail_at', 'random', 'truncated', 'big'):
        if allfam.get(need, 0) == 0:
            floor_problems.append(need)
    if floor_problems:
        disagreements.append({'what': 'generator produced no cases for: ' + ', '.join(floor_problems)})

    def search():
        found = []
        for cfg, exe in exes.items():
            for s2 in range(1, 4):
                st2 = {'evaluations': 0, 'families': {}, 'result_classes': {}, 'samples': [1], 'distinct_nontrivial': 0}
                run_cfg(cfg, exe, driver, 'thorough', seed * 100 + s2, st2, [], found, oracle_only=True)
                if found:
                    return found
        return found

    for x in LOST_ENCODINGS:
        disagreements.append({'what': 'to_vec gave no usable answer, so no reader / writer case was built for it: ' + x})
    return conclude(PID, tier, seed, t0, coq, stats, disagreements, failures, search,
                    level_note='theorems about the Gallina model of the readers and of read_exact / vec_from_reader; tie to the Rust code by differential execution on this run (std::io in the std builds, nostd_io.rs in the nostd builds)')


def replay(path):
    import json
    d = json.load(open(path))
    print(json.dumps(d.get('failure') or d.get('broken'), indent=1))
    return 0
