"""C08  A type's schema is a correct, self-contained description of its wire format.

Proof side: Properties/C08.v.  Correspondence (std build; the schema impls do not depend on
de_strict_order):
 (1) which catalogue types have a BorshSchema impl: generator predicate (the harness's second
     registration list compiles exactly for these) == Coq `has_schema`;
 (2) `BorshSchemaContainer::for_type::<T>()` (declaration, every definition, map order), its
     `validate()` and `max_serialized_size()` == model `schema_of`, `validate`, `max_size`, for every
     catalogue type with a schema, for hand-written derived items (skipped fields, discriminants,
     tuple/unit structs, nesting) and for BorshSchemaContainer itself (== `schema_of ty_container`);
 (3) source facts: the `impl_for_primitives!` / `impl_for_renamed_primitives!` size table read from
     /repo/borsh/src/schema.rs == the model's `prim_schema_width` == the wire width `prim_width`;
 (4) model cross-checks: Coq `sdec` on the implementation's bytes == Coq `erase` of the value.
Property oracle (implementation only, lib/schemaof.py): an interpreter that sees ONLY the
implementation's container decodes the implementation's bytes of generated values, must consume
exactly all bytes and must reproduce the structure computed from the type and the value alone
(names, order, tags, counts, widths); the container is closed; `validate()` is ok iff the type has no
dynamically sized collection whose elements are wire-empty (a structural predicate on the type)."""
import random
import re
from collections import Counter

from codec import *  # noqa
import schema_oracle as O
import schemaof as SO
import srccover

PID = 'C08'
import os
REPO_SCHEMA = os.environ.get('VERIF_REPO', '/repo') + '/borsh/src/schema.rs'


# ------------------------------------------------------------------ structural predicates on types
def wire_empty(t):
    k = t[0]
    if k == 'unit':
        return True
    if k == 'array':
        return t[1] == 0 or wire_empty(t[2])
    if k == 'prod':
        kind = t[1]
        skips = ()
        if isinstance(kind, tuple) and kind[0] == 'struct':
            skips = kind[3]
        elif isinstance(kind, tuple) and kind[0] == 'variant':
            skips = kind[2]
        return all(wire_empty(x) for i, x in enumerate(t[2]) if not (i < len(skips) and skips[i]))
    if k == 'wrap':
        return wire_empty(t[2])
    return False


def has_empty_collection(t):
    """a dynamically sized collection whose element (for maps: the (K, V) pair) encodes to no bytes"""
    for s in subterms(t):
        if s[0] == 'seq' and wire_empty(s[2]):
            return True
    return False


# ------------------------------------------------------------------ source facts
def source_prim_table():
    """{declaration: size} from the macro invocations of schema.rs, or None when unrecognised"""
    try:
        src = open(REPO_SCHEMA).read()
    except OSError:
        return None
    tab = {}
    for m in re.finditer(r'impl_for_primitives!\(([^)]*)\)', src):
        for item in m.group(1).split(';'):
            mm = re.match(r'\s*(\w+)\s*=>\s*(\d+)\s*$', item)
            if mm:
                tab[mm.group(1)] = int(mm.group(2))
    for m in re.finditer(r'impl_for_renamed_primitives!\(\s*([\w:]+)\s*:\s*(\w+)\s*=>\s*(\d+)\s*\)', src):
        # several Rust types may share one declaration (usize -> u64): keep every size seen
        tab.setdefault(m.group(2), int(m.group(3)))
        if tab[m.group(2)] != int(m.group(3)):
            tab[m.group(2)] = ('conflict', tab[m.group(2)], int(m.group(3)))
    m = re.search(r'add_definition\(Self::declaration\(\), Definition::Primitive\((\d+)\), definitions\)', src)
    if m:
        tab['AsciiChar'] = int(m.group(1))
    return tab or None


def closed(c):
    m = O.defs_map(c)
    missing = [x for _, d in c['defs'] for x in O.members(d) if x not in m]
    if c['root'] not in m:
        missing.append(c['root'])
    return missing


def oracle_value(t, csx, c, val_s, hexbytes):
    """None when the property holds on this case, else a description"""
    data = bytes.fromhex(hexbytes.replace('-', ''))
    try:
        want = SO.shape(t, SO.parse_val(val_s))
    except Exception as e:  # the shape function itself failed: machinery, not the property
        raise CheckBroken('shape(%s, %s): %r' % (sexp(t), val_s, e))
    try:
        got, rest = SO.interp(c, data)
    except SO.NoDecode as e:
        return 'the container cannot decode the bytes (%s)' % e
    if rest:
        return '%d byte(s) left over after decoding with the container' % len(rest)
    if got != want:
        return 'structure from the container %s differs from the value\'s structure %s' % (SO.show_sv(got)[:300], SO.show_sv(want)[:300])
    return None


def rec_schema_stage(exe, seed, stats, classes, disagreements, failures):
    import rectypes as RT
    import reccorr
    res = run_cases(exe, [case_line('rs_' + n, 'schema', RT.IDS[n], '(ref %s)' % n) for n in RT.ITEMS])
    conts = {}
    for n in RT.ITEMS:
        a = res.get('rs_' + n)
        if a is None or not a.startswith('ok '):
            disagreements.append({'what': 'schema op failed for the recursive item %s: %s' % (n, a)})
            continue
        csx, val, mx = a[3:].split('\t')
        c = O.parse_container(csx)
        conts[n] = (csx, c)
        missing = closed(c)
        if missing:
            failures.append({'class': 'not-closed', 'key': n, 'what': 'for_type::<%s>() references undefined declarations %s' % (n, missing), 'container': csx})
        if val != 'ok':
            failures.append({'class': 'validate-other', 'key': n, 'what': 'validate() of for_type::<%s>() (a recursive item) fails with %s' % (n, val), 'container': csx})
    plan = [p for p in reccorr.plan(seed, 'quick') if p[1] in conts]
    enc = run_cases(exe, [case_line(cid, 'enc', RT.IDS[name], RT.sexp_unfold(name, d), v) for cid, name, d, sh, v in plan])
    n_ok = 0
    for cid, name, d, sh, v in plan:
        r = enc.get(cid) or ''
        if '\t' not in r or not r.split('\t', 1)[1].startswith('ok '):
            continue
        h = r.split('\t', 1)[1][3:]
        csx, c = conts[name]
        stats['evaluations'] += 1
        bad = oracle_value(RT.unfold(name, d), csx, c, v, h)
        classes['rec-value:' + ('ok' if bad is None else 'fail')] += 1
        if bad is None:
            n_ok += 1
        else:
            failures.append({'class': 'schema-wire', 'key': '%s %s' % (name, v[:80]),
                             'what': 'for_type::<%s>() does not describe the bytes of the value %s (depth %d): %s [bytes %s]' % (name, v[:200], d, bad, h[:200]),
                             'item': name, 'value': v, 'bytes': h, 'container': csx})
    stats['recursive_items'] = {'containers': len(conts), 'values_decoded_with_the_container_alone': n_ok}
    if conts and n_ok < 40:
        disagreements.append({'what': 'recursive items: only %d values were decoded through their containers' % n_ok})


def run(tier, seed, t0):
    coq = coq_property(PID)
    driver = ensure_driver()
    exes, disagreements = ensure_harnesses(['std-strict'])
    exe = exes.get('std-strict')
    failures = []
    stats = {'evaluations': 0, 'configs': list(exes), 'samples': []}
    classes = Counter()
    cat = catmod.catalogue_types()
    tmap = dict(cat)
    # the implementors of BorshSchema as the compiler lists them vs the model's universe
    cst, cdis = srccover.stage(('BorshSchema',), cat, rust)
    stats.update(cst)
    disagreements += cdis
    rng = random.Random(seed * 31 + 8)
    if exe is None:
        return conclude(PID, tier, seed, t0, coq, stats, disagreements, failures)

    # (1) has_schema
    hs = run_cases(driver, [case_line(tid, 'hasschema', tid, sexp(t)) for tid, t in cat])
    for tid, t in cat:
        if hs.get(str(tid)) != ('1' if has_schema(t) else '0'):
            disagreements.append({'what': 'Coq has_schema = %s but the generator (and the compiled registration list) says %s for %s'
                                          % (hs.get(str(tid)), has_schema(t), sexp(t))})
    with_schema = [(tid, t) for tid, t in cat if has_schema(t) and can_de(t)]
    stats['types_with_schema'] = len(with_schema)
    stats['types_without_schema'] = len(cat) - len(with_schema)

    # (2) for_type vs schema_of (+ validate, max_serialized_size)
    lines = [case_line('s%d' % tid, 'schema', tid, sexp(t)) for tid, t in with_schema]
    impl = run_cases(exe, lines)
    model = run_cases(driver, lines)
    conts = {}
    for tid, t in with_schema:
        a, b = impl.get('s%d' % tid), model.get('s%d' % tid)
        stats['evaluations'] += 1
        if a is None or a != b:
            disagreements.append({'what': 'for_type::<%s>() vs schema_of: impl %s, model %s' % (rust(t), a, b), 'type': sexp(t)})
        if a is None or not a.startswith('ok '):
            classes['schema:' + str(a)[:20]] += 1
            continue
        csx, val, mx = a[3:].split('\t')
        c = O.parse_container(csx)
        conts[tid] = (csx, c)
        classes['validate:' + val.split(' x')[0]] += 1
        miss = closed(c)
        if miss:
            failures.append({'class': 'not-closed', 'key': sexp(t), 'what': 'for_type::<%s>() references undefined declaration(s) %s' % (rust(t), miss[:3]),
                             'type': sexp(t), 'container': csx})
        want_ok = not has_empty_collection(t)
        if (val == 'ok') != want_ok:
            failures.append({'class': 'validate-mismatch', 'key': sexp(t),
                             'what': 'validate() of for_type::<%s>() is %s but the type %s a dynamically sized collection of wire-empty elements'
                                     % (rust(t), val, 'has no' if want_ok else 'has'), 'type': sexp(t), 'container': csx})
        if val.startswith('err') and not val.startswith('err ZSTSequence'):
            failures.append({'class': 'validate-other', 'key': sexp(t), 'what': 'validate() of for_type::<%s>() fails with %s' % (rust(t), val)})
    # BorshSchemaContainer's own schema and the derived items
    items = run_cases(exe, [case_line('I', 'sch-items', '-', '-')]).get('I')
    if items is None or items.startswith('harness-error') or items == 'panic':
        raise CheckBroken('sch-items failed: %r' % (items,))
    if tier != 'quick':
        # the same items in the RELEASE profile: `assert_eq!` -> `debug_assert_eq!` in add_definition (the conflicting
        # redefinition panic), overflow checks and other debug-only behaviour must not be what the verdicts rest on
        rexe, rlog = ensure_harness('std-strict', release=True)
        if rexe is None:
            disagreements.append({'what': 'release build of the harness failed: ' + rlog[-300:]})
        else:
            ritems = run_cases(rexe, [case_line('I', 'sch-items', '-', '-')]).get('I') or ''
            ra, rb = items.split(';;'), ritems.split(';;')
            stats['release_profile_items'] = len(rb)
            for x, y in zip(ra, rb):
                if x != y:
                    failures.append({'class': 'release-differs', 'key': x.split('|')[0],
                                     'what': 'derived item %s: the schema / panic verdict differs between the dev and the release profile: %s vs %s'
                                             % (x.split('|')[0], x[:300], y[:300])})
            if len(ra) != len(rb):
                disagreements.append({'what': 'sch-items: %d records in the dev build, %d in the release build' % (len(ra), len(rb))})
    item_cases = []
    for rec in items.split(';;'):
        f = rec.split('|')
        name, tsx, csx, vals = f[0], f[1], f[2], f[3:]
        item_cases.append((name, tsx, csx, [(x.rsplit(' ', 1)[0], x.rsplit(' ', 1)[1]) for x in vals]))
    ilines = []
    for i, (name, tsx, csx, vals) in enumerate(item_cases):
        if tsx == 'container':
            continue
        ilines.append(case_line('i%d' % i, 'schema', '-', tsx))
        for j, (v, h) in enumerate(vals):
            ilines.append(case_line('i%d_s%d' % (i, j), 'sdec', '-', tsx, h))
            ilines.append(case_line('i%d_e%d' % (i, j), 'erase', '-', tsx, v))
    ilines.append(case_line('icont', 'schema', '-', CONTAINER_TY))
    imodel = run_cases(driver, ilines)
    samename = None
    for i, (name, tsx, csx, vals) in enumerate(item_cases):
        stats['evaluations'] += 1
        if tsx == 'container':
            m = imodel.get('icont') or ''
            if not m.startswith('ok ' + csx + '\t'):
                disagreements.append({'what': 'for_type::<BorshSchemaContainer>() %s vs schema_of ty_container %s' % (csx[:200], m[:200])})
            # the property itself on BorshSchemaContainer: the containers of the catalogue types, as the
            # implementation serializes them, decoded with nothing but for_type::<BorshSchemaContainer>()
            cc = O.parse_container(csx)
            subj = [(tid, c) for tid, (_, c) in list(conts.items())[:: 1 if tier != 'quick' else 4]]
            subj = [(tid, c) for tid, c in subj if SO.fits_codec(c)]
            cenc = run_cases(exe, [case_line('cc%d' % tid, 'cont-enc', '-', '-', O.container_sexp(c)) for tid, c in subj])
            for tid, c in subj:
                stats['evaluations'] += 1
                r = cenc.get('cc%d' % tid) or ''
                if not r.startswith('ok '):
                    disagreements.append({'what': 'to_vec(&container) of %s: %s' % (O.container_sexp(c)[:200], r)})
                    continue
                why = None
                try:
                    got, rest = SO.interp(cc, bytes.fromhex(r[3:]))
                    if rest:
                        why = '%d byte(s) left over after decoding with the container' % len(rest)
                    elif got != container_shape(SO.canonical(c)):
                        why = 'structure from the container %s differs from the value\'s structure %s' % (SO.show_sv(got)[:300], SO.show_sv(container_shape(SO.canonical(c)))[:300])
                except SO.NoDecode as e:
                    why = 'the container cannot decode the bytes (%s)' % e
                classes['container-self:' + ('ok' if why is None else 'fail')] += 1
                if why:
                    failures.append({'class': 'schema-wire', 'key': 'BorshSchemaContainer ' + O.container_sexp(c)[:80],
                                     'what': 'for_type::<BorshSchemaContainer>() does not describe the bytes of a BorshSchemaContainer value: %s [value %s bytes %s]'
                                             % (why, O.container_sexp(c), r[3:]), 'container': csx, 'value': O.container_sexp(c), 'bytes': r[3:]})
            continue
        m = imodel.get('i%d' % i) or ''
        if csx == 'panic':
            classes['item:panic'] += 1
            if m != 'panic 4':
                disagreements.append({'what': 'for_type::<%s>() panics (conflicting redefinition); model: %s' % (name, m)})
            continue
        if not m.startswith('ok ' + csx + '\t'):
            disagreements.append({'what': 'derived item %s: for_type %s, model %s' % (name, csx[:300], m[:300]), 'type': tsx})
        c = O.parse_container(csx)
        t = parse_ty(tsx)
        for j, (v, h) in enumerate(vals):
            stats['evaluations'] += 1
            bad = oracle_value(t, csx, c, v, h)   # shape() ignores skipped fields: the written value will do
            sd, er = imodel.get('i%d_s%d' % (i, j)), imodel.get('i%d_e%d' % (i, j))
            classes['item:' + ('ok' if bad is None else 'schema-wrong')] += 1
            if bad is not None:
                f = {'class': 'same-name-unchecked' if name == '(m1::S, m2::S)' else 'schema-decode', 'key': name,
                     'what': 'derived item %s, value %s, bytes %s: %s' % (name, v, h, bad), 'type': tsx, 'container': csx}
                failures.append(f)
                if name == '(m1::S, m2::S)':
                    samename = f
                    if sd is None or er is None or sd == 'ok %s -' % er:
                        disagreements.append({'what': 'model sdec on the same-name witness: %s, erase %s (expected to differ: C08_decodes_refuted)' % (sd, er)})
                    continue
            if sd is None or er is None or sd != 'ok %s -' % er:
                disagreements.append({'what': 'model sdec vs erase on item %s value %s: sdec %s, erase %s' % (name, v, sd, er)})
    stats['same_name_witness'] = (samename or {}).get('what', 'not reproduced')

    # (3) source facts
    tab = source_prim_table()
    pt = run_cases(driver, [case_line('P', 'prim-table', '-', '-')]).get('P') or ''
    mtab = {}
    for ent in pt.split(';'):
        d, sw, ww = ent.split(':')
        name = O.unhexname(d)
        mtab.setdefault(name, set()).add((int(sw), int(ww)))
    stats['source_facts'] = 'recognised' if tab else 'schema.rs table not recognised; relying on (2)'
    for name, pairs in mtab.items():
        for sw, ww in pairs:
            if sw != ww:
                disagreements.append({'what': 'model: schema width %d != wire width %d for %s' % (sw, ww, name)})
            if tab is not None and tab.get(name) != sw:
                failures.append({'class': 'prim-width', 'key': name,
                                 'what': 'schema.rs declares primitive %s with size %s; its encoding takes %d byte(s)' % (name, tab.get(name), ww)})
    if tab is not None:
        for name in tab:
            if name not in mtab and name != '()':
                disagreements.append({'what': 'schema.rs has a primitive %s the model does not know' % name})

    # recursive derived items (no type in the model's universe): the property itself on the implementation -
    # for_type::<Item>() is closed and validates, and decodes the implementation's bytes of generated values
    # (depth up to 6) completely, to the structure computed from the item's unfolding at the depth of the value
    rec_schema_stage(exe, seed, stats, classes, disagreements, failures)

    # two items whose variant inner struct `<Enum><Variant>` captures another name (findings F23 / F24)
    cap = run_cases(exe, [case_line('cap', 'sch-capture', '-', '-')]).get('cap') or ''
    for rec in [x for x in cap.split(';;') if x.count('|') == 2]:
        name, csx, h = rec.split('|')
        stats['evaluations'] += 1
        why = None
        try:
            got, rest = SO.interp(O.parse_container(csx), bytes.fromhex(h))
            if rest:
                why = '%d byte(s) left over' % len(rest)
        except SO.NoDecode as e:
            why = 'the container cannot decode the bytes (%s)' % e
        classes['capture:' + ('ok' if why is None else 'fail')] += 1
        if why:
            failures.append({'class': 'schema-inner-struct-name-capture', 'key': name,
                             'what': 'BorshSchema derive, %s: the container does not describe the bytes of a value: %s [container %s bytes %s]' % (name, why, csx, h),
                             'container': csx, 'bytes': h})
    if cap.count(';;') != 1:
        disagreements.append({'what': 'sch-capture gave %r' % cap[:200]})

    # (4) + oracle: values
    nval = 6 if tier == 'quick' else 24
    cases = []
    for tid, t in with_schema:
        if tid not in conts:
            continue
        for j in range(nval):
            cases.append(('e%d_%d' % (tid, j), tid, t, show(gen_val(t, rng, 6 if tier == 'quick' else 10))))
    erecs = stage_enc('std-strict', exe, driver, cases)
    good = [r for r in erecs if r['status'] == 'run' and r['impl'].startswith('ok')]
    for r in erecs:
        if r['status'] == 'run' and not r['agree']:
            disagreements.append({'what': 'enc %s %s: impl %s, model %s' % (r['type'], r['repr'], r['impl'], r['model'])})
    dlines = [case_line(r['cid'], 'dec', r['tid'], r['type'], 'deserialize', r['impl'].split(' ')[1]) for r in good]
    dimpl = run_cases(exe, dlines)
    mlines = []
    for r in good:
        h = r['impl'].split(' ')[1]
        mlines.append(case_line(r['cid'] + 's', 'sdec', '-', r['type'], h))
        mlines.append(case_line(r['cid'] + 'e', 'erase', '-', r['type'], r['repr']))
    mres = run_cases(driver, mlines)
    distinct = set()
    for r in good:
        stats['evaluations'] += 1
        t = tmap[r['tid']]
        h = r['impl'].split(' ')[1]
        d = dimpl.get(r['cid'])
        if d is None or not d.startswith('ok '):
            classes['value:undecodable'] += 1
            # the implementation does not decode its own bytes (or the child died on them): C01's business, but never silence
            disagreements.append({'what': 'deserialize of the implementation\'s own bytes of %s %s gives %s' % (r['type'], r['repr'][:120], str(d)[:160])})
            continue
        logical = d[3:].rsplit(' ', 1)[0]
        csx, c = conts[r['tid']]
        bad = oracle_value(t, csx, c, logical, h)
        classes['value:' + ('ok' if bad is None else 'schema-wrong')] += 1
        if bad is not None:
            failures.append({'class': 'schema-decode', 'key': '%s %s' % (r['type'], logical),
                             'what': 'type %s value %s bytes %s: %s' % (rust(t), logical, h, bad), 'type': r['type'], 'rust': rust(t),
                             'value': logical, 'bytes': h, 'container': csx,
                             'replay_cmd': "printf '%s\\n' | <harness>" % case_line('r', 'schema', r['tid'], '-')})
        else:
            distinct.add((r['type'], logical))
        sd, er = mres.get(r['cid'] + 's'), mres.get(r['cid'] + 'e')
        if sd is None or er is None or sd != 'ok %s -' % er:
            disagreements.append({'what': 'model sdec vs erase on %s %s: sdec %s, erase %s' % (r['type'], r['repr'], str(sd)[:200], str(er)[:200])})
        elif bad is None and er != SO.show_sv(SO.shape(t, SO.parse_val(logical))):
            disagreements.append({'what': 'Coq erase %s vs python shape on %s %s' % (er[:200], r['type'], logical)})
    stats['result_classes'] = dict(classes)
    stats['distinct_nontrivial'] = len(distinct)
    stats['rule'] = ('%d catalogue types with a BorshSchema impl (of %d) x %d generated values + %d hand-written derived items; a case counts when the value '
                     'serializes and the interpreter, given only for_type::<T>(), decodes its bytes completely to the structure of the value'
                     % (len(with_schema), len(cat), nval, len(item_cases)))
    stats['samples'] = [{'type': r['type'], 'value': r['repr'], 'bytes': r['impl']} for r in good[3:900:120]]
    stats['traces_validated_against_impl'] = stats['evaluations']
    return conclude(PID, tier, seed, t0, coq, stats, disagreements, failures, None,
                    level_note=('theorems about the Gallina model; C08_decodes / C08_validates are proved for name-coherent types '
                                '(every declaration string stands for one definition in the full unfolding of the type); the full-strength '
                                'statement is refuted (C08_decodes_refuted) and the witness is reproduced on the implementation on every run; '
                                'derive acceptance (compile level) is exercised by C06/C18 programs, not here'))


# ------------------------------------------------------------------ helpers for the derived items
def container_shape(c):
    """the structure (in lib/schemaof.py's interp vocabulary) of a BorshSchemaContainer value, from the
    declarations in /repo/borsh/src/schema.rs read by eye: field and variant names, order, tags"""
    def st(x):
        return ('Q', [('P', bytes([b])) for b in x.encode()])

    def u8(n):
        return ('P', bytes([n]))

    def u64(n):
        return ('P', n.to_bytes(8, 'little'))

    def dfn(d):
        k = d[0]
        if k == 'p':
            return ('V', 0, 'Primitive', ('U', [u8(d[1])]))
        if k == 's':
            return ('V', 1, 'Sequence', ('N', [('length_width', u8(d[1])), ('length_range', ('N', [('start', u64(d[2])), ('end', u64(d[3]))])),
                                                ('elements', st(d[4]))]))
        if k == 't':
            return ('V', 2, 'Tuple', ('N', [('elements', ('Q', [st(e) for e in d[1]]))]))
        if k == 'e':
            return ('V', 3, 'Enum', ('N', [('tag_width', u8(d[1])),
                                             ('variants', ('Q', [('T', [('P', (disc % (1 << 64)).to_bytes(8, 'little')), st(vn), st(dc)]) for disc, vn, dc in d[2]]))]))
        if k == 'sn':
            f = ('V', 0, 'NamedFields', ('U', [('Q', [('T', [st(n), st(dc)]) for n, dc in d[1]])]))
        elif k == 'su':
            f = ('V', 1, 'UnnamedFields', ('U', [('Q', [st(dc) for dc in d[1]])]))
        else:
            f = ('V', 2, 'Empty', ('E',))
        return ('V', 4, 'Struct', ('N', [('fields', f)]))
    return ('N', [('declaration', st(c['root'])), ('definitions', ('Q', [('T', [st(n), dfn(d)]) for n, d in c['defs']]))])


CONTAINER_TY = ('(prod (struct BorshSchemaContainer (declaration definitions) (0 0)) (text string) (seq btreemap (prod tuple (text string) '
                '(sum (enum Definition (Primitive Sequence Tuple Enum Struct) (0 1 2 3 4)) '
                '(prod (variant () (0)) (prim u8)) '
                '(prod (variant (length_width length_range elements) (0 0 0)) (prim u8) (prod (range inclusive) (prim u64) (prim u64)) (text string)) '
                '(prod (variant (elements) (0)) (seq vec (text string))) '
                '(prod (variant (tag_width variants) (0 0)) (prim u8) (seq vec (prod tuple (prim i64) (text string) (text string)))) '
                '(prod (variant (fields) (0)) (sum (enum Fields (NamedFields UnnamedFields Empty) (0 1 2)) '
                '(prod (variant () (0)) (seq vec (prod tuple (text string) (text string)))) (prod (variant () (0)) (seq vec (text string))) (prod (variant () ()))))))))')


def parse_ty(s):
    l = O._parse(s)

    def conv(x):
        h = x[0]
        if h in ('prim', 'unit', 'raw', 'text'):
            return (h, x[1])
        if h == 'seq':
            return ('seq', x[1], conv(x[2]))
        if h == 'array':
            return ('array', int(x[1]), conv(x[2]))
        if h == 'wrap':
            return ('wrap', x[1], conv(x[2]))
        if h == 'prod':
            k = x[1]
            if isinstance(k, list):
                if k[0] == 'range':
                    k = ('range', k[1])
                elif k[0] == 'struct':
                    k = ('struct', k[1], tuple(k[2]), tuple(b == '1' for b in k[3]))
                else:
                    k = ('variant', tuple(k[1]), tuple(b == '1' for b in k[2]))
            return ('prod', k, tuple(conv(y) for y in x[2:]))
        if h == 'sum':
            k = x[1]
            if isinstance(k, list):
                k = ('enum', k[1], tuple(k[2]), tuple(int(b) for b in k[3]))
            return ('sum', k, tuple(conv(y) for y in x[2:]))
        raise ValueError(x)
    return conv(l)


def logical_of(driver, tsx, v):
    r = run_cases(driver, [case_line('L', 'logical', '-', tsx, v)]).get('L')
    if r is None or r.startswith('driver-error'):
        raise CheckBroken('logical %s %s: %r' % (tsx, v, r))
    return r


def replay(path):
    import json
    d = json.load(open(path))
    print(json.dumps(d.get('failure') or d.get('broken'), indent=1))
    return 0
