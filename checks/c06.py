"""C06  Derived impls implement the documented semantics for every item shape.

Proof side: Properties/C06.v (C06_discr, C06_struct, C06_enum_partial (+ refutation), C06_init_once,
C06_variant).  Correspondence (programs): gen/items.py generates item definitions; for each
  - the Coq model is asked (driver op `derive`): check = accept, derive_ty = documented_sem, and both
    equal the reference `ty` the generator computes on its own from the rustdoc rules;
  - the items are compiled ONCE with the real derives against /repo (derive_harness/) and run on
    generated values: encode / decode / truncated and tag-mutated inputs / deserialize_variant /
    init-hook count, compared with `ser`/`dec` of documented_sem through the driver ops enc/dec.
Property oracles on the implementation alone: round trip; tag byte == discriminant computed by rustc
(`Variant as isize` / repr read) under use_discriminant = true, == position otherwise;
deserialize_variant(r, tag) == deserialize(tag :: r) (value, rest, hook calls, skipped fields); init counter == 1 on
success, 0 on failure.  The hook and the skipped fields are observed on the decoded OBJECT: items with `init` carry two
skipped fields their generated hook rewrites (`init_calls` += 1, `init_sum` = checksum of the object's non-skipped integer
fields); after every decode (deserialize, deserialize_variant, and the five other public entry points) every skipped field
must hold Default and those two exactly what ONE call on the decoded object leaves; the values that get ENCODED hold
non-default contents in their skipped fields.
Two more builds of generated items (lib/deriveconf.py): the whole corpus against `borsh = { features = ["derive"] }`
(borsh-derive without its `schema` feature: same bytes, round trip), and a sample of shapes with all three derives and
`#[borsh(crate = "reexporter::borsh")]` in a crate that has no dependency called borsh (positive: builds, encodes like the
model, round-trips, schema validates; negative control: without the attribute every derive panics with CrateNotFound).
Separate small crates: hygiene probe (macro-internal identifiers as field names at every position kind;
F10) and the discriminant run-time probes (F11, F12)."""
import random
import re
import subprocess
from collections import Counter

from codec import *  # noqa
from derivelib import *  # noqa
from values import gen_val, show
import boundscorr
import deriveconf

PID = 'C06'
CFG = 'std-loose'        # derive_harness is built without de_strict_order


def tier_par(tier):
    if tier == 'thorough':
        return {'items': 240, 'seeds': 5, 'values': 14, 'size': 8}
    return {'items': 170, 'seeds': 1, 'values': 6, 'size': 6}


def is_default(t, v):
    """v (generator form) is what Default::default() of the Rust type is"""
    k = t[0]
    if k == 'prim':
        return v == 0
    if k in ('text', 'seq'):
        return not v[1]
    if k == 'sum':
        return v[1] == 0
    if k in ('prod', 'array'):
        ts = t[2] if k == 'prod' else [t[2]] * t[1]
        return all(is_default(x, y) for x, y in zip(ts, v[1]))
    if k == 'wrap':
        return is_default(t[2], v)
    return True


def nondefault_skipped(pt, pv, rng2, size, stats):
    """pt: the product type of a struct / variant, pv its value: skipped fields that happen to hold their Default are
    regenerated (own random stream: the rest of the corpus is untouched), so that a decoder that passed the encoded
    object's contents through, or did not reset them, would show"""
    skips = pt[1][-1]
    for i, (t, sk) in enumerate(zip(pt[2], skips)):
        if not sk:
            continue
        for _ in range(12):
            if not is_default(t, pv[1][i]):
                break
            pv[1][i] = gen_val(t, rng2, size)
        stats['skipped_values_nondefault' if not is_default(t, pv[1][i]) else 'skipped_values_default_only'] += 1


def gen_cases(items, rng, par, stats=None):
    cases = []
    stats = stats if stats is not None else Counter()
    for tid, it in enumerate(items):
        vt = I.value_ty(it)
        n = par['values']
        if it['kind'] == 'enum':
            n = max(n, min(40, 2 * len(it['variants'])))
        forced = []
        if it['kind'] == 'enum':
            nv = len(it['variants'])
            # every variant of small enums at least once; of large ones a spread over the whole range plus the
            # boundaries (a tag computed through i8, an arm table off by one at the end, a fold over many implicit successors)
            forced = list(range(nv)) if nv <= n else sorted(set([(k * nv) // n for k in range(n)] + [x for x in (0, 1, 126, 127, 128, 129, 254, 255, nv - 2, nv - 1) if 0 <= x < nv]))
            n = max(n, len(forced))
        for j in range(n):
            v = gen_val(vt, rng, par['size'])
            if j < len(forced):
                v = ('v', forced[j], gen_val(vt[2][forced[j]], rng, par['size']))
            rng2 = random.Random('%d/%d/%d' % (tid, j, len(items)))
            if it['kind'] == 'struct':
                nondefault_skipped(vt, v, rng2, par['size'], stats)
            else:
                nondefault_skipped(vt[2][v[1]], v[2], rng2, par['size'], stats)
            cases.append(('i%d_%d' % (tid, j), tid, I.doc_ty(it), show(v), v))
    return cases


def mutate_inputs(it, hexes, rng):
    """decode inputs derived from valid encodings: tails, truncations, tag mutations"""
    out = []
    for h in hexes:
        b = bytes.fromhex(h)
        out.append(h + rng.choice(['', 'aa', '00ff01']))
        cuts = range(len(b)) if len(b) <= 20 else sorted(set([0, 1, 2, len(b) // 2, len(b) - 1] + [rng.randrange(len(b)) for _ in range(3)]))
        for c in cuts:
            out.append(b[:c].hex())
        if it['kind'] == 'enum' and b:
            dt = I.doc_ty(it)
            tags = list(dt[1][3])
            cand = set(tags[:6] + tags[-3:] + [(t + 1) % 256 for t in tags[:4]] + [0, 1, 255, 254, 128, rng.randrange(256)])
            for t in sorted(cand):
                out.append(bytes([t]).hex() + b[1:].hex() + rng.choice(['', '07']))
    seen = set()
    res = []
    for x in out:
        if x not in seen:
            seen.add(x)
            res.append(x or '-')
    return res


def hygiene_modules():
    mods = []
    expect = {}
    for ident in I.RESERVED:
        for pos in ('struct', 'enum'):
            for skipped in (False, True):
                name = 'h_%s_%s_%s' % (ident, pos, 'skip' if skipped else 'plain')
                attr = '#[borsh(skip)] ' if skipped else ''
                if pos == 'struct':
                    body = 'pub struct S { %spub %s: u8, pub other: u16 }' % (attr, ident)
                else:
                    body = 'pub enum S { A, V { %s%s: u8, other: u16 }, T(u8) }' % (attr, ident)
                mods.append((name, '#[derive(borsh::BorshSerialize, borsh::BorshDeserialize)]\n' + body))
                expect[name] = (ident, pos, skipped)
    return mods, expect


FINDINGS_MAIN = '''use borsh::{BorshDeserialize, BorshSerialize};
#[derive(BorshSerialize, BorshDeserialize, Debug, PartialEq, Clone, Copy)]
#[borsh(use_discriminant = true)]
enum Ov { Z = 0, A = 255, B }
#[derive(BorshSerialize, BorshDeserialize, Debug, PartialEq, Clone, Copy)]
#[borsh(use_discriminant = true)]
enum Not { A = !0 }
#[derive(BorshSerialize, BorshDeserialize, Debug, PartialEq, Clone, Copy)]
#[borsh(use_discriminant = true)]
enum Shl { A = 128 << 1, B = 7 }
fn show<T: BorshSerialize + BorshDeserialize + std::fmt::Debug + PartialEq + Copy + std::panic::RefUnwindSafe>(name: &str, x: T, d: isize) {
    let enc = std::panic::catch_unwind(|| borsh::to_vec(&x));
    match enc {
        Ok(Ok(b)) => {
            let back = std::panic::catch_unwind(|| T::try_from_slice(&b));
            let rt = match back { Ok(Ok(y)) => if y == x { "same".to_string() } else { format!("other:{:?}", y) }, Ok(Err(_)) => "err".into(), Err(_) => "panic".into() };
            println!("{}\\tdiscr={}\\ttag={}\\troundtrip={}", name, d, b[0], rt);
        }
        Ok(Err(_)) => println!("{}\\tdiscr={}\\tenc-err", name, d),
        Err(_) => println!("{}\\tdiscr={}\\tenc-panic", name, d),
    }
}
fn main() {
    std::panic::set_hook(Box::new(|_| {}));
    show("Ov::B", Ov::B, Ov::B as isize);
    show("Ov::A", Ov::A, Ov::A as isize);
    show("Not::A", Not::A, Not::A as isize);
    show("Shl::A", Shl::A, Shl::A as isize);
}
'''


def findings_probe():
    """Run-time behaviour of the accepted-but-undocumented discriminant shapes (F11, F12)."""
    fails = []
    d = cp.make_crate('c06_findings', {'main.rs': FINDINGS_MAIN})
    cmd = ['timeout', '900', 'cargo', 'run', '--offline', '--quiet', '--target-dir', CACHE + '/target-probe' + cp.TAG]
    p = subprocess.run(cmd, cwd=d, env=ENV, stdout=subprocess.PIPE, stderr=subprocess.PIPE, text=True)
    rows = [l.split('\t') for l in p.stdout.strip().split('\n') if l]
    if p.returncode != 0 or not rows:
        # only compile errors located in the probe's own main.rs mean "the definitions no longer compile" (the findings
        # were repaired, or rustc now lints them); a timeout, a lock wait or a borsh that does not build is not that
        own = re.search(r'-->\s*src/main\.rs', p.stderr) is not None
        return fails, {'findings_probe': ('does not compile any more: ' if own else 'PROBE-BROKEN rc=%s: ' % p.returncode) + p.stderr[-300:]}
    info = {}
    for r in rows:
        name = r[0]
        info[name] = ' '.join(r[1:])
        disc = int(r[1].split('=')[1])
        ok = len(r) >= 4 and r[2] == 'tag=%d' % disc and r[3] == 'roundtrip=same'
        if ok:
            continue
        # the two known findings are specific rows with specific symptoms; Ov::A (= 255, tag 255) is a control, and any
        # other failing row is a new violation
        obs = ' '.join(r[2:])
        if name == 'Ov::B' and (obs.startswith('enc-panic') or obs.startswith('tag=0')):
            cls = 'implicit-discr-overflow'
        elif name == 'Not::A' and obs.startswith('tag=255') or name == 'Shl::A' and obs.startswith('tag=0'):
            cls = 'discr-type-dependent'
        else:
            cls = 'tag-source'
        fails.append({'class': cls, 'key': name,
                      'what': '%s: tag byte is not the discriminant although the definition compiles: %s' % (name, ' '.join(r[1:])),
                      'replay_cmd': 'cargo run in .cache/crates/c06_findings'})
    return fails, {'findings_probe': info}


def run_seed(tier, seed, par, driver, stats, disagreements, failures, classes, distinct, first):
    rng = random.Random(seed * 31337 + 5)
    items = I.gen_items(seed, par['items'])
    # ---- model side: check / derive_ty / documented_sem on the Item.v terms
    entries = [((tid, k), k, it) for tid, it in enumerate(items) for k in ('ser', 'de')]
    mv = model_verdicts(driver, [('%d_%s' % key, k, it) for key, k, it in entries])
    for (tid, k), _, it in entries:
        m = mv.get('%d_%s' % (tid, k), {})
        ref = sexp(I.doc_ty(it))
        stats['evaluations'] += 1
        if m.get('verdict') != 'accept' or m.get('viol') or m.get('derive') != ref or m.get('doc') != ref:
            disagreements.append({'what': 'model on item %s (%s): verdict %s viol %s; derive_ty/documented_sem/generator reference differ: %s'
                                  % (it['name'], k, m.get('verdict'), m.get('viol'), str(m)[:300]), 'item': I.item_sexp(it)})
    # ---- build the real derives
    exe, cfails, log = build_positive(items)
    failures += cfails
    if exe is None:
        disagreements.append({'what': 'positive crate does not build: ' + log[-600:]})
        return
    st = item_stats(items)
    for k_, v_ in st.items():
        stats['item_distribution'][k_] = stats['item_distribution'].get(k_, 0) + v_
    stats['items'] += len(items)
    # describe(): the harness's own idea of each item's type is the generator's
    tmap = {tid: I.doc_ty(it) for tid, it in enumerate(items)}
    vstats = Counter()
    cases = gen_cases(items, rng, par, vstats)
    for k_, v_ in vstats.items():
        stats[k_] = stats.get(k_, 0) + v_
    recs = stage_enc(CFG, exe, driver, [(cid, tid, t, v) for cid, tid, t, v, _ in cases])
    stats['evaluations'] += len(recs)
    byitem = {}
    vals = {c[0]: c[4] for c in cases}
    for r in recs:
        classes[error_class(r.get('impl')) if r['status'] == 'run' else r['status']] += 1
        if r['status'] == 'run' and not r['agree']:
            disagreements.append({'what': 'enc %s %s: impl %s, model %s' % (r['type'][:200], r['repr'][:200], r['impl'], r['model']),
                                  'item': I.rust_item(items[r['tid']]), **r})
        if r['status'] in ('missing', 'bad'):
            disagreements.append({'what': 'harness gave no answer for %s %s: %s' % (r['type'][:200], r['gen'][:200], r.get('impl')), **r})
        if r['status'] == 'run' and r['impl'].startswith('ok'):
            h = r['impl'].split(' ')[1].replace('-', '')
            byitem.setdefault(r['tid'], []).append((r['cid'], h))
            if len(h) > 0:
                distinct.add((seed, r['tid'], r['repr']))
    if first:
        stats['samples'] = [{'item': [l for l in I.rust_item(items[r['tid']]).split('\n') if l.startswith('pub ')][0][:160], 'value': r['repr'][:120], 'bytes': r['impl'][:80]}
                            for r in recs[3:len(recs):max(1, len(recs) // 8)] if r['status'] == 'run'][:8]
    # ---- decode: valid encodings with tails, every truncation, tag mutations; with the init count
    dcases = []
    for tid, lst_ in byitem.items():
        it = items[tid]
        hexes = [h for _, h in lst_[:4 if tier == 'quick' else 10]]
        for j, h in enumerate(mutate_inputs(it, hexes, rng)):
            dcases.append(('d%d_%d' % (tid, j), tid, tmap[tid], h))
    lines = [case_line(cid, 'decinit', tid, sexp(t), h) for cid, tid, t, h in dcases]
    dlines = [case_line(cid, 'dec', tid, sexp(t), '0', h) for cid, tid, t, h in dcases]
    impl = run_cases(exe, lines)
    model = run_cases(driver, dlines)
    stats['evaluations'] += len(dcases)
    for cid, tid, t, h in dcases:
        it = items[tid]
        r = impl.get(cid)
        m = model.get(cid)
        if r is None or '\t' not in r:
            disagreements.append({'what': 'decinit: no answer for item %s input %s: %s' % (it['name'], h, r)})
            continue
        res, init, skipped = r.split('\t')
        classes['dec:' + error_class(res)] += 1
        if res == 'err InvalidData User:7' and any(f['with'] is not None for f in I.all_item_fields(it)):
            # the generated deserialize_with function refused a value outside the narrower Rust type:
            # outside the domain on which the function pair has the wire semantics given to the model
            stats['dec_outside_with_domain'] = stats.get('dec_outside_with_domain', 0) + 1
        elif res != m:
            disagreements.append({'what': 'dec %s on %s: impl %s, model %s' % (it['name'], h, res[:200], (m or '')[:200]),
                                  'item': I.rust_item(it), 'input': h})
        want = '-' if not it.get('init') else ('1' if res.startswith('ok') else '0')
        stats['init_checked'] += 1 if it.get('init') else 0
        if init != 'init=' + want:
            failures.append({'class': 'init-count', 'key': it['name'],
                             'what': 'init hook of %s ran %s times, expected %s (input %s -> %s)' % (it['name'], init, want, h, res[:80]),
                             'item': I.rust_item(it), 'input': h})
        # the decoded OBJECT: skipped fields hold Default; the fields the hook rewrites hold what one call leaves
        if res.startswith('ok'):
            stats['skipped_checked'] = stats.get('skipped_checked', 0) + (1 if any(f['skip'] for f in I.all_item_fields(it)) else 0)
            stats['hook_on_value_checked'] = stats.get('hook_on_value_checked', 0) + (1 if any(f.get('hook') for f in I.all_item_fields(it)) else 0)
        if skipped != ('skipped=ok' if res.startswith('ok') else 'skipped=-'):
            failures.append({'class': 'skipped-field-content', 'key': it['name'],
                             'what': 'object of %s decoded from %s: %s' % (it['name'], h, skipped[:300]),
                             'item': I.rust_item(it), 'input': h})
    # ---- deserialize_variant, tag == discriminant, round trip: on the implementation alone
    olines = []
    meta = {}
    for cid, tid, t, h in dcases:
        if items[tid]['kind'] == 'enum' and h != '-':
            olines.append(case_line('v' + cid, 'devar', tid, sexp(t), h))
            meta['v' + cid] = ('devar', tid, h)
        olines.append(case_line('e' + cid, 'entries', tid, sexp(t), h))
        meta['e' + cid] = ('entries', tid, h)
    for cid, tid, t, v, raw in cases:
        it = items[tid]
        if it['kind'] == 'enum':
            olines.append(case_line('t' + cid, 'tagdiscr', tid, sexp(t), v))
            meta['t' + cid] = ('tagdiscr', tid, raw)
        olines.append(case_line('r' + cid, 'rt', tid, sexp(t), v, rng.choice(['-', 'aa'])))
        meta['r' + cid] = ('rt', tid, v)
    ores = run_cases(exe, olines)
    stats['evaluations'] += len(olines)
    for oid, (op, tid, arg) in meta.items():
        it = items[tid]
        r = ores.get(oid)
        stats['oracle_' + op] = stats.get('oracle_' + op, 0) + 1
        if r is None or r.startswith('harness-error') or r == 'panic':
            failures.append({'class': 'oracle-' + op, 'key': it['name'], 'what': '%s on %s: %s' % (op, it['name'], r), 'item': I.rust_item(it)})
            continue
        if r.startswith('skip'):
            continue
        if op == 'devar':
            f_ = r.split('\t')
            a, b = f_[:3], f_[3:]
            if a != b:
                failures.append({'class': 'deserialize-variant', 'key': it['name'],
                                 'what': 'deserialize_variant(r, tag) = %s but deserialize(tag :: r) = %s on %s input %s'
                                         % (' '.join(a)[:200], ' '.join(b)[:200], it['name'], arg),
                                 'item': I.rust_item(it), 'input': arg})
            # the direct path on its own: hook once on success / never on failure, skipped fields as required
            ok_ = a[0].startswith('ok')
            want = ['init=' + ('-' if not it.get('init') else ('1' if ok_ else '0')), 'skipped=' + ('ok' if ok_ else '-')]
            if a[1:] != want:
                failures.append({'class': 'deserialize-variant-hook', 'key': it['name'],
                                 'what': 'object of %s decoded directly from its tag (deserialize_variant) on input %s: %s, expected %s'
                                         % (it['name'], arg, ' '.join(a[1:])[:300], ' '.join(want)),
                                 'item': I.rust_item(it), 'input': arg})
        elif op == 'entries':
            if r != 'ok':
                failures.append({'class': 'entry-point', 'key': it['name'],
                                 'what': 'decoding entry points of %s disagree on input %s: %s' % (it['name'], arg, r[:400]),
                                 'item': I.rust_item(it), 'input': arg})
        elif op == 'tagdiscr':
            if r.startswith('enc'):
                continue
            tag = int(r.split(' ')[0].split('=')[1])
            disc = int(r.split(' ')[1].split('=')[1])
            want = disc if it['use_disc'] is True else arg[1]
            stats['tag_oracle_%s' % ('discriminant' if it['use_disc'] is True else 'ordinal')] = \
                stats.get('tag_oracle_%s' % ('discriminant' if it['use_disc'] is True else 'ordinal'), 0) + 1
            if tag != want:
                failures.append({'class': 'tag-source', 'key': it['name'],
                                 'what': 'variant %d of %s is tagged %d, documented tag %d (use_discriminant = %s, rustc discriminant %d)'
                                         % (arg[1], it['name'], tag, want, it['use_disc'], disc), 'item': I.rust_item(it)})
        elif op == 'rt':
            if not (r.startswith('ok same') or r.startswith('skip')):
                failures.append({'class': 'roundtrip', 'key': it['name'], 'what': 'round trip of %s on %s: %s' % (it['name'], arg[:120], r[:160]),
                                 'item': I.rust_item(it), 'value': arg})
    # ---- the same corpus against borsh with features = ["derive"] only (borsh-derive without its `schema` feature)
    nst, ndis, nfails = deriveconf.noschema_stage(items, [(cid, tid, t, v) for cid, tid, t, v, _ in cases], recs, rng)
    disagreements += ndis
    failures += nfails
    stats['evaluations'] += nst.pop('evaluations', 0)
    for k_, v_ in nst.items():
        if isinstance(v_, dict):
            stats.setdefault(k_, {})
            for a_, b_ in v_.items():
                stats[k_][a_] = stats[k_].get(a_, 0) + b_
        else:
            stats[k_] = stats.get(k_, 0) + v_
    # ---- #[borsh(crate = "reexporter::borsh")] in a crate that has no dependency called borsh (lib/deriveconf.py)
    cst, cdis, cfails = deriveconf.crate_path_stage(driver, seed, tier)
    disagreements += cdis
    failures += cfails
    stats['evaluations'] += cst.pop('evaluations', 0)
    if first:
        stats.update(cst)
    return exe, items


def run(tier, seed, t0):
    coq = coq_property(PID)
    driver = ensure_driver()
    par = tier_par(tier)
    disagreements, failures = [], []
    stats = {'evaluations': 0, 'items': 0, 'item_distribution': {}, 'init_checked': 0, 'samples': [], 'seeds': []}
    classes = Counter()
    distinct = set()
    last = None
    for s in range(par['seeds']):
        sd = seed + 1000 * s
        stats['seeds'].append(sd)
        last = run_seed(tier, sd, par, driver, stats, disagreements, failures, classes, distinct, s == 0)
    # ---- hygiene probe: the macro's own identifiers as field names (compile acceptance)
    mods, expect = hygiene_modules()
    res, lost, rc = cp.check_modules('c06_hygiene', mods)
    stats['hygiene_items'] = len(mods)
    stats['evaluations'] += len(mods)
    for name, errs in res.items():
        if errs is None:
            continue
        ident_, pos, skipped = expect[name]
        cls = 'enum-field-named-writer' if (ident_ == 'writer' and pos == 'enum' and not skipped) else 'hygiene-' + ident_
        failures.append({'class': cls, 'key': name,
                         'what': 'a %s with a%s field named `%s` is accepted by the macro (and by the model) but the expansion does not compile: %s'
                                 % ('struct' if pos == 'struct' else 'enum struct variant', ' skipped' if skipped else '', ident_, errs[0][1][:160]),
                         'source': dict(mods)[name]})
    if lost:
        disagreements.append({'what': 'hygiene probe: diagnostics that could not be attributed: ' + '; '.join(lost[:3])})
    pf, pinfo = findings_probe()
    failures += pf
    stats.update(pinfo)
    if isinstance(pinfo.get('findings_probe'), str) and pinfo['findings_probe'].startswith('PROBE-BROKEN'):
        disagreements.append({'what': 'the discriminant findings probe could not be built or run: ' + pinfo['findings_probe'][:300]})
    # ---- C06_bounds: where-clause inference on generic items, observed through trait resolution (lib/boundscorr.py);
    #      the theorems about the BorshSchema inner structs it relies on are in Properties/C08gen.v
    coq_gen = coq_property('C08gen')
    if not coq_gen['ok']:
        disagreements.append({'what': 'Properties/C08gen.v: ' + '; '.join(coq_gen['problems'])})
    stats['C08gen_theorems'] = coq_gen['theorems']
    for s in range(par['seeds']):
        bev, bdis, bfails = boundscorr.run_stage(driver, seed + 1000 * s, tier)
        disagreements += bdis
        failures += bfails
        stats['evaluations'] += bev['bounds_stats'].get('evaluations', 0)
        if s == 0:
            stats.update(bev)
        else:
            stats['bounds_items'] += bev['bounds_items']
            for k_, v_ in bev['bounds_stats'].items():
                stats['bounds_stats'][k_] = stats['bounds_stats'].get(k_, 0) + v_
    stats['result_classes'] = dict(classes)
    stats['distinct_nontrivial'] = len(distinct)
    stats['rule'] = ('items from gen/items.py (fixed coverage part: named/tuple structs with 0..8 fields, unit struct, enums of 1..3 variants x '
                     'use_discriminant none/true/false x explicit-discriminant placement, a 256-variant enum, a 200-variant enum with discriminants, '
                     'generic instantiations; then seeded random) x generated values; non-trivial = encodes to at least one byte; '
                     'distinct = distinct (seed, item, representation)')
    stats['traces_validated_against_impl'] = stats['evaluations']

    def search():
        found = []
        if last is None:
            return found
        exe, items = last
        rng = random.Random(seed + 99)
        lines, meta = [], {}
        for tid, it in enumerate(items):
            for j in range(40):
                v = gen_val(I.value_ty(it), rng, 8)
                cid = 's%d_%d' % (tid, j)
                lines.append(case_line(cid, 'rt', tid, sexp(I.doc_ty(it)), show(v), '00'))
                meta[cid] = (tid, show(v))
        res_ = run_cases(exe, lines)
        for cid, (tid, v) in meta.items():
            r = res_.get(cid, '')
            if not (r.startswith('ok same') or r.startswith('skip')):
                found.append({'class': 'roundtrip', 'key': items[tid]['name'], 'what': 'round trip of %s on %s: %s' % (items[tid]['name'], v[:120], r[:120]),
                              'item': I.rust_item(items[tid])})
        return found

    return conclude(PID, tier, seed, t0, coq, stats, disagreements, failures, search,
                    level_note='theorems about the Gallina transcription of the macro (field walks, tag source, token splice re-parsed by a '
                               'precedence-climbing parser); that the emitted Rust compiles and behaves like the transcription is validated on '
                               'generated programs in this run, not proved; C06_enum holds outside the type-dependent-discriminant class (refuted inside)',
                    extra_assumptions=['where-clause inference (generics.rs) is modelled on the parsed field attributes (coq/Generics.v: C06_bounds); the string '
                                       'contents of bound(..)/schema(params = ..) are taken as already parsed predicates/entries; bounds are observed on the real '
                                       'macro through trait resolution at marker types (no cargo expand), one probe per (derive, parameter, trait)'])


def replay(path):
    import json
    d = json.load(open(path))
    print(json.dumps(d.get('failure') or d.get('broken'), indent=1))
    return 0
