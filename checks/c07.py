"""C07  Decoding untrusted bytes is safe: no panic, bounded memory and work.

Proof side: Properties/C07.v (theorems about the instrumented slice decoder Cost.v: erasure,
no panic, the capacity hint, the byte loop, largest request, work and total allocation).
Correspondence, for every deserializable catalogue type of the family (collections whose
elements are wire-empty but occupy memory are outside, see tyuniv.unbounded_on_hostile_input),
in supervised child processes under a counting global allocator and a 6 GiB address-space cap:
  inputs = valid encodings; 0xFFFFFFFF / 2^31 / 2^20+1 / 2^20 at EVERY length position of valid
           encodings; single-byte corruptions and truncations; random strings up to 64 KiB; large
           structured inputs (a plausible length prefix followed by up to 64 KiB of payload);
  compare  result (value or error class) implementation vs model;
           measured max single request vs the model's numbers: >= the largest explicit-capacity request
           of the model, == when that request dominates, <= model max (+ stated allowance for
           constructors outside borsh's code); measured total requested <= model total + allowance.
Oracle, independent of the model: no panic / abort / dead child;
  max single request <= max(2^20, 4096, 8*S) + 4*(S+8)*|input| + 256
  peak live bytes    <= (2^20 + 2^16) + 8*(S+16)*|input|
  (S = largest size_of among the element / boxed types of the type, >= 1; reported by the harness);
  elements actually decoded (collections of counting elements, one wire byte each) <= |input| + 1.
"""
import random
from collections import Counter

from codec import *  # noqa
import sizes as sizesmod

PID = 'C07'

HOSTILE = [0xFFFFFFFF, 2 ** 31, 2 ** 20 + 1, 2 ** 20]
# allowance for allocations made by constructors outside borsh/src/de (collect() into keyed
# collections and LinkedList, Box::new, Rc::from, Bytes::from) and for the io::Error object
# of a failing decode; empirical, the observed maxima are reported in the evidence
# K_CONV_BYTES: a B-tree leaf is allocated for 11 entries however few are inserted (one entry of e bytes ->
# a request of 11 e + header), a hash table for the next power of two of 8/7 n buckets; 4 was enough only
# while every catalogue element was small enough for SLACK to absorb the node (BTreeMap<u8, [u8; 5000]>
# with 2 entries requests 55024 bytes for its leaf)
K_CONV_BYTES = 12
K_CONV_UNITS = 48
SLACK = 1024
EXPLICIT_EQ_FLOOR = 512      # below this an error object may be the largest request


# ------------------------------------------------------------------ structure of an encoding
class Malformed(Exception):
    pass


def length_positions(t, b):
    """Offsets of every u32 length prefix inside the valid encoding b of a value of type t."""
    out = []

    def u32(pos):
        if pos + 4 > len(b):
            raise Malformed()
        return int.from_bytes(b[pos:pos + 4], 'little')

    def go(t, pos):
        k = t[0]
        if k == 'prim':
            return pos + PRIM_WIDTH[t[1]]
        if k == 'unit':
            return pos
        if k == 'raw':
            return pos + {'ipv4': 4, 'ipv6': 16, 'oid': 12}[t[1]]
        if k == 'text':
            n = u32(pos)
            out.append(pos)
            return pos + 4 + n
        if k == 'seq':
            n = u32(pos)
            out.append(pos)
            pos += 4
            if t[2] == U8:
                return pos + n
            if n > len(b):
                raise Malformed()
            for _ in range(n):
                pos = go(t[2], pos)
            return pos
        if k == 'array':
            if t[2] == U8:
                return pos + t[1]
            for _ in range(t[1]):
                pos = go(t[2], pos)
            return pos
        if k == 'prod':
            kind = t[1]
            skips = ()
            if isinstance(kind, tuple) and kind[0] == 'struct':
                skips = kind[3]
            elif isinstance(kind, tuple) and kind[0] == 'variant':
                skips = kind[2]
            for i, x in enumerate(t[2]):
                if i < len(skips) and skips[i]:
                    continue
                pos = go(x, pos)
            return pos
        if k == 'sum':
            if pos >= len(b):
                raise Malformed()
            tag = b[pos]
            kind = t[1]
            if kind == 'result':
                idx = {1: 0, 0: 1}.get(tag)
            elif isinstance(kind, str):
                idx = tag if tag in (0, 1) else None
            else:
                idx = list(kind[3]).index(tag) if tag in kind[3] else None
            if idx is None or idx >= len(t[2]):
                raise Malformed()
            return go(t[2][idx], pos + 1)
        if k == 'wrap':
            return go(t[2], pos)
        raise Malformed()

    end = go(t, 0)
    if end != len(b):
        raise Malformed()
    return out


def wire_fixed(t):
    """Wire width of a fixed-width type, else None."""
    k = t[0]
    if k == 'prim':
        return PRIM_WIDTH[t[1]]
    if k == 'raw':
        return {'ipv4': 4, 'ipv6': 16, 'oid': 12}[t[1]]
    if k == 'unit':
        return 0
    if k == 'array':
        w = wire_fixed(t[2])
        return None if w is None else w * t[1]
    if k == 'prod' and t[1] == 'tuple':
        ws = [wire_fixed(x) for x in t[2]]
        return None if any(w is None for w in ws) else sum(ws)
    if k == 'wrap':
        return wire_fixed(t[2])
    return None


def big_inputs(t, rng, budget):
    """Structured inputs of up to `budget` bytes: a top-level collection / text with a plausible
    length prefix and that much payload (valid for byte strings; element validity is up to chance)."""
    out = []
    core = t
    while core[0] == 'wrap':
        core = core[2]
    if core[0] == 'text':
        n = budget - 4
        out.append(n.to_bytes(4, 'little') + bytes(rng.choice(b'abcxyz019 ') for _ in range(n)))
    elif core[0] == 'seq':
        w = wire_fixed(core[2])
        if core[1] in MAP_KINDS + SET_KINDS:
            budget = min(budget, 3000)      # the model's collect_sorted is quadratic: keep keyed collections small
        if w:
            n = (budget - 4) // w
            # ascending big-endian-ish payload keeps some ordered collections valid for a while
            out.append(n.to_bytes(4, 'little') + bytes(rng.randrange(256) for _ in range(n * w)))
            out.append((n + 7).to_bytes(4, 'little') + bytes(rng.randrange(1, 128) for _ in range(n * w)))
    return out


# ------------------------------------------------------------------ counting-element shapes
I8 = P('i8')
SHAPES = {
    # shape: (model type, [element types whose size the harness reports, in its order], exact element count?)
    'vec1': (seq('vec', I8), [I8], True),
    'vec8': (seq('vec', I8), [I8], True),
    'deque8': (seq('deque', I8), [I8], True),
    'list1': (seq('list', I8), [I8], True),
    'bset1': (seq('btreeset', I8), [I8], True),
    'bmap18': (mapk('btreemap', I8, I8), [tup(I8, I8)], False),
    'vecvec8': (seq('vec', seq('vec', I8)), [seq('vec', I8), I8], False),
    'vecopt8': (seq('vec', opt(I8)), [opt(I8)], False),
    'vecarr1': (seq('vec', arr(3, I8)), [arr(3, I8)], False),
    'boxslice8': (wrap('box', seq('slice', I8)), [I8], True),
}


def fields(s):
    """'max=1 peak=2 ...' -> dict of ints"""
    d = {}
    for kv in s.split(' '):
        if '=' in kv:
            k, _, v = kv.partition('=')
            try:
                d[k] = int(v)
            except ValueError:
                d[k] = v
    return d


def run(tier, seed, t0):
    coq = coq_property(PID)
    driver = ensure_driver()
    sizesmod.emit_rs(HARNESS + '/src/sizes_gen.rs')
    cfgs = ['std-strict', 'std-loose'] if tier == 'quick' else ['std-strict', 'std-loose', 'nostd-strict', 'nostd-loose']
    exes, disagreements = ensure_harnesses(cfgs)
    failures = []
    quick = tier == 'quick'
    stats = {'evaluations': 0, 'configs': list(exes), 'samples': []}
    kinds = Counter()
    classes = Counter()
    ratios = {'max_request/oracle': 0.0, 'peak/oracle': 0.0, 'total/(model+allowance)': 0.0, 'max_request/model_max': 0.0,
              'decoded/(input+1)': 0.0}
    explicit_eq = 0
    largest = {'max_request': 0, 'peak': 0, 'input': 0}
    rng = random.Random(seed * 31 + 7)
    tmap = dict(catmod.catalogue_types())
    for cfg, exe in exes.items():
        strict = '1' if CONFIGS[cfg][1] else '0'
        flt = (lambda t: not needs_std(t)) if cfg.startswith('nostd') else (lambda t: True)
        fam = {tid: t for tid, t in tmap.items() if can_de(t) and flt(t) and not unbounded_on_hostile_input(t)}
        # size_of of the element types, from the implementation
        szres = run_cases(exe, ['s%d\tsizes\t-\t-\t%d' % (tid, tid) for tid in fam])
        sizes = {}
        for tid, t in fam.items():
            r = szres.get('s%d' % tid, '')
            if not r.startswith('ok'):
                disagreements.append({'what': 'no size table for %s: %s [%s]' % (sexp(t), r, cfg)})
                continue
            items = [x for x in r[3:].split(';') if x]
            tab = {}
            for it in items:
                k, _, v = it.rpartition('=')
                tab[k] = int(v)
            want = [sexp(c) for c in sizesmod.need_sz(t)]
            if sorted(want) != sorted(tab):
                disagreements.append({'what': 'size table of %s lists %s, model needs %s' % (sexp(t), sorted(tab), sorted(want))})
            sizes[tid] = tab
        # hint::cautious itself, compiled from its source file, on element sizes no test value can have
        # (multiples of 2^32 bytes and their neighbours) against the model's `cautious`
        hints = [0, 1, 2, 7, 100, 4095, 4096, 4097, 65536, 2 ** 31, 2 ** 32 - 1]
        hres = run_cases(exe, ['hc%d\tcautious\t-\t-\t%d' % (i, h) for i, h in enumerate(hints)])
        mlines, pairs = [], []
        for i, h in enumerate(hints):
            r = hres.get('hc%d' % i)
            if not r or '=' not in r:
                disagreements.append({'what': 'no answer from hint::cautious for hint %d: %r [%s]' % (h, r, cfg)})
                continue
            for j, item in enumerate(r.split(';')):
                size, _, res = item.partition('=')
                pairs.append(('m%d_%d' % (i, j), int(size), h, res))
                mlines.append('m%d_%d\tcautious\t-\t-\t%s\t%d' % (i, j, size, h))
        mres = run_cases(driver, mlines)
        for cid, size, h, res in pairs:
            stats['evaluations'] += 1
            classes['cautious:' + res.split(' ')[0]] += 1
            if mres.get(cid) != res:
                disagreements.append({'what': 'hint::cautious::<T>(%d) with size_of::<T>() = %d: impl %s, model %s [%s]' % (h, size, res, mres.get(cid), cfg)})
            ok = res.startswith('ok ') and 1 <= int(res[3:]) <= max(h, 1) and int(res[3:]) * size <= max(4096, size)
            if not ok:
                failures.append({'class': 'hint', 'key': 'cautious %d %d' % (size, h),
                                 'what': 'hint::cautious::<T>(%d) for an element type of %d bytes gives %s: decoding any non-empty Vec<T> %s [%s]'
                                         % (h, size, res, 'panics on a 4-byte input' if res == 'panic' else 'starts with a capacity outside 1..=max(hint,1) or above max(4096, size_of) bytes', cfg),
                                 'size_of': size, 'hint': h, 'result': res, 'cfg': cfg,
                                 'replay_cmd': "printf 'x\\tcautious\\t-\\t-\\t%d\\n' | %s" % (h, exe)})
        stats['cautious_pairs'] = stats.get('cautious_pairs', 0) + len(pairs)
        # the model agrees that these types are in the family
        famres = run_cases(driver, [case_line('f%d' % tid, 'fam', tid, sexp(t)) for tid, t in fam.items()])
        for tid, t in fam.items():
            if famres.get('f%d' % tid) != '1':
                disagreements.append({'what': 'Coq fam is not 1 on %s (generator says it is in the family): %s' % (sexp(t), famres.get('f%d' % tid))})
        recs, good = encodings(cfg, exe, driver, seed, tier, flt)
        cases, kindof = [], {}

        def add(cid, tid, t, mode, hx, kind):
            cases.append((cid, tid, t, mode, hx))
            kindof[cid] = kind
        per_type = Counter()
        for gi, (r, t, h) in enumerate(good):
            tid = r['tid']
            if tid not in sizes:
                continue
            per_type[tid] += 1
            if quick and per_type[tid] > 3:
                continue
            b = bytes.fromhex(h)
            add('v%d' % gi, tid, t, rng.choice(['deserialize', 'try_from_slice']), h, 'valid')
            try:
                poss = length_positions(t, b)
            except Malformed:
                disagreements.append({'what': 'length_positions cannot walk the valid encoding %s of %s' % (h, sexp(t))})
                poss = []
            if quick and len(poss) > 8:
                poss = sorted(rng.sample(poss, 8))
            for pi, pos in enumerate(poss):
                for hv in HOSTILE:
                    m = b[:pos] + hv.to_bytes(4, 'little') + b[pos + 4:]
                    add('h%d_%d_%x' % (gi, pi, hv), tid, t, 'deserialize', m.hex(), 'hostile-length')
            for ci, cor in enumerate(corruptions(h, rng, 4 if quick else 12)):
                add('c%d_%d' % (gi, ci), tid, t, rng.choice(['deserialize', 'from_slice']), cor, 'corrupt')
            for pi, pre in enumerate(truncations(h, rng, 3 if quick else 12)[:(3 if quick else 12)]):
                add('t%d_%d' % (gi, pi), tid, t, 'deserialize', pre, 'trunc')
        for tid, t in fam.items():
            if tid not in sizes:
                continue
            for j in range(3 if quick else 10):
                n = rng.choice([0, 1, 3, 4, 5, 8, 12, 33, 100])
                h = bytes(rng.randrange(256) for _ in range(n)).hex()
                if j % 3 == 0:
                    h = rng.choice(['ffffffff', '00001000', '01001000', '00000080', '02000000']) + h
                add('r%d_%d' % (tid, j), tid, t, 'deserialize', h, 'random')
            long_sizes = [rng.choice([4096, 65536])] if quick else [1024, 4096, 65536, 65536]
            for j, n in enumerate(long_sizes):
                add('R%d_%d' % (tid, j), tid, t, 'deserialize', bytes(rng.getrandbits(8) for _ in range(n)).hex(), 'random-long')
            for j, bi in enumerate(big_inputs(t, rng, rng.choice([2000, 65536]) if quick else 65536)):
                add('B%d_%d' % (tid, j), tid, t, 'deserialize', bi.hex(), 'big-structured')
        lines = [case_line(cid, 'deccost', tid, sexp(t), mode, h or '-') for cid, tid, t, mode, h in cases]
        dlines = [case_line(cid, 'deccost', tid, sexp(t), mode, strict,
                            ';'.join('%s=%d' % kv for kv in sizes[tid].items()) or '-', h or '-') for cid, tid, t, mode, h in cases]
        impl = run_cases(exe, lines)
        model = run_cases(driver, dlines)
        stats['evaluations'] += len(cases)
        # a dead child loses the results of the rest of its shard: re-run the missing cases one
        # per child so that the failure is attributed to the input that kills the process
        missing = [l for (cid, _, _, _, _), l in zip(cases, lines) if cid not in impl]
        stats['rerun_after_dead_child'] = stats.get('rerun_after_dead_child', 0) + len(missing)
        died, skipped = set(), set()
        for l in missing:
            cid = l.split('\t', 1)[0]
            if len(died) >= 12:
                skipped.add(cid)
                continue
            one = run_cases(exe, [l])
            if cid in one:
                impl[cid] = one[cid]
            else:
                died.add(cid)
        stats['unattributed_after_dead_child'] = stats.get('unattributed_after_dead_child', 0) + len(skipped)
        cases = [cs for cs in cases if cs[0] not in skipped]
        for cid, tid, t, mode, h in cases:
            n = len(h) // 2
            ri, rm = impl.get(cid), model.get(cid)
            kind = kindof[cid]
            kinds[kind] += 1
            key = '%s %s' % (sexp(t), h if n <= 64 else h[:64] + '...(%d bytes)' % n)
            if ri is None or '\t' not in ri or ri.startswith('panic'):
                classes[kind + ':dead-or-panic'] += 1
                failures.append({'class': 'panic', 'key': key, 'what': 'decoding %s of %d bytes panicked / aborted / killed the child: %r [%s]' % (sexp(t), n, ri, cfg),
                                 'type': sexp(t), 'tid': tid, 'mode': mode, 'input': h, 'cfg': cfg})
                continue
            res_i, meas = ri.split('\t', 1)
            mi = fields(meas)
            classes[kind + ':' + error_class(res_i)] += 1
            S = max([1] + list(sizes[tid].values()))
            # ---- oracle, independent of the model
            bound_req = max(2 ** 20, 4096, 8 * S) + 4 * (S + 8) * n + 256
            bound_peak = (2 ** 20 + 2 ** 16) + 8 * (S + 16) * n
            ratios['max_request/oracle'] = max(ratios['max_request/oracle'], mi['max'] / bound_req)
            ratios['peak/oracle'] = max(ratios['peak/oracle'], mi['peak'] / bound_peak)
            if mi['max'] > largest['max_request']:
                largest.update({'max_request': mi['max'], 'input': n, 'type': sexp(t)})
            largest['peak'] = max(largest['peak'], mi['peak'])
            if mi['max'] > bound_req:
                failures.append({'class': 'max-request', 'key': key, 'what': 'single allocation request of %d bytes while decoding %d bytes as %s (bound %d) [%s]' % (mi['max'], n, sexp(t), bound_req, cfg),
                                 'type': sexp(t), 'tid': tid, 'mode': mode, 'input': h, 'cfg': cfg, 'measured': mi})
            if mi['peak'] > bound_peak:
                failures.append({'class': 'peak', 'key': key, 'what': 'peak of %d live bytes while decoding %d bytes as %s (bound %d) [%s]' % (mi['peak'], n, sexp(t), bound_peak, cfg),
                                 'type': sexp(t), 'tid': tid, 'mode': mode, 'input': h, 'cfg': cfg, 'measured': mi})
            # ---- against the model
            if rm is None or '\t' not in rm:
                disagreements.append({'what': 'model gave %r for %s on %s' % (rm, sexp(t), key)})
                continue
            res_m, mod = rm.split('\t', 1)
            mm = fields(mod)
            if res_i != res_m:
                disagreements.append({'what': '%s %s: impl %s, model %s [%s]' % (mode, key, res_i[:200], res_m[:200], cfg)})
                continue
            allow_single = K_CONV_BYTES * mm['convb'] + K_CONV_UNITS * mm['convu'] + SLACK
            allow_total = K_CONV_BYTES * mm['convb'] + K_CONV_UNITS * mm['convu'] + SLACK
            if mi['max'] < mm['maxexp']:
                disagreements.append({'what': 'largest request measured %d < explicit-capacity request %d of the model: %s [%s]' % (mi['max'], mm['maxexp'], key, cfg)})
            if mm['maxexp'] >= EXPLICIT_EQ_FLOOR and mm['maxexp'] == mm['max'] and mm['convu'] == 0:
                explicit_eq += 1
                if mi['max'] != mm['maxexp']:
                    disagreements.append({'what': 'largest request measured %d != explicit-capacity request %d that dominates in the model: %s [%s]' % (mi['max'], mm['maxexp'], key, cfg)})
            if mi['max'] > max(mm['max'], 0) + allow_single:
                disagreements.append({'what': 'largest request measured %d > model %d + allowance %d: %s [%s]' % (mi['max'], mm['max'], allow_single, key, cfg)})
            if mi['total'] > mm['total'] + allow_total:
                disagreements.append({'what': 'total requested measured %d > model %d + allowance %d: %s [%s]' % (mi['total'], mm['total'], allow_total, key, cfg)})
            ratios['total/(model+allowance)'] = max(ratios['total/(model+allowance)'], mi['total'] / (mm['total'] + allow_total))
            if mm['max'] >= EXPLICIT_EQ_FLOOR:
                ratios['max_request/model_max'] = max(ratios['max_request/model_max'], mi['max'] / mm['max'])
        # ---- collections of counting elements: the work actually done
        ccases = []
        for shape, (mt, szt, exact) in SHAPES.items():
            ins = ['', 'ffffffff', '00000080' + '01' * 9, '05000000' + '0102030405', '03000000' + '01' * 40]
            for hv in HOSTILE:
                ins.append(hv.to_bytes(4, 'little').hex() + '01020304050607')
            for j in range(6 if quick else 30):
                k = rng.choice([1, 2, 5, 17, 200, 3000])
                ins.append(k.to_bytes(4, 'little').hex() + bytes(rng.randrange(0, 3) if shape in ('vecopt8',) else rng.randrange(256) for _ in range(rng.choice([k, k, 3 * k, 4 * k + 8, k // 2]))).hex())
            ins.append((60000).to_bytes(4, 'little').hex() + bytes((i * 7) & 127 for i in range(60000)).hex())
            for j, h in enumerate(ins):
                ccases.append(('k%s_%d' % (shape, j), shape, mt, szt, exact, h))
        cimpl = run_cases(exe, ['%s\tdeccount\t-\t-\t%s\t%s' % (cid, shape, h or '-') for cid, shape, mt, szt, exact, h in ccases])
        # sizes come back with the result; the model needs them up front: two passes
        dl = []
        for cid, shape, mt, szt, exact, h in ccases:
            ri = cimpl.get(cid)
            if ri is None or '\t' not in ri:
                continue
            szs = [int(x) for x in str(fields(ri.split('\t', 1)[1])['sz']).split(',')] if 'sz=' in ri else []
            dl.append(case_line(cid, 'deccost', 0, sexp(mt), 'deserialize', strict,
                                ';'.join('%s=%d' % (sexp(x), s) for x, s in zip(szt, szs)), h or '-'))
        cmodel = run_cases(driver, dl)
        stats['evaluations'] += len(ccases)
        for cid, shape, mt, szt, exact, h in ccases:
            n = len(h) // 2
            ri, rm = cimpl.get(cid), cmodel.get(cid)
            kinds['counting-elements'] += 1
            key = 'deccount %s %s' % (shape, h if n <= 64 else h[:64] + '...(%d bytes)' % n)
            if ri is None or '\t' not in ri or ri.startswith('panic'):
                failures.append({'class': 'panic', 'key': key, 'what': '%s panicked / died: %r [%s]' % (key, ri, cfg), 'input': h, 'cfg': cfg})
                continue
            res_i, meas = ri.split('\t', 1)
            mi = fields(meas)
            classes['counting-elements:' + error_class(res_i)] += 1
            ratios['decoded/(input+1)'] = max(ratios['decoded/(input+1)'], mi['decoded'] / (n + 1))
            if mi['decoded'] > n + 1:
                failures.append({'class': 'elements', 'key': key, 'what': '%d elements decoded from %d bytes: %s [%s]' % (mi['decoded'], n, key, cfg), 'input': h, 'cfg': cfg})
            if rm is None or '\t' not in rm:
                disagreements.append({'what': 'model gave %r for %s' % (rm, key)})
                continue
            res_m, mod = rm.split('\t', 1)
            mm = fields(mod)
            cls_m = res_m
            if res_m.startswith('ok '):
                rest = res_m.split(' ')[-1]
                cls_m = 'ok %d' % (n - (0 if rest == '-' else len(rest) // 2))
            if cls_m != res_i:
                disagreements.append({'what': '%s: impl %s, model %s [%s]' % (key, res_i, cls_m[:100], cfg)})
                continue
            if exact and mi['decoded'] != mm['elems']:
                disagreements.append({'what': '%s: %d element decodes measured, model says %d [%s]' % (key, mi['decoded'], mm['elems'], cfg)})
            if not exact and mi['decoded'] > 2 * mm['elems']:
                disagreements.append({'what': '%s: %d element decodes measured, model says at most 2 * %d [%s]' % (key, mi['decoded'], mm['elems'], cfg)})
            allow = K_CONV_BYTES * mm['convb'] + K_CONV_UNITS * mm['convu'] + SLACK
            if mi['max'] < mm['maxexp'] or mi['max'] > mm['max'] + allow or mi['total'] > mm['total'] + allow:
                disagreements.append({'what': '%s: measured max=%d total=%d vs model maxexp=%d max=%d total=%d (+%d) [%s]' % (key, mi['max'], mi['total'], mm['maxexp'], mm['max'], mm['total'], allow, cfg)})
        if not stats['samples']:
            stats['samples'] = [{'type': sexp(t), 'mode': mode, 'input': h[:80], 'impl': (impl.get(cid) or '')[-120:], 'model': (model.get(cid) or '')[-100:]}
                                for cid, tid, t, mode, h in cases[11:len(cases):max(1, len(cases) // 8)]][:8]
            # out-of-family observation (NOT part of the property): wire-empty, non-zero-sized elements
            obs = run_cases(exe, ['z\tzeroprobe\t-\t-\tvec_refcell_unit\t%d' % 2 ** 16])
            stats['out_of_family_observation'] = {'op': 'zeroprobe vec_refcell_unit 65536 (a 4-byte input)', 'result': obs.get('z')}
    stats['input_kinds'] = dict(kinds)
    stats['result_classes'] = dict(classes)
    stats['max_ratios_observed'] = {k: round(v, 4) for k, v in ratios.items()}
    stats['largest_observed'] = largest
    stats['explicit_capacity_equalities_checked'] = explicit_eq
    stats['oracle_constants'] = {'max_request': 'max(2^20, 4096, 8*S) + 4*(S+8)*|input| + 256', 'peak': '(2^20 + 2^16) + 8*(S+16)*|input|',
                                 'elements': 'decoded <= |input| + 1 (one-wire-byte elements)',
                                 'model_allowance': '%d*conv_bytes + %d*conv_units + %d' % (K_CONV_BYTES, K_CONV_UNITS, SLACK),
                                 'S': 'largest size_of among the element / boxed types, from the harness'}
    stats['rule'] = ('every deserializable catalogue type of the family x (valid encodings; 0xFFFFFFFF, 2^31, 2^20+1, 2^20 at every length position; corruptions; '
                     'truncations; random strings up to 64 KiB; structured inputs up to 64 KiB), run in child processes under a counting allocator and a 6 GiB cap')
    stats['traces_validated_against_impl'] = stats['evaluations']
    return conclude(PID, tier, seed, t0, coq, stats, disagreements, failures, None,
                    level_note='partial: theorems bound the requests of the Gallina model (borsh\'s own with_capacity / vec! / resize / push growth); the real allocator, '
                               'Vec growth policy, constructors of std / hashbrown / indexmap collections, stack depth and aborts are observed on this run, not proved',
                    extra_assumptions=['size_of of every non-zero-sized element type is in (0, 2^32) (sz_ok); measured sizes are supplied by the harness',
                                       'the family excludes collections whose elements are wire-empty but not memory-zero-sized (Vec<RefCell<()>> ...): see known observation in NOTES-cost.md'])


def replay(path):
    import json
    d = json.load(open(path))
    print(json.dumps(d, indent=1)[:4000])
    f = d.get('failure') or {}
    if f.get('tid') is not None and f.get('input') is not None:
        print("replay: printf 'x\\tdeccost\\t%s\\t-\\t%s\\t%s\\n' | (ulimit -v 6291456; <harness>)" % (f['tid'], f.get('mode', 'deserialize'), f['input'][:200]))
    return 0
