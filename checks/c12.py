"""C12  Serialization is independent of the writer and transparent to its failures.

Proof side: Properties/C12.v (C12_delivers, C12_failure, C12_failure_at, C12_fixed_buffer,
C12_exact_buffer, C12_vec, C12_length).
Correspondence: catalogue values are serialized with borsh::to_writer into scheduled writers
implementing borsh::io::Write (short writes, interruptions, failures), into fixed buffers
(&mut [u8]) of every capacity and into a Vec; the extracted model runs the same writer.
Compared: result (ok / kind / message), the bytes that reached the sink, the room left.
Property oracle (implementation only): the sink is a prefix of to_vec's bytes, all of them on
success; a failure after j bytes / a buffer of j bytes gives that error (WriteZero "failed to
write whole buffer") with exactly the first j bytes delivered; object_length = len(to_vec)."""
from iolib import *  # noqa

PID = 'C12'


def build_cases(encs, rng, tier, seed):
    cases = []

    def add(fam, tid, t, v, enc_res, writer, expect):
        cases.append({'cid': 'w%d' % len(cases), 'tid': tid, 't': t, 'v': v, 'enc': enc_res, 'writer': writer,
                      'fam': fam, 'expect': expect})

    full = 40 if tier == 'quick' else 96
    for tid, t, v, repr_, r in encs:
        b = ok_hex(r)
        L = len(b) // 2 if b is not None else rng.randrange(1, 12)
        add('vec', tid, t, v, r, 'v', ('all',))
        add('length', tid, t, v, r, None, ('len',))
        caps = range(L + 2) if L <= full else sorted(set([0, 1, L - 1, L, L + 1] + [rng.randrange(L) for _ in range(6)]))
        for cap in caps:
            add('fixed', tid, t, v, r, 'b:%d' % cap, ('cap', cap))
        offs = range(L + 1) if L <= full else sorted(set([0, 1, L - 1, L] + [rng.randrange(L) for _ in range(6)]))
        for j in offs:
            k, n = rng.choice(USER_KINDS), rand_msg(rng)
            add('fail_at', tid, t, v, r, 's:' + sched_s(['a1'] * j + [fail_item(k, n)]), ('fail', j, 'User:%d' % k, n))
        add('fail_kind', tid, t, v, r, 's:' + sched_s(['a1'] * (L // 2) + ['fE:7']), ('fail', L // 2, 'UnexpectedEof', 7))
        jz = rng.randrange(L + 1)
        add('write_zero', tid, t, v, r, 's:' + sched_s(['a1'] * jz + ['z']), ('zero', jz))
        add('write_zero', tid, t, v, r, 's:' + sched_s(rand_wsched(rng, max(1, L // 2), 0.3) + ['z']), ('mayzero',))
        for _ in range(2 if tier == 'quick' else 5):
            add('split', tid, t, v, r, 's:' + sched_s(rand_wsched(rng, L + 1, rng.choice((0.0, 0.3, 0.6)))), ('all',))
        add('split', tid, t, v, r, 's:' + sched_s(['a1'] * L), ('all',))
        if 0 < L <= 24:
            step = rng.choice((1, 2, 3))
            base = ['a%d' % step] * ((L + step - 1) // step + 2)
            for j in range(0, len(base), 1 if tier != 'quick' else 2):
                add('interrupt_at', tid, t, v, r, 's:' + sched_s(base[:j] + [rng.choice(('i', 'i,i', 'fI:2'))] + base[j:]), ('all',))
        pre = rand_wsched(rng, max(1, rng.randrange(L + 1)), 0.3)
        k, n = rng.choice(USER_KINDS), rand_msg(rng)
        add('fail_random', tid, t, v, r, 's:' + sched_s(pre + [fail_item(k, n)]), ('mayfail', 'User:%d' % k, n))
    # > 1 MiB
    tv = tid_of()[VEC_U8]
    n = (1 << 20) + 4097
    payload = big_vec_hex(seed * 17 + 3, n)
    v = '(b %s)' % payload[8:]
    r = 'ok ' + payload
    Lb = n + 4
    add('big', tv, VEC_U8, v, r, 'v', ('all',))
    add('big', tv, VEC_U8, v, r, 'b:%d' % Lb, ('cap', Lb))
    add('big', tv, VEC_U8, v, r, 'b:%d' % (Lb - 1), ('cap', Lb - 1))
    add('big', tv, VEC_U8, v, r, 'b:%d' % ((1 << 20) + 3), ('cap', (1 << 20) + 3))
    add('big', tv, VEC_U8, v, r, 's:a3,i,a1,a65536,i,a1000000,a7', ('all',))
    add('big', tv, VEC_U8, v, r, 's:a4,a%d,f3:5' % (1 << 20), ('mayfail', 'User:3', 5))
    add('big', tv, VEC_U8, v, r, None, ('len',))
    return cases


def harness_line(c):
    if c['writer'] is None:
        return case_line(c['cid'], 'iolen', c['tid'], sexp(c['t']), c['v'])
    return case_line(c['cid'], 'encw', c['tid'], sexp(c['t']), c['v'], c['writer'])


def parse_w(out):
    """'ok HEX [room=N]' | 'err K M HEX [room=N]' -> (res, sinkhex, room)"""
    p = out.split(' ')
    room = None
    if p[-1].startswith('room='):
        room = int(p[-1][5:])
        p = p[:-1]
    sink = p[-1]
    return ' '.join(p[:-1]), ('' if sink == '-' else sink), room


def oracle(c, out):
    if out is None or out.startswith('panic') or out.startswith('harness-error'):
        return 'no result / panic: %s' % out
    enc = c['enc']
    b = ok_hex(enc)
    ex = c['expect']
    if ex[0] == 'len':
        want = ('ok %d' % (len(b) // 2)) if b is not None else enc
        return None if out == want else 'object_length gives %s, to_vec gives %s' % (out, short(enc, 80))
    res, sink, room = parse_w(out)
    if b is None:
        # the value does not serialize: the same error, unless the writer stopped first
        if res == enc:
            return None
        if ex[0] == 'cap' and res == 'err WriteZero WriteWhole':
            return None
        if ex[0] in ('fail', 'mayfail') and res == 'err %s %s' % (ex[-2], fail_msg(ex[-1])):
            return None
        if ex[0] in ('zero', 'mayzero') and res == 'err WriteZero WriteWhole':
            return None
        return 'to_vec gives %s, to_writer gives %s' % (enc, res)
    L = len(b) // 2
    if not b.startswith(sink):
        return 'sink %s is not a prefix of the encoding %s' % (short(sink, 60), short(b, 60))
    if res == 'ok' and sink != b:
        return 'success with %d of %d bytes delivered' % (len(sink) // 2, L)
    if ex[0] == 'all':
        return None if res == 'ok' else 'a writer that never fails gave %s' % res
    if ex[0] == 'cap':
        cap = ex[1]
        if cap >= L:
            return None if (res == 'ok' and room == cap - L) else 'buffer of %d for %d bytes: %s room=%s' % (cap, L, res, room)
        if res != 'err WriteZero WriteWhole':
            return 'buffer of %d for %d bytes: %s' % (cap, L, res)
        return None if (len(sink) // 2 == cap and room == 0) else 'buffer of %d: %d bytes written, room %s' % (cap, len(sink) // 2, room)
    if ex[0] == 'fail':
        j, kind, num = ex[1], ex[2], ex[3]
        if j >= L:
            return None if res == 'ok' else 'failure scheduled after the last byte was reported: %s' % res
        if res != 'err %s %s' % (kind, fail_msg(num)):
            return 'failure after %d bytes came back as %s' % (j, res)
        return None if len(sink) // 2 == j else 'failure after %d bytes, %d delivered' % (j, len(sink) // 2)
    if ex[0] == 'zero':
        j = ex[1]
        if j >= L:
            return None if res == 'ok' else 'a refusing write scheduled after the last byte was reported: %s' % res
        if res != 'err WriteZero WriteWhole':
            return 'a write of 0 bytes after %d bytes came back as %s' % (j, res)
        return None if len(sink) // 2 == j else 'write of 0 bytes after %d bytes, %d delivered' % (j, len(sink) // 2)
    if ex[0] == 'mayzero':
        if res == 'ok':
            return None
        return None if (res == 'err WriteZero WriteWhole' and len(sink) // 2 < L) else 'unexpected %s with %d of %d bytes' % (res, len(sink) // 2, L)
    if ex[0] == 'mayfail':
        if res == 'ok':
            return None
        return None if (res == 'err %s %s' % (ex[1], fail_msg(ex[2])) and len(sink) // 2 < L) else 'unexpected %s with %d of %d bytes' % (res, len(sink) // 2, L)
    return None


def run_cfg(cfg, exe, driver, tier, seed, stats, disagreements, failures, oracle_only=False):
    rng = random.Random(seed * 13 + (1 if is_shim(cfg) else 0))
    nan = [(('prim', 'f64'), str(0x7ff8000000000001)), (('prim', 'f32'), str(0x7fc00000))]
    encs = impl_encodings(exe, cfg, seed, 2 if tier == 'quick' else 5, 5, extra=nan)
    cases = build_cases(encs, rng, tier, seed)
    impl = run_cases(exe, [harness_line(c) for c in cases])
    dlines = []
    shim = '1' if is_shim(cfg) else '0'
    parsed = {}
    for c in cases:
        r = impl.get(c['cid'])
        if r is None or '\t' not in r:
            parsed[c['cid']] = (None, r)
            continue
        repr_, out = r.split('\t', 1)
        parsed[c['cid']] = (repr_, out)
        if c['writer'] is None:
            dlines.append(case_line(c['cid'], 'iolen', c['tid'], sexp(c['t']), repr_))
        else:
            dlines.append(case_line(c['cid'], 'encw', c['tid'], sexp(c['t']), shim, repr_, c['writer']))
    model = {} if oracle_only else run_cases(driver, dlines)
    fam, classes = Counter(), Counter()
    mism = []
    for c in cases:
        repr_, out = parsed[c['cid']]
        fam[c['fam']] += 1
        if repr_ is None:
            if out is not None and out.startswith('skip'):
                classes['skip'] += 1
                continue
            disagreements.append({'what': 'harness gave no answer for %s %s %s: %s' % (rust(c['t']), short(c['v'], 60), c['writer'], out)})
            continue
        classes[res_class(out if c['writer'] is None else parse_w(out)[0])] += 1
        rec = {'cfg': cfg, 'type': sexp(c['t']), 'rust': rust(c['t']), 'value': short(repr_, 300), 'writer': short(str(c['writer']), 300),
               'family': c['fam'], 'impl': short(out, 300), 'to_vec': short(c['enc'], 200),
               'replay_cmd': "printf '%s\\n' | %s" % (short(harness_line(c), 600), exe)}
        why = oracle(c, out)
        if why is not None:
            failures.append(dict(rec, **{'class': 'writer-dependence', 'key': '%s %s %s' % (sexp(c['t']), short(repr_, 80), short(str(c['writer']), 80)),
                                         'what': '%s [%s, value %s, writer %s]' % (why, rust(c['t']), short(repr_, 80), short(str(c['writer']), 100))}))
        if oracle_only:
            continue
        m = model.get(c['cid'])
        if m != out:
            mism.append((c, repr_, out, dict(rec, model=short(m, 300), what='%s %s value %s writer %s: impl %s, model %s [%s]' % (
                'encw' if c['writer'] else 'object_length', rust(c['t']), short(repr_, 60), short(str(c['writer']), 80), short(out, 120), short(m, 120), cfg))))
    # The model's `ser` cuts the stream into write_all calls as the code did when it was transcribed.  C12 does not
    # depend on that cut (Properties/C12rechunk.v: every statement holds for ANY chunking of the same stream), so a
    # mismatch is first re-examined against the generalised model: ask the implementation how it cuts this value
    # (a writer that records each buffer), feed the MODEL's stream cut that way (IoRechunk.to_writer_cs) to the same
    # writer, and compare again.  Only what still differs is a disagreement.
    if mism:
        vals = {}
        for c, repr_, out, d in mism:
            if c['writer'] is not None:
                vals.setdefault((c['tid'], repr_), c)
        cl = [case_line('k%d' % i, 'encw', tid, sexp(c['t']), repr_, 'c') for i, ((tid, repr_), c) in enumerate(vals.items())]
        cres = run_cases(exe, cl)
        lens = {}
        for i, key in enumerate(vals):
            r = cres.get('k%d' % i) or ''
            if '\t' in r and ' chunks=' in r:
                lens[key] = r.rsplit(' chunks=', 1)[1].strip()
        relines, idx = [], {}
        for n, (c, repr_, out, d) in enumerate(mism):
            key = (c['tid'], repr_)
            if c['writer'] is not None and key in lens:
                idx[n] = 'q%d' % n
                relines.append(case_line('q%d' % n, 'encwc', c['tid'], sexp(c['t']), shim, repr_, c['writer'], lens[key]))
        rem = run_cases(driver, relines) if relines else {}
        rechunked = set()
        for n, (c, repr_, out, d) in enumerate(mism):
            m2 = rem.get(idx.get(n))
            if m2 is not None and m2 == out:
                rechunked.add((c['tid'], repr_))
            else:
                if m2 is not None:
                    d['model_rechunked'] = short(m2, 300)
                    d['what'] += '; with the implementation\'s own chunking (%s) the model gives %s' % (short(lens.get((c['tid'], repr_), '?'), 60), short(m2, 120))
                disagreements.append(d)
        if rechunked:
            stats['rechunked_values'] = stats.get('rechunked_values', 0) + len(rechunked)
            stats['rechunked_note'] = ('for these values the implementation cuts the byte stream into write_all calls differently from Ser.ser; '
                                       'all their cases agree with the generalised model to_writer_cs on the implementation\'s chunking, for which '
                                       'Properties/C12rechunk.v proves every statement of C12')
            stats.setdefault('rechunked_samples', [])
            for (tid, repr_) in list(rechunked)[:5]:
                stats['rechunked_samples'].append({'type': rust(vals[(tid, repr_)]['t']), 'value': short(repr_, 80), 'chunks': short(lens[(tid, repr_)], 80)})
    stats['evaluations'] += len(cases) + len(encs)
    stats['families'][cfg] = dict(fam)
    for k, v in classes.items():
        stats['result_classes'][k] = stats['result_classes'].get(k, 0) + v
    stats['distinct_nontrivial'] += len({(c['tid'], c['v'], c['writer']) for c in cases if c['writer'] not in (None, 'v') and ok_hex(c['enc'])})
    if not stats['samples']:
        stats['samples'] = [{'type': rust(c['t']), 'value': short(parsed[c['cid']][0], 60), 'writer': short(str(c['writer']), 60),
                             'impl': short(parsed[c['cid']][1], 100), 'model': short(model.get(c['cid']), 100)}
                            for c in cases[::max(1, len(cases) // 12)]]


def run(tier, seed, t0):
    coq = coq_property(PID)
    coq = also_property(coq, 'C12rechunk')     # the statements of C12 for an arbitrary chunking of the stream
    driver = driver_big()
    cfgs = ['std-strict', 'nostd-strict'] if tier == 'quick' else ['std-strict', 'std-loose', 'nostd-strict', 'nostd-loose']
    exes, disagreements = ensure_harnesses(cfgs)
    failures = []
    stats = {'evaluations': 0, 'configs': list(exes), 'families': {}, 'result_classes': {}, 'samples': [], 'distinct_nontrivial': 0}
    for cfg, exe in exes.items():
        run_cfg(cfg, exe, driver, tier, seed, stats, disagreements, failures)
    stats['io_implementations'] = {cfg: ('nostd_io.rs shim' if is_shim(cfg) else 'std::io') for cfg in exes}
    stats['rule'] = ('every catalogue type x generated values (plus NaN floats): Vec writer, fixed buffers of every capacity 0..len+1, a failure '
                     'after every offset 0..len, a write of 0 bytes, random splitting schedules, an interruption at every call index, object_length, one vector over '
                     '1 MiB; non-trivial = distinct (type, value, writer) with a scheduled or fixed writer and a value that serializes')
    stats['traces_validated_against_impl'] = stats['evaluations']
    allfam = Counter()
    for f in stats['families'].values():
        allfam.update(f)
    missing = [k for k in ('vec', 'fixed', 'fail_at', 'write_zero', 'split', 'interrupt_at', 'length', 'big') if not allfam.get(k)]
    if missing:
        disagreements.append({'what': 'generator produced no cases for: ' + ', '.join(missing)})

    def search():
        found = []
        for cfg, exe in exes.items():
            for s2 in range(1, 4):
                st2 = {'evaluations': 0, 'families': {}, 'result_classes': {}, 'samples': [1], 'distinct_nontrivial': 0}
                run_cfg(cfg, exe, driver, 'thorough', seed * 100 + s2, st2, [], found, oracle_only=True)
                if found:
                    return found
        return found

    for x in LOST_ENCODINGS:
        disagreements.append({'what': 'to_vec gave no usable answer, so no reader / writer case was built for it: ' + x})
    return conclude(PID, tier, seed, t0, coq, stats, disagreements, failures, search,
                    level_note='theorems about the Gallina model of write_all / to_writer / object_length; tie to the Rust code by differential execution on this run (std::io in the std builds, nostd_io.rs in the nostd builds)')


def replay(path):
    import json
    d = json.load(open(path))
    print(json.dumps(d.get('failure') or d.get('broken'), indent=1))
    return 0
