"""C05  Encodings are self-delimiting.

Proof side: Properties/C05.v (extension/prefix theorem for every type and byte string;
stream, trailing and prefix corollaries via C01).  Correspondence: for encodings produced
by the implementation, (a) heterogeneous streams: decoding at each position of a
concatenation returns that value and leaves exactly the following bytes, (b) every proper
prefix through all six entry points, (c) tails of 1..3 bytes through the four whole-input
entry points -- implementation vs model.  Oracles (implementation only): a prefix is never
accepted, a tail is never accepted, deserialize leaves exactly what followed the value, the
reader variants pull at most one byte beyond the value."""
import random
from collections import Counter

from codec import *  # noqa
import reccorr

PID = 'C05'


def run(tier, seed, t0):
    coq = coq_property(PID)
    driver = ensure_driver()
    cfgs = ['std-strict', 'nostd-loose'] if tier == 'quick' else ['std-strict', 'std-loose', 'nostd-strict', 'nostd-loose']
    exes, disagreements = ensure_harnesses(cfgs)
    failures = []
    stats = {'evaluations': 0, 'configs': list(exes), 'samples': [], 'kinds': {}}
    kinds = Counter()
    distinct = set()
    rng = random.Random(seed * 31 + 5)
    for cfg, exe in exes.items():
        flt = (lambda t: not needs_std(t)) if cfg.startswith('nostd') else None
        recs, good = encodings(cfg, exe, driver, seed, tier, flt)
        cases = []      # (cid, tid, t, mode, hex)
        expect = {}     # cid -> ('value-then', following-hex) | ('reject',)
        # (a) streams
        n_streams = 150 if tier == 'quick' else 1200
        for si in range(n_streams):
            items = [rng.choice(good) for _ in range(rng.randrange(1, 9))]
            tail = rng.choice(['', 'aa', '0001', 'ffffff'])
            for i, (r, t, h) in enumerate(items):
                following = ''.join(x[2] for x in items[i + 1:]) + tail
                cid = 's%d_%d' % (si, i)
                mode = rng.choice(['deserialize', 'deserialize_reader'])
                cases.append((cid, r['tid'], t, mode, h + following))
                expect[cid] = ('leaves', following, len(h) // 2)
                kinds['stream'] += 1
        # (b) truncations, (c) tails
        per = 3 if tier == 'quick' else 12
        sample = good if tier != 'quick' else [g for i, g in enumerate(good) if i % 2 == 0]
        for gi, (r, t, h) in enumerate(sample):
            for pi, pre in enumerate(truncations(h, rng, 8 if tier == 'quick' else 24)):
                for mode in (ENTRY_POINTS if (gi + pi) % per == 0 else [rng.choice(ENTRY_POINTS)]):
                    cid = 't%d_%d_%s' % (gi, pi, mode)
                    cases.append((cid, r['tid'], t, mode, pre))
                    expect[cid] = ('reject',)
                    kinds['prefix'] += 1
            for ti, tail in enumerate(['00', 'ff01', '000000']):
                for mode in ['try_from_slice', 'from_slice', 'try_from_reader', 'from_reader']:
                    if (gi + ti) % per and mode != 'from_slice':
                        continue
                    cid = 'x%d_%d_%s' % (gi, ti, mode)
                    cases.append((cid, r['tid'], t, mode, h + tail))
                    expect[cid] = ('reject-tail', len(h) // 2)
                    kinds['tail'] += 1
        drecs = stage_decm(cfg, exe, driver, cases)
        stats['evaluations'] += len(drecs)
        for r in drecs:
            distinct.add((r['type'], r['input'], r['mode']))
            if not r['agree']:
                disagreements.append({'what': '%s %s on %s: impl %s, model %s [%s]' % (r['mode'], r['type'], r['input'], r['impl'], r['model'], cfg), **r})
            e = expect[r['cid']]
            impl = r['impl'] or 'missing'
            bad = None
            if e[0] == 'leaves':
                if not impl.startswith('ok '):
                    bad = 'a value followed by other bytes was not decoded'
                elif impl.rsplit(' ', 1)[1].replace('-', '') != e[1]:
                    bad = 'decoding did not leave exactly the bytes that followed the value'
                elif r['pulled'] is not None and r['pulled'] != e[2]:
                    bad = 'deserialize_reader pulled %d bytes for a %d-byte value' % (r['pulled'], e[2])
            elif e[0] == 'reject':
                if impl.startswith('ok'):
                    bad = 'a proper prefix of a valid encoding was accepted'
            elif e[0] == 'reject-tail':
                if impl.startswith('ok'):
                    bad = 'input with bytes left over after the value was accepted'
                elif r['pulled'] is not None and r['pulled'] > e[1] + 1:
                    bad = 'reader entry point pulled %d bytes, value has %d' % (r['pulled'], e[1])
            if bad:
                failures.append({'class': 'self-delimiting', 'key': '%s %s %s' % (r['type'], r['mode'], r['input']),
                                 'what': '%s: %s %s on %s -> %s [%s]' % (bad, r['mode'], r['type'], r['input'], impl, cfg),
                                 'type': r['type'], 'mode': r['mode'], 'input': r['input'], 'result': impl, 'cfg': cfg})
        # recursive derived items (Tree, List, Json, Rec) through their finite unfoldings
        rstats, rdis, rfails = reccorr.rec_hostile_stage(cfg, exe, driver, seed, tier, 'c05')
        disagreements += rdis
        failures += rfails
        reccorr.merge_stats(stats, rstats)
        if not stats['samples']:
            stats['samples'] = [{'type': r['type'], 'mode': r['mode'], 'input': r['input'], 'result': r['impl']} for r in drecs[3:3000:331]]
    stats['kinds'] = dict(kinds)
    stats['distinct_nontrivial'] = len(distinct)
    stats['rule'] = ('streams of 1..8 implementation-produced encodings of catalogue types with a tail; every/ sampled proper prefixes; tails of 1..3 bytes; '
                     'six entry points; distinct = distinct (type, input, entry point); every case is non-trivial (derived from a successful encoding)')
    stats['traces_validated_against_impl'] = stats['evaluations']
    return conclude(PID, tier, seed, t0, coq, stats, disagreements, failures, None,
                    level_note='theorems about the Gallina model; tie to the Rust code by differential execution on this run')


def replay(path):
    import json
    print(json.dumps(json.load(open(path)), indent=1)[:4000])
    return 0
