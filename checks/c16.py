"""C16  Malformed in-memory input is always reported as InvalidData.

Proof side: Properties/C16.v (for every type and byte string the slice decoder fails only
with InvalidData and never panics; message classes for truncation, leftovers, ZST).
Correspondence: truncations at every/sampled offset, single-byte corruptions and random
strings for every deserializable catalogue type: result (kind + message class) of the
implementation vs the model.  Oracle (implementation only): error kind == InvalidData,
no panic; truncation => 'Unexpected length of input'."""
import random
from collections import Counter

from codec import *  # noqa
import reccorr

PID = 'C16'


def run(tier, seed, t0):
    coq = coq_property(PID)
    driver = ensure_driver()
    cfgs = ['std-strict', 'nostd-loose'] if tier == 'quick' else ['std-strict', 'std-loose', 'nostd-strict', 'nostd-loose']
    exes, disagreements = ensure_harnesses(cfgs)
    failures = []
    stats = {'evaluations': 0, 'configs': list(exes), 'samples': []}
    classes = Counter()
    distinct = set()
    rng = random.Random(seed * 17 + 3)
    tmap = dict(catmod.catalogue_types())
    for cfg, exe in exes.items():
        flt = (lambda t: not needs_std(t)) if cfg.startswith('nostd') else None
        recs, good = encodings(cfg, exe, driver, seed, tier, flt)
        cases, kindof = [], {}
        for gi, (r, t, h) in enumerate(good):
            for pi, pre in enumerate(truncations(h, rng, 6 if tier == 'quick' else 24)):
                cid = 't%d_%d' % (gi, pi)
                cases.append((cid, r['tid'], t, rng.choice(['deserialize', 'from_slice', 'try_from_slice']), pre))
                kindof[cid] = 'trunc'
            for ci, cor in enumerate(corruptions(h, rng, 6 if tier == 'quick' else 16)):
                cid = 'c%d_%d' % (gi, ci)
                cases.append((cid, r['tid'], t, rng.choice(['deserialize', 'from_slice']), cor))
                kindof[cid] = 'corrupt'
        # random strings and adversarial length prefixes for every type
        for tid, t in tmap.items():
            if not can_de(t) or (flt and not flt(t)) or unbounded_on_hostile_input(t):
                continue
            for j in range(3 if tier == 'quick' else 12):
                n = rng.choice([0, 1, 2, 3, 4, 5, 8, 9, 16, 33])
                h = bytes(rng.randrange(256) for _ in range(n)).hex()
                if j % 3 == 0:
                    h = rng.choice(['ffffffff', '00001000', '01000000', '02000000', '00000080']) + h
                cid = 'r%d_%d' % (tid, j)
                cases.append((cid, tid, t, rng.choice(['deserialize', 'from_slice']), h))
                kindof[cid] = 'random'
        drecs = stage_decm(cfg, exe, driver, cases)
        stats['evaluations'] += len(drecs)
        for r in drecs:
            impl = r['impl'] or 'missing'
            classes[kindof[r['cid']] + ':' + error_class(impl)] += 1
            if not impl.startswith('ok'):
                distinct.add((r['type'], r['input']))
            if not r['agree']:
                disagreements.append({'what': '%s %s on %s: impl %s, model %s [%s]' % (r['mode'], r['type'], r['input'], impl, r['model'], cfg), **r})
            bad = None
            if impl.startswith('err ') and impl.split(' ')[1] != 'InvalidData':
                bad = 'error kind %s escaped for in-memory input' % impl.split(' ')[1]
            elif impl.startswith('panic') or impl == 'missing':
                bad = 'decoding in-memory input panicked or died'
            elif kindof[r['cid']] == 'trunc' and not impl.startswith('err InvalidData UnexpectedLength'):
                bad = 'a truncated valid encoding was not reported as "Unexpected length of input"'
            if bad:
                failures.append({'class': 'error-kind', 'key': '%s %s' % (r['type'], r['input']),
                                 'what': '%s: %s %s on %s -> %s [%s]' % (bad, r['mode'], r['type'], r['input'], impl, cfg),
                                 'type': r['type'], 'mode': r['mode'], 'input': r['input'], 'result': impl, 'cfg': cfg})
        # recursive derived items (Tree, List, Json, Rec) through their finite unfoldings
        rstats, rdis, rfails = reccorr.rec_hostile_stage(cfg, exe, driver, seed, tier, 'c16')
        disagreements += rdis
        failures += rfails
        reccorr.merge_stats(stats, rstats)
        if not stats['samples']:
            stats['samples'] = [{'type': r['type'], 'mode': r['mode'], 'input': r['input'], 'result': r['impl']} for r in drecs[7:4000:401]]
    stats['result_classes'] = dict(classes)
    # generator floor: every cause named by the property must actually have been exercised
    seen = set(k.split(':')[-1] for k in classes if ':err:' in k)
    need = {'UnexpectedLength', 'NotAllBytesRead', 'Zst', 'BadBool', 'BadOption', 'BadResult', 'BadVariant', 'ZeroNonZero', 'NaNDe', 'Utf8'}
    if any(c.startswith('std') for c in exes):
        need |= {'Ascii', 'BadIpAddr', 'BadSocketAddr'}
    if any(CONFIGS[c][1] for c in exes):
        need |= {'KeyOrder'}
    stats['error_classes_required'] = sorted(need)
    stats['error_classes_seen'] = sorted(seen)
    if exes and not disagreements and not failures and not need <= seen:
        raise CheckBroken('generator floor: error classes never exercised: %s' % sorted(need - seen))
    stats['distinct_nontrivial'] = len(distinct)
    stats['rule'] = ('truncations and single-byte corruptions of implementation-produced encodings plus random strings/adversarial length prefixes, all deserializable '
                     'catalogue types (every feature-gated impl in the std configs); non-trivial = the input is rejected; distinct = distinct (type, input)')
    stats['traces_validated_against_impl'] = stats['evaluations']
    return conclude(PID, tier, seed, t0, coq, stats, disagreements, failures, None,
                    level_note='theorems about the Gallina model; tie to the Rust code by differential execution on this run')


def replay(path):
    import json
    print(json.dumps(json.load(open(path)), indent=1)[:4000])
    return 0
