"""C01  Round trip: decoding an encoding returns the original value.

Proof side: Properties/C01.v.  Correspondence: for every catalogue type and generated
value, (a) implementation bytes == model bytes on the representation the implementation
reports, (b) implementation decode of bytes++tail == model decode.  Property oracle
(implementation only): from_val -> to_vec -> deserialize(bytes ++ tail) gives the same
logical value and leaves exactly the tail.  Recursive derived items (which have no type in the
universe) go through lib/reccorr.py: same three comparisons at finite unfoldings."""
import random
from collections import Counter

from codec import *  # noqa
import reccorr
import srccover

PID = 'C01'


def oracle_cases(recs, tmap, rng):
    out = []
    for r in recs:
        if r['status'] == 'run' and r['impl'].startswith('ok') and can_de(tmap[r['tid']]):
            tail = rng.choice(['', 'aa', '00ff01'])
            out.append((r['cid'], r['tid'], tmap[r['tid']], r['gen'], tail))
    return out


def run_oracle(exe, cases):
    lines = [case_line(cid, 'rt', tid, sexp(t), v, tail or '-') for cid, tid, t, v, tail in cases]
    res = run_cases(exe, lines)
    fails = []
    for cid, tid, t, v, tail in cases:
        r = res.get(cid)
        if r is None or not (r.startswith('ok same') or r.startswith('skip')):
            fails.append({'class': 'roundtrip', 'key': '%s %s' % (sexp(t), v),
                          'what': 'round trip fails on the implementation: type %s value %s tail %s -> %s' % (sexp(t), v, tail, r),
                          'type': sexp(t), 'rust': rust(t), 'value': v, 'tail': tail, 'result': r,
                          'replay_cmd': "printf '%s\\n' | <harness> " % case_line(cid, 'rt', tid, sexp(t), v, tail or '-')})
    return fails


def run(tier, seed, t0):
    coq = coq_property(PID)
    coq = reccorr.rec_proofs(coq)      # Properties/C01rec.v: the theorems behind the finite-unfolding stage
    driver = ensure_driver()
    cfgs = ['std-strict', 'std-loose'] if tier == 'quick' else ['std-strict', 'std-loose', 'nostd-strict', 'nostd-loose']
    exes, disagreements = ensure_harnesses(cfgs)
    tmap = dict(catmod.catalogue_types())
    failures = []
    stats = {'evaluations': 0, 'configs': list(exes), 'result_classes': {}, 'samples': []}
    # the implementors of BorshSerialize / BorshDeserialize as the compiler lists them vs the model's universe
    cst, cdis = srccover.stage(('BorshSerialize', 'BorshDeserialize'), catmod.catalogue_types(), rust)
    stats.update(cst)
    disagreements += cdis
    distinct = set()
    classes = Counter()
    rng = random.Random(seed)
    for cfg, exe in exes.items():
        flt = (lambda t: not needs_std(t)) if cfg.startswith('nostd') else None
        cases = gen_enc_cases(seed, tier, flt)
        recs = stage_enc(cfg, exe, driver, cases)
        stats['evaluations'] += len(recs)
        for r in recs:
            classes[error_class(r.get('impl')) if r['status'] == 'run' else r['status']] += 1
            if r['status'] == 'run' and not r['agree']:
                disagreements.append({'what': 'enc %s %s: impl %s, model %s [%s]' % (r['type'], r['repr'], r['impl'], r['model'], cfg), **r})
            if r['status'] in ('missing', 'bad'):
                disagreements.append({'what': 'harness gave no answer for %s %s: %s' % (r['type'], r['gen'], r.get('impl')), **r})
            if r['status'] == 'run' and r['impl'].startswith('ok') and len(r['impl']) > 4:
                distinct.add((r['type'], r['repr']))
        # decode what was encoded, with a tail appended
        dcases = []
        for r in recs:
            if r['status'] == 'run' and r['impl'].startswith('ok') and can_de(tmap[r['tid']]):
                h = r['impl'].split(' ')[1].replace('-', '')
                dcases.append((r['cid'] + 'd', r['tid'], tmap[r['tid']], h + rng.choice(['', 'aa', '00ff01'])))
        drecs = stage_dec(cfg, exe, driver, dcases)
        stats['evaluations'] += len(drecs)
        for r in drecs:
            if not r['agree']:
                disagreements.append({'what': 'dec %s %s: impl %s, model %s [%s]' % (r['type'], r['input'], r['impl'], r['model'], cfg), **r})
        # the property itself, on the implementation alone
        ocases = oracle_cases(recs, tmap, rng)
        failures += run_oracle(exe, ocases)
        stats['evaluations'] += len(ocases)
        if not stats['samples']:
            stats['samples'] = [{'type': r['type'], 'value': r['repr'], 'bytes': r['impl']} for r in recs[5:400:60] if r['status'] == 'run']
        # keys that differ only in data the format does not carry (SocketAddrV6: flowinfo, scope_id): not key types of
        # the model (Ty.key_ok), so no theorem speaks about them; the implementation is asked (finding F22)
        if cfg.startswith('std'):
            r = run_cases(exe, [case_line('k6', 'sockv6keys', '-', '-')]).get('k6')
            stats['evaluations'] += 1
            if not r or ';' not in r:
                disagreements.append({'what': 'sockv6keys gave no answer: %r [%s]' % (r, cfg)})
            else:
                for part in r.split(';'):
                    kind = part.split(' ')[0]
                    f = dict(x.split('=', 1) for x in part.split(' ', 1)[1].replace('de=', 'de=', 1).split(' ', 1) if '=' in x)
                    if f.get('de') != 'ok ' + f.get('n', '?'):
                        failures.append({'class': 'uncarried-key-collision', 'key': 'sockv6 ' + kind,
                                         'what': 'a BTree%s of %s SocketAddrV6 keys that differ only in scope_id serializes, but decoding the bytes gives %s [%s]'
                                                 % ('Set' if kind == 'set' else 'Map', f.get('n'), f.get('de'), cfg), 'cfg': cfg,
                                         'replay_cmd': "printf 'k\\tsockv6keys\\t-\\t-\\n' | " + exe})
            # the same for RangeInclusive keys of an index collection: Eq / Hash see the `exhausted` flag (finding F29)
            r = run_cases(exe, [case_line('kr', 'rangekeys', '-', '-')]).get('kr')
            stats['evaluations'] += 1
            if not r or ';' not in r:
                disagreements.append({'what': 'rangekeys gave no answer: %r [%s]' % (r, cfg)})
            else:
                for part in r.split(';'):
                    kind, _, rest = part.partition(' ')
                    n, _, de = rest.partition(' de=')
                    if de != 'ok ' + n.replace('n=', ''):
                        failures.append({'class': 'uncarried-key-collision-range', 'key': 'rangeinclusive ' + kind,
                                         'what': 'an Index%s of %s RangeInclusive<u8> keys that differ only in the exhausted flag serializes, but decoding the bytes gives %s [%s]'
                                                 % ('Set' if kind == 'set' else 'Map', n.replace('n=', ''), de, cfg), 'cfg': cfg,
                                         'replay_cmd': "printf 'k\\trangekeys\\t-\\t-\\n' | " + exe})
            r = run_cases(exe, [case_line('k6d', 'sockv6dec', '-', '-')]).get('k6d')
            stats['evaluations'] += 1
            want = 'len=18 ip=true port=true flow=0 scope=0'
            for part in (r or 'no answer').split(';'):
                if part != want:
                    disagreements.append({'what': 'a SocketAddrV6 serialized and decoded again gives "%s"; the model (address and port carried in 18 bytes, '
                                                  'flowinfo and scope_id decoded as 0) says "%s" [%s]' % (part, want, cfg), 'cfg': cfg})
        # recursive derived items (Tree, List, Json, Rec) through their finite unfoldings
        rstats, rdis, rfails = reccorr.rec_stage(cfg, exe, driver, seed, tier)
        disagreements += rdis
        failures += rfails
        reccorr.merge_stats(stats, rstats)
    stats['result_classes'] = dict(classes)
    stats['distinct_nontrivial'] = len(distinct)
    stats['rule'] = ('catalogue of %d concrete Rust types (hand-picked coverage list + seeded grammar) x generated values; '
                     'a case is non-trivial when it encodes successfully to at least one byte; distinct = distinct (type, representation) pairs' % len(tmap))
    stats['traces_validated_against_impl'] = stats['evaluations']

    def search():
        # something broke: look for a failing round trip on a much larger sample
        found = []
        for cfg, exe in exes.items():
            for s2 in range(1, 6):
                cases = gen_enc_cases(seed * 1000 + s2, 'thorough', (lambda t: not needs_std(t)) if cfg.startswith('nostd') else None)
                oc = [(cid, tid, t, v, '00') for cid, tid, t, v in cases if can_de(t)]
                found += run_oracle(exe, oc)
                if found:
                    return found
        return found

    return conclude(PID, tier, seed, t0, coq, stats, disagreements, failures, search,
                    level_note='theorem about the Gallina model; tie to the Rust code by differential execution on this run')


def replay(path):
    import json
    d = json.load(open(path))
    print(json.dumps(d.get('failure') or d.get('broken'), indent=1))
    return 0
