"""C10  BorshSchemaContainer::validate: total (never panics), Ok exactly on well-formed
containers, and an error blames a declaration that has the named defect.

Proof side: Properties/C10.v.  Correspondence: the C09 container corpus
(gen/containers.py + for_type::<T>() of real Rust types); the implementation's `validate`
result string (under catch_unwind) equals the extracted model's (`sch-validate`), including
the declaration named in the error.
Property oracle (implementation only, lib/schema_oracle.py): reachability closure, zero-sizedness
as a least fixed point, then
  - no panic;
  - `ok` iff every reachable name is defined, every reachable non-array sequence has a non-empty range,
    a length width in {0,1,2,4,8} wide enough for its largest length and elements that are not
    zero-sized, and every reachable enum has a tag width <= 8;
  - `err K d`: d is reachable and has defect K.
Model-side cross-check (driver only; is_zero_size is not public in Rust): for every declared name of
every container, model is_zero_size = `ok 1` iff the name is in the oracle's least fixed point.

Debug switch SCHEMA_SKIP_COQ=1 (off by default): see lib/schemacorr.py."""
from collections import Counter

from schemacorr import *  # noqa

PID = 'C10'
OP = 'sch-validate'


def oracle(cs, impl, stats=None):
    fails = []
    wf = 0
    per_defect = Counter()
    combos = Counter()
    for cid, sx, c in cs:
        r = impl.get(cid)
        dfs = O.defects(c)
        if stats is not None:
            if dfs:
                kinds = sorted(set(k for k, _ in dfs))
                for k in kinds:
                    per_defect[k] += 1
                combos[len(kinds)] += 1
            else:
                wf += 1
        for cls, text in O.check_c10(c, r, dfs):
            fails.append(failure(PID, cls, text, cid, sx, OP, r))
    if stats is not None:
        stats['well_formed'] = wf
        stats['ill_formed'] = len(cs) - wf
        stats['ill_formed_per_defect_class'] = dict(per_defect)
        stats['ill_formed_by_number_of_defect_classes'] = {str(k): v for k, v in sorted(combos.items())}
    return fails


def nontrivial(c, r):
    if r is None or r == 'panic':
        return False
    if r == 'ok':
        m = O.defs_map(c)
        return len([x for x in O.reach(c, m) if x in m]) >= 2
    return not r.startswith('err MissingDefinition')


def model_zero_size(driver, cs):
    """model is_zero_size on every declared name vs the oracle's least fixed point"""
    lines, want = [], {}
    for cid, sx, c in cs:
        z = O.zero_sized(c)
        for i, name in enumerate(O.defs_map(c)):
            k = '%s#%d' % (cid, i)
            lines.append(case_line(k, 'sch-zerosize', '-', '-', sx, O.hexname(name)))
            want[k] = (name in z, sx, name)
    res = run_cases(driver, lines)
    out = []
    classes = Counter()
    for k, (isz, sx, name) in want.items():
        r = res.get(k)
        classes[r if r is not None and not r.startswith('err Missing') else 'err MissingDefinition'] += 1
        if r is None or r in ('fuel', 'panic') or r.startswith('driver-error') or (r == 'ok 1') != isz:
            out.append({'what': 'model is_zero_size vs oracle least fixed point on %s, declaration %r: model %s, oracle %s'
                                % (sx, name, r, isz), 'container': sx})
    return out, {'model_zero_size_evaluations': len(lines), 'model_zero_size_classes': dict(classes)}


def run(tier, seed, t0):
    coq = coq_side(PID)
    driver = ensure_driver()
    exes, disagreements = ensure_harnesses(['std-strict'])
    exe = exes.get('std-strict')
    stats = {'evaluations': 0, 'configs': list(exes), 'proof_skipped': bool(coq.get('skipped'))}
    failures = []
    if exe is not None:
        cs, lens, names, comp = corpus(seed, tier, exe)
        impl = run_op(exe, OP, cs)
        model = run_op(driver, OP, cs)
        disagreements += compare(OP, cs, impl, model, 'validate')
        failures = oracle(cs, impl, stats)
        more, mstats = model_zero_size(driver, cs)
        disagreements += more
        classes = Counter(O.result_class(impl.get(cid)) for cid, _, _ in cs)
        distinct = set(sx for cid, sx, c in cs if nontrivial(c, impl.get(cid)))
        by_class = {}
        for cid, sx, _ in cs[::97] + cs[-70:]:
            by_class.setdefault(O.result_class(impl.get(cid)), []).append({'container': sx, 'result': impl.get(cid), 'rust_type': names.get(cid)})
        stats.update({
            'evaluations': len(cs),
            'distinct_containers': len(set(sx for _, sx, _ in cs)),
            'distinct_nontrivial': len(distinct),
            'rule': ('distinct container S-expressions on which the implementation returns `ok` with at least two reachable defined '
                     'declarations, or an error other than MissingDefinition (a width, range or zero-size rule fired); '
                     '`ok` on a single declaration, MissingDefinition and panic count as trivial'),
            'result_classes': dict(classes),
            'corpus': comp,
            'rust_type_verdicts': [{'type': names[cid], 'validate': impl.get(cid)} for cid in sorted(names, key=lambda x: int(x[2:]))][:80],
            'samples': [x for v in by_class.values() for x in ([v[0], v[-1]] if len(v) > 1 else v)],
            'oracle_evaluations': len(cs),
            'traces_validated_against_impl': len(cs),
        })
        stats.update(mstats)

    if exe is not None:
        dst, dfail = deep_chain(exe, 'validate', PID)
        stats['deep_chain'] = dst
        failures += dfail

    def search():
        found = []
        if exe is None:
            return found
        for s2 in range(1, 4):
            cs2, _, _, _ = corpus(seed * 1000 + s2, 'search', None)
            found += oracle(cs2, run_op(exe, OP, cs2))
            if found:
                break
        return found

    return conclude(PID, tier, seed, t0, coq, stats, disagreements, failures, search,
                    level_note='theorem about the Gallina model; tie to the Rust code by differential execution on this run'
                    + ('; PROOF SIDE SKIPPED (SCHEMA_SKIP_COQ=1)' if coq.get('skipped') else ''))


def replay(path):
    import json
    d = json.load(open(path))
    f = d.get('failure')
    print(json.dumps(f or d.get('broken'), indent=1))
    if not f or 'container' not in f:
        return 0
    exes, bad = ensure_harnesses(['std-strict'])
    if bad:
        print(bad)
        return 3
    c = O.parse_container(f['container'])
    r = run_op(exes['std-strict'], OP, [('replay', f['container'], c)]).get('replay')
    v = O.check_c10(c, r)
    print('now: %s -> %s; oracle: %s' % (f['container'], r, v or 'holds'))
    return 1 if v else 0
