"""C13  std and no_std builds are observably equivalent.

Proof side: Properties/C13.v (C13_io, C13_codec).
Correspondence:
 (a) the same seeded workload (encode catalogue values common to both builds; decode the
     encodings, their truncations and corruptions through deserialize / try_from_slice; read
     them through scheduled readers; write them through scheduled and fixed writers) runs in
     the std build and in the nostd+hashbrown build; the two transcripts must be identical,
     and equal to the model's;
 (b) sequences of read / read_exact / write / write_all / by_ref on a slice reader, a fixed
     buffer and a Vec run against the real std::io and against borsh::io side by side in one
     binary (in the nostd build borsh::io is nostd_io.rs), and against the two models.
Property oracle (implementation only): transcript(std build) == transcript(nostd build);
masked(std::io run) == masked(shim run), where the mask removes what std leaves unspecified
(reads after a failed read_exact)."""
from iolib import *  # noqa
import hashlib
import re


def tagged(x, n=80):
    """Readable but unique: shortened text plus a digest of the whole."""
    x = str(x)
    return x if len(x) <= n else '%s#%s' % (short(x, n), hashlib.md5(x.encode()).hexdigest()[:10])

PID = 'C13'


# ------------------------------------------------------------------ (a) workload across builds
def _workload(exe, cfg, seed, tier):
    """Returns (transcript {key: result}, model_lines [(key, line)], counts)."""
    rng = random.Random(seed * 31 + 5)
    per = 2 if tier == 'quick' else 5
    trans = {}
    mlines = []
    strict = '1' if CONFIGS[cfg][1] else '0'
    shim = '1' if is_shim(cfg) else '0'
    # encode (types common to both builds only, whatever the cfg, so that both builds see the same cases)
    enc_cases = []
    r0 = random.Random(seed * 104729 + 17)
    for tid, t in catmod.catalogue_types():
        if needs_std(t):
            continue
        for j in range(per):
            enc_cases.append(('e%d_%d' % (tid, j), tid, t, show(gen_val(t, r0, 5))))
    res = run_cases(exe, [case_line(cid, 'enc', tid, sexp(t), v) for cid, tid, t, v in enc_cases])
    lines = []
    meta = {}
    for cid, tid, t, v in enc_cases:
        r = res.get(cid)
        if r is None or '\t' not in r:
            trans['enc ' + cid] = r
            continue
        repr_, rr = r.split('\t', 1)
        key = 'enc %s %s' % (rust(t), tagged(v))
        trans[key] = rr
        mlines.append((key, case_line('K', 'enc', tid, sexp(t), repr_)))
        b = ok_hex(rr)
        if b is None or not can_de(t):
            continue
        L = len(b) // 2
        inputs = [b + rng.choice(('', 'aa', '00ff01'))]
        if L:
            inputs.append(b[:2 * rng.randrange(L)])
            if not unbounded_on_hostile_input(t):
                bb = bytearray.fromhex(b)
                p = rng.randrange(L)
                bb[p] = rng.choice((0, 1, 2, 255, bb[p] ^ 0x80))
                inputs.append(bb.hex())
        for i, inp in enumerate(inputs):
            for mode in ('deserialize', 'try_from_slice'):
                k = 'dec %s %s %s' % (rust(t), mode, tagged(hx(inp)))
                cid2 = '%s_%d_%s' % (cid, i, mode[0])
                lines.append(case_line(cid2, 'dec', tid, sexp(t), mode, hx(inp)))
                meta[cid2] = k
                if mode == 'deserialize':
                    mlines.append((k, case_line('K', 'dec', tid, sexp(t), strict, hx(inp))))
            its = rand_rsched(rng, len(inp) // 2 + 1, 0.3)
            if rng.random() < 0.4:       # a hard failure of any kind, with or without a message, somewhere in the schedule
                pos = rng.randrange(len(its) + 1)
                its = its[:pos] + [fail_item(rng.choice(USER_KINDS + (14, 15, 16)), rand_msg(rng))] + its[pos:]
            sch = sched_s(its)
            entry = rng.choice(('deserialize_reader', 'try_from_reader', 'from_reader'))
            cid3 = '%s_%d_r' % (cid, i)
            k = 'decr %s %s %s %s' % (rust(t), entry, tagged(hx(inp)), tagged(sch, 60))
            lines.append(case_line(cid3, 'decr', tid, sexp(t), entry, hx(inp), sch))
            meta[cid3] = k
            mlines.append((k, case_line('K', 'decr', tid, sexp(t), strict, shim, entry, hx(inp), sch)))
        for w in ('b:%d' % rng.randrange(L + 2), 's:' + sched_s(rand_wsched(rng, L + 1, 0.3) + ([fail_item(rng.choice(USER_KINDS + (14, 15, 16)), rand_msg(rng))] if rng.random() < 0.5 else []))):
            cid4 = '%s_w%s' % (cid, w[0])
            k = 'encw %s %s %s' % (rust(t), tagged(v), tagged(w, 60))
            lines.append(case_line(cid4, 'encw', tid, sexp(t), v, w))
            meta[cid4] = (k, tid, t, w)
    res2 = run_cases(exe, lines)
    for cid, k in meta.items():
        r = res2.get(cid)
        if isinstance(k, tuple):
            k, tid, t, w = k
            if r is not None and '\t' in r:
                repr_, r = r.split('\t', 1)
                mlines.append((k, case_line('K', 'encw', tid, sexp(t), shim, repr_, w)))
        trans[k] = r
    return trans, mlines


def workload(exe, cfg, seed, tier):
    """the transcript with every error message followed by a digest of its raw text (HARNESS_RAW_MSG): the two builds
    are compared message for message, the model (which knows message classes) after stripping the digests"""
    ENV['HARNESS_RAW_MSG'] = '1'
    try:
        return _workload(exe, cfg, seed, tier)
    finally:
        ENV.pop('HARNESS_RAW_MSG', None)


RAW = re.compile(r'#[0-9a-f]{8}')


def model_transcript(driver, mlines):
    lines = []
    keys = {}
    for i, (k, l) in enumerate(mlines):
        cid = 'm%d' % i
        keys[cid] = k
        lines.append(cid + l[1:])
    res = run_cases(driver, lines)
    return {keys[cid]: r for cid, r in res.items() if cid in keys}


def norm_decr(r):
    """model prints pulled=? when the reader state is not defined; drop the count there."""
    return r


def compare_with_model(trans, model, cfg, disagreements):
    n = 0
    for k, m in model.items():
        h = trans.get(k)
        if h is not None:
            h = RAW.sub('', h)
        n += 1
        if k.startswith('decr '):
            hr, hp = split_res(h)
            mr, mp = split_res(m)
            if hr != mr or (mp is not None and mp != hp):
                disagreements.append({'what': '%s: impl %s, model %s [%s]' % (k, short(h, 120), short(m, 120), cfg)})
        elif k.startswith('dec '):
            if h != m:
                disagreements.append({'what': '%s: impl %s, model %s [%s]' % (k, short(h, 120), short(m, 120), cfg)})
        elif h != m:
            disagreements.append({'what': '%s: impl %s, model %s [%s]' % (k, short(h, 120), short(m, 120), cfg)})
    return n


# ------------------------------------------------------------------ (b) op sequences
ALPHABET = ['r0', 'r2', 'r9', 'x0', 'x2', 'x5', 'br1', 'bx3', 'ws:0102', 'ws:-', 'as:030405', 'as:06', 'bas:0708', 'wv:09', 'av:0a0b', 'bbwv:0c', 'bbx1']


def op_cases(rng, tier):
    cases = []
    worlds = [('0a0b0c0d', 4), ('', 0), ('0102030405060708', 3)]
    import itertools
    depth = 3
    for inp, cap in worlds[:1]:
        for seq in itertools.product(ALPHABET, repeat=depth):
            cases.append((inp, cap, list(seq)))
    for inp, cap in worlds[1:]:
        for seq in itertools.product(ALPHABET, repeat=2):
            cases.append((inp, cap, list(seq)))
    for _ in range(3000 if tier == 'quick' else 20000):
        n = rng.randrange(0, 12)
        cap = rng.randrange(0, 10)
        inp = bytes(rng.randrange(256) for _ in range(n)).hex()
        cases.append((inp, cap, rand_ops(rng, rng.randrange(1, 14), n, cap)))
    return cases


def ext_op_cases(rng, tier):
    """sequences that also use `flush` and `write_fmt` (formatted output with two arguments): outside the model's op
    language (coq/Io.v has five ops), compared between real std::io and borsh::io only"""
    import itertools
    texts = ['', '61', '68656c6c6f', 'c3a9e282ac', '30' * 9]
    ext = ['fs', 'fv', 'bfs'] + ['ms:' + t for t in texts] + ['mv:' + t for t in texts[:3]] + ['bms:6869', 'bbmv:6869']
    base = ['r2', 'x2', 'ws:0102', 'as:030405', 'as:06', 'wv:09', 'av:0a0b']
    cases = []
    for cap in (0, 1, 3, 7):
        for seq in itertools.product(ext, repeat=2):
            cases.append(('0a0b0c', cap, list(seq)))
        for a in ext:
            for b in base:
                cases.append(('0a0b0c', cap, [a, b]))
                cases.append(('0a0b0c', cap, [b, a, b]))
    for _ in range(1500 if tier == 'quick' else 10000):
        n, cap = rng.randrange(0, 8), rng.randrange(0, 12)
        ops = rand_ops(rng, rng.randrange(1, 9), n, cap)
        for _ in range(rng.randrange(1, 4)):
            ops.insert(rng.randrange(len(ops) + 1), 'b' * rng.choice((0, 0, 1, 2)) + rng.choice(ext).lstrip('b'))
        cases.append((bytes(rng.randrange(256) for _ in range(n)).hex(), cap, ops))
    return cases


def run_ops_stage(cfg, exe, driver, cases, stats, disagreements, failures, oracle_only=False):
    kind = run_cases(exe, [case_line('k', 'iokind', '-', '-')]).get('k')
    want = 'shim' if is_shim(cfg) else 'std'
    if kind != want:
        disagreements.append({'what': 'borsh::io in the %s build is %s, expected %s' % (cfg, kind, want)})
    hl, dl = [], []
    for i, (inp, cap, ops) in enumerate(cases):
        o = sched_s(ops)
        hl.append(case_line('s%d' % i, 'ioseq', '-', '-', 'std', hx(inp), cap, o))
        hl.append(case_line('f%d' % i, 'ioseq', '-', '-', 'facade', hx(inp), cap, o))
        dl.append(case_line('s%d' % i, 'ioseq', '-', '-', 'std', hx(inp), cap, o))
        dl.append(case_line('f%d' % i, 'ioseq', '-', '-', want, hx(inp), cap, o))
    impl = run_cases(exe, hl)
    model = {} if oracle_only else run_cases(driver, dl)
    poisoned = 0
    for i, (inp, cap, ops) in enumerate(cases):
        s, f = impl.get('s%d' % i), impl.get('f%d' % i)
        if s is None or f is None or 'harness-error' in s or s.startswith('panic') or f.startswith('panic'):
            failures.append({'class': 'io-op-sequence', 'key': '%s %d %s' % (inp, cap, sched_s(ops)),
                             'what': 'op sequence %s on input %s cap %d: std::io -> %s, borsh::io -> %s [%s]' % (sched_s(ops), hx(inp), cap, s, f, cfg)})
            continue
        ms, mf = mask_ops(ops, s), mask_ops(ops, f)
        poisoned += ' rd=?' in ms
        if ms != mf:
            failures.append({'class': 'io-op-sequence', 'key': '%s %d %s' % (inp, cap, sched_s(ops)), 'cfg': cfg,
                             'what': 'borsh::io differs from std::io where std specifies the outcome: ops %s input %s cap %d: std %s, borsh::io (%s) %s' % (
                                 sched_s(ops), hx(inp), cap, ms, kind, mf),
                             'replay_cmd': "printf '%s\\n%s\\n' | %s" % (hl[2 * i], hl[2 * i + 1], exe)})
        if oracle_only:
            continue
        for tag, got in (('s', ms), ('f', mf)):
            m = model.get('%s%d' % (tag, i))
            if m != got:
                disagreements.append({'what': 'ioseq %s input %s cap %d ops %s: impl %s, model %s [%s]' % (
                    'std::io' if tag == 's' else 'borsh::io(' + str(kind) + ')', hx(inp), cap, sched_s(ops), got, m, cfg)})
    stats['evaluations'] += 2 * len(cases)
    stats['op_sequences'][cfg] = {'sequences': len(cases), 'with_failed_read_exact': poisoned, 'borsh_io_is': kind}
    if 'op_samples' not in stats:
        stats['op_samples'] = [{'ops': sched_s(c[2]), 'input': hx(c[0]), 'cap': c[1], 'std': impl.get('s%d' % i), 'borsh_io': impl.get('f%d' % i)}
                               for i, c in list(enumerate(cases))[::max(1, len(cases) // 8)]]


def run(tier, seed, t0):
    coq = coq_property(PID)
    driver = driver_big()
    pairs = [('std-strict', 'nostd-strict')] if tier == 'quick' else [('std-strict', 'nostd-strict'), ('std-loose', 'nostd-loose')]
    cfgs = [c for p in pairs for c in p]
    exes, disagreements = ensure_harnesses(cfgs)
    failures = []
    stats = {'evaluations': 0, 'configs': list(exes), 'workload': {}, 'op_sequences': {}, 'result_classes': {}, 'samples': [], 'distinct_nontrivial': 0}
    classes = Counter()
    for a, b in pairs:
        if a not in exes or b not in exes:
            continue
        ta, ma = workload(exes[a], a, seed, tier)
        tb, mb = workload(exes[b], b, seed, tier)
        keys = sorted(set(ta) | set(tb))
        diff = 0
        for k in keys:
            if ta.get(k) != tb.get(k):
                diff += 1
                failures.append({'class': 'build-difference', 'key': k,
                                 'what': 'std and nostd builds differ on %s: %s -> %s, %s -> %s' % (k, a, short(ta.get(k), 160), b, short(tb.get(k), 160))})
            classes[res_class(split_res(ta.get(k))[0] if ta.get(k) else None)] += 1
        na = compare_with_model(ta, model_transcript(driver, ma), a, disagreements)
        nb = compare_with_model(tb, model_transcript(driver, mb), b, disagreements)
        stats['workload']['%s vs %s' % (a, b)] = {'transcript_lines': len(keys), 'differing': diff, 'model_lines': na + nb,
                                                  'by_op': dict(Counter(k.split(' ')[0] for k in keys))}
        stats['evaluations'] += len(ta) + len(tb)
        stats['distinct_nontrivial'] += len(keys)
        if not stats['samples']:
            stats['samples'] = [{'case': short(k, 140), 'std': short(ta.get(k), 100), 'nostd': short(tb.get(k), 100)} for k in keys[::max(1, len(keys) // 10)]]
    stats['result_classes'] = dict(classes)
    rng = random.Random(seed * 3 + 1)
    cases = op_cases(rng, tier)
    for cfg, exe in exes.items():
        run_ops_stage(cfg, exe, driver, cases, stats, disagreements, failures)
    stats['distinct_nontrivial'] += len(cases)
    ext = ext_op_cases(rng, tier)
    stats['ext_op_sequences'] = {}
    for cfg, exe in exes.items():
        st2 = {'evaluations': 0, 'op_sequences': {}, 'op_samples': []}
        run_ops_stage(cfg, exe, driver, ext, st2, [], failures, oracle_only=True)
        stats['evaluations'] += st2['evaluations']
        stats['ext_op_sequences'][cfg] = dict(st2['op_sequences'].get(cfg, {}), ops='the five ops + flush + write_fmt; std::io vs borsh::io side by side, no model')
    stats['rule'] = ('(a) one seeded workload over the catalogue types available without std: enc, dec (deserialize, try_from_slice) of encodings + '
                     'tails, truncations, corruptions, scheduled readers and writers; transcript equality between the std and nostd+hashbrown builds '
                     'and with the model; (b) all op sequences of length 3 over a %d-op alphabet on one world, length 2 on two more, and random '
                     'sequences up to 13 ops, each run against std::io and borsh::io in the same binary' % len(ALPHABET))
    stats['traces_validated_against_impl'] = stats['evaluations']
    if not any(v.get('borsh_io_is') == 'shim' for v in stats['op_sequences'].values()):
        disagreements.append({'what': 'no build exercised nostd_io.rs'})

    def search():
        found = []
        r2 = random.Random(seed * 1000 + 7)
        more = op_cases(r2, 'thorough')
        for cfg, exe in exes.items():
            st2 = {'evaluations': 0, 'op_sequences': {}, 'op_samples': []}
            run_ops_stage(cfg, exe, driver, more, st2, [], found, oracle_only=True)
            if found:
                return found
        for a, b in pairs:
            if a in exes and b in exes:
                ta, _ = workload(exes[a], a, seed * 1000 + 3, 'thorough')
                tb, _ = workload(exes[b], b, seed * 1000 + 3, 'thorough')
                for k in sorted(set(ta) | set(tb)):
                    if ta.get(k) != tb.get(k):
                        found.append({'class': 'build-difference', 'key': k,
                                      'what': 'std and nostd builds differ on %s: %s vs %s' % (k, short(ta.get(k), 160), short(tb.get(k), 160))})
                if found:
                    return found
        return found

    return conclude(PID, tier, seed, t0, coq, stats, disagreements, failures, search,
                    level_note='theorems about the Gallina models of nostd_io.rs and of the std::io contract; the build-level claim (hashbrown vs std collections, alloc vs std) is tied only by running the same workload in both builds',
                    extra_assumptions=['std::io behaviour is represented by its documented contract (default read_exact / write_all over read / write); the real std::io is exercised side by side on every run'])


def replay(path):
    import json
    d = json.load(open(path))
    print(json.dumps(d.get('failure') or d.get('broken'), indent=1))
    return 0
