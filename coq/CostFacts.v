(** Facts about the cost monad and its loops, and the erasure lemma: under the
    hypothesis on [size_of] the instrumented decoder returns exactly the result of
    [dec slice_reader]. *)
From Coq Require Import String.
From Coq Require Import List NArith Bool Lia.
From Borsh Require Import Bytes BytesFacts Result Loop LoopFacts Ty TyInd Ser De Cost.
Import ListNotations.
Local Open Scope N_scope.

(** * The monad *)
Lemma mbind_assoc {A B C} (m : M A) (f : A -> M B) (g : B -> M C) :
  mbind (mbind m f) g = mbind m (fun x => mbind (f x) g).
Proof.
  destruct m as [tr [a|k e|w]]; unfold mbind; cbn [fst snd]; try reflexivity.
  destruct (f a) as [tr1 [b|k e|w]]; cbn [fst snd]; try reflexivity.
  now rewrite app_assoc.
Qed.

Lemma mbind_ext {A B} (m : M A) (f g : A -> M B) : (forall x, f x = g x) -> mbind m f = mbind m g.
Proof. intros H. destruct m as [tr [a|k e|w]]; unfold mbind; cbn [fst snd]; try reflexivity. now rewrite H. Qed.

Lemma mbind_ret_l {A B} (a : A) (f : A -> M B) : mbind (mret a) f = f a.
Proof. unfold mbind, mret; cbn [fst snd app]. now destruct (f a). Qed.

Lemma mbind_ret_r {A} (m : M A) : mbind m mret = m.
Proof. destruct m as [tr [a|k e|w]]; unfold mbind, mret; cbn [fst snd]; try reflexivity. now rewrite app_nil_r. Qed.

Lemma snd_mbind {A B} (m : M A) (f : A -> M B) : snd (mbind m f) = bind (snd m) (fun a => snd (f a)).
Proof. destruct m as [tr [a|k e|w]]; reflexivity. Qed.

Lemma snd_mlift {A} (r : result A) : snd (mlift r) = r.
Proof. reflexivity. Qed.

(** the three shapes of a bind *)
Lemma mbind_ok {A B} (m : M A) (f : A -> M B) a : snd m = Ok a -> mbind m f = (fst m ++ fst (f a), snd (f a)).
Proof. intros H. unfold mbind. now rewrite H. Qed.
Lemma mbind_err {A B} (m : M A) (f : A -> M B) k e : snd m = Err k e -> mbind m f = (fst m, Err k e).
Proof. intros H. unfold mbind. now rewrite H. Qed.
Lemma mbind_panic {A B} (m : M A) (f : A -> M B) w : snd m = Panic w -> mbind m f = (fst m, Panic w).
Proof. intros H. unfold mbind. now rewrite H. Qed.

(** * [citerP] / [citerN]: one more iteration in front *)
Lemma citerP_comm {S} (f : S -> M S) p s :
  mbind (citerP p f s) f = mbind (f s) (citerP p f).
Proof.
  revert s; induction p as [p IH|p IH|]; intros s; cbn [citerP].
  - rewrite !mbind_assoc. apply mbind_ext; intros s0.
    rewrite mbind_assoc.
    transitivity (mbind (citerP p f s0) (fun s' => mbind (f s') (citerP p f))).
    { apply mbind_ext; intros s'. apply IH. }
    rewrite <- mbind_assoc, IH, mbind_assoc. reflexivity.
  - rewrite mbind_assoc.
    transitivity (mbind (citerP p f s) (fun s' => mbind (f s') (citerP p f))).
    { apply mbind_ext; intros s'. apply IH. }
    rewrite <- mbind_assoc, IH, !mbind_assoc. reflexivity.
  - reflexivity.
Qed.

Lemma citerP_succ {S} (f : S -> M S) p s :
  citerP (Pos.succ p) f s = mbind (f s) (citerP p f).
Proof.
  revert s; induction p as [p IH|p IH|]; intros s; cbn [Pos.succ citerP].
  - rewrite IH. rewrite mbind_assoc. apply mbind_ext; intros s0.
    transitivity (mbind (citerP p f s0) (fun s' => mbind (f s') (citerP p f))).
    + apply mbind_ext; intros s1. apply IH.
    + rewrite <- mbind_assoc, citerP_comm, mbind_assoc. reflexivity.
  - reflexivity.
  - reflexivity.
Qed.

Lemma citerN_0 {S} (f : S -> M S) s : citerN 0 f s = mret s.
Proof. reflexivity. Qed.

Lemma citerN_succ {S} (f : S -> M S) n s :
  citerN (N.succ n) f s = mbind (f s) (citerN n f).
Proof.
  destruct n as [|p]; cbn [N.succ citerN].
  - cbn [citerP]. symmetry. apply mbind_ret_r.
  - apply citerP_succ.
Qed.

(** * Erasure of the loops *)
Lemma rmap_bind {A B C} (pi : B -> C) (r : result A) (k : A -> result B) :
  rmap pi (bind r k) = bind r (fun a => rmap pi (k a)).
Proof. destruct r; reflexivity. Qed.
Lemma bind_rmap {A B C} (pi : A -> B) (r : result A) (h : B -> result C) :
  bind (rmap pi r) h = bind r (fun a => h (pi a)).
Proof. destruct r; reflexivity. Qed.

Lemma citerP_erase {S T} (pi : S -> T) (f : S -> M S) (g : T -> result T) :
  (forall s, rmap pi (snd (f s)) = g (pi s)) ->
  forall p s, rmap pi (snd (citerP p f s)) = iterP p g (pi s).
Proof.
  intros H. induction p as [p IH|p IH|]; intros s; cbn [citerP iterP].
  - rewrite snd_mbind, rmap_bind, <- H, bind_rmap. apply bind_ext; intros s0.
    rewrite snd_mbind, rmap_bind, <- IH, bind_rmap. apply bind_ext; intros s1. apply IH.
  - rewrite snd_mbind, rmap_bind, <- IH, bind_rmap. apply bind_ext; intros s1. apply IH.
  - apply H.
Qed.

Lemma citerN_erase {S T} (pi : S -> T) (f : S -> M S) (g : T -> result T) :
  (forall s, rmap pi (snd (f s)) = g (pi s)) ->
  forall n s, rmap pi (snd (citerN n f s)) = iterN n g (pi s).
Proof.
  intros H [|p] s; cbn [citerN iterN]; [reflexivity|]. now apply citerP_erase.
Qed.

Lemma cloopP_erase {S A} (f : S -> M (S + A)) p s :
  snd (cloopP p f s) = loopP p (fun s => snd (f s)) s.
Proof.
  revert s. induction p as [p IH|p IH|]; intros s; cbn [cloopP loopP].
  - rewrite snd_mbind. destruct (snd (f s)) as [[s0|a]|k e|w]; cbn [bind]; try reflexivity.
    rewrite snd_mbind, IH. destruct (loopP p _ s0) as [[s1|a]|k e|w]; cbn [bind]; try reflexivity.
    apply IH.
  - rewrite snd_mbind, IH. destruct (loopP p _ s) as [[s1|a]|k e|w]; cbn [bind]; try reflexivity.
    apply IH.
  - reflexivity.
Qed.

Lemma cloop_fuel_erase {S A} (f : S -> M (S + A)) fuel s :
  snd (cloop_fuel fuel f s) = loop_fuel fuel (fun s => snd (f s)) s.
Proof.
  unfold cloop_fuel, loop_fuel. rewrite snd_mbind, cloopP_erase.
  destruct (loopP _ _ s) as [[s1|a]|k e|w]; reflexivity.
Qed.

(** * Erasure of the decoder *)
Lemma cbulk_erase n s : snd (cbulk n s) = bulk slice_reader n s.
Proof.
  unfold cbulk, bulk. rewrite snd_mbind. cbn [emit snd bind]. rewrite cloop_fuel_erase. reflexivity.
Qed.

Lemma crepeat_erase push (f : cparser val) (g : bytes -> result (val * bytes)) cap0 n s :
  (forall s, snd (f s) = g s) ->
  snd (crepeat push f cap0 n s) = repeat_dec g n s.
Proof.
  intros H. unfold crepeat, repeat_dec. rewrite snd_mbind.
  pose (pi := fun st : N * N * list val * bytes => (snd (fst st), snd st)).
  assert (E : rmap pi (snd (citerN n (cloop_step push f) (cap0, 0, [], s))) =
              iterN n (fun '(acc, s) => '(v, s') <- g s ;; Ok (v :: acc, s')) ([], s)).
  { apply (citerN_erase pi). intros [[[cap cnt] acc] s0]. unfold cloop_step, pi. cbn [fst snd].
    rewrite snd_mbind. cbn [emit snd bind]. rewrite snd_mbind, H.
    destruct (g s0) as [[v s1]|k e|w]; reflexivity. }
  rewrite <- E. unfold rmap.
  destruct (snd (citerN n _ _)) as [[[[cap cnt] acc] s1]|k e|w]; try reflexivity.
  unfold pi. cbn [bind mret fst snd]. now rewrite <- rev_alt.
Qed.

Lemma cautious_ok e n : 0 < e -> exists c0, cautious e n = Ok c0 /\ 1 <= c0.
Proof.
  intros H0. unfold cautious.
  destruct (N.eqb_spec e 0); [lia|]. eexists. split; [reflexivity|lia].
Qed.

Lemma cdec_vec_erase e u8 (f : cparser val) g s :
  (u8 = false -> 0 < e) ->
  (forall s, snd (f s) = g s) ->
  snd (cdec_vec e u8 f s) = dec_vec slice_reader u8 g s.
Proof.
  intros He H. unfold cdec_vec, dec_vec. rewrite snd_mbind, snd_mlift.
  destruct (read_u32 slice_reader s) as [[n s1]|k m|w]; cbn [bind]; try reflexivity.
  destruct (n =? 0); [reflexivity|].
  destruct u8.
  - rewrite snd_mbind, cbulk_erase. destruct (bulk slice_reader n s1) as [[b s2]|k m|w]; reflexivity.
  - pose proof (He eq_refl) as H0.
    unfold cpush_loop. destruct (cautious_ok e n H0) as (c0 & -> & _).
    rewrite snd_mbind, snd_mlift. cbn [bind]. rewrite snd_mbind. cbn [emit snd bind].
    now apply crepeat_erase.
Qed.

Lemma mem_zst_key k t' : mem_zst (key_ty k t') = false -> mem_zst t' = false.
Proof.
  unfold key_ty. destruct (is_map k); [|auto].
  destruct t' as [| | | | | |pk ts| |]; auto.
  destruct ts as [|kt r]; auto. intros H. cbn [mem_zst].
  destruct pk as [|[]| | | |]; cbn [forallb]; try reflexivity; now rewrite H.
Qed.

Lemma cdec_fields_erase sz c ts :
  Forall (fun t => forall s, snd (cdec sz c t s) = dec slice_reader c t s) ts ->
  forall sk s, snd (cdec_fields (fun t' s => cdec sz c t' s) ts sk s) =
               dec_fields (fun t' s => dec slice_reader c t' s) ts sk s.
Proof.
  induction 1 as [|t' tr Ht' Htr IH]; intros sk s; cbn [cdec_fields dec_fields]; [reflexivity|].
  cbv zeta. rewrite snd_mbind.
  set (sb := match sk with b :: _ => b | [] => false end).
  set (sr := match sk with _ :: r => r | [] => [] end).
  clearbody sb sr. destruct sb.
  - cbn [mret snd bind]. rewrite snd_mbind, IH. destruct (dec_fields _ tr _ s) as [[r s2]|k m|w]; reflexivity.
  - rewrite Ht'. destruct (dec slice_reader c t' s) as [[v s1]|k m|w]; cbn [bind]; try reflexivity.
    rewrite snd_mbind, IH. destruct (dec_fields _ tr _ s1) as [[r s2]|k m|w]; reflexivity.
Qed.

Theorem cdec_erase sz c : sz_ok sz -> forall t s, snd (cdec sz c t s) = dec slice_reader c t s.
Proof.
  intros Hsz. induction t as [p|u|k|k|k t' IH|n t' IH|k ts IH|k vs IH|w t' IH] using ty_ind'; intros s.
  - reflexivity.
  - reflexivity.
  - reflexivity.
  - (* text *)
    assert (Hvec : snd ('(l, s') <<- cdec_vec 1 true (fun s => mlift (Panic P_ILLTYPED)) s ;;
                        v <<- mlift (text_post k l) ;; _ <<- emits (conv_text k (len l)) ;; mret (v, s')) =
                   ('(l, s') <- dec_vec slice_reader true (fun s => Panic P_ILLTYPED) s ;;
                    v <- text_post k l ;; Ok (v, s'))).
    { rewrite snd_mbind. rewrite (cdec_vec_erase 1 true _ (fun _ => Panic P_ILLTYPED)); [|discriminate|reflexivity].
      destruct (dec_vec _ _ _ s) as [[l s']|? ?|?]; cbn [bind]; try reflexivity.
      rewrite snd_mbind, snd_mlift. destruct (text_post k l); reflexivity. }
    destruct k; cbn [cdec dec]; try exact Hvec.
    rewrite snd_mbind, snd_mlift.
    destruct (read_u32 slice_reader s) as [[n s1]|? ?|?]; cbn [bind]; try reflexivity.
    rewrite snd_mbind. unfold cpush_loop at 1.
    destruct (cautious_ok 1 n) as (c0 & -> & _); [lia|].
    rewrite snd_mbind, snd_mlift. cbn [bind]. rewrite snd_mbind. cbn [emit snd bind].
    rewrite (crepeat_erase _ _ (fun s => '(b, s') <- read_u8 slice_reader s ;; Ok (VN b, s'))) by reflexivity.
    destruct (repeat_dec _ n s1) as [[l s2]|? ?|?]; reflexivity.
  - (* seq *)
    cbn [cdec dec]. destruct (mem_zst (key_ty k t')) eqn:Ez; [reflexivity|].
    rewrite snd_mbind.
    rewrite (cdec_vec_erase (sz t') (is_u8 t') _ (dec slice_reader c t')).
    + destruct (dec_vec _ _ _ s) as [[l s']|? ?|?]; cbn [bind]; try reflexivity.
      rewrite snd_mbind, snd_mlift. destruct (post c k _ l); reflexivity.
    + intros _. apply Hsz. now apply (mem_zst_key k).
    + exact IH.
  - (* array *)
    cbn [cdec dec]. destruct (is_u8 t'); [reflexivity|].
    rewrite snd_mbind, (crepeat_erase _ _ (dec slice_reader c t')) by exact IH.
    destruct (repeat_dec _ n s) as [[l s']|? ?|?]; reflexivity.
  - (* prod *)
    cbn [cdec dec]. rewrite snd_mbind, cdec_fields_erase by exact IH.
    destruct (dec_fields _ ts _ s) as [[l s']|? ?|?]; reflexivity.
  - (* sum *)
    cbn [cdec dec]. rewrite snd_mbind, snd_mlift.
    destruct (read_u8 slice_reader s) as [[b s1]|? ?|?]; cbn [bind]; try reflexivity.
    destruct (find_tag (sum_tags k) b 0) as [i|]; [|reflexivity].
    rewrite snd_mbind.
    assert (E : snd (nth_or (fun t' => cdec sz c t' s1) (mlift (Err InvalidData (bad_tag k b))) vs (N.to_nat i)) =
                nth_or (fun t' => dec slice_reader c t' s1) (Err InvalidData (bad_tag k b)) vs (N.to_nat i)).
    { generalize (N.to_nat i). induction IH as [|x r Hx Hr IHr]; intros [|m]; cbn [nth_or]; try reflexivity.
      - apply Hx.
      - apply IHr. }
    rewrite E. destruct (nth_or (fun t' => dec slice_reader c t' s1) _ vs _) as [[v s2]|? ?|?]; reflexivity.
  - (* wrap *)
    cbn [cdec dec]. rewrite snd_mbind, IH.
    destruct (dec slice_reader c t' s) as [[v s']|? ?|?]; reflexivity.
Qed.
