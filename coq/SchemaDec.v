(** A decoder driven ONLY by a schema container, and the structured value a typed value
    erases to.  Definitions only.

    [sdec c d fuel bs] reads one value described by declaration [d] of container [c] from
    [bs].  It uses nothing but the container: primitive widths, length width and range,
    tag width, discriminants, field and variant names.  What it cannot decode from the schema
    alone is refused ([None]): an undefined declaration, an untagged sequence that is not
    fixed-size, an untagged enum, a length outside the declared range, a tag that is no
    variant's discriminant.  [fuel] bounds the nesting depth of declarations. *)
From Coq Require Import String List NArith ZArith Bool.
From Borsh Require Import Bytes Result Loop Ty Schema SchemaOf.
Import ListNotations.
Local Open Scope N_scope.

Inductive sval :=
| SPrim (bs : bytes)                                   (* the bytes of a primitive *)
| SSeq (l : list sval)                                 (* Sequence *)
| STuple (l : list sval)                               (* Tuple *)
| SNamed (fs : list (string * sval))                   (* Struct, NamedFields *)
| SUnnamed (fs : list sval)                            (* Struct, UnnamedFields *)
| SEmpty                                               (* Struct, Empty *)
| SEnum (discr : Z) (vname : string) (payload : sval). (* Enum *)

Definition sparser := bytes -> result (sval * bytes).
Definition SFAIL {A} : result A := Err InvalidData MUnexpectedLength.

(** [n] bytes *)
Definition stake (n : N) (bs : bytes) : result (bytes * bytes) :=
  match take n bs with Some (a, r) => Ok (a, r) | None => SFAIL end.

(** [n] items, one after the other (binary counter, stops at the first failure) *)
Definition srepeat (f : sparser) (n : N) (bs : bytes) : result (list sval * bytes) :=
  '(acc, s') <- iterN n (fun '(acc, s) => '(v, s') <- f s ;; Ok (v :: acc, s')) ([], bs) ;;
  Ok (rev acc, s').

Section SdecComb.
  Variable rec : string -> sparser.
  (** the members of a tuple / struct, in order *)
  Fixpoint sall (ds : list string) (bs : bytes) : result (list sval * bytes) :=
    match ds with
    | [] => Ok ([], bs)
    | d :: dr => '(v, s1) <- rec d bs ;; '(r, s2) <- sall dr s1 ;; Ok (v :: r, s2)
    end.
End SdecComb.

(** the first variant whose discriminant is the tag read *)
Fixpoint find_variant (vs : list (Z * string * string)) (tag : Z) : option (Z * string * string) :=
  match vs with
  | [] => None
  | v :: r => if Z.eqb (fst (fst v)) tag then Some v else find_variant r tag
  end.

Fixpoint sdec_r (c : container) (fuel : nat) (d : string) {struct fuel} : sparser :=
  fun bs =>
  match fuel with
  | O => Panic P_FUEL
  | S fuel =>
      match get_definition c d with
      | None => SFAIL
      | Some (Primitive n) => '(a, r) <- stake n bs ;; Ok (SPrim a, r)
      | Some (Sequence lw lo hi el) =>
          '(n, s1) <- (if lw =? 0
                       then (if lo =? hi then Ok (lo, bs) else SFAIL)
                       else '(a, r) <- stake lw bs ;;
                            let n := unle a in
                            if (lo <=? n) && (n <=? hi) then Ok (n, r) else SFAIL) ;;
          '(l, s2) <- srepeat (sdec_r c fuel el) n s1 ;;
          Ok (SSeq l, s2)
      | Some (Tuple els) => '(l, s) <- sall (sdec_r c fuel) els bs ;; Ok (STuple l, s)
      | Some (Enum tw vs) =>
          if tw =? 0 then SFAIL else
          '(a, s1) <- stake tw bs ;;
          match find_variant vs (z_of_n (unle a)) with
          | None => SFAIL
          | Some (dv, vn, vd) => '(p, s2) <- sdec_r c fuel vd s1 ;; Ok (SEnum dv vn p, s2)
          end
      | Some (Struct (NamedFields fs)) =>
          '(l, s) <- sall (sdec_r c fuel) (map snd fs) bs ;; Ok (SNamed (combine (map fst fs) l), s)
      | Some (Struct (UnnamedFields fs)) =>
          '(l, s) <- sall (sdec_r c fuel) fs bs ;; Ok (SUnnamed l, s)
      | Some (Struct EmptyFields) => Ok (SEmpty, bs)
      end
  end.

Definition sdec (c : container) (d : string) (fuel : nat) (bs : bytes) : option (sval * bytes) :=
  match sdec_r c fuel d bs with Ok x => Some x | _ => None end.

(** * The shape of a typed (logical) value *)
Definition byte_sval (v : val) : sval :=
  match v with VN n => SPrim [n2b n] | _ => SPrim [] end.
Definition bytes_sval (v : val) : sval :=
  match v with VL l => SSeq (map byte_sval l) | _ => SSeq [] end.

(** named / unnamed / empty, exactly as [mk_fields] chooses *)
Definition mk_sfields (fnames : list string) (sk : list bool) (vals : list sval) : sval :=
  let vs := keep sk vals in
  match vs with
  | [] => SEmpty
  | _ => match fnames with
         | [] => SUnnamed vs
         | _ => SNamed (combine (keep sk fnames) vs)
         end
  end.

Section EraseComb.
  Variable f : ty -> val -> sval.
  Fixpoint erase_fields (ts : list ty) (l : list val) : list sval :=
    match ts, l with
    | t :: tr, x :: r => f t x :: erase_fields tr r
    | _, _ => []
    end.
End EraseComb.

Definition sum_vname (k : sum_kind) (i : nat) : string :=
  match k with
  | KOption => nth i ["None"; "Some"] ""
  | KResult => nth i ["Ok"; "Err"] ""
  | KIpAddr | KSocketAddr => nth i ["V4"; "V6"] ""
  | KEnum _ vn _ => nth i vn ""
  end%string.

Fixpoint erase (t : ty) (v : val) {struct t} : sval :=
  match t with
  | TPrim p => match v with VN n => SPrim (le (prim_width p) n) | _ => SPrim [] end
  | TUnit (UUnit | UPhantom) => SPrim []
  | TUnit URangeFull => SEmpty
  | TRaw _ => SNamed [("octets"%string, bytes_sval v)]
  | TText _ => bytes_sval v
  | TSeq k t' =>
      match k, v with
      | SDeque, VL [VL a; VL b] => SSeq (map (erase t') (a ++ b))
      | SDeque, _ => SSeq []
      | _, VL l => SSeq (map (erase t') l)
      | _, _ => SSeq []
      end
  | TArray _ t' => match v with VL l => SSeq (map (erase t') l) | _ => SSeq [] end
  | TProd k ts =>
      let vals := match v with VL l => erase_fields (fun t' x => erase t' x) ts l | _ => [] end in
      match k with
      | PTuple => STuple vals
      | PRange r => SNamed (combine (range_fields r) vals)
      | PStruct _ fn sk | PVariant fn sk => mk_sfields fn sk vals
      | PSockV4 | PSockV6 => STuple vals
      end
  | TSum k vs =>
      match v with
      | VV i x =>
          let n := N.to_nat i in
          let payload := nth_or (fun t' => erase t' x) SEmpty vs n in
          SEnum (z_of_n (nth n (sum_tags k) 0)) (sum_vname k n)
            match k with
            | KOption => match n with O => SPrim [] | _ => payload end     (* None's declaration is "()" *)
            | KIpAddr => SUnnamed [payload]                                (* V4(Ipv4Addr) *)
            | _ => payload
            end
      | _ => SEmpty
      end
  | TWrap _ t' => erase t' v
  end.
