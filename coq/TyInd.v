(** Induction principle for [ty] with [Forall] hypotheses on the nested lists. *)
From Coq Require Import String.
From Coq Require Import List NArith.
From Borsh Require Import Bytes Result Ty.
Import ListNotations.

Section TyInd.
  Variable P : ty -> Prop.
  Hypothesis HPrim : forall p, P (TPrim p).
  Hypothesis HUnit : forall u, P (TUnit u).
  Hypothesis HRaw : forall k, P (TRaw k).
  Hypothesis HText : forall k, P (TText k).
  Hypothesis HSeq : forall k t, P t -> P (TSeq k t).
  Hypothesis HArray : forall n t, P t -> P (TArray n t).
  Hypothesis HProd : forall k ts, Forall P ts -> P (TProd k ts).
  Hypothesis HSum : forall k vs, Forall P vs -> P (TSum k vs).
  Hypothesis HWrap : forall w t, P t -> P (TWrap w t).

  Fixpoint ty_ind' (t : ty) : P t :=
    match t with
    | TPrim p => HPrim p
    | TUnit u => HUnit u
    | TRaw k => HRaw k
    | TText k => HText k
    | TSeq k t' => HSeq k t' (ty_ind' t')
    | TArray n t' => HArray n t' (ty_ind' t')
    | TProd k ts =>
        HProd k ts ((fix go (l : list ty) : Forall P l :=
                       match l with
                       | [] => Forall_nil P
                       | x :: r => Forall_cons x (ty_ind' x) (go r)
                       end) ts)
    | TSum k vs =>
        HSum k vs ((fix go (l : list ty) : Forall P l :=
                      match l with
                      | [] => Forall_nil P
                      | x :: r => Forall_cons x (ty_ind' x) (go r)
                      end) vs)
    | TWrap w t' => HWrap w t' (ty_ind' t')
    end.
End TyInd.
