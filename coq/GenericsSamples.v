(** Sample generic items used by the Examples of Properties/C06.v and Properties/C08gen.v and by
    the refutation witnesses (definitions only). *)
From Coq Require Import String List Bool.
From Borsh Require Import Item Generics.
Import ListNotations.
Local Open Scope string_scope.
Local Open Scope list_scope.

Definition plain (name : string) (t : gty) : gfield :=
  {| gf_name := name; gf_skip := false; gf_bound_ser := None; gf_bound_de := None; gf_schema_params := None; gf_ty := t |}.
Definition skipped (name : string) (t : gty) : gfield :=
  {| gf_name := name; gf_skip := true; gf_bound_ser := None; gf_bound_de := None; gf_schema_params := None; gf_ty := t |}.
Definition gstruct (name : string) (ps : list string) (w : list wpred) (fs : list gfield) : gitem :=
  {| gi_name := name; gi_params := map (fun p => GPType p None) ps; gi_where := w; gi_body := GStruct fs |}.
Definition user_pred (t : gty) (traits : list string) : wpred :=
  WUser t (fold_right (fun tr r => BTrait false (SCons tr ANone SNil) r) BNil traits).

(** rustdoc, "Bounds": [struct A<U, V> { x: U, y: V }] and the same with [#[borsh(skip)] y: V] *)
Definition doc_a : gitem := gstruct "A" ["U"; "V"] [] [plain "x" (GParam "U"); plain "y" (GParam "V")].
Definition doc_a_skip : gitem := gstruct "A" ["U"; "V"] [] [plain "x" (GParam "U"); skipped "y" (GParam "V")].

(** borsh_deserialize.md: [struct A<K, V, U>(#[borsh(skip, bound(deserialize = ""))] HashMap<K, V>, U);] *)
Definition doc_hashmap_skip : gitem :=
  gstruct "A" ["K"; "V"; "U"] []
    [ {| gf_name := "0"; gf_skip := true; gf_bound_ser := None; gf_bound_de := Some []; gf_schema_params := None;
         gf_ty := GApp "HashMap" [GParam "K"; GParam "V"] |};
      plain "1" (GParam "U") ].

(** borsh_serialize.md: [struct A<T, U> { a: String, #[borsh(bound(serialize = "T: BorshSerialize + Ord, U: BorshSerialize"))] b: HashMap<T, U> }] *)
Definition doc_bound_override : gitem :=
  gstruct "A" ["T"; "U"] []
    [ plain "a" (GName "String");
      {| gf_name := "b"; gf_skip := false;
         gf_bound_ser := Some [user_pred (GParam "T") ["BorshSerialize"; "Ord"]; user_pred (GParam "U") ["BorshSerialize"]];
         gf_bound_de := None; gf_schema_params := None; gf_ty := GApp "HashMap" [GParam "T"; GParam "U"] |} ].

(** "derive here figures the bound erroneously as [T: BorshSerialize]":
    [struct A<T, V> where T: TraitName { field: <T as TraitName>::Associated, another: V }] *)
Definition doc_qualified_assoc : gitem :=
  gstruct "A" ["T"; "V"] [user_pred (GParam "T") ["TraitName"]]
    [ plain "field" (GQAssoc (GParam "T") "TraitName" "Associated"); plain "another" (GParam "V") ].

(** the derive crate's snapshot [generic_associated_type]:
    [struct Parametrized<V, T> where T: TraitName { field: T::Associated, another: V }] *)
Definition snap_assoc : gitem :=
  gstruct "Parametrized" ["V"; "T"] [user_pred (GParam "T") ["TraitName"]]
    [ plain "field" (GAssoc "T" "Associated"); plain "another" (GParam "V") ].

(** borsh_schema.md: [struct A<K: EntityRef, V> { #[borsh(schema(params = "V => V"))] x: PrimaryMap<K, V>, y: String }] *)
Definition doc_schema_params : gitem :=
  gstruct "A" ["K"; "V"] []
    [ {| gf_name := "x"; gf_skip := false; gf_bound_ser := None; gf_bound_de := None;
         gf_schema_params := Some [("V", GParam "V")]; gf_ty := GApp "PrimaryMap" [GParam "K"; GParam "V"] |};
      plain "y" (GName "String") ].
(** borsh_schema.md: [struct A<V, T> where T: TraitName { #[borsh(schema(params = "T => <T as TraitName>::Associated"))] field: <T as TraitName>::Associated, another: V }] *)
Definition doc_schema_params_assoc : gitem :=
  gstruct "A" ["V"; "T"] [user_pred (GParam "T") ["TraitName"]]
    [ {| gf_name := "field"; gf_skip := false; gf_bound_ser := None; gf_bound_de := None;
         gf_schema_params := Some [("T", GQAssoc (GParam "T") "TraitName" "Associated")];
         gf_ty := GQAssoc (GParam "T") "TraitName" "Associated" |};
      plain "another" (GParam "V") ].

(** [struct S<T> { a: PhantomData<T>, b: u8 }], and various shapes around one parameter *)
Definition phantom_struct : gitem := gstruct "S" ["T"] [] [plain "a" (GPhantom (GParam "T")); plain "b" (GName "u8")].
Definition shapes_struct : gitem :=
  gstruct "S" ["A"; "B"; "C"; "D"; "E"; "F"] []
    [ plain "a" (GWrap (GWArray "4") (GParam "A"));
      plain "b" (GTuple (TCons (GName "u8") (TCons (GWrap (GWRef "'static" false) (GParam "B")) TNil)));
      plain "c" (GFn (TCons (GParam "C") TNil) ONone);
      plain "d" (GPhantom (GApp "Vec" [GParam "D"]));
      plain "e" (GMacro "E" []);
      skipped "f" (GApp "Vec" [GParam "F"]) ].

(** witness of the naive reading being false: [struct S<T: Tr> { a: Vec<T::A> }] (no bound at all) *)
Definition nested_assoc : gitem := gstruct "S" ["T"] [] [plain "a" (GApp "Vec" [GAssoc "T" "A"])].
(** witness: the [order_param] of a [schema(params)] entry is not a parameter of the item:
    [struct S<T> { #[borsh(schema(params = "X => T"))] a: Vec<T> }] *)
Definition unknown_order_param : gitem :=
  gstruct "S" ["T"] []
    [ {| gf_name := "a"; gf_skip := false; gf_bound_ser := None; gf_bound_de := None;
         gf_schema_params := Some [("X", GParam "T")]; gf_ty := GApp "Vec" [GParam "T"] |} ].

(** [enum E<T> { A(PhantomData<T>), B(u8) }] *)
Definition phantom_enum : gitem :=
  {| gi_name := "E"; gi_params := [GPType "T" None]; gi_where := [];
     gi_body := GEnum [ {| gv_name := "A"; gv_fields := [plain "0" (GPhantom (GParam "T"))] |};
                        {| gv_name := "B"; gv_fields := [plain "0" (GName "u8")] |} ] |}.
(** the F9 witness: [enum G<T, U> where T: Into<U> { X(T), Y(U) }] *)
Definition f9_enum : gitem :=
  {| gi_name := "G"; gi_params := [GPType "T" None; GPType "U" None];
     gi_where := [WUser (GParam "T") (BTrait false (SCons "Into" (AAngle (LType (GParam "U") LNil)) SNil) BNil)];
     gi_body := GEnum [ {| gv_name := "X"; gv_fields := [plain "0" (GParam "T")] |};
                        {| gv_name := "Y"; gv_fields := [plain "0" (GParam "U")] |} ] |}.
(** [enum H<'a, T, U, const N: usize> where T: Clone, U: Copy { P(#[borsh(skip)] T, [u8; N]), Q(&'a U), R }] *)
Definition mixed_enum : gitem :=
  {| gi_name := "H"; gi_params := [GPLifetime "'a"; GPType "T" None; GPType "U" (Some (GName "u8")); GPConst "N"];
     gi_where := [user_pred (GParam "T") ["Clone"]; user_pred (GParam "U") ["Copy"]];
     gi_body := GEnum [ {| gv_name := "P"; gv_fields := [skipped "0" (GParam "T"); plain "1" (GWrap (GWArray "N") (GName "u8"))] |};
                        {| gv_name := "Q"; gv_fields := [plain "0" (GWrap (GWRef "'a" false) (GParam "U"))] |};
                        {| gv_name := "R"; gv_fields := [] |} ] |}.
