(** Byte strings and little-endian integers.  Model carrier shared by every file. *)
From Coq Require Import List NArith Lia.
From Coq.Strings Require Import Byte.
Import ListNotations.
Local Open Scope N_scope.

Definition byte := Byte.byte.
Definition bytes := list byte.

Definition b2n (b : byte) : N := Byte.to_N b.
Definition n2b (n : N) : byte :=
  match Byte.of_N (n mod 256) with Some b => b | None => x00 end.

(** [le w n]: the [w] low-order bytes of [n], least significant first
    (Rust's [to_le_bytes] on a [w]-byte integer holding [n mod 256^w]). *)
Fixpoint le (w : nat) (n : N) : bytes :=
  match w with
  | O => []
  | S w' => n2b n :: le w' (n / 256)
  end.

(** [unle bs]: the number whose little-endian representation is [bs]
    (Rust's [from_le_bytes]). *)
Fixpoint unle (bs : bytes) : N :=
  match bs with
  | [] => 0
  | b :: r => b2n b + 256 * unle r
  end.

(** Length as a binary number (no unary intermediate). *)
Definition len {A} (bs : list A) : N := fold_left (fun n _ => N.succ n) bs 0.

(** Split off the first [n] bytes; [None] when fewer are available. *)
Fixpoint take_nat (n : nat) (bs : bytes) : option (bytes * bytes) :=
  match n with
  | O => Some ([], bs)
  | S n' => match bs with
            | [] => None
            | b :: r => match take_nat n' r with
                        | Some (a, r') => Some (b :: a, r')
                        | None => None
                        end
            end
  end.

(** Same with a binary count: iterates over the *list*, so a huge count on a
    short input stops at the end of the input. *)
Fixpoint take_pos_aux (bs : bytes) (n : N) (acc : bytes) : option (bytes * bytes) :=
  if n =? 0 then Some (rev_append acc [], bs) else
  match bs with
  | [] => None
  | b :: r => take_pos_aux r (N.pred n) (b :: acc)
  end.
Definition take (n : N) (bs : bytes) : option (bytes * bytes) := take_pos_aux bs n [].
