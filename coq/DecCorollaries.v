(** Consequences of [dec_PS] for the entry points (C05, C16, C14). *)
From Coq Require Import String.
From Coq Require Import List NArith Bool Lia.
From Borsh Require Import Bytes BytesFacts Result Loop LoopFacts Ty TyInd Ser De Entry CodecFacts RoundTrip ParseFacts.
Import ListNotations.
Local Open Scope N_scope.

Lemma dec_err_kind c t bs k m : dec_slice c t bs = Err k m -> k = InvalidData.
Proof. intros H. pose proof (dec_PS c t bs) as P. unfold dec_slice in H. rewrite H in P. exact P. Qed.

Lemma dec_no_panic c t bs w : dec_slice c t bs <> Panic w.
Proof. intros H. pose proof (dec_PS c t bs) as P. unfold dec_slice in H. rewrite H in P. exact P. Qed.

Lemma dec_prefix c t bs v r :
  dec_slice c t bs = Ok (v, r) ->
  exists pre, bs = pre ++ r /\ (forall r', dec_slice c t (pre ++ r') = Ok (v, r')) /\
              (forall q1 q2, pre = q1 ++ q2 -> q2 <> [] -> dec_slice c t q1 = Err InvalidData MUnexpectedLength).
Proof.
  intros H. pose proof (dec_PS c t bs) as P. unfold dec_slice in H. rewrite H in P.
  destruct P as (pre & E & _ & Hext & Htr). exists pre. auto.
Qed.

Lemma dec_extend c t bs v r x : dec_slice c t bs = Ok (v, r) -> dec_slice c t (bs ++ x) = Ok (v, r ++ x).
Proof.
  intros H. destruct (dec_prefix c t bs v r H) as (pre & -> & Hext & _).
  rewrite <- app_assoc. apply Hext.
Qed.

(** the decoder consumes exactly the encoding: anything shorter is "unexpected length" *)
Lemma dec_truncated c t pre v :
  (forall r, dec_slice c t (pre ++ r) = Ok (v, r)) ->
  forall q1 q2, pre = q1 ++ q2 -> q2 <> [] -> dec_slice c t q1 = Err InvalidData MUnexpectedLength.
Proof.
  intros H q1 q2 Hq Hne. specialize (H []). rewrite app_nil_r in H.
  destruct (dec_prefix c t pre v [] H) as (pre' & E & _ & Htr). rewrite app_nil_r in E. subst pre'.
  eapply Htr; eauto.
Qed.

(** * Entry points on whole inputs *)
Lemma try_from_slice_err_kind c t bs k m : try_from_slice c t bs = Err k m -> k = InvalidData.
Proof.
  unfold try_from_slice. destruct (dec_slice c t bs) as [[v r]|k' m'|w] eqn:E; cbn [bind].
  - destruct r; intros H; inversion H; reflexivity.
  - intros H; inversion H; subst. eapply dec_err_kind; eauto.
  - discriminate.
Qed.

Lemma try_from_slice_trailing c t pre v rest :
  (forall r, dec_slice c t (pre ++ r) = Ok (v, r)) -> rest <> [] ->
  try_from_slice c t (pre ++ rest) = Err InvalidData MNotAllBytesRead.
Proof. intros H Hne. unfold try_from_slice. rewrite H. cbn [bind]. destruct rest; [contradiction|reflexivity]. Qed.

Lemma try_from_slice_exact c t pre v :
  (forall r, dec_slice c t (pre ++ r) = Ok (v, r)) -> try_from_slice c t pre = Ok v.
Proof. intros H. unfold try_from_slice. specialize (H []). rewrite app_nil_r in H. now rewrite H. Qed.

Lemma try_from_slice_truncated c t pre v :
  (forall r, dec_slice c t (pre ++ r) = Ok (v, r)) ->
  forall q1 q2, pre = q1 ++ q2 -> q2 <> [] -> try_from_slice c t q1 = Err InvalidData MUnexpectedLength.
Proof. intros H q1 q2 Hq Hne. unfold try_from_slice. now rewrite (dec_truncated c t pre v H q1 q2 Hq Hne). Qed.

(** the reader variants on the in-memory reader *)
Lemma try_from_reader_slice c t pre v rest :
  (forall r, dec_slice c t (pre ++ r) = Ok (v, r)) ->
  try_from_reader slice_reader c t (pre ++ rest) =
  match rest with [] => Ok (v, []) | _ :: _ => Err InvalidData MNotAllBytesRead end.
Proof.
  intros H. unfold try_from_reader. specialize (H rest). unfold dec_slice in H. rewrite H. cbn [bind].
  destruct rest as [|b r]; [reflexivity|].
  change (rd_exact slice_reader 1 (b :: r)) with (match take 1 (b :: r) with Some (a, r0) => Ok (a, r0) | None => Err UnexpectedEof MFillWhole end).
  change (take 1 (b :: r)) with (take (len [b]) ([b] ++ r)). rewrite (take_app [b] r). reflexivity.
Qed.

(** * Streams: values written back to back are read back in order *)
Fixpoint enc_stream (items : list (ty * val)) : result bytes :=
  match items with
  | [] => Ok []
  | (t, v) :: r => b <- enc t v ;; br <- enc_stream r ;; Ok (b ++ br)
  end.
Fixpoint dec_stream (c : cfg) (ts : list ty) (bs : bytes) : result (list val * bytes) :=
  match ts with
  | [] => Ok ([], bs)
  | t :: r => '(v, s1) <- dec_slice c t bs ;; '(vs, s2) <- dec_stream c r s1 ;; Ok (v :: vs, s2)
  end.

Lemma stream_round_trip c items :
  (forall t v, In (t, v) items ->
     forall bs, enc t v = Ok bs -> forall rest, dec_slice c t (bs ++ rest) = Ok (logical t v, rest)) ->
  forall bs, enc_stream items = Ok bs ->
  forall tail, dec_stream c (map fst items) (bs ++ tail) = Ok (map (fun tv => logical (fst tv) (snd tv)) items, tail).
Proof.
  induction items as [|[t v] r IH]; intros Hrt bs Henc tail; cbn [enc_stream dec_stream map fst snd] in *.
  - inversion Henc; subst. reflexivity.
  - destruct (enc t v) as [b|? ?|?] eqn:Eb; cbn [bind] in Henc; try discriminate.
    destruct (enc_stream r) as [br|? ?|?] eqn:Er; cbn [bind] in Henc; try discriminate.
    inversion Henc; subst bs. rewrite <- app_assoc.
    rewrite (Hrt t v (or_introl eq_refl) b Eb). cbn [bind].
    rewrite (IH (fun t' v' Hin => Hrt t' v' (or_intror Hin)) br eq_refl tail). reflexivity.
Qed.

(** * Zero-sized element collections *)
Lemma zst_refused_ser k t' v :
  ser_checks_zst k = true -> mem_zst (key_ty k t') = true -> enc (TSeq k t') v = Err InvalidData MZst.
Proof. intros Hk Hz. unfold enc. cbn [ser]. rewrite Hk, Hz. reflexivity. Qed.

Lemma zst_refused_de c k t' bs :
  mem_zst (key_ty k t') = true -> dec_slice c (TSeq k t') bs = Err InvalidData MZst.
Proof. intros Hz. unfold dec_slice. cbn [dec]. rewrite Hz. reflexivity. Qed.
