(** C07, tight bounds, first part: a predicate with SEPARATE constants for success and
    failure, and the combinator lemmas.

    [CostBounds.cbound] has one additive constant for success and failure alike, so an
    element loop pays the element's constant once per element: the 1 MiB that a FAILING
    [Vec<u8>] decode may have requested without having consumed input becomes a cost per
    input byte of [Vec<Vec<u8>>].  Here, for the same weighted measure
        mu tr = alpha * (bytes requested in tr) + beta * (element decodes in tr),
    [tbound pos s0 f0 a1 p] says, for every input [bs]:
      - on success with [rest] left: |rest| (+1 if pos) <= |bs| and
            mu + a1 * |rest| <= s0 + a1 * |bs|     (cost <= s0 + a1 * bytes CONSUMED);
      - on failure: mu <= f0 + a1 * |bs|.
    A loop pays [s0] per successful element and [f0] ONCE (decoding stops at the first
    failure).  The bound on single requests is not repeated here: it is
    [CostMain.cdec_max_request]. *)
From Coq Require Import String.
From Coq Require Import List NArith Bool Lia.
From Borsh Require Import Bytes BytesFacts Result Loop LoopFacts Ty TyInd Ser De CodecFacts ParseFacts DecCorollaries
     Cost CostFacts CostLoops CostBasic CostBounds.
Import ListNotations.
Local Open Scope N_scope.

Section Tight.
  Variables alpha beta : N.
  Notation mu := (mu alpha beta).

  Definition tbound {A} (pos : bool) (s0 f0 a1 : N) (p : cparser A) : Prop :=
    forall bs,
      match snd (p bs) with
      | Ok (_, rest) => len rest + bpos pos <= len bs /\ mu (fst (p bs)) + a1 * len rest <= s0 + a1 * len bs
      | _ => mu (fst (p bs)) <= f0 + a1 * len bs
      end.

  Lemma tbound_weaken {A} (pos pos' : bool) s0 f0 a1 s0' f0' a1' (p : cparser A) :
    (pos' = true -> pos = true) -> s0 <= s0' -> f0 <= f0' -> a1 <= a1' ->
    tbound pos s0 f0 a1 p -> tbound pos' s0' f0' a1' p.
  Proof.
    intros Hp H0 H1 H2 H bs. specialize (H bs).
    assert (Hbs : a1 * len bs <= a1' * len bs) by (apply N.mul_le_mono_r; exact H2).
    destruct (snd (p bs)) as [[a rest]|k e|w].
    - destruct H as [Hl Hm]. split.
      + destruct pos'; cbn [bpos] in *; [rewrite (Hp eq_refl) in Hl; cbn [bpos] in Hl|]; lia.
      + assert (Hle : len rest <= len bs) by lia.
        assert ((a1' - a1) * len rest <= (a1' - a1) * len bs) by (apply N.mul_le_mono_l; exact Hle).
        assert (E1 : a1' * len rest = a1 * len rest + (a1' - a1) * len rest) by (rewrite <- N.mul_add_distr_r; f_equal; lia).
        assert (E2 : a1' * len bs = a1 * len bs + (a1' - a1) * len bs) by (rewrite <- N.mul_add_distr_r; f_equal; lia).
        lia.
    - lia.
    - lia.
  Qed.

  Lemma tbound_ext {A} pos s0 f0 a1 (p q : cparser A) :
    (forall s, p s = q s) -> tbound pos s0 f0 a1 p -> tbound pos s0 f0 a1 q.
  Proof. intros E H bs. rewrite <- E. apply H. Qed.

  (** a pure parser *)
  Lemma tbound_lift {A} (pos : bool) (r : bytes -> result (A * bytes)) :
    (forall bs a rest, r bs = Ok (a, rest) -> len rest + bpos pos <= len bs) ->
    tbound pos 0 0 0 (fun s => mlift (r s)).
  Proof.
    intros H bs. cbn [mlift fst snd].
    destruct (r bs) as [[a rest]|k e|w] eqn:E; rewrite mu_nil; try lia.
    split; [eapply H; eauto|lia].
  Qed.

  Lemma tbound_ret {A} (a : A) : tbound false 0 0 0 (fun s => mret (a, s)).
  Proof. intros bs. cbn [mret fst snd bpos]. rewrite mu_nil. split; lia. Qed.

  Lemma tbound_fail {A} (k : kind) (m : msg) : tbound (A:=A) true 0 0 0 (fun _ => mlift (Err k m)).
  Proof. intros bs. cbn [mlift fst snd]. rewrite mu_nil. lia. Qed.

  (** sequencing: the failure constant is the larger of "the first part fails" and
      "the first part succeeds, the second fails" *)
  Lemma tbound_bind {A B} pos1 pos2 s0 f0 s0' f0' a1 (p : cparser A) (q : A -> cparser B) :
    tbound pos1 s0 f0 a1 p -> (forall x, tbound pos2 s0' f0' a1 (q x)) ->
    tbound (pos1 || pos2) (s0 + s0') (N.max f0 (s0 + f0')) a1 (fun s => x <<- p s ;; q (fst x) (snd x)).
  Proof.
    intros Hp Hq bs. specialize (Hp bs).
    destruct (p bs) as [tr1 [[x s1]|k e|w]] eqn:Ep; cbn [fst snd] in *.
    - rewrite (mbind_ok _ _ (x, s1)) by reflexivity. cbn [fst snd].
      destruct Hp as [Hl Hm]. specialize (Hq x s1).
      assert (Hle : len s1 <= len bs) by lia.
      rewrite mu_app. destruct (snd (q x s1)) as [[y s2]|k e|w].
      + destruct Hq as [Hl2 Hm2]. split; [destruct pos1, pos2; cbn [bpos orb] in *; lia|lia].
      + lia.
      + lia.
    - rewrite (mbind_err _ _ k e) by reflexivity. cbn [fst snd]. lia.
    - rewrite (mbind_panic _ _ w) by reflexivity. cbn [fst snd]. lia.
  Qed.

  Lemma tbound_bind' {A B} pos1 pos2 s0 f0 s0' f0' a1 (p : cparser A) (q : A -> cparser B) :
    tbound pos1 s0 f0 a1 p -> (forall x, tbound pos2 s0' f0' a1 (q x)) ->
    tbound (pos1 || pos2) (s0 + s0') (N.max f0 (s0 + f0')) a1 (fun s => '(x, s1) <<- p s ;; q x s1).
  Proof.
    intros Hp Hq. eapply tbound_ext; [|apply (tbound_bind pos1 pos2 s0 f0 s0' f0' a1 p q Hp Hq)].
    intros s. apply mbind_ext. intros [x s1]. reflexivity.
  Qed.

  (** a pure prefix of exactly [k] bytes pays for [a1 * k] of what follows *)
  Lemma tbound_prefix {A B} (k : N) s0 f0 a1 (r : bytes -> result (A * bytes)) (q : A -> cparser B) :
    (forall bs a rest, r bs = Ok (a, rest) -> len rest + k = len bs) ->
    (forall x, tbound false s0 f0 a1 (q x)) ->
    tbound (negb (k =? 0)) (s0 - a1 * k) f0 a1 (fun s => '(x, s1) <<- mlift (r s) ;; q x s1).
  Proof.
    intros Hr Hq bs. cbn [mlift].
    destruct (r bs) as [[x s1]|ke e|w] eqn:Er.
    - rewrite (mbind_ok _ _ (x, s1)) by reflexivity. cbn [mlift fst snd app].
      specialize (Hq x s1). apply Hr in Er.
      assert (E : a1 * len bs = a1 * len s1 + a1 * k) by (rewrite <- Er; lia).
      destruct (snd (q x s1)) as [[y s2]|ke e|w].
      + destruct Hq as [Hl Hm]. cbn [bpos] in Hl. split; [|lia].
        destruct (N.eqb_spec k 0); cbn [negb bpos]; lia.
      + lia.
      + lia.
    - rewrite (mbind_err _ _ ke e) by reflexivity. cbn [fst snd]. rewrite mu_nil. lia.
    - rewrite (mbind_panic _ _ w) by reflexivity. cbn [fst snd]. rewrite mu_nil. lia.
  Qed.

  Lemma tbound_map {A B} pos s0 f0 a1 (p : cparser A) (h : A -> B) :
    tbound pos s0 f0 a1 p -> tbound pos s0 f0 a1 (fun s => '(x, s1) <<- p s ;; mret (h x, s1)).
  Proof.
    intros Hp bs. specialize (Hp bs).
    destruct (p bs) as [tr1 [[x s1]|k e|w]] eqn:Ep; cbn [fst snd] in *.
    - rewrite (mbind_ok _ _ (x, s1)) by reflexivity. cbn [mret fst snd]. rewrite app_nil_r. exact Hp.
    - rewrite (mbind_err _ _ k e) by reflexivity. exact Hp.
    - rewrite (mbind_panic _ _ w) by reflexivity. exact Hp.
  Qed.

  (** a tail that only post-processes the value and records conversions *)
  Lemma tbound_tail {A B C} pos s0 f0 a1 (p : cparser A) (g : A -> result B) (cv : A -> B -> trace) (h : A -> B -> C) :
    tbound pos s0 f0 a1 p -> s0 <= f0 -> (forall a b, conv_only (cv a b)) ->
    tbound pos s0 f0 a1
      (fun s => x <<- p s ;; v <<- mlift (g (fst x)) ;; _ <<- emits (cv (fst x) v) ;; mret (h (fst x) v, snd x)).
  Proof.
    intros Hp Hsf Hcv bs. specialize (Hp bs).
    destruct (p bs) as [tr1 [[x s1]|k e|w]] eqn:Ep; cbn [fst snd] in *.
    - rewrite (mbind_ok _ _ (x, s1)) by reflexivity. cbn [fst snd].
      destruct Hp as [Hl Hm].
      destruct (g x) as [v|k e|w] eqn:Eg.
      + rewrite (mbind_ok (mlift (Ok v)) _ v) by reflexivity. cbn [mlift fst snd app].
        rewrite (mbind_ok (emits _) _ tt) by reflexivity. cbn [emits mret fst snd]. rewrite app_nil_r.
        rewrite mu_app, (conv_only_mu _ _ _ (Hcv x v)). split; lia.
      + rewrite (mbind_err (mlift (Err k e)) _ k e) by reflexivity. cbn [mlift fst snd]. rewrite app_nil_r. lia.
      + rewrite (mbind_panic (mlift (Panic w)) _ w) by reflexivity. cbn [mlift fst snd]. rewrite app_nil_r. lia.
    - rewrite (mbind_err _ _ k e) by reflexivity. cbn [fst snd]. exact Hp.
    - rewrite (mbind_panic _ _ w) by reflexivity. cbn [fst snd]. exact Hp.
  Qed.

  Lemma tbound_tail' {A B} pos s0 f0 a1 (p : cparser A) (g : A -> result B) (cv : A -> trace) :
    tbound pos s0 f0 a1 p -> s0 <= f0 -> (forall a, conv_only (cv a)) ->
    tbound pos s0 f0 a1
      (fun s => '(l, s') <<- p s ;; v <<- mlift (g l) ;; _ <<- emits (cv l) ;; mret (v, s')).
  Proof.
    intros Hp Hsf Hcv. eapply tbound_ext; [|apply (tbound_tail pos s0 f0 a1 p g (fun l _ => cv l) (fun _ v => v) Hp Hsf)].
    - intros s. apply mbind_ext. intros [l s']. reflexivity.
    - intros a b. apply Hcv.
  Qed.

  Lemma tbound_conv {A} pos s0 f0 a1 (p : cparser A) (cv : A -> trace) :
    tbound pos s0 f0 a1 p -> (forall a, conv_only (cv a)) ->
    tbound pos s0 f0 a1 (fun s => '(v, s') <<- p s ;; _ <<- emits (cv v) ;; mret (v, s')).
  Proof.
    intros Hp Hcv bs. specialize (Hp bs).
    destruct (p bs) as [tr1 [[x s1]|k e|w]] eqn:Ep; cbn [fst snd] in *.
    - rewrite (mbind_ok _ _ (x, s1)) by reflexivity. cbn [fst snd].
      rewrite (mbind_ok (emits _) _ tt) by reflexivity. cbn [emits mret fst snd]. rewrite app_nil_r.
      rewrite mu_app, (conv_only_mu _ _ _ (Hcv x)). destruct Hp. split; lia.
    - rewrite (mbind_err _ _ k e) by reflexivity. exact Hp.
    - rewrite (mbind_panic _ _ w) by reflexivity. exact Hp.
  Qed.

  (** * The byte loop: on success the requests total at most 5 * (bytes consumed) *)
  Lemma cbulk_tight n : 0 < n -> tbound true 0 (alpha * CHUNK) (5 * alpha) (cbulk n).
  Proof.
    intros Hn bs. destruct (cbulk_cost n bs Hn) as (pos & Hpn & Hpl & Hsum & Hel & _).
    pose proof (cbulk_erase n bs) as Er.
    rewrite mu_split, Hel.
    assert (Hs : alpha * sum_of ev_alloc (fst (cbulk n bs)) <= alpha * (N.min n CHUNK + 4 * pos)) by (apply N.mul_le_mono_l; exact Hsum).
    rewrite Er. destruct (bulk_slice_cases n bs Hn) as [(a & rest & E & L & ->)|[L ->]].
    - subst bs. rewrite len_app. cbn [bpos]. split; [lia|].
      assert (alpha * (N.min n CHUNK + 4 * pos) <= alpha * (5 * len a)) by (apply N.mul_le_mono_l; lia).
      lia.
    - assert (alpha * (N.min n CHUNK + 4 * pos) <= alpha * (CHUNK + 4 * len bs)) by (apply N.mul_le_mono_l; lia).
      lia.
  Qed.

  (** * The push loop of [Vec<T>] / [BytesMut] *)

  (** with the capacity that [hint::cautious] gives, MIN_NON_ZERO_CAP never matters:
      a growth is an exact doubling *)
  Lemma grow_double e cap0 cap : 1 <= cap0 -> cap0 <= cap -> min_non_zero_cap e <= 2 * cap0 -> grow e cap = 2 * cap.
  Proof. intros H1 H2 H3. unfold grow. lia. Qed.

  Lemma cautious_tight e n :
    0 < e ->
    exists c0, cautious e n = Ok c0 /\ 1 <= c0 /\ c0 <= N.max n 1 /\ c0 * e <= N.max 4096 e /\
               (n <= c0 \/ min_non_zero_cap e <= 2 * c0).
  Proof.
    intros H0. destruct (cautious_spec e n H0) as (c0 & Ec & Hc1 & Hc2 & Hc3).
    exists c0. repeat split; try assumption.
    unfold cautious in Ec.
    destruct (N.eqb_spec e 0); [lia|]. injection Ec as Ec.
    destruct (N.le_gt_cases n c0) as [Hle|Hgt]; [left; exact Hle|right].
    assert (Hq : c0 = N.max (4096 / e) 1) by lia.
    unfold min_non_zero_cap.
    destruct (N.eqb_spec e 1) as [->|Ne1]; [change (4096 / 1) with 4096 in Hq; lia|].
    destruct (N.leb_spec e 1024) as [Hle|Hlt]; [|lia].
    assert (4 <= 4096 / e) by (apply N.div_le_lower_bound; lia). lia.
  Qed.

  Lemma mu_elem_cons tr : mu (EElem :: tr) = beta + mu tr.
  Proof. change (EElem :: tr) with ([EElem] ++ tr). rewrite mu_app. unfold CostBounds.mu at 1. rewrite sum_of_cons, sum_of_nil. cbn [wt]. lia. Qed.

  (** the loop alone.  Potential: the growth requests so far are at most
      2 * e * (cap - cap0), and cap <= max cap0 (2 * elements pushed). *)
  Lemma crepeat_vec_tight s0 f0 a1 (f : cparser val) e cap0 n bs :
    tbound true s0 f0 a1 f -> 1 <= cap0 -> (n <= cap0 \/ min_non_zero_cap e <= 2 * cap0) ->
    match snd (crepeat (push_cost e) f cap0 n bs) with
    | Ok (_, rest) =>
        len rest + n <= len bs /\
        exists cap, cap0 <= cap /\ cap <= N.max cap0 (2 * n) /\
          mu (fst (crepeat (push_cost e) f cap0 n bs)) + (s0 + beta + a1) * len rest + 2 * (alpha * e * cap0)
          <= 2 * (alpha * e * cap) + (s0 + beta + a1) * len bs
    | _ =>
        exists i cap, i <= len bs /\ cap0 <= cap /\ cap <= N.max cap0 (2 * i) /\
          mu (fst (crepeat (push_cost e) f cap0 n bs)) + 2 * (alpha * e * cap0)
          <= 2 * (alpha * e * cap) + beta + f0 + (s0 + beta + a1) * len bs
    end.
  Proof.
    intros Hf Hc0 Hmn. unfold crepeat.
    set (A := s0 + beta + a1). set (ae := alpha * e).
    pose (Inv := fun (i : N) (tr : trace) (st : N * N * list val * bytes) =>
                   let '(cap, cnt, acc, s') := st in
                   cnt = i /\ len s' + i <= len bs /\ cap0 <= cap /\ cap <= N.max cap0 (2 * i) /\
                   mu tr + A * len s' + 2 * (ae * cap0) <= 2 * (ae * cap) + A * len bs).
    pose (Q := fun tr : trace => exists i cap, i <= len bs /\ cap0 <= cap /\ cap <= N.max cap0 (2 * i) /\
                   mu tr + 2 * (ae * cap0) <= 2 * (ae * cap) + beta + f0 + A * len bs).
    pose proof (citerN_inv (cloop_step (push_cost e) f) Inv Q n 0 [] ((cap0, 0, [], bs) : N * N * list val * bytes)) as H.
    cbn [app] in H.
    assert (Hstep : forall i tr s, 0 <= i -> i < 0 + n -> Inv i tr s ->
              match snd (cloop_step (push_cost e) f s) with
              | Ok s' => Inv (i + 1) (tr ++ fst (cloop_step (push_cost e) f s)) s'
              | _ => Q (tr ++ fst (cloop_step (push_cost e) f s))
              end).
    { intros i tr [[[cap cnt] acc] s'] _ Hin (Hcnt & Hlen & Hcap0 & Hcap & Hmu). subst cnt.
      pose proof (Hf s') as Hfc.
      assert (Hs' : len s' <= len bs) by lia.
      assert (Ha1 : a1 * len s' <= A * len s') by (apply N.mul_le_mono_r; unfold A; lia).
      assert (HAi : A * len s' <= A * len bs) by (apply N.mul_le_mono_l; exact Hs').
      destruct (f s') as [trf [[v s1]|k er|w]] eqn:Ef; cbn [fst snd] in Hfc.
      - rewrite (cloop_step_ok _ _ _ _ _ _ _ _ _ Ef). cbn [fst snd].
        destruct Hfc as [Hl1 Hm1]. cbn [bpos] in Hl1.
        pose proof (step_arith beta s0 a1 (len s1) (len s') (mu trf) Hl1 Hm1) as Hsa. fold A in Hsa.
        unfold push_cost. destruct (N.eqb_spec i cap) as [Eic|Nic]; cbn [fst snd].
        + (* growth: an exact doubling *)
          assert (Hg : grow e cap = 2 * cap) by (apply (grow_double e cap0 cap Hc0 Hcap0); lia).
          rewrite Hg.
          assert (Hga : alpha * (2 * cap * e) = 2 * (ae * cap)) by (unfold ae; lia).
          assert (Hg2 : ae * (2 * cap) = 2 * (ae * cap)) by lia.
          unfold Inv. repeat split; try lia.
          rewrite mu_app, mu_elem_cons, mu_app, mu_alloc1, Hga, Hg2. lia.
        + unfold Inv. rewrite app_nil_r. repeat split; try lia.
          rewrite mu_app, mu_elem_cons. lia.
      - rewrite (cloop_step_err _ _ _ _ _ _ _ _ _ Ef). cbn [fst snd]. unfold Q.
        exists i, cap. repeat split; try lia. rewrite mu_app, mu_elem_cons. lia.
      - rewrite (cloop_step_panic _ _ _ _ _ _ _ _ Ef). cbn [fst snd]. unfold Q.
        exists i, cap. repeat split; try lia. rewrite mu_app, mu_elem_cons. lia. }
    specialize (H Hstep).
    assert (H0 : Inv 0 [] ((cap0, 0, [], bs) : N * N * list val * bytes)).
    { unfold Inv. rewrite mu_nil. repeat split; lia. }
    specialize (H H0). clear Hstep H0.
    destruct (citerN n (cloop_step (push_cost e) f) _) as [tr [[[[cap cnt] acc] s']|k er|w]]; cbn [fst snd] in H.
    - rewrite (mbind_ok _ _ (cap, cnt, acc, s')) by reflexivity. cbn [mret fst snd]. rewrite app_nil_r.
      destruct H as (Hcnt & Hlen & Hcap0 & Hcap & Hmu). split; [lia|].
      exists cap. fold A. replace (alpha * e * cap0) with (ae * cap0) by reflexivity.
      replace (alpha * e * cap) with (ae * cap) by reflexivity. repeat split; try lia.
    - rewrite (mbind_err _ _ k er) by reflexivity. cbn [fst snd]. exact H.
    - rewrite (mbind_panic _ _ w) by reflexivity. cbn [fst snd]. exact H.
  Qed.

  (** [with_capacity(cautious(len))] + push loop.  The vector's own requests: at most
      4 * e * (elements) on success (and elements <= bytes consumed); on failure at most
      max 4096 e + 4 * e * (elements decoded).  The element's failure constant [f0] is
      paid once. *)
  Lemma cpush_loop_tight s0 f0 a1 e (f : cparser val) n :
    tbound true s0 f0 a1 f -> 0 < e ->
    tbound false (if n =? 0 then alpha * e else 0)
                 (alpha * N.max 4096 e + beta + f0)
                 (s0 + beta + a1 + 4 * (alpha * e))
           (cpush_loop e f n).
  Proof.
    intros Hf He0 bs. unfold cpush_loop.
    destruct (cautious_tight e n He0) as (c0 & Ec & Hc1 & Hc2 & Hc3 & Hc4).
    rewrite Ec. rewrite (mbind_ok (mlift (Ok c0)) _ c0) by reflexivity. cbn [mlift fst snd app].
    rewrite (mbind_ok (emit _) _ tt) by reflexivity. cbn [emit fst snd].
    pose proof (crepeat_vec_tight s0 f0 a1 f e c0 n bs Hf Hc1 Hc4) as Hc.
    change (EAlloc true (c0 * e) :: fst (crepeat (push_cost e) f c0 n bs)) with ([EAlloc true (c0 * e)] ++ fst (crepeat (push_cost e) f c0 n bs)).
    rewrite mu_app, mu_alloc1.
    set (A := s0 + beta + a1) in *. set (ae := alpha * e) in *.
    assert (Ece : alpha * (c0 * e) = ae * c0) by (unfold ae; lia).
    assert (Hce : ae * c0 <= alpha * N.max 4096 e) by (rewrite <- Ece; apply N.mul_le_mono_l; exact Hc3).
    rewrite Ece.
    destruct (snd (crepeat (push_cost e) f c0 n bs)) as [[l rest]|k er|w].
    - destruct Hc as (Hl & cap & Hcap0 & Hcap & Hmu). cbn [bpos]. split; [lia|].
      assert (Hle : len rest <= len bs) by lia.
      assert (E1 : (A + 4 * ae) * len rest = A * len rest + 4 * (ae * len rest)) by lia.
      assert (E2 : (A + 4 * ae) * len bs = A * len bs + 4 * (ae * len bs)) by lia.
      assert (Hrb : ae * len rest <= ae * len bs) by (apply N.mul_le_mono_l; exact Hle).
      rewrite E1, E2.
      destruct (N.eqb_spec n 0) as [En|Nn].
      + (* no element: the capacity is 1 *)
        assert (c0 = 1) by lia. subst c0. assert (cap = 1) by lia. subst cap. lia.
      + assert (Hn : ae * n + ae * len rest <= ae * len bs) by (rewrite <- N.mul_add_distr_l; apply N.mul_le_mono_l; lia).
        assert (Hc0n : ae * c0 <= ae * n) by (apply N.mul_le_mono_l; lia).
        assert (Hcc : ae * c0 <= ae * cap) by (apply N.mul_le_mono_l; exact Hcap0).
        destruct (N.max_spec c0 (2 * n)) as [[_ Em]|[_ Em]]; rewrite Em in Hcap.
        * assert (ae * cap <= ae * (2 * n)) by (apply N.mul_le_mono_l; exact Hcap).
          assert (ae * (2 * n) = 2 * (ae * n)) by lia. lia.
        * assert (ae * cap <= ae * c0) by (apply N.mul_le_mono_l; exact Hcap). lia.
    - destruct Hc as (i & cap & Hi & Hcap0 & Hcap & Hmu).
      assert (E2 : (A + 4 * ae) * len bs = A * len bs + 4 * (ae * len bs)) by lia.
      assert (Hib : ae * i <= ae * len bs) by (apply N.mul_le_mono_l; exact Hi).
      assert (Hcc : ae * c0 <= ae * cap) by (apply N.mul_le_mono_l; exact Hcap0).
      rewrite E2.
      destruct (N.max_spec c0 (2 * i)) as [[_ Em]|[_ Em]]; rewrite Em in Hcap.
      + assert (ae * cap <= ae * (2 * i)) by (apply N.mul_le_mono_l; exact Hcap).
        assert (ae * (2 * i) = 2 * (ae * i)) by lia. lia.
      + assert (ae * cap <= ae * c0) by (apply N.mul_le_mono_l; exact Hcap). lia.
    - destruct Hc as (i & cap & Hi & Hcap0 & Hcap & Hmu).
      assert (E2 : (A + 4 * ae) * len bs = A * len bs + 4 * (ae * len bs)) by lia.
      assert (Hib : ae * i <= ae * len bs) by (apply N.mul_le_mono_l; exact Hi).
      assert (Hcc : ae * c0 <= ae * cap) by (apply N.mul_le_mono_l; exact Hcap0).
      rewrite E2.
      destruct (N.max_spec c0 (2 * i)) as [[_ Em]|[_ Em]]; rewrite Em in Hcap.
      + assert (ae * cap <= ae * (2 * i)) by (apply N.mul_le_mono_l; exact Hcap).
        assert (ae * (2 * i) = 2 * (ae * i)) by lia. lia.
      + assert (ae * cap <= ae * c0) by (apply N.mul_le_mono_l; exact Hcap). lia.
  Qed.

  (** * [Vec<T>::deserialize_reader] *)
  Lemma cdec_vec_tight s0 f0 a1 e u8 (f : cparser val) :
    (u8 = false -> tbound true s0 f0 a1 f /\ 0 < e) ->
    tbound true 0
           (if u8 then alpha * CHUNK else alpha * N.max 4096 e + beta + f0)
           (if u8 then 5 * alpha else s0 + beta + a1 + 4 * (alpha * e))
           (cdec_vec e u8 f).
  Proof.
    intros Hu. unfold cdec_vec.
    set (FF := if u8 then alpha * CHUNK else alpha * N.max 4096 e + beta + f0).
    set (AA := if u8 then 5 * alpha else s0 + beta + a1 + 4 * (alpha * e)).
    eapply tbound_weaken; [| | | |apply (tbound_bind' true false 0 0 0 FF AA (fun s => mlift (read_u32 slice_reader s)))]; try lia; auto.
    - eapply tbound_weaken; [| | | |apply (tbound_lift true (read_u32 slice_reader))]; try lia; auto.
      intros bs n s1 H. apply read_u32_len in H. cbn [bpos]. lia.
    - intros n. destruct (N.eqb_spec n 0) as [->|Hn0].
      + eapply tbound_weaken; [| | | |apply tbound_ret]; try lia; auto.
      + destruct u8.
        * apply tbound_map. eapply tbound_weaken; [| | | |apply (cbulk_tight n ltac:(lia))]; unfold FF, AA; try lia; auto.
        * destruct (Hu eq_refl) as (Hf & He0).
          pose proof (cpush_loop_tight s0 f0 a1 e f n Hf He0) as Hp.
          assert (En : (n =? 0) = false) by (apply N.eqb_neq; exact Hn0). rewrite En in Hp.
          eapply tbound_weaken; [| | | |exact Hp]; unfold FF, AA; try lia; auto.
  Qed.

  (** * The loop of a fixed array [T; n]: no growth, elements may be wire-empty *)
  Lemma crepeat_array_tight pos s0 f0 a1 (f : cparser val) cap0 n :
    tbound pos s0 f0 a1 f -> 0 < n ->
    tbound pos (n * (s0 + beta)) ((n - 1) * (s0 + beta) + beta + f0) a1 (crepeat no_push f cap0 n).
  Proof.
    intros Hf Hn bs. unfold crepeat.
    pose (Inv := fun (i : N) (tr : trace) (st : N * N * list val * bytes) =>
                   let '(cap, cnt, acc, s') := st in
                   len s' + bpos pos * i <= len bs /\
                   mu tr + a1 * len s' <= i * (s0 + beta) + a1 * len bs).
    pose (Q := fun tr : trace => mu tr <= (n - 1) * (s0 + beta) + beta + f0 + a1 * len bs).
    pose proof (citerN_inv (cloop_step no_push f) Inv Q n 0 [] ((cap0, 0, [], bs) : N * N * list val * bytes)) as H.
    cbn [app] in H.
    assert (Hstep : forall i tr s, 0 <= i -> i < 0 + n -> Inv i tr s ->
              match snd (cloop_step no_push f s) with
              | Ok s' => Inv (i + 1) (tr ++ fst (cloop_step no_push f s)) s'
              | _ => Q (tr ++ fst (cloop_step no_push f s))
              end).
    { intros i tr [[[cap cnt] acc] s'] _ Hin (Hlen & Hmu).
      pose proof (Hf s') as Hfc.
      assert (Hs' : len s' <= len bs) by lia.
      assert (Hin' : i * (s0 + beta) <= (n - 1) * (s0 + beta)) by (apply N.mul_le_mono_r; lia).
      assert (Ei : (i + 1) * (s0 + beta) = i * (s0 + beta) + s0 + beta) by lia.
      assert (Ha1 : a1 * len s' <= a1 * len bs) by (apply N.mul_le_mono_l; exact Hs').
      destruct (f s') as [trf [[v s1]|k er|w]] eqn:Ef; cbn [fst snd] in Hfc.
      - rewrite (cloop_step_ok _ _ _ _ _ _ _ _ _ Ef). cbn [fst snd no_push]. rewrite app_nil_r.
        destruct Hfc as [Hl1 Hm1]. unfold Inv. split.
        + destruct pos; cbn [bpos] in *; lia.
        + rewrite mu_app, mu_elem_cons. lia.
      - rewrite (cloop_step_err _ _ _ _ _ _ _ _ _ Ef). cbn [fst snd]. unfold Q.
        rewrite mu_app, mu_elem_cons. lia.
      - rewrite (cloop_step_panic _ _ _ _ _ _ _ _ Ef). cbn [fst snd]. unfold Q.
        rewrite mu_app, mu_elem_cons. lia. }
    specialize (H Hstep).
    assert (H0 : Inv 0 [] ((cap0, 0, [], bs) : N * N * list val * bytes)).
    { unfold Inv. rewrite mu_nil. split; lia. }
    specialize (H H0). clear Hstep H0.
    destruct (citerN n (cloop_step no_push f) _) as [tr [[[[cap cnt] acc] s']|k er|w]]; cbn [fst snd] in H.
    - rewrite (mbind_ok _ _ (cap, cnt, acc, s')) by reflexivity. cbn [mret fst snd]. rewrite app_nil_r.
      destruct H as (Hlen & Hmu). split; [|lia].
      destruct pos; cbn [bpos] in *; lia.
    - rewrite (mbind_err _ _ k er) by reflexivity. cbn [fst snd]. exact H.
    - rewrite (mbind_panic _ _ w) by reflexivity. cbn [fst snd]. exact H.
  Qed.
End Tight.
