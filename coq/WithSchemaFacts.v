(** Facts about WithSchema.v: the schema-prefixed helpers (C17). *)
From Coq Require Import String Ascii List NArith ZArith Bool Lia.
From Borsh Require Import Bytes BytesFacts Result LoopFacts Ty TyInd Ser De Entry CodecFacts RoundTrip OrderFacts
     RoundTripKeyed DecCorollaries Schema SchemaOf WithSchema.
Import ListNotations.
Local Open Scope N_scope.

(** * Structural equality of values *)
Section ValInd.
  Variable P : val -> Prop.
  Hypothesis HN : forall n, P (VN n).
  Hypothesis HL : forall l, Forall P l -> P (VL l).
  Hypothesis HV : forall i x, P x -> P (VV i x).
  Fixpoint val_ind' (v : val) : P v :=
    match v with
    | VN n => HN n
    | VL l => HL l ((fix go (l : list val) : Forall P l :=
                       match l with
                       | [] => Forall_nil P
                       | x :: r => Forall_cons x (val_ind' x) (go r)
                       end) l)
    | VV i x => HV i x (val_ind' x)
    end.
End ValInd.

Lemma val_eqb_eq : forall a b, val_eqb a b = true -> a = b.
Proof.
  induction a as [n|l IH|i x IH] using val_ind'; intros [m|lb|j y] H; cbn [val_eqb] in H; try discriminate.
  - apply N.eqb_eq in H. now subst.
  - f_equal. revert lb H. induction IH as [|x r Hx Hr IHr]; intros [|y rb] H; try discriminate; [reflexivity|].
    apply andb_true_iff in H. destruct H as [H1 H2]. f_equal; [now apply Hx|now apply IHr].
  - apply andb_true_iff in H. destruct H as [H1 H2]. apply N.eqb_eq in H1. subst. f_equal. now apply IH.
Qed.

Lemma val_eqb_refl : forall a, val_eqb a a = true.
Proof.
  induction a as [n|l IH|i x IH] using val_ind'; cbn [val_eqb].
  - apply N.eqb_refl.
  - induction IH as [|x r Hx Hr IHr]; [reflexivity|]. now rewrite Hx, IHr.
  - now rewrite N.eqb_refl, IH.
Qed.

(** * A pair *)
Lemma enc_pair a b x y b1 b2 :
  enc a x = Ok b1 -> enc b y = Ok b2 -> enc (TProd PTuple [a; b]) (VL [x; y]) = Ok (b1 ++ b2).
Proof.
  intros H1 H2. apply enc_ok_iff in H1, H2. destruct H1 as [O1 ->]. destruct H2 as [O2 ->].
  apply enc_ok_iff. cbn [ser prod_skips pad_false length fields_out].
  assert (Od : snd (ser b y >> done) = None) by (apply andthen_ok_intro; [exact O2|reflexivity]).
  split.
  - apply andthen_ok_intro; assumption.
  - rewrite andthen_bytes by exact O1. rewrite andthen_bytes by exact O2. rewrite sbytes_done, app_nil_r. reflexivity.
Qed.

(** what [from_slice] of a pair does *)
Lemma from_slice_pair_inv c a b bs p :
  from_slice c (TProd PTuple [a; b]) bs = Ok p ->
  exists x y r1, p = VL [x; y] /\ dec_slice c a bs = Ok (x, r1) /\ dec_slice c b r1 = Ok (y, []).
Proof.
  unfold from_slice, try_from_slice, dec_slice. cbn [dec prod_skips pad_false length dec_fields].
  intros H. apply bind_ok in H. destruct H as ([v rest] & H1 & H2).
  apply bind_ok in H1. destruct H1 as ([l s'] & H1 & H3). inversion H3; subst. clear H3.
  apply bind_ok in H1. destruct H1 as ([x r1] & Hx & H1).
  apply bind_ok in H1. destruct H1 as ([l2 r2] & H1 & H3). inversion H3; subst. clear H3.
  apply bind_ok in H1. destruct H1 as ([y r3] & Hy & H1).
  cbn [bind] in H1. inversion H1; subst. clear H1.
  destruct rest; inversion H2; subst. exists x, y, r1. repeat split; assumption.
Qed.

Lemma from_slice_not_ok_is_invalid c t bs :
  (exists v, from_slice c t bs = Ok v) \/ (exists m, from_slice c t bs = Err InvalidData m).
Proof.
  destruct (from_slice c t bs) as [v|k m|w] eqn:E.
  - left. eauto.
  - right. unfold from_slice in E. rewrite (try_from_slice_err_kind _ _ _ _ _ E). eauto.
  - exfalso. unfold from_slice, try_from_slice in E.
    destruct (dec_slice c t bs) as [[v r]|k m|w'] eqn:D; cbn [bind] in E.
    + destruct r; discriminate.
    + discriminate.
    + exact (dec_no_panic _ _ _ _ D).
Qed.

(** * The container value is its own logical value *)
Lemma key_ok_defpair : key_ok (TProd PTuple [t_string; ty_definition]) = true.
Proof. reflexivity. Qed.

Lemma logical_container cv : has_ty ty_container cv = true -> logical ty_container cv = cv.
Proof.
  intros H. unfold ty_container in *. destruct cv as [|l|]; cbn [has_ty] in H; try discriminate.
  destruct l as [|r [|m [|? ?]]]; cbn [all2] in H; try discriminate;
    try (exfalso; repeat (apply andb_true_iff in H; destruct H as [_ H]); discriminate).
  apply andb_true_iff in H. destruct H as [Hr H]. apply andb_true_iff in H. destruct H as [Hm _].
  assert (Em : logical ty_defmap m = m).
  { unfold ty_defmap in *. pose proof key_ok_defpair as Hk.
    set (pt := TProd PTuple [t_string; ty_definition]) in *.
    destruct m as [|lm|]; cbn [has_ty] in Hm; try discriminate.
    apply andb_true_iff in Hm. destruct Hm as [Hm _]. cbn [logical]. f_equal.
    apply map_logical_id; [intros _ v0 Hv0; now apply logical_key_id|exact Hk|exact Hm]. }
  cbn [logical prod_skips pad_false length map_fields]. rewrite Em. reflexivity.
Qed.

Lemma wf_container : wf ty_container = true.
Proof. reflexivity. Qed.

(** * C17 *)
Section WithSchema.
  Variable c : cfg.

  (** what was written: the writer's container, then the value *)
  Lemma written t v bs :
    try_to_vec_with_schema t v = Ok bs ->
    exists sc b1 b2, schema_of t = Ok sc /\ enc ty_container (container_to_val sc) = Ok b1 /\
                     enc t v = Ok b2 /\ bs = b1 ++ b2.
  Proof.
    unfold try_to_vec_with_schema, to_vec. intros H.
    apply bind_ok in H. destruct H as (sc & H0 & H). apply bind_ok in H. destruct H as (b1 & H1 & H).
    apply bind_ok in H. destruct H as (b2 & H2 & H). inversion H; subst. eauto 8.
  Qed.

  Theorem with_schema_round_trip t v bs sc :
    wf t = true -> has_ty t v = true -> schema_of t = Ok sc ->
    has_ty ty_container (container_to_val sc) = true ->
    try_to_vec_with_schema t v = Ok bs ->
    try_from_slice_with_schema c t bs = Ok (logical t v).
  Proof.
    intros Hwf Hty Hsc Hcv H. destruct (written _ _ _ H) as (sc' & b1 & b2 & Hsc' & E1 & E2 & ->).
    rewrite Hsc in Hsc'. inversion Hsc'; subst sc'. clear Hsc'.
    unfold try_from_slice_with_schema.
    assert (Hw : wf (TProd PTuple [ty_container; t]) = true).
    { cbn [wf prod_arity_ok length prod_skips pad_false skips_ok forallb]. rewrite Hwf. reflexivity. }
    assert (Ht : has_ty (TProd PTuple [ty_container; t]) (VL [container_to_val sc; v]) = true).
    { cbn [has_ty all2]. now rewrite Hcv, Hty. }
    rewrite (from_slice_round_trip c _ _ _ Hw Ht (enc_pair _ _ _ _ _ _ E1 E2)). cbn [bind].
    cbn [logical prod_skips pad_false length map_fields]. rewrite (logical_container _ Hcv).
    rewrite Hsc. cbn [bind]. now rewrite val_eqb_refl.
  Qed.

  (** any input whose schema part does not decode to the reader's own container is rejected *)
  Theorem with_schema_corrupt t bs own :
    schema_of t = Ok own ->
    match try_from_slice_with_schema c t bs with
    | Ok v => exists s, from_slice c (TProd PTuple [ty_container; t]) bs = Ok (VL [s; v]) /\ s = container_to_val own
    | Err k _ => k = InvalidData
    | Panic _ => False
    end.
  Proof.
    intros Hown. unfold try_from_slice_with_schema.
    destruct (from_slice_not_ok_is_invalid c (TProd PTuple [ty_container; t]) bs) as [[p E]|[m E]]; rewrite E; cbn [bind]; [|reflexivity].
    destruct (from_slice_pair_inv _ _ _ _ _ E) as (x & y & r1 & -> & _ & _).
    rewrite Hown. cbn [bind].
    destruct (val_eqb (container_to_val own) x) eqn:Q; [|reflexivity].
    apply val_eqb_eq in Q. exists x. split; [reflexivity|now symmetry].
  Qed.

  Theorem with_schema_corrupt_rejected t bs own s o :
    schema_of t = Ok own ->
    from_slice c (TProd PTuple [ty_container; t]) bs = Ok (VL [s; o]) ->
    s <> container_to_val own ->
    try_from_slice_with_schema c t bs = Err InvalidData MSchemaMismatch.
  Proof.
    intros Hown E Hne. unfold try_from_slice_with_schema. rewrite E. cbn [bind]. rewrite Hown. cbn [bind].
    destruct (val_eqb (container_to_val own) s) eqn:Q; [|reflexivity].
    apply val_eqb_eq in Q. congruence.
  Qed.

  (** reading with a type whose schema differs *)
  Theorem with_schema_foreign t u v bs sct scu :
    schema_of t = Ok sct -> schema_of u = Ok scu ->
    has_ty ty_container (container_to_val sct) = true ->
    container_to_val sct <> container_to_val scu ->
    try_to_vec_with_schema t v = Ok bs ->
    try_from_slice_with_schema c u bs = Err InvalidData MSchemaMismatch \/
    exists m, from_slice c (TProd PTuple [ty_container; u]) bs = Err InvalidData m /\
              try_from_slice_with_schema c u bs = Err InvalidData m.
  Proof.
    intros Ht Hu Hcv Hne H. destruct (written _ _ _ H) as (sc' & b1 & b2 & Hsc' & E1 & E2 & ->).
    rewrite Ht in Hsc'. inversion Hsc'; subst sc'. clear Hsc'.
    destruct (from_slice_not_ok_is_invalid c (TProd PTuple [ty_container; u]) (b1 ++ b2)) as [[p E]|[m E]].
    - left. destruct (from_slice_pair_inv _ _ _ _ _ E) as (x & y & r1 & -> & Dx & _).
      rewrite (round_trip c ty_container _ b1 wf_container Hcv E1 b2), (logical_container _ Hcv) in Dx.
      inversion Dx; subst x r1. clear Dx.
      apply (with_schema_corrupt_rejected u _ scu _ _ Hu E). congruence.
    - right. exists m. split; [exact E|]. unfold try_from_slice_with_schema. now rewrite E.
  Qed.

  (** the container codec round-trips *)
  Theorem container_codec_round_trip sc bs :
    has_ty ty_container (container_to_val sc) = true ->
    to_vec ty_container (container_to_val sc) = Ok bs ->
    from_slice c ty_container bs = Ok (container_to_val sc).
  Proof.
    intros Hcv E. rewrite (from_slice_round_trip c _ _ _ wf_container Hcv E). now rewrite logical_container.
  Qed.
End WithSchema.
