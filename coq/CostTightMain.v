(** C07, tight bounds, second part: the constants by recursion on the type, the main
    induction, and the statements about the cost record.

    With e = size_of of the element type, a = alpha (weight of a requested byte) and
    b = beta (weight of an element decode):
      S0 t : what a SUCCESSFUL decode of [t] may cost beyond S1 t * (bytes consumed)
      F0 t : what a FAILING decode of [t] may cost beyond S1 t * |input|
      S1 t : cost per input byte
      Vec<u8>, String, ...:  S0 = 0   F0 = a * 2^20                    S1 = 5a
      BytesMut:               S0 = 0   F0 = 4096a + b                    S1 = b + 4a
      Vec<T> (and the other collections):
                              S0 = 0   F0 = a * max 4096 e + b + F0 T    S1 = S0 T + b + S1 T + 4ae
      [u8; n]:                0, 0, 0
      [T; n]:                 S0 = n * (S0 T + b)   F0 = (n-1) * (S0 T + b) + b + F0 T   S1 = S1 T
      tuples / structs:       S0 = sum S0           F0 = max_k (S0 T1 + .. + S0 T(k-1) + F0 Tk)   S1 = max S1
      enums / Option / Result: maxima over the variants;  wrappers: as the wrapped type. *)
From Coq Require Import String.
From Coq Require Import List NArith Bool Lia.
From Borsh Require Import Bytes BytesFacts Result Loop LoopFacts Ty TyInd Ser De CodecFacts ParseFacts DecCorollaries
     Cost CostFacts CostLoops CostBasic CostBounds CostMain CostTight.
Import ListNotations.
Local Open Scope N_scope.

Fixpoint S0 (alpha beta : N) (sz : ty -> N) (t : ty) {struct t} : N :=
  match t with
  | TPrim _ | TUnit _ | TRaw _ | TText _ | TSeq _ _ => 0
  | TArray n t' => if is_u8 t' then 0 else n * (S0 alpha beta sz t' + beta)
  | TProd _ ts => fold_right (fun x a => S0 alpha beta sz x + a) 0 ts
  | TSum _ vs => fold_right (fun x a => N.max (S0 alpha beta sz x) a) 0 vs
  | TWrap _ t' => S0 alpha beta sz t'
  end.
Fixpoint F0 (alpha beta : N) (sz : ty -> N) (t : ty) {struct t} : N :=
  match t with
  | TPrim _ | TUnit _ | TRaw _ => 0
  | TText XBytesMut => alpha * 4096 + beta
  | TText _ => alpha * CHUNK
  | TSeq _ t' => if is_u8 t' then alpha * CHUNK else alpha * N.max 4096 (sz t') + beta + F0 alpha beta sz t'
  | TArray n t' => if is_u8 t' then 0 else if n =? 0 then 0 else (n - 1) * (S0 alpha beta sz t' + beta) + beta + F0 alpha beta sz t'
  | TProd _ ts => fold_right (fun x a => N.max (F0 alpha beta sz x) (S0 alpha beta sz x + a)) 0 ts
  | TSum _ vs => fold_right (fun x a => N.max (F0 alpha beta sz x) a) 0 vs
  | TWrap _ t' => F0 alpha beta sz t'
  end.
Fixpoint S1 (alpha beta : N) (sz : ty -> N) (t : ty) {struct t} : N :=
  match t with
  | TPrim _ | TUnit _ | TRaw _ => 0
  | TText XBytesMut => beta + 4 * alpha
  | TText _ => 5 * alpha
  | TSeq _ t' => if is_u8 t' then 5 * alpha else S0 alpha beta sz t' + beta + S1 alpha beta sz t' + 4 * (alpha * sz t')
  | TArray _ t' => S1 alpha beta sz t'
  | TProd _ ts => fold_right (fun x a => N.max (S1 alpha beta sz x) a) 0 ts
  | TSum _ vs => fold_right (fun x a => N.max (S1 alpha beta sz x) a) 0 vs
  | TWrap _ t' => S1 alpha beta sz t'
  end.

Section TightMain.
  Variables (alpha beta : N) (sz : ty -> N) (c : cfg).

  Notation tS0 := (S0 alpha beta sz).
  Notation tF0 := (F0 alpha beta sz).
  Notation tS1 := (S1 alpha beta sz).
  Notation tb := (tbound alpha beta).

  (** the struct / tuple field loop *)
  Lemma cdec_fields_tight ts :
    Forall (fun t => fam t = true -> tb (wire_pos t) (tS0 t) (tF0 t) (tS1 t) (cdec sz c t)) ts ->
    forallb (fun x => fam x) ts = true ->
    forall sk,
      tb (any_unskipped (fun x => wire_pos x) ts sk)
         (fold_right (fun x a => tS0 x + a) 0 ts)
         (fold_right (fun x a => N.max (tF0 x) (tS0 x + a)) 0 ts)
         (fold_right (fun x a => N.max (tS1 x) a) 0 ts)
         (cdec_fields (fun t' s => cdec sz c t' s) ts sk).
  Proof.
    induction 1 as [|t' tr Ht' Htr IH]; intros Hfam sk; cbn [cdec_fields any_unskipped fold_right forallb] in *.
    - apply tbound_ret.
    - apply andb_true_iff in Hfam. destruct Hfam as [Hf1 Hf2].
      set (sb := match sk with b :: _ => b | [] => false end).
      set (sr := match sk with _ :: r => r | [] => [] end).
      set (SS := fold_right (fun x a => tS0 x + a) 0 tr) in *.
      set (FF := fold_right (fun x a => N.max (tF0 x) (tS0 x + a)) 0 tr) in *.
      set (AA := fold_right (fun x a => N.max (tS1 x) a) 0 tr) in *.
      refine (tbound_bind' alpha beta (negb sb && wire_pos t') (any_unskipped (fun x => wire_pos x) tr sr)
                (tS0 t') (tF0 t') SS FF (N.max (tS1 t') AA) _ _ _ _).
      + destruct sb; cbn [negb andb].
        * eapply tbound_weaken; [| | | |apply tbound_ret]; try lia; auto.
        * eapply tbound_weaken; [| | | |apply (Ht' Hf1)]; try lia; auto.
      + intros v. apply tbound_map.
        eapply tbound_weaken; [| | | |apply (IH Hf2 sr)]; try lia; auto.
  Qed.

  (** the variant dispatch *)
  Lemma nth_or_tight vs d :
    Forall (fun t => fam t = true -> tb (wire_pos t) (tS0 t) (tF0 t) (tS1 t) (cdec sz c t)) vs ->
    forallb (fun x => fam x) vs = true ->
    forall m,
      tb false
         (fold_right (fun x a => N.max (tS0 x) a) 0 vs)
         (fold_right (fun x a => N.max (tF0 x) a) 0 vs)
         (fold_right (fun x a => N.max (tS1 x) a) 0 vs)
         (fun s1 => nth_or (fun t' => cdec sz c t' s1) (mlift (Err InvalidData d)) vs m).
  Proof.
    induction 1 as [|x r Hx Hr IH]; intros Hfam m; cbn [fold_right forallb] in *.
    - destruct m; cbn [nth_or]; (eapply tbound_weaken; [| | | |apply (tbound_fail alpha beta InvalidData d)]; try lia; auto).
    - apply andb_true_iff in Hfam. destruct Hfam as [Hf1 Hf2].
      destruct m as [|m]; cbn [nth_or].
      + eapply tbound_weaken; [| | | |apply (Hx Hf1)]; try lia; auto; try discriminate.
      + eapply tbound_weaken; [| | | |apply (IH Hf2 m)]; try lia; auto.
  Qed.

  (** a successful decode never has a larger constant than a failing one *)
  Lemma S0_le_F0 t : tS0 t <= tF0 t.
  Proof.
    induction t as [p|u|k|k|k t' IH|n t' IH|k ts IH|k vs IH|w t' IH] using ty_ind'; cbn [S0 F0]; try lia.
    - destruct (is_u8 t'); [lia|]. destruct (N.eqb_spec n 0) as [->|Hn]; [lia|].
      assert (E : n * (tS0 t' + beta) = (n - 1) * (tS0 t' + beta) + (tS0 t' + beta)).
      { replace n with (n - 1 + 1) at 1 by lia. lia. }
      lia.
    - induction IH as [|x r Hx Hr IHr]; cbn [fold_right]; lia.
    - induction IH as [|x r Hx Hr IHr]; cbn [fold_right]; lia.
  Qed.

  Theorem cdec_tbound :
    sz_ok sz -> forall t, fam t = true -> tb (wire_pos t) (tS0 t) (tF0 t) (tS1 t) (cdec sz c t).
  Proof.
    intros Hsz. induction t as [p|u|k|k|k t' IH|n t' IH|k ts IH|k vs IH|w t' IH] using ty_ind'; intros Hfam.
    - (* prim *)
      cbn [cdec wire_pos S0 F0 S1]. apply tbound_lift. intros bs a rest. cbn [dec].
      destruct (read_mapped slice_reader (N.of_nat (prim_width p)) bs) as [[b s']|? ?|?] eqn:E; cbn [bind]; try discriminate.
      apply read_mapped_len in E. destruct (prim_de_check p (unle b)); [discriminate|].
      intros H. inversion H; subst. pose proof (prim_width_pos p). cbn [bpos]. lia.
    - (* unit *)
      cbn [cdec wire_pos S0 F0 S1]. apply tbound_lift. intros bs a rest. cbn [dec].
      intros H. inversion H; subst. cbn [bpos]. lia.
    - (* raw *)
      cbn [cdec wire_pos S0 F0 S1]. apply tbound_lift. intros bs a rest. cbn [dec].
      destruct (read_mapped slice_reader (raw_len k) bs) as [[b s']|? ?|?] eqn:E; cbn [bind]; try discriminate.
      apply read_mapped_len in E. intros H. inversion H; subst. cbn [bpos]. destruct k; cbn [raw_len] in E; lia.
    - (* text *)
      assert (Hvec : tb true 0 (alpha * CHUNK) (5 * alpha)
                 (fun s => '(l, s') <<- cdec_vec 1 true (fun s => mlift (Panic P_ILLTYPED)) s ;;
                           v <<- mlift (text_post k l) ;; _ <<- emits (conv_text k (len l)) ;; mret (v, s'))).
      { apply (tbound_tail' alpha beta true _ _ _ _ (text_post k) (fun l => conv_text k (len l))).
        - apply (cdec_vec_tight alpha beta 0 0 0 1 true). discriminate.
        - lia.
        - intros l. apply conv_text_only. }
      destruct k; cbn [cdec wire_pos S0 F0 S1]; try exact Hvec.
      (* BytesMut: the 4 bytes of the length prefix pay for the 1-byte buffer of an empty one *)
      set (rd := fun s : bytes => mlift ('(b, s') <- read_u8 slice_reader s ;; Ok (VN b, s'))).
      assert (Hrd : tb true 0 0 0 rd).
      { apply tbound_lift. intros bs a rest. destruct (read_u8 slice_reader bs) as [[b s']|? ?|?] eqn:E; cbn [bind]; try discriminate.
        apply read_u8_len in E. intros H. inversion H; subst. cbn [bpos]. lia. }
      eapply tbound_weaken;
        [| | | |apply (tbound_prefix alpha beta 4 (alpha * 1) (alpha * 4096 + beta) (beta + 4 * alpha)
                         (read_u32 slice_reader)
                         (fun n s1 => '(l, s2) <<- cpush_loop 1 rd n s1 ;; mret (VL l, s2)))]; try lia; auto.
      + intros bs n s1 H. apply read_u32_len in H. lia.
      + intros n. apply tbound_map.
        eapply tbound_weaken; [| | | |apply (cpush_loop_tight alpha beta 0 0 0 1 rd n Hrd)]; try lia; auto.
        * destruct (n =? 0); lia.
    - (* seq *)
      cbn [cdec wire_pos S0 F0 S1]. cbn [fam] in Hfam.
      destruct (mem_zst (key_ty k t')) eqn:Ez.
      + eapply tbound_weaken; [| | | |apply (tbound_fail alpha beta InvalidData MZst)]; try lia; auto.
      + cbn [orb] in Hfam. apply andb_true_iff in Hfam. destruct Hfam as [Hwp Hft].
        apply (tbound_tail' alpha beta true _ _ _ _ (post c k (key_ty k t')) (fun l => conv_seq k (len l) (sz t'))).
        * apply (cdec_vec_tight alpha beta (tS0 t') (tF0 t') (tS1 t') (sz t') (is_u8 t')).
          intros _. split.
          -- specialize (IH Hft). rewrite Hwp in IH. exact IH.
          -- apply Hsz. now apply (mem_zst_key k).
        * lia.
        * intros l. apply conv_seq_only.
    - (* array *)
      cbn [cdec wire_pos S0 F0 S1]. cbn [fam] in Hfam.
      destruct (is_u8 t') eqn:Eu.
      + assert (Hwp : wire_pos t' = true) by (destruct t' as [[[] []| | | | | |]| | | | | | | |]; try discriminate; reflexivity).
        rewrite Hwp, andb_true_r.
        eapply tbound_weaken; [| | | |apply (tbound_lift alpha beta (negb (n =? 0)))]; try lia; auto.
        intros bs a rest. destruct (read_mapped slice_reader n bs) as [[b s']|? ?|?] eqn:E; cbn [bind]; try discriminate.
        apply read_mapped_len in E. intros H. inversion H; subst. destruct (N.eqb_spec n 0); cbn [negb bpos]; lia.
      + apply tbound_map. destruct (N.eqb_spec n 0) as [->|Hn0].
        * (* no iteration *)
          cbn [N.eqb negb andb]. intros bs. unfold crepeat. cbn [citerN]. rewrite mbind_ret_l.
          cbn [mret fst snd rev_append bpos]. rewrite mu_nil. split; lia.
        * cbn [orb] in Hfam. cbn [negb andb].
          eapply tbound_weaken; [| | | |apply (crepeat_array_tight alpha beta (wire_pos t') (tS0 t') (tF0 t') (tS1 t') (cdec sz c t') n n (IH Hfam))]; try lia; auto.
    - (* prod *)
      cbn [cdec wire_pos S0 F0 S1]. cbn [fam] in Hfam. apply tbound_map.
      apply cdec_fields_tight; assumption.
    - (* sum *)
      cbn [cdec wire_pos S0 F0 S1]. cbn [fam] in Hfam.
      set (SS := fold_right (fun x a => N.max (tS0 x) a) 0 vs).
      set (FF := fold_right (fun x a => N.max (tF0 x) a) 0 vs).
      set (AA := fold_right (fun x a => N.max (tS1 x) a) 0 vs).
      eapply tbound_weaken;
        [| | | |apply (tbound_bind' alpha beta true false 0 0 SS FF AA (fun s => mlift (read_u8 slice_reader s)))]; try lia; auto.
      + eapply tbound_weaken; [| | | |apply (tbound_lift alpha beta true (read_u8 slice_reader))]; try lia; auto.
        intros bs b s1 H. apply read_u8_len in H. cbn [bpos]. lia.
      + intros b. destruct (find_tag (sum_tags k) b 0) as [i|].
        * apply tbound_map. apply nth_or_tight; assumption.
        * eapply tbound_weaken; [| | | |apply (tbound_fail alpha beta InvalidData (bad_tag k b))]; try lia; auto.
    - (* wrap *)
      cbn [cdec wire_pos S0 F0 S1]. cbn [fam] in Hfam.
      apply (tbound_conv alpha beta _ _ _ _ _ (conv_wrap sz w t')); [exact (IH Hfam)|].
      intros v. apply conv_wrap_only.
  Qed.

  (** the tight constants are below the loose ones of CostMain.v *)
  Lemma tight_le_loose_all :
    sz_ok sz -> forall t, tS0 t <= K0 alpha beta sz t /\ tF0 t <= K0 alpha beta sz t /\ tS1 t <= K1 alpha beta sz t.
  Proof.
    intros Hsz t.
    induction t as [p|u|k|k|k t' IH|n t' IH|k ts IH|k vs IH|w t' IH] using ty_ind'; cbn [S0 F0 S1 K0 K1]; try lia.
    - (* text *)
      assert (alpha * CHUNK <= alpha * (CHUNK + 4096 + 1)) by (apply N.mul_le_mono_l; lia).
      assert (alpha * 4096 <= alpha * (CHUNK + 4096 + 1)) by (apply N.mul_le_mono_l; lia).
      destruct k; lia.
    - (* seq *)
      destruct IH as (I1 & I2 & I3).
      assert (alpha * CHUNK <= alpha * (CHUNK + 4096 + sz t')) by (apply N.mul_le_mono_l; lia).
      assert (alpha * N.max 4096 (sz t') <= alpha * (CHUNK + 4096 + sz t')) by (apply N.mul_le_mono_l; lia).
      destruct (is_u8 t') eqn:Eu; [|lia].
      assert (Hz : mem_zst t' = false) by (destruct t' as [[[] []| | | | | |]| | | | | | | |]; try discriminate; reflexivity).
      pose proof (Hsz t' Hz) as Hpos.
      assert (alpha * 1 <= alpha * sz t') by (apply N.mul_le_mono_l; lia). lia.
    - (* array *)
      destruct IH as (I1 & I2 & I3).
      destruct (is_u8 t'); [lia|].
      assert (n * (tS0 t' + beta) <= n * (K0 alpha beta sz t' + beta)) by (apply N.mul_le_mono_l; lia).
      split; [lia|]. split; [|lia].
      destruct (N.eqb_spec n 0) as [->|Hn]; [lia|].
      assert (E : n * (K0 alpha beta sz t' + beta) = (n - 1) * (K0 alpha beta sz t' + beta) + (K0 alpha beta sz t' + beta)).
      { replace n with (n - 1 + 1) at 1 by lia. lia. }
      assert ((n - 1) * (tS0 t' + beta) <= (n - 1) * (K0 alpha beta sz t' + beta)) by (apply N.mul_le_mono_l; lia).
      lia.
    - induction IH as [|x r Hx Hr IHr]; cbn [fold_right]; [lia|]. destruct Hx as (I1 & I2 & I3). lia.
    - induction IH as [|x r Hx Hr IHr]; cbn [fold_right]; [lia|]. destruct Hx as (I1 & I2 & I3). lia.
  Qed.
End TightMain.

(** * The statements about the cost record *)
Lemma tbound_total alpha beta {A} pos s0 f0 a1 (p : cparser A) bs :
  tbound alpha beta pos s0 f0 a1 p -> s0 <= f0 -> mu alpha beta (fst (p bs)) <= f0 + a1 * len bs.
Proof.
  intros H Hsf. specialize (H bs). destruct (snd (p bs)) as [[a rest]|k e|w]; try exact H. lia.
Qed.

Lemma tbound_success alpha beta {A} pos s0 f0 a1 (p : cparser A) bs v rest :
  tbound alpha beta pos s0 f0 a1 p -> snd (p bs) = Ok (v, rest) ->
  len rest <= len bs /\ mu alpha beta (fst (p bs)) <= s0 + a1 * (len bs - len rest).
Proof.
  intros H E. specialize (H bs). rewrite E in H. destruct H as [Hl Hm].
  assert (Hle : len rest <= len bs) by lia. split; [exact Hle|].
  rewrite N.mul_sub_distr_l.
  assert (a1 * len rest <= a1 * len bs) by (apply N.mul_le_mono_l; exact Hle). lia.
Qed.

(** Allocation, tight: the total of all requests is at most F0 + S1 * |input|; nested
    collections pay the 1 MiB of a hostile [Vec<u8>] length prefix ONCE (in F0). *)
Theorem cdec_alloc_tight sz c t bs :
  sz_ok sz -> fam t = true ->
  total_requested (cost_of (fst (cdec sz c t bs))) <= F0 1 0 sz t + S1 1 0 sz t * len bs.
Proof.
  intros Hsz Hf. cbn [cost_of total_requested].
  pose proof (tbound_total 1 0 _ _ _ _ _ bs (cdec_tbound 1 0 sz c Hsz t Hf) (S0_le_F0 1 0 sz t)) as H.
  rewrite mu_split in H. lia.
Qed.

Theorem cdec_work_tight sz c t bs :
  sz_ok sz -> fam t = true ->
  elems (cost_of (fst (cdec sz c t bs))) <= F0 0 1 sz t + S1 0 1 sz t * len bs.
Proof.
  intros Hsz Hf. cbn [cost_of elems].
  pose proof (tbound_total 0 1 _ _ _ _ _ bs (cdec_tbound 0 1 sz c Hsz t Hf) (S0_le_F0 0 1 sz t)) as H.
  rewrite mu_split in H. lia.
Qed.

(** On success: at most S0 + S1 * (bytes consumed); S0 = 0 for every collection and text type. *)
Theorem cdec_alloc_success sz c t bs v rest :
  sz_ok sz -> fam t = true -> snd (cdec sz c t bs) = Ok (v, rest) ->
  len rest <= len bs /\
  total_requested (cost_of (fst (cdec sz c t bs))) <= S0 1 0 sz t + S1 1 0 sz t * (len bs - len rest).
Proof.
  intros Hsz Hf E. cbn [cost_of total_requested].
  destruct (tbound_success 1 0 _ _ _ _ _ bs v rest (cdec_tbound 1 0 sz c Hsz t Hf) E) as [Hl H].
  rewrite mu_split in H. split; [exact Hl|lia].
Qed.

Theorem cdec_work_success sz c t bs v rest :
  sz_ok sz -> fam t = true -> snd (cdec sz c t bs) = Ok (v, rest) ->
  len rest <= len bs /\
  elems (cost_of (fst (cdec sz c t bs))) <= S0 0 1 sz t + S1 0 1 sz t * (len bs - len rest).
Proof.
  intros Hsz Hf E. cbn [cost_of elems].
  destruct (tbound_success 0 1 _ _ _ _ _ bs v rest (cdec_tbound 0 1 sz c Hsz t Hf) E) as [Hl H].
  rewrite mu_split in H. split; [exact Hl|lia].
Qed.

Theorem tight_le_loose alpha beta sz t :
  sz_ok sz -> F0 alpha beta sz t <= K0 alpha beta sz t /\ S1 alpha beta sz t <= K1 alpha beta sz t.
Proof. intros Hsz. destruct (tight_le_loose_all alpha beta sz Hsz t) as (_ & H1 & H2). split; assumption. Qed.
