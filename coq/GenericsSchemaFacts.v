(** Proofs about GenericsSchema.v: which parameters and predicates a variant's inner struct keeps. *)
From Coq Require Import String List Bool Arith Btauto.
From Borsh Require Import Item Generics GenericsSamples GenericsFacts GenericsSchema.
Import ListNotations.
Local Open Scope string_scope.
Local Open Scope list_scope.

Lemma contains_key_push : forall P k t m,
  contains_key P (amap_push k t m) = (k =? P) || contains_key P m.
Proof.
  intros P k t m. unfold contains_key. induction m as [|[k' v] r IH]; cbn [amap_push amap_get].
  - rewrite (String.eqb_sym P k). destruct (k =? P); reflexivity.
  - destruct (k =? k') eqn:Hkk; cbn [amap_get].
    + apply String.eqb_eq in Hkk. subst k'. rewrite (String.eqb_sym k P). destruct (P =? k); reflexivity.
    + destruct (P =? k') eqn:Hpk.
      * apply String.eqb_eq in Hpk. subst k'. rewrite Hkk. reflexivity.
      * exact IH.
Qed.

Lemma top_level_key : forall v t P,
  contains_key P (associated_type_params_usage (visit_type_top_level v t))
  = contains_key P (associated_type_params_usage v) || (mem P (all_type_params v) && assoc_of P t).
Proof.
  intros v t P. unfold visit_type_top_level, assoc_of. cbn [associated_type_params_usage].
  destruct (punctuated_head t) as [id|]; [|rewrite andb_false_r, orb_false_r; reflexivity].
  destruct (id =? P) eqn:Hid.
  - apply String.eqb_eq in Hid. subst id. destruct (mem P (all_type_params v)).
    + cbn [param_associated_type_insert associated_type_params_usage andb]. rewrite contains_key_push, String.eqb_refl.
      cbn. rewrite orb_true_r. reflexivity.
    + cbn [andb]. rewrite orb_false_r. reflexivity.
  - rewrite andb_false_r, orb_false_r. destruct (mem id (all_type_params v)); [|reflexivity].
    cbn [param_associated_type_insert associated_type_params_usage]. rewrite contains_key_push, Hid. reflexivity.
Qed.

Lemma visit_fields_all : forall fs v, all_type_params (fold_left visit_field fs v) = all_type_params v.
Proof.
  induction fs as [|f fs IH]; intros v; cbn [fold_left]; [reflexivity|]. rewrite IH. apply top_level_all.
Qed.
Lemma visit_fields_rel : forall P fs v,
  mem P (relevant_type_params (fold_left visit_field fs v))
  = mem P (relevant_type_params v) || (mem P (all_type_params v) && existsb (fun f => occurs P (gf_ty f)) fs).
Proof.
  intros P. induction fs as [|f fs IH]; intros v; cbn [fold_left existsb].
  - rewrite andb_false_r, orb_false_r. reflexivity.
  - rewrite IH. unfold visit_field. rewrite top_level_rel, top_level_all. btauto.
Qed.
Lemma visit_fields_key : forall P fs v,
  contains_key P (associated_type_params_usage (fold_left visit_field fs v))
  = contains_key P (associated_type_params_usage v) || (mem P (all_type_params v) && existsb (fun f => assoc_of P (gf_ty f)) fs).
Proof.
  intros P. induction fs as [|f fs IH]; intros v; cbn [fold_left existsb].
  - rewrite andb_false_r, orb_false_r. reflexivity.
  - rewrite IH. unfold visit_field. rewrite top_level_key, top_level_all. btauto.
Qed.

Lemma push_param_eq : forall acc p, push_param acc p = set_insert p acc.
Proof. reflexivity. Qed.
Lemma mem_cons : forall P a ps, mem P (a :: ps) = (P =? a) || mem P ps.
Proof. reflexivity. Qed.

Lemma process_for_params_mem : forall f P,
  mem P (process_for_params f)
  = mem P (all_type_params f) && (mem P (relevant_type_params f) || contains_key P (associated_type_params_usage f)).
Proof.
  intros f P. unfold process_for_params.
  assert (H : forall ps acc,
    mem P (fold_left (fun acc param =>
                        let acc := if mem param (relevant_type_params f) then push_param acc param else acc in
                        if contains_key param (associated_type_params_usage f) then push_param acc param else acc) ps acc)
    = mem P acc || (mem P ps && (mem P (relevant_type_params f) || contains_key P (associated_type_params_usage f)))).
  { induction ps as [|a ps IH]; intros acc; cbn [fold_left].
    - cbn. rewrite orb_false_r. reflexivity.
    - rewrite IH, mem_cons. cbv zeta. rewrite !push_param_eq.
      destruct (P =? a) eqn:Hpa.
      + apply String.eqb_eq in Hpa. subst a.
        destruct (mem P (relevant_type_params f)); destruct (contains_key P (associated_type_params_usage f));
          rewrite ?mem_set_insert, ?String.eqb_refl; btauto.
      + destruct (mem a (relevant_type_params f)); destruct (contains_key a (associated_type_params_usage f));
          rewrite ?mem_set_insert, ?Hpa; cbn [orb]; reflexivity. }
  rewrite H. cbn [mem existsb orb]. reflexivity.
Qed.

(** what the unconditional visitor finds of [P] in a variant's fields *)
Definition found_in (P : string) (fs : list gfield) : bool :=
  existsb (fun f => occurs P (gf_ty f)) fs || existsb (fun f => assoc_of P (gf_ty f)) fs.

Lemma variant_params_mem : forall it v P,
  mem P (variant_params it v) = mem P (type_params (gi_params it)) && found_in P (gv_fields v).
Proof.
  intros it v P. unfold variant_params, found_in.
  rewrite process_for_params_mem, visit_fields_all, visit_fields_rel, visit_fields_key.
  cbn [finder_new all_type_params relevant_type_params associated_type_params_usage].
  rewrite type_params_without_defaults. cbn [mem existsb contains_key amap_get orb]. btauto.
Qed.

Lemma type_param_mem : forall id d ps, In (GPType id d) ps -> mem id (type_params ps) = true.
Proof.
  intros id d ps H. apply mem_In. unfold type_params. apply in_flat_map. exists (GPType id d).
  split; [exact H|left; reflexivity].
Qed.

(** The inner struct declares the lifetimes and consts of the enum and exactly those type
    parameters the visitor finds in the variant's fields (all fields, skipped or not), in order. *)
Theorem inner_params : forall it v,
  fst (inner_struct_generics it v)
  = filter (fun p => match p with GPType id _ => found_in id (gv_fields v) | _ => true end)
           (without_defaults (gi_params it)).
Proof.
  intros it v. unfold inner_struct_generics, filter_used_params. cbn [fst].
  apply filter_ext_in. intros [id d| |] Hin; [|reflexivity|reflexivity].
  rewrite variant_params_mem. rewrite <- (type_params_without_defaults (gi_params it)).
  rewrite (type_param_mem _ _ _ Hin). reflexivity.
Qed.

Lemma type_params_filter : forall (keep : string -> bool) ps,
  type_params (filter (fun p => match p with GPType id _ => keep id | _ => true end) ps)
  = filter keep (type_params ps).
Proof.
  intros keep. unfold type_params. induction ps as [|p ps IH]; cbn [filter flat_map]; [reflexivity|].
  destruct p as [id d| |]; cbn [flat_map app filter].
  - destruct (keep id); cbn [flat_map app]; rewrite IH; reflexivity.
  - exact IH.
  - exact IH.
Qed.

Theorem inner_type_params : forall it v,
  type_params (gi_params (inner_struct it v))
  = filter (fun id => found_in id (gv_fields v)) (type_params (gi_params it)).
Proof.
  intros it v. cbn [inner_struct gi_params]. rewrite inner_params, type_params_filter, type_params_without_defaults.
  reflexivity.
Qed.

(** Every type parameter written as a type (outside PhantomData / macros) in a field of the
    variant is declared by the inner struct. *)
Theorem inner_scope_partial : forall it v f P,
  In f (gv_fields v) -> In P (type_params (gi_params it)) -> occurs P (gf_ty f) = true ->
  In P (type_params (gi_params (inner_struct it v))).
Proof.
  intros it v f P Hf HP Ho. rewrite inner_type_params. apply filter_In. split; [exact HP|].
  unfold found_in. apply orb_true_iff. left. apply existsb_exists. exists f. tauto.
Qed.

(** The property whose violation was F9: a where-predicate the inner struct keeps names no type
    parameter of the enum that the inner struct does not declare. *)
Theorem inner_where_closed : forall it v p P,
  In p (gi_where (inner_struct it v)) ->
  In P (type_params (gi_params it)) ->
  In P (ident_toks (toks_pred p)) ->
  In P (type_params (gi_params (inner_struct it v))).
Proof.
  intros it v p P Hp HP Htok.
  cbn [inner_struct gi_where] in Hp. unfold inner_struct_generics, filter_used_params in Hp. cbn [snd] in Hp.
  apply filter_In in Hp. destruct Hp as [_ Hkeep].
  rewrite inner_type_params. apply filter_In. split; [exact HP|].
  destruct (found_in P (gv_fields v)) eqn:Hfound; [reflexivity|exfalso].
  assert (Hdropped : mem P (filter (fun id => negb (mem id (variant_params it v)))
                                   (type_params (without_defaults (gi_params it)))) = true).
  { apply mem_In. apply filter_In. rewrite type_params_without_defaults. split; [exact HP|].
    rewrite variant_params_mem, Hfound, andb_false_r. reflexivity. }
  assert (Hment : mentions_dropped_param p (filter (fun id => negb (mem id (variant_params it v)))
                                                  (type_params (without_defaults (gi_params it)))) = true).
  { unfold mentions_dropped_param. apply existsb_exists. unfold ident_toks in Htok.
    apply in_flat_map in Htok. destruct Htok as [k [Hk Hin]]. exists k. split; [exact Hk|].
    destruct k as [s|s]; [|destruct Hin]. destruct Hin as [->|[]]. exact Hdropped. }
  destruct p as [b tr|b bs|s].
  - rewrite Hment in Hkeep. rewrite andb_false_r in Hkeep. discriminate.
  - rewrite Hment in Hkeep. rewrite andb_false_r in Hkeep. discriminate.
  - cbn in Htok. destruct Htok.
Qed.

(** ... and every kept type predicate is about a declared parameter. *)
Theorem inner_where_relevant : forall it v p,
  In p (gi_where (inner_struct it v)) ->
  In p (gi_where it) /\
  match p with
  | WLifetime _ => True
  | WUser b _ | WBound b _ => type_contains_some_param b (variant_params it v) = true
  end.
Proof.
  intros it v p Hp. cbn [inner_struct gi_where] in Hp. unfold inner_struct_generics, filter_used_params in Hp.
  cbn [snd] in Hp. apply filter_In in Hp. destruct Hp as [Hin Hkeep]. split; [exact Hin|].
  destruct p; [apply andb_prop in Hkeep; tauto|apply andb_prop in Hkeep; tauto|exact I].
Qed.

(** The declaration of a derived generic item lists the declarations of exactly the documented
    bounded types, in the order of the generics. *)
Theorem schema_declaration_documented : forall decl_of it,
  schema_declaration decl_of it
  = declaration (gi_name it)
      (map decl_of (documented_types (type_params (gi_params it)) infers_schema schema_explicit (all_fields it))).
Proof. intros decl_of it. unfold schema_declaration. rewrite schema_declaration_params_documented. reflexivity. Qed.

(** * Refuted: the inner struct does NOT declare every type parameter its fields name.
    [enum E<T> { A(PhantomData<T>), B(u8) }]: the parameter list of [EA] is computed with the
    bound-inference visitor, which ignores [PhantomData<..>] on purpose; [struct EA(PhantomData<T>);]
    is emitted without [<T>] (rustc: E0401). *)
Theorem inner_scope_refuted :
  exists it vs v f P,
    gi_body it = GEnum vs /\ In v vs /\ In f (gv_fields v) /\ In P (type_params (gi_params it)) /\
    uses P (gf_ty f) = true /\
    ~ In P (type_params (gi_params (inner_struct it v))).
Proof.
  exists phantom_enum. eexists. eexists. eexists. exists "T".
  split; [reflexivity|]. split; [left; reflexivity|]. split; [left; reflexivity|].
  split; [left; reflexivity|]. split; [vm_compute; reflexivity|].
  vm_compute. tauto.
Qed.

(** [inner_scope_ok] decides exactly the statement refuted in general by [inner_scope_refuted]. *)
Lemma inner_scope_ok_spec it v :
  inner_scope_ok it v = true <->
  (forall P f, In P (type_params (gi_params it)) -> In f (gv_fields v) -> uses P (gf_ty f) = true ->
               In P (type_params (gi_params (inner_struct it v)))).
Proof.
  unfold inner_scope_ok. rewrite forallb_forall. split.
  - intros H P f HP Hf Hu. specialize (H P HP). rewrite forallb_forall in H. specialize (H f Hf).
    rewrite Hu in H. cbn [negb orb] in H. apply existsb_exists in H. destruct H as (Q & HQ & E).
    apply String.eqb_eq in E. now subst Q.
  - intros H P HP. rewrite forallb_forall. intros f Hf.
    destruct (uses P (gf_ty f)) eqn:Hu; [|reflexivity]. cbn [negb orb].
    apply existsb_exists. exists P. split; [eauto|apply String.eqb_refl].
Qed.
