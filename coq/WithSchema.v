(** [BorshSchemaContainer]'s own wire format as a term of the type universe, and the two
    helpers of borsh/src/schema_helpers.rs.  Definitions only.

    Wire format (schema.rs): [declaration : String], then
    [definitions : BTreeMap<String, Definition>]; [Definition] and [Fields] are derived
    enums without explicit discriminants (ordinal tags 0..4 / 0..2);
    [length_range : RangeInclusive<u64>] is (start, end). *)
From Coq Require Import String Ascii List NArith ZArith Bool.
From Borsh Require Import Bytes Result Ty Ser De Entry Schema SchemaOf.
Import ListNotations.
Local Open Scope string_scope.
Local Open Scope N_scope.

Definition t_u8 : ty := TPrim (PInt false W1).
Definition t_u64 : ty := TPrim (PInt false W8).
Definition t_i64 : ty := TPrim (PInt true W8).
Definition t_string : ty := TText XString.

Definition ty_fields : ty :=
  TSum (KEnum "Fields" ["NamedFields"; "UnnamedFields"; "Empty"] [0; 1; 2])
    [TProd (PVariant [] [false]) [TSeq SVec (TProd PTuple [t_string; t_string])];
     TProd (PVariant [] [false]) [TSeq SVec t_string];
     TProd (PVariant [] []) []].

Definition ty_definition : ty :=
  TSum (KEnum "Definition" ["Primitive"; "Sequence"; "Tuple"; "Enum"; "Struct"] [0; 1; 2; 3; 4])
    [TProd (PVariant [] [false]) [t_u8];
     TProd (PVariant ["length_width"; "length_range"; "elements"] [false; false; false])
       [t_u8; TProd (PRange RRangeInclusive) [t_u64; t_u64]; t_string];
     TProd (PVariant ["elements"] [false]) [TSeq SVec t_string];
     TProd (PVariant ["tag_width"; "variants"] [false; false])
       [t_u8; TSeq SVec (TProd PTuple [t_i64; t_string; t_string])];
     TProd (PVariant ["fields"] [false]) [ty_fields]].

Definition ty_defmap : ty := TSeq SBTreeMap (TProd PTuple [t_string; ty_definition]).

Definition ty_container : ty :=
  TProd (PStruct "BorshSchemaContainer" ["declaration"; "definitions"] [false; false])
    [t_string; ty_defmap].

(** * Containers as values of [ty_container] *)
Fixpoint str_ns (s : string) : list N :=
  match s with
  | EmptyString => []
  | String a r => N_of_ascii a :: str_ns r
  end.
Definition str_val (s : string) : val := VL (map VN (str_ns s)).
Definition i64_val (z : Z) : val := VN (z_to_n (z mod 2 ^ 64)%Z).
Definition strs_val (l : list string) : val := VL (map str_val l).

Definition fields_val (fs : fields) : val :=
  match fs with
  | NamedFields l => VV 0 (VL [VL (map (fun p => VL [str_val (fst p); str_val (snd p)]) l)])
  | UnnamedFields l => VV 1 (VL [strs_val l])
  | EmptyFields => VV 2 (VL [])
  end.
Definition def_val (d : definition) : val :=
  match d with
  | Primitive n => VV 0 (VL [VN n])
  | Sequence lw lo hi el => VV 1 (VL [VN lw; VL [VN lo; VN hi]; str_val el])
  | Tuple els => VV 2 (VL [strs_val els])
  | Enum tw vs =>
      VV 3 (VL [VN tw; VL (map (fun v => VL [i64_val (fst (fst v)); str_val (snd (fst v)); str_val (snd v)]) vs)])
  | Struct fs => VV 4 (VL [fields_val fs])
  end.
Definition container_to_val (c : container) : val :=
  VL [str_val (root c); VL (map (fun kv => VL [str_val (fst kv); def_val (snd kv)]) (defs c))].

(** the inverse, on values of the right shape *)
Fixpoint ns_str (l : list val) : option string :=
  match l with
  | [] => Some EmptyString
  | VN n :: r => match ns_str r with Some s => Some (String (ascii_of_N n) s) | None => None end
  | _ :: _ => None
  end.
Definition val_str (v : val) : option string := match v with VL l => ns_str l | _ => None end.
Fixpoint opt_all {A B} (f : A -> option B) (l : list A) : option (list B) :=
  match l with
  | [] => Some []
  | x :: r => match f x, opt_all f r with Some y, Some ys => Some (y :: ys) | _, _ => None end
  end.
Definition val_strs (v : val) : option (list string) :=
  match v with VL l => opt_all val_str l | _ => None end.
Definition val_i64 (v : val) : option Z :=
  match v with
  | VN n => Some (if n <? 2 ^ 63 then z_of_n n else (z_of_n n - 2 ^ 64)%Z)
  | _ => None
  end.
Definition val_fields (v : val) : option fields :=
  match v with
  | VV 0 (VL [VL l]) =>
      match opt_all (fun p => match p with
                              | VL [a; b] => match val_str a, val_str b with
                                             | Some x, Some y => Some (x, y) | _, _ => None end
                              | _ => None end) l with
      | Some fs => Some (NamedFields fs) | None => None end
  | VV 1 (VL [l]) => match val_strs l with Some fs => Some (UnnamedFields fs) | None => None end
  | VV 2 (VL []) => Some EmptyFields
  | _ => None
  end.
Definition val_def (v : val) : option definition :=
  match v with
  | VV 0 (VL [VN n]) => Some (Primitive n)
  | VV 1 (VL [VN lw; VL [VN lo; VN hi]; el]) =>
      match val_str el with Some e => Some (Sequence lw lo hi e) | None => None end
  | VV 2 (VL [els]) => match val_strs els with Some l => Some (Tuple l) | None => None end
  | VV 3 (VL [VN tw; VL vs]) =>
      match opt_all (fun p => match p with
                              | VL [d; n; dc] => match val_i64 d, val_str n, val_str dc with
                                                 | Some x, Some y, Some z => Some (x, y, z) | _, _, _ => None end
                              | _ => None end) vs with
      | Some l => Some (Enum tw l) | None => None end
  | VV 4 (VL [fs]) => match val_fields fs with Some f => Some (Struct f) | None => None end
  | _ => None
  end.
Definition val_to_container (v : val) : option container :=
  match v with
  | VL [r; VL ds] =>
      match val_str r,
            opt_all (fun p => match p with
                              | VL [k; d] => match val_str k, val_def d with
                                             | Some x, Some y => Some (x, y) | _, _ => None end
                              | _ => None end) ds with
      | Some rt, Some l => Some {| root := rt; defs := l |}
      | _, _ => None
      end
  | _ => None
  end.

(** structural equality of values: [PartialEq for BorshSchemaContainer] on the decoded
    value ([String] and [BTreeMap] equality; both sides list the map in ascending key order) *)
Fixpoint val_eqb (a b : val) {struct a} : bool :=
  match a, b with
  | VN x, VN y => x =? y
  | VL la, VL lb =>
      (fix go (la lb : list val) {struct la} : bool :=
         match la, lb with
         | [], [] => true
         | x :: ra, y :: rb => val_eqb x y && go ra rb
         | _, _ => false
         end) la lb
  | VV i x, VV j y => (i =? j) && val_eqb x y
  | _, _ => false
  end.

(** * schema_helpers.rs *)

(** [try_to_vec_with_schema]: [schema_container_of::<T>()], [to_vec(&schema)?], then the value. *)
Definition try_to_vec_with_schema (t : ty) (v : val) : result bytes :=
  c <- schema_of t ;;
  b1 <- to_vec ty_container (container_to_val c) ;;
  b2 <- enc t v ;;
  Ok (b1 ++ b2)%list.

(** [try_from_slice_with_schema]: [from_slice::<(BorshSchemaContainer, T)>(v)?], then the
    comparison with the reader's own schema. *)
Definition try_from_slice_with_schema (c : cfg) (t : ty) (bs : bytes) : result val :=
  p <- from_slice c (TProd PTuple [ty_container; t]) bs ;;
  match p with
  | VL [schema; object] =>
      own <- schema_of t ;;
      if val_eqb (container_to_val own) schema then Ok object
      else Err InvalidData MSchemaMismatch
  | _ => Panic P_ILLTYPED
  end.
