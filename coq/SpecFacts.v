(** The reference encoder of Spec.v against the model of the code: basic facts
    (little-endian, primitives, byte lists, the option-monad combinators against traces). *)
From Coq Require Import String.
From Coq Require Import List NArith Bool Lia Permutation.
From Coq.Strings Require Import Byte.
From Borsh Require Import Bytes BytesFacts Result Loop LoopFacts Ty TyInd Ser De Entry CodecFacts
  RoundTrip OrderFacts SortFacts RoundTripKeyed Spec.
Import ListNotations.
Local Open Scope N_scope.

(** * Little-endian: the positional definition is the recursive one *)
Lemma n2b_byte_of n : n2b n = byte_of (n mod 256).
Proof. reflexivity. Qed.

Lemma digit_0 n : digit 0 n = n mod 256.
Proof. unfold digit. cbn [N.of_nat]. rewrite N.pow_0_r, N.div_1_r. reflexivity. Qed.

Lemma digit_S i n : digit (S i) n = digit i (n / 256).
Proof.
  unfold digit. rewrite Nnat.Nat2N.inj_succ, N.pow_succ_r'.
  rewrite N.div_div by (try apply N.pow_nonzero; lia). reflexivity.
Qed.

Lemma spec_le_le w : forall n, spec_le w n = le w n.
Proof.
  induction w as [|w IH]; intros n; [reflexivity|].
  unfold spec_le. cbn [seq map le]. f_equal.
  - now rewrite digit_0, n2b_byte_of.
  - rewrite <- seq_shift, map_map. rewrite <- IH. unfold spec_le.
    apply map_ext. intros i. now rewrite digit_S.
Qed.

Lemma pow256_4 : 256 ^ N.of_nat 4 = U32_LIMIT.
Proof. reflexivity. Qed.

Lemma spec_uint_ok w n : n < 256 ^ N.of_nat w -> spec_uint w n = Some (le w n).
Proof.
  intros H. unfold spec_uint. destruct (N.ltb_spec n (256 ^ N.of_nat w)); [|lia]. now rewrite spec_le_le.
Qed.

Lemma count_of_len {A} (l : list A) : count_of l = len l.
Proof. unfold count_of. now rewrite len_eq. Qed.

Lemma with_count_ok {A} (l : list A) body b :
  len l < U32_LIMIT -> body = Some b -> with_count l body = Some (le 4 (len l) ++ b).
Proof.
  intros H ->. unfold with_count. rewrite count_of_len, spec_uint_ok by (rewrite pow256_4; exact H).
  reflexivity.
Qed.

Lemma with_count_none {A} (l : list A) body : U32_LIMIT <= len l -> with_count l body = None.
Proof.
  intros H. unfold with_count, spec_uint. rewrite count_of_len, pow256_4.
  destruct (N.ltb_spec (len l) U32_LIMIT); [lia|reflexivity].
Qed.

(** * Primitives *)
Lemma spec_width_eq p : spec_width p = prim_width p.
Proof. destruct p as [s w|s|s w| |d| |]; try destruct w; reflexivity. Qed.

Lemma spec_nan_eq d n : spec_nan d n = is_nan d n.
Proof.
  unfold spec_nan, is_nan. destruct d.
  - change (2 ^ 63) with (2 ^ 52 * 2048). rewrite N.mod_mul_r by lia.
    pose proof (N.mod_upper_bound n (2 ^ 52)) as Hf. pose proof (N.mod_upper_bound (n / 2 ^ 52) 2048) as He.
    set (f := n mod 2 ^ 52) in *. set (e := (n / 2 ^ 52) mod 2048) in *.
    assert (2 ^ 52 <> 0) by (apply N.pow_nonzero; lia).
    destruct (N.eqb_spec e 2047) as [E|E]; destruct (N.eqb_spec f 0) as [F|F]; cbn [negb andb];
      destruct (N.ltb_spec (2047 * 2 ^ 52) (f + 2 ^ 52 * e)); try reflexivity; exfalso; nia.
  - change (2 ^ 31) with (2 ^ 23 * 256). rewrite N.mod_mul_r by lia.
    pose proof (N.mod_upper_bound n (2 ^ 23)) as Hf. pose proof (N.mod_upper_bound (n / 2 ^ 23) 256) as He.
    set (f := n mod 2 ^ 23) in *. set (e := (n / 2 ^ 23) mod 256) in *.
    assert (2 ^ 23 <> 0) by (apply N.pow_nonzero; lia).
    destruct (N.eqb_spec e 255) as [E|E]; destruct (N.eqb_spec f 0) as [F|F]; cbn [negb andb];
      destruct (N.ltb_spec (255 * 2 ^ 23) (f + 2 ^ 23 * e)); try reflexivity; exfalso; nia.
Qed.

Lemma prim_ser_check_nan p n :
  prim_ser_check p n = match p with PFloat d => if spec_nan d n then Some MNaNSer else None | _ => None end.
Proof. destruct p; try reflexivity. cbn [prim_ser_check]. now rewrite spec_nan_eq. Qed.

Lemma spec_prim_ok p n :
  prim_val_ok p n = true -> prim_ser_check p n = None -> spec_prim p n = Some (le (prim_width p) n).
Proof.
  intros Hv Hs. unfold prim_val_ok in Hv. apply andb_true_iff in Hv. destruct Hv as [Hlt Hchk].
  apply N.ltb_lt in Hlt. rewrite <- spec_width_eq in *.
  rewrite prim_ser_check_nan in Hs.
  destruct p as [s w|s|s w| |d| |]; cbn [spec_prim]; try (now apply spec_uint_ok).
  - destruct (spec_nan d n); [discriminate|]. now apply spec_uint_ok.
  - cbn [prim_de_check] in Hchk. destruct (N.ltb_spec n 2) as [H2|H2]; [|discriminate].
    assert (n = 0 \/ n = 1) as [-> | ->] by lia; reflexivity.
Qed.

(** * Byte lists *)
Lemma spec_bytes_ok l : forall ns, vals_ns l = Some ns -> all_byte ns = true -> spec_bytes l = Some (to_bytes ns).
Proof.
  unfold spec_bytes, to_bytes, all_byte.
  induction l as [|x r IH]; intros ns Hns Hb.
  - cbn in Hns. inversion Hns; subst. reflexivity.
  - cbn [vals_ns] in Hns. destruct x as [n| |]; try discriminate.
    destruct (vals_ns r) as [nr|] eqn:Er; [|discriminate]. inversion Hns; subst ns; clear Hns.
    cbn [forallb] in Hb. apply andb_true_iff in Hb. destruct Hb as [Hn Hr].
    cbn [all_some spec_byte map]. rewrite Hn. cbn [sbind]. rewrite (IH nr eq_refl Hr). cbn [option_map].
    rewrite n2b_byte_of. apply N.ltb_lt in Hn. now rewrite N.mod_small by exact Hn.
Qed.

Lemma spec_raw_len_eq k : spec_raw_len k = raw_len k.
Proof. destruct k; reflexivity. Qed.

(** * Elements one after the other: the option monad against the trace *)
Lemma sbytes_each_out (g : val -> out) l :
  snd (each_out g l) = None -> sbytes (each_out g l) = concat (map (fun x => sbytes (g x)) l).
Proof.
  induction l as [|x r IH]; intros H; [reflexivity|].
  cbn [each_out] in H. apply andthen_ok in H. destruct H as [Hx Hr].
  rewrite each_out_cons_bytes by exact Hx. cbn [map concat]. now rewrite IH.
Qed.

Lemma concat_enc_each (f : val -> option bytes) (g : val -> out) (h : val -> val) l :
  (forall x, In x l -> snd (g x) = None -> f (h x) = Some (sbytes (g x))) ->
  snd (each_out g l) = None ->
  concat_enc f (map h l) = Some (sbytes (each_out g l)).
Proof.
  intros H Hok. rewrite sbytes_each_out by exact Hok. unfold concat_enc.
  assert (E : all_some f (map h l) = Some (map (fun x => sbytes (g x)) l)).
  { induction l as [|x r IH]; [reflexivity|].
    cbn [each_out] in Hok. apply andthen_ok in Hok. destruct Hok as [Hx Hr].
    cbn [map all_some]. rewrite (H x (or_introl eq_refl) Hx). cbn [sbind].
    rewrite IH; [reflexivity| |exact Hr]. intros y Hy. apply H. now right. }
  now rewrite E.
Qed.

(** * The bulk write of u8 elements equals the element-by-element write *)
Notation TyU8 := (TPrim (PInt false W1)).

Lemma is_u8_eq t : is_u8 t = true -> t = TyU8.
Proof. destruct t as [[[] []| | | | | |]| | | | | | | |]; cbn; intros H; try discriminate; reflexivity. Qed.

Lemma slice_out_each t' b l :
  forallb (has_ty t') l = true -> (b = true -> is_u8 t' = true) ->
  snd (slice_out b (ser t') l) = snd (each_out (ser t') l) /\
  sbytes (slice_out b (ser t') l) = sbytes (each_out (ser t') l).
Proof.
  intros Hty Hb. destruct b; [|split; reflexivity].
  rewrite (is_u8_eq t' (Hb eq_refl)) in *.
  destruct (has_ty_u8_list l Hty) as (ns & Ens & Hns).
  destruct (slice_out_u8 true l ns Ens Hns) as [-> ->].
  destruct (slice_out_u8 false l ns Ens Hns) as [H1 H2]. unfold slice_out in H1, H2.
  now rewrite H1, H2.
Qed.

Lemma u8_and b t' : (is_u8 t' && b = true -> is_u8 t' = true).
Proof. intros H. apply andb_true_iff in H. tauto. Qed.

(** * Small identifications between the independent definitions and the model's *)
Lemma ascending_sa k t' l :
  ascending (key_lt k t') l = strictly_ascending (cmp_val (key_ty k t')) (key_val k) l.
Proof.
  induction l as [|x r IH]; [reflexivity|].
  cbn [ascending strictly_ascending]. destruct r as [|y r']; [reflexivity|].
  rewrite IH. unfold key_lt. change (spec_key_ty k t') with (key_ty k t').
  change (spec_key k x) with (key_val k x). change (spec_key k y) with (key_val k y).
  destruct (cmp_val (key_ty k t') (key_val k x) (key_val k y)); reflexivity.
Qed.

Lemma prod_skips_spec k n : prod_skips k n = pad_false n (spec_skips k).
Proof. destruct k; reflexivity. Qed.

Lemma spec_tag_eq k i : spec_tag k i = nth_error (sum_tags k) i.
Proof.
  destruct k; cbn [spec_tag sum_tags]; try reflexivity;
    destruct i as [|[|[|i]]]; reflexivity.
Qed.

Lemma at_variant_nth_or {R} (f : ty -> R) d vs i : at_variant f d vs i = nth_or f d vs i.
Proof. revert i; induction vs as [|t' r IH]; intros [|i]; cbn; auto. Qed.

Lemma guards_eq k : guards k = ser_checks_zst k.
Proof. reflexivity. Qed.
