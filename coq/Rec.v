(** Recursive derived items, through finite unfoldings into [ty].

    [ty] has no recursive types.  A recursive Rust item ([struct Tree { label: u8,
    children: Vec<Tree> }], [enum List { Nil, Cons(u32, Box<List>) }], ...) is described
    by an *open* type term [oty] (the constructors of [ty] plus a reference [ORef name])
    and an environment [env] mapping item names to their bodies.  [unfold e fuel ot]
    is the closed [ty] obtained by replacing every reference by the body of the item,
    unfolded with one unit of fuel less; a reference met with no fuel left (or a name
    the environment does not define) becomes the placeholder [CUT].

    The placeholder is the type [&Vec<()>]: it is a well-formed member of the family
    (so that every theorem about [wf] types applies to every unfolding), and borsh
    refuses it in both directions (collections of zero-sized elements): its decoder
    fails on every input and its encoder on every value.  It is not a key type, has no
    [Default], is not zero-sized and is not [u8].  A value "of the recursive type, of
    depth at most [fuel]" is a value typed at the unfolding that never sits at a [CUT]
    position ([within]).

    Encoder, decoder, typing and logical value of a recursive type are DEFINED through
    the unfolding; RecFacts.v proves that the fuel is irrelevant beyond the depth of the
    value (monotonicity) and that a decoder with more fuel accepts at least as much, with
    the same result (stability).  Definitions only. *)
From Coq Require Import String.
From Coq Require Import List NArith Bool.
From Borsh Require Import Bytes Result Ty Ser De.
Import ListNotations.
Local Open Scope N_scope.

(** * Open types and environments *)
Inductive oty :=
| OPrim (p : prim)
| OUnit (u : unit_kind)
| ORaw (k : raw_kind)
| OText (k : text_kind)
| OSeq (k : seq_kind) (t : oty)
| OArray (n : N) (t : oty)
| OProd (k : prod_kind) (ts : list oty)
| OSum (k : sum_kind) (vs : list oty)
| OWrap (w : wrap_kind) (t : oty)
| ORef (name : string).

Definition env := list (string * oty).

Fixpoint lookup (e : env) (x : string) : option oty :=
  match e with
  | [] => None
  | (y, d) :: r => if String.eqb x y then Some d else lookup r x
  end.

(** * The placeholder *)
Definition CUT : ty := TWrap WRef (TSeq SVec (TUnit UUnit)).

Definition is_cut (t : ty) : bool :=
  match t with
  | TWrap WRef (TSeq SVec (TUnit UUnit)) => true
  | _ => false
  end.

(** * Unfolding *)
Section Subst.
  Variable rho : string -> ty.          (* what a reference stands for *)
  Fixpoint subst (t : oty) : ty :=
    match t with
    | OPrim p => TPrim p
    | OUnit u => TUnit u
    | ORaw k => TRaw k
    | OText k => TText k
    | OSeq k t' => TSeq k (subst t')
    | OArray n t' => TArray n (subst t')
    | OProd k ts => TProd k (map subst ts)
    | OSum k vs => TSum k (map subst vs)
    | OWrap w t' => TWrap w (subst t')
    | ORef x => rho x
    end.
End Subst.

(** the item [x] with [fuel] levels of its definition spelled out *)
Fixpoint unfold_ref (e : env) (fuel : nat) (x : string) : ty :=
  match fuel with
  | O => CUT
  | S f => match lookup e x with
           | Some d => subst (unfold_ref e f) d
           | None => CUT
           end
  end.

Definition unfold (e : env) (fuel : nat) (t : oty) : ty := subst (unfold_ref e fuel) t.

(** The partial reading of the same function: defined when every name is bound. *)
Fixpoint names_bound (e : env) (t : oty) : bool :=
  match t with
  | OPrim _ | OUnit _ | ORaw _ | OText _ => true
  | OSeq _ t' | OArray _ t' | OWrap _ t' => names_bound e t'
  | OProd _ ts | OSum _ ts => forallb (names_bound e) ts
  | ORef x => match lookup e x with Some _ => true | None => false end
  end.
Definition env_closed (e : env) : bool := forallb (fun xd => names_bound e (snd xd)) e.
Definition unfold_opt (e : env) (fuel : nat) (t : oty) : option ty :=
  if env_closed e && names_bound e t then Some (unfold e fuel t) else None.

(** * Values of bounded depth: never at a [CUT] position *)
Fixpoint within (t : ty) (v : val) {struct t} : bool :=
  match t with
  | TPrim _ | TUnit _ | TRaw _ | TText _ => true
  | TSeq k t' =>
      match k, v with
      | SDeque, VL [VL a; VL b] => forallb (within t') a && forallb (within t') b
      | SDeque, _ => true
      | _, VL l => forallb (within t') l
      | _, _ => true
      end
  | TArray _ t' => match v with VL l => forallb (within t') l | _ => true end
  | TProd _ ts => match v with VL l => all2 (fun t' x => within t' x) ts l | _ => true end
  | TSum _ vs => match v with VV i x => nth_or (fun t' => within t' x) true vs (N.to_nat i) | _ => true end
  | TWrap w t' => if is_cut (TWrap w t') then false else within t' v
  end.

(** * The recursive type, by fuel *)
Definition has_ty_rec (e : env) (fuel : nat) (ot : oty) (v : val) : bool :=
  has_ty (unfold e fuel ot) v && within (unfold e fuel ot) v.
Definition enc_rec (e : env) (fuel : nat) (ot : oty) (v : val) : result bytes :=
  enc (unfold e fuel ot) v.
Definition dec_rec (e : env) (c : cfg) (fuel : nat) (ot : oty) (bs : bytes) : result (val * bytes) :=
  dec_slice c (unfold e fuel ot) bs.
Definition logical_rec (e : env) (fuel : nat) (ot : oty) (v : val) : val :=
  logical (unfold e fuel ot) v.

(** "every unfolding is a member of the supported family" *)
Definition rec_wf (e : env) (ot : oty) : Prop := forall k, wf (unfold e k ot) = true.

(** * Side conditions on environments (decidable, syntactic)

    [item_shape]: a definition is a derived struct or enum.
    [omem_zst]: [mem_zst] read off the open term (a reference is not zero-sized: a
      recursive item always holds its recursion behind a pointer or a collection).
      Definitions must not be zero-sized -- [struct Z([Z; 0])] is legal Rust, zero-sized,
      and cannot be approximated by cutting.
    [opt_ok]: the default of an [Option] (the one sum with a [Default]) must not depend
      on a reference: its first payload (the payload of [None]) is closed. *)
Definition item_shape (t : oty) : bool :=
  match t with
  | OProd (PStruct _ _ _) _ | OSum (KEnum _ _ _) _ => true
  | _ => false
  end.

Fixpoint omem_zst (t : oty) : bool :=
  match t with
  | OPrim _ | ORaw _ | OText _ | OSeq _ _ | ORef _ => false
  | OUnit _ => true
  | OArray n t' => (n =? 0) || omem_zst t'
  | OProd k ts =>
      match k with
      | PRange RRangeInclusive => false
      | _ => forallb (fun x => omem_zst x) ts
      end
  | OSum _ vs => match vs with [v] => omem_zst v | _ => false end
  | OWrap w t' => match w with WCell => omem_zst t' | _ => false end
  end.

Fixpoint oclosed (t : oty) : bool :=
  match t with
  | OPrim _ | OUnit _ | ORaw _ | OText _ => true
  | OSeq _ t' | OArray _ t' | OWrap _ t' => oclosed t'
  | OProd _ ts | OSum _ ts => forallb (fun x => oclosed x) ts
  | ORef _ => false
  end.

Fixpoint opt_ok (t : oty) : bool :=
  match t with
  | OPrim _ | OUnit _ | ORaw _ | OText _ | ORef _ => true
  | OSeq _ t' | OArray _ t' | OWrap _ t' => opt_ok t'
  | OProd _ ts => forallb (fun x => opt_ok x) ts
  | OSum k vs =>
      match k with
      | KOption => match vs with v :: _ => oclosed v | [] => true end
      | _ => true
      end && forallb (fun x => opt_ok x) vs
  end.

Definition def_ok (d : oty) : bool := item_shape d && negb (omem_zst d) && opt_ok d.
Definition env_ok (e : env) : bool := forallb (fun xd => def_ok (snd xd)) e.

(** * A decidable sufficient condition for [rec_wf]: [wf] read off the open term.
    A reference is well-formed, not a key type, without [Default], not zero-sized. *)
Definition okey_ty (k : seq_kind) (t : oty) : oty :=
  if is_map k then match t with OProd _ (kt :: _) => kt | _ => t end else t.

Fixpoint okey_ok (t : oty) : bool :=
  match t with
  | OPrim (PFloat _) => false
  | OPrim _ | OUnit _ | ORaw _ => true
  | OText XString | OText XAsciiString | OText XStr => true
  | OText _ => false
  | OSeq SVec t' | OSeq SBTreeSet t' => okey_ok t'
  | OSeq _ _ => false
  | OArray _ t' => okey_ok t'
  | OProd k ts => negb (match k with PSockV6 => true | _ => false end) &&
                  (forallb negb (prod_skips k (length ts))) && forallb (fun x => okey_ok x) ts
  | OSum _ vs => forallb (fun x => okey_ok x) vs
  | OWrap (WBox | WRc | WArc | WCow) t' => okey_ok t'
  | OWrap _ _ => false
  | ORef _ => false
  end.

Fixpoint ohas_default (t : oty) : bool :=
  match t with
  | OPrim (PInt _ _) | OPrim (PSize _) | OPrim (PFloat _) | OPrim PBool => true
  | OPrim _ => false
  | OUnit _ => true
  | ORaw _ => false
  | OText XString | OText XBytes | OText XBytesMut | OText XAsciiString | OText XStr => true
  | OText _ => false
  | OSeq SSlice _ => false
  | OSeq _ _ => true
  | OArray n t' => (n <=? 32) && ohas_default t'
  | OProd PTuple ts => (Nat.leb (length ts) 12) && forallb (fun x => ohas_default x) ts
  | OProd (PStruct _ _ _) ts => forallb (fun x => ohas_default x) ts
  | OProd _ _ => false
  | OSum KOption _ => true
  | OSum _ _ => false
  | OWrap WBox t' | OWrap WRc t' | OWrap WArc t' | OWrap WCell t' | OWrap WRefCell t' | OWrap WCow t' => ohas_default t'
  | OWrap _ _ => false
  | ORef _ => false
  end.

Fixpoint oskips_ok (ts : list oty) (sk : list bool) : bool :=
  match ts, sk with
  | t' :: tr, s :: sr => (if s then ohas_default t' else true) && oskips_ok tr sr
  | [], _ => true
  | _ :: _, [] => false
  end.

Fixpoint owf (t : oty) : bool :=
  match t with
  | OPrim _ | OUnit _ | ORaw _ | OText _ | ORef _ => true
  | OSeq k t' =>
      owf t' &&
      (if is_map k then match t' with OProd PTuple [_; _] => true | _ => false end else true) &&
      (if is_keyed k then okey_ok (okey_ty k t') else true) &&
      (match k with SSlice => negb (omem_zst t') | _ => true end)
  | OArray _ t' => owf t'
  | OProd k ts =>
      prod_arity_ok k (length ts) && oskips_ok ts (prod_skips k (length ts)) && forallb (fun x => owf x) ts
  | OSum k vs =>
      Nat.eqb (length (sum_tags k)) (length vs) &&
      Nat.leb 1 (length vs) &&
      nodup_n (sum_tags k) && forallb (fun b => b <? 256) (sum_tags k) &&
      forallb (fun x => owf x) vs
  | OWrap _ t' => owf t'
  end.

Definition env_owf (e : env) : bool := forallb (fun xd => owf (snd xd)) e.

(** * Refinement: [refines a b] when [b] is [a] with some [CUT]s replaced by
    non-zero-sized derived items (what one more level of unfolding does). *)
Definition is_item (t : ty) : bool :=
  match t with
  | TProd (PStruct _ _ _) _ | TSum (KEnum _ _ _) _ => true
  | _ => false
  end.

Inductive refines : ty -> ty -> Prop :=
| R_cut X : is_item X = true -> mem_zst X = false -> refines CUT X
| R_prim p : refines (TPrim p) (TPrim p)
| R_unit u : refines (TUnit u) (TUnit u)
| R_raw k : refines (TRaw k) (TRaw k)
| R_text k : refines (TText k) (TText k)
| R_seq k a b : refines a b -> refines (TSeq k a) (TSeq k b)
| R_array n a b : refines a b -> refines (TArray n a) (TArray n b)
| R_prod k xs ys : Forall2 refines xs ys -> refines (TProd k xs) (TProd k ys)
| R_sum k xs ys :
    Forall2 refines xs ys ->
    (has_default (TSum k xs) = true -> default_of (TSum k xs) = default_of (TSum k ys)) ->
    refines (TSum k xs) (TSum k ys)
| R_wrap w a b : refines a b -> refines (TWrap w a) (TWrap w b).

(** * The four running examples *)
Local Open Scope string_scope.
Definition o_unit_variant : oty := OProd (PVariant [] []) [].
Definition o_option (t : oty) : oty := OSum KOption [o_unit_variant; t].

(** struct Tree { label: u8, children: Vec<Tree> } *)
Definition d_tree : oty :=
  OProd (PStruct "Tree" ["label"; "children"] [false; false])
        [OPrim (PInt false W1); OSeq SVec (ORef "Tree")].
(** enum List { Nil, Cons(u32, Box<List>) } *)
Definition d_list : oty :=
  OSum (KEnum "List" ["Nil"; "Cons"] [0; 1]%N)
       [o_unit_variant; OProd (PVariant [] [false; false]) [OPrim (PInt false W4); OWrap WBox (ORef "List")]].
(** enum Json { Null, Num(i64), Arr(Vec<Json>), Obj(BTreeMap<String, Json>) } *)
Definition d_json : oty :=
  OSum (KEnum "Json" ["Null"; "Num"; "Arr"; "Obj"] [0; 1; 2; 3]%N)
       [o_unit_variant;
        OProd (PVariant [] [false]) [OPrim (PInt true W8)];
        OProd (PVariant [] [false]) [OSeq SVec (ORef "Json")];
        OProd (PVariant [] [false]) [OSeq SBTreeMap (OProd PTuple [OText XString; ORef "Json"])]].
(** struct Rec(Option<Box<Rec>>); *)
Definition d_rec : oty :=
  OProd (PStruct "Rec" [] [false]) [o_option (OWrap WBox (ORef "Rec"))].

Definition rec_env : env :=
  [("Tree", d_tree); ("List", d_list); ("Json", d_json); ("Rec", d_rec)].
