(** Proofs about the array-guard machine of ArrayGuard.v (property C15).

    The argument is the one written in the SAFETY comments of the Rust code, made
    precise: over the fill loop the state always has the form [shape i k] — slots
    [0, init_count) are [Init] with pairwise distinct ids, the remaining [k] slots are
    [Uninit] — so the guard's [Drop] only ever touches owned values, and the final
    read finds every slot owned and leaves a guard whose count is 0. *)
From Coq Require Import List Arith Bool Lia.
From Borsh Require Import ArrayGuard.
Import ListNotations.

(** * The invariant *)

(** [i] slots filled (with ids [0..i-1], in order), [k] still uninitialised; the three
    registers agree with [i]. *)
Definition shape (i k : nat) : st :=
  {| buffer := map Init (seq 0 i) ++ repeat Uninit k;
     init_count := i; next_id := i; calls := i |}.

(** "slots [0, init_count) are Init with distinct ids, the rest Uninit" *)
Definition inv (n : nat) (s : st) : Prop :=
  exists ids, length (buffer s) = n /\ init_count s = length ids /\ NoDup ids /\
              buffer s = map Init ids ++ repeat Uninit (n - length ids).

Lemma shape_inv i k : inv (i + k) (shape i k).
Proof.
  exists (seq 0 i). cbn [shape buffer init_count].
  rewrite app_length, map_length, repeat_length, seq_length.
  repeat split; try reflexivity.
  - apply seq_NoDup.
  - f_equal. f_equal. lia.
Qed.

Lemma initial_shape n : initial n = shape 0 n.
Proof. reflexivity. Qed.

(** * List facts *)
Lemma set_nth_app {A} (l1 : list A) (x y : A) (l2 : list A) :
  set_nth (length l1) x (l1 ++ y :: l2) = l1 ++ x :: l2.
Proof.
  induction l1 as [|h t IH]; simpl; [reflexivity|]. f_equal. exact IH.
Qed.

Lemma shape_write i k :
  set_nth i (Init i) (map Init (seq 0 i) ++ repeat Uninit (S k)) =
  map Init (seq 0 (S i)) ++ repeat Uninit k.
Proof.
  pose proof (set_nth_app (map Init (seq 0 i)) (Init i) Uninit (repeat Uninit k)) as H.
  rewrite map_length, seq_length in H.
  rewrite seq_S, map_app, <- app_assoc. simpl. exact H.
Qed.

Lemma drop_slots_init i ids : drop_slots i (map Init ids) = map DropEv ids.
Proof.
  revert i. induction ids as [|x t IH]; intro i; simpl; [reflexivity|].
  f_equal. apply IH.
Qed.

Lemma firstn_prefix {A} (l1 l2 : list A) : firstn (length l1) (l1 ++ l2) = l1.
Proof.
  rewrite firstn_app, Nat.sub_diag, firstn_all. simpl. apply app_nil_r.
Qed.

(** the guard's Drop on a state of the invariant form: exactly the owned prefix *)
Lemma drop_guard_shape i k : drop_guard (shape i k) = map DropEv (seq 0 i).
Proof.
  unfold drop_guard, shape; cbn [buffer init_count].
  rewrite app_length, map_length, seq_length.
  assert (L : (i <=? i + length (repeat Uninit k)) = true) by (apply Nat.leb_le; lia).
  rewrite L.
  pose proof (firstn_prefix (map Init (seq 0 i)) (repeat Uninit k)) as F.
  rewrite map_length, seq_length in F. rewrite F.
  apply drop_slots_init.
Qed.

Lemma read_slots_init i ids :
  read_slots i (map Init ids) = ([], ids, map (fun _ => Moved) ids).
Proof.
  revert i. induction ids as [|x t IH]; intro i; simpl; [reflexivity|].
  rewrite IH. reflexivity.
Qed.

(** * One iteration *)
Lemma body_ok o i k :
  answer_at o i = OkElem ->
  body as_written o i (shape i (S k)) = ([Construct i; Write i i], Continue, shape (S i) k).
Proof.
  intro A. unfold body, step_call, step_fresh, step_write, step_incr, shape.
  cbn [incr_first as_written calls next_id buffer init_count].
  rewrite A. cbn [incr_first as_written calls next_id buffer init_count].
  rewrite shape_write. reflexivity.
Qed.

Lemma body_stop o i k :
  answer_at o i <> OkElem ->
  body as_written o i (shape i (S k)) =
  ([], match answer_at o i with PanicElem => StopPanic | _ => StopErr end,
   {| buffer := buffer (shape i (S k)); init_count := i; next_id := i; calls := S i |}).
Proof.
  intro A. unfold body, step_call, shape.
  cbn [incr_first as_written calls next_id buffer init_count].
  destruct (answer_at o i); [congruence|reflexivity|reflexivity].
Qed.

(** * The loop *)
Lemma fill_ok o : forall k i,
  (forall d, d < k -> answer_at o (i + d) = OkElem) ->
  fill as_written o k i (shape i k) = (cw i k, Continue, shape (i + k) 0).
Proof.
  induction k as [|k IH]; intros i H.
  - cbn [fill cw]. rewrite Nat.add_0_r. reflexivity.
  - cbn [fill]. rewrite body_ok.
    + rewrite (IH (S i)).
      * cbn [cw app]. replace (S i + k) with (i + S k) by lia. reflexivity.
      * intros d Hd. replace (S i + d) with (i + S d) by lia. apply H. lia.
    + rewrite <- (Nat.add_0_r i). apply H. lia.
Qed.

Lemma fill_stop o : forall j k i,
  (forall d, d < j -> answer_at o (i + d) = OkElem) ->
  answer_at o (i + j) <> OkElem ->
  fill as_written o (j + S k) i (shape i (j + S k)) =
  (cw i j, match answer_at o (i + j) with PanicElem => StopPanic | _ => StopErr end,
   {| buffer := buffer (shape (i + j) (S k)); init_count := i + j; next_id := i + j;
      calls := S (i + j) |}).
Proof.
  induction j as [|j IH]; intros k i H A.
  - cbn [plus fill cw]. rewrite Nat.add_0_r in *. rewrite body_stop by exact A.
    destruct (answer_at o i); [congruence|reflexivity|reflexivity].
  - cbn [plus fill]. rewrite body_ok.
    + replace (i + S j) with (S i + j) in * by lia.
      rewrite (IH k (S i)).
      * reflexivity.
      * intros d Hd. replace (S i + d) with (i + S d) by lia. apply H. lia.
      * exact A.
    + rewrite <- (Nat.add_0_r i). apply H. lia.
Qed.

(** * The whole function, in closed form *)
Definition success_trace (n : nat) : list event := cw 0 n ++ [Return (seq 0 n)].
Definition failure_trace (j : nat) : list event := cw 0 j ++ map DropEv (seq 0 j).

Lemma run_success n o :
  all_ok n o ->
  run n o = {| trace := success_trace n; final := Returned (seq 0 n); calls_made := n |}.
Proof.
  intro H. unfold run, deserialize. rewrite initial_shape, fill_ok by exact H.
  cbn [plus]. unfold transmute_to_array. cbn [reset_first as_written step_reset shape buffer].
  cbn [repeat]. rewrite app_nil_r, read_slots_init.
  unfold drop_guard. cbn [init_count buffer Nat.leb firstn drop_slots app calls next_id].
  reflexivity.
Qed.

Lemma run_failure n o j :
  fails_at n o j ->
  run n o = {| trace := failure_trace j; final := stop_outcome (answer_at o j);
               calls_made := S j |}.
Proof.
  intros (Hj & Hok & Hbad). unfold run, deserialize. rewrite initial_shape.
  replace n with (j + S (n - S j)) by lia.
  rewrite fill_stop by assumption. cbn [plus].
  assert (D : drop_guard {| buffer := buffer (shape j (S (n - S j))); init_count := j;
                            next_id := j; calls := S j |} = map DropEv (seq 0 j)).
  { rewrite <- (drop_guard_shape j (S (n - S j))). reflexivity. }
  destruct (answer_at o j); [congruence| |]; cbn [calls stop_outcome]; rewrite D; reflexivity.
Qed.

(** every script either lets all [n] calls succeed or has a first failing call *)
Lemma script_cases n o : all_ok n o \/ exists j, fails_at n o j.
Proof.
  induction n as [|n IH].
  - left. intros i Hi. lia.
  - destruct IH as [H | (j & Hj & Hok & Hbad)].
    + destruct (answer_at o n) eqn:A.
      * left. intros i Hi. destruct (Nat.eq_dec i n) as [->|Hne]; [exact A|apply H; lia].
      * right. exists n. split; [lia|]. split; [exact H|]. rewrite A. discriminate.
      * right. exists n. split; [lia|]. split; [exact H|]. rewrite A. discriminate.
    + right. exists j. split; [lia|]. split; assumption.
Qed.

(** * Facts about the closed-form traces *)
Lemma In_cw e : forall k i, In e (cw i k) -> exists x, i <= x < i + k /\ (e = Construct x \/ e = Write x x).
Proof.
  induction k as [|k IH]; intros i H; cbn [cw] in H.
  - destruct H.
  - destruct H as [H | [H | H]].
    + exists i. split; [lia|]. left. symmetry. exact H.
    + exists i. split; [lia|]. right. symmetry. exact H.
    + destruct (IH (S i) H) as (x & Hx & He). exists x. split; [lia|exact He].
Qed.

Lemma In_construct_cw x : forall k i, i <= x < i + k -> In (Construct x) (cw i k).
Proof.
  induction k as [|k IH]; intros i H; [lia|]. cbn [cw].
  destruct (Nat.eq_dec i x) as [->|Hne]; [left; reflexivity|].
  right. right. apply IH. lia.
Qed.

Lemma constructs_app id t1 t2 : constructs id (t1 ++ t2) = constructs id t1 + constructs id t2.
Proof.
  induction t1 as [|e t IH]; [reflexivity|]. destruct e; cbn [app constructs]; rewrite IH; lia.
Qed.
Lemma drops_app id t1 t2 : drops id (t1 ++ t2) = drops id t1 + drops id t2.
Proof.
  induction t1 as [|e t IH]; [reflexivity|]. destruct e; cbn [app drops]; rewrite IH; lia.
Qed.
Lemma returned_app id t1 t2 : returned id (t1 ++ t2) = returned id t1 + returned id t2.
Proof.
  induction t1 as [|e t IH]; [reflexivity|]. destruct e; cbn [app returned]; rewrite IH; lia.
Qed.
Lemma returns_app t1 t2 : returns (t1 ++ t2) = returns t1 + returns t2.
Proof.
  induction t1 as [|e t IH]; [reflexivity|]. destruct e; cbn [app returns]; rewrite IH; lia.
Qed.
Lemma constructed_ids_app t1 t2 : constructed_ids (t1 ++ t2) = constructed_ids t1 ++ constructed_ids t2.
Proof.
  induction t1 as [|e t IH]; [reflexivity|]. destruct e; cbn [app constructed_ids]; rewrite IH; reflexivity.
Qed.
Lemma dropped_ids_app t1 t2 : dropped_ids (t1 ++ t2) = dropped_ids t1 ++ dropped_ids t2.
Proof.
  induction t1 as [|e t IH]; [reflexivity|]. destruct e; cbn [app dropped_ids]; rewrite IH; reflexivity.
Qed.

Definition in_range (i k id : nat) : nat := if (i <=? id) && (id <? i + k) then 1 else 0.

Lemma in_range_step i k id : (if i =? id then 1 else 0) + in_range (S i) k id = in_range i (S k) id.
Proof.
  unfold in_range.
  destruct (Nat.eqb_spec i id), (Nat.leb_spec (S i) id), (Nat.leb_spec i id),
    (Nat.ltb_spec id (S i + k)), (Nat.ltb_spec id (i + S k)); cbn [andb]; lia.
Qed.

Lemma constructs_cw id : forall k i, constructs id (cw i k) = in_range i k id.
Proof.
  induction k as [|k IH]; intro i; cbn [cw constructs].
  - unfold in_range. destruct (Nat.leb_spec i id), (Nat.ltb_spec id (i + 0)); cbn [andb]; lia.
  - rewrite IH. apply in_range_step.
Qed.
Lemma drops_cw id : forall k i, drops id (cw i k) = 0.
Proof. induction k as [|k IH]; intro i; cbn [cw drops]; [reflexivity|apply IH]. Qed.
Lemma returned_cw id : forall k i, returned id (cw i k) = 0.
Proof. induction k as [|k IH]; intro i; cbn [cw returned]; [reflexivity|apply IH]. Qed.
Lemma returns_cw : forall k i, returns (cw i k) = 0.
Proof. induction k as [|k IH]; intro i; cbn [cw returns]; [reflexivity|apply IH]. Qed.
Lemma constructed_ids_cw : forall k i, constructed_ids (cw i k) = seq i k.
Proof. induction k as [|k IH]; intro i; cbn [cw constructed_ids seq]; [reflexivity|f_equal; apply IH]. Qed.
Lemma dropped_ids_cw : forall k i, dropped_ids (cw i k) = [].
Proof. induction k as [|k IH]; intro i; cbn [cw dropped_ids]; [reflexivity|apply IH]. Qed.

Lemma drops_map id : forall k i, drops id (map DropEv (seq i k)) = in_range i k id.
Proof.
  induction k as [|k IH]; intro i; cbn [seq map drops].
  - unfold in_range. destruct (Nat.leb_spec i id), (Nat.ltb_spec id (i + 0)); cbn [andb]; lia.
  - rewrite IH. apply in_range_step.
Qed.
Lemma constructs_map id ids : constructs id (map DropEv ids) = 0.
Proof. induction ids as [|x t IH]; [reflexivity|exact IH]. Qed.
Lemma returned_map id ids : returned id (map DropEv ids) = 0.
Proof. induction ids as [|x t IH]; [reflexivity|exact IH]. Qed.
Lemma returns_map ids : returns (map DropEv ids) = 0.
Proof. induction ids as [|x t IH]; [reflexivity|exact IH]. Qed.
Lemma constructed_ids_map ids : constructed_ids (map DropEv ids) = [].
Proof. induction ids as [|x t IH]; [reflexivity|exact IH]. Qed.
Lemma dropped_ids_map ids : dropped_ids (map DropEv ids) = ids.
Proof. induction ids as [|x t IH]; [reflexivity|]. cbn [map dropped_ids]. f_equal. exact IH. Qed.

Lemma count_occ_seq id : forall k i, count_occ Nat.eq_dec (seq i k) id = in_range i k id.
Proof.
  induction k as [|k IH]; intro i; cbn [seq count_occ].
  - unfold in_range. destruct (Nat.leb_spec i id), (Nat.ltb_spec id (i + 0)); cbn [andb]; lia.
  - rewrite <- in_range_step, <- IH.
    destruct (Nat.eq_dec i id) as [E|E], (Nat.eqb_spec i id); try lia; reflexivity.
Qed.

Lemma in_range_le1 i k id : in_range i k id <= 1.
Proof. unfold in_range. destruct (_ && _); lia. Qed.

(** an event that does not occur in [A] and splits [A ++ B] lies in [B] *)
Lemma split_right (e : event) : forall (A B t1 t2 : list event),
  t1 ++ e :: t2 = A ++ B -> ~ In e A -> exists m, t1 = A ++ m /\ B = m ++ e :: t2.
Proof.
  induction A as [|a A IH]; intros B t1 t2 H N.
  - exists t1. split; [reflexivity|]. symmetry. exact H.
  - destruct t1 as [|x t1]; cbn [app] in H.
    + exfalso. apply N. left. injection H as H1 _. symmetry. exact H1.
    + injection H as H1 H2. subst x.
      destruct (IH B t1 t2 H2) as (m & E1 & E2).
      * intro I. apply N. right. exact I.
      * exists m. split; [cbn [app]; f_equal; exact E1|exact E2].
Qed.

Lemma no_drop_in_cw id i k : ~ In (DropEv id) (cw i k).
Proof. intro H. apply In_cw in H. destruct H as (x & _ & [H|H]); discriminate. Qed.
Lemma no_return_in_cw ids i k : ~ In (Return ids) (cw i k).
Proof. intro H. apply In_cw in H. destruct H as (x & _ & [H|H]); discriminate. Qed.

(** * The four properties *)

Lemma no_ub n o w : ~ In (UB w) (trace (run n o)).
Proof.
  destruct (script_cases n o) as [H | (j & H)].
  - rewrite (run_success n o H). cbn [trace]. unfold success_trace. intro I.
    apply in_app_or in I. destruct I as [I | [I | []]]; [|discriminate].
    apply In_cw in I. destruct I as (x & _ & [E|E]); discriminate.
  - rewrite (run_failure n o j H). cbn [trace]. unfold failure_trace. intro I.
    apply in_app_or in I. destruct I as [I | I].
    + apply In_cw in I. destruct I as (x & _ & [E|E]); discriminate.
    + apply in_map_iff in I. destruct I as (x & E & _). discriminate.
Qed.

Lemma exactly_once n o id :
  let t := trace (run n o) in
  constructs id t <= 1 /\
  drops id t + returned id t = constructs id t /\
  returns t <= 1 /\
  (forall t1 t2, t = t1 ++ DropEv id :: t2 -> In (Construct id) t1) /\
  (forall t1 t2 ids, t = t1 ++ Return ids :: t2 -> In id ids -> In (Construct id) t1 /\ t2 = []).
Proof.
  cbn zeta.
  destruct (script_cases n o) as [H | (j & H)].
  - rewrite (run_success n o H). cbn [trace]. unfold success_trace.
    rewrite constructs_app, drops_app, returned_app, returns_app.
    rewrite constructs_cw, drops_cw, returned_cw, returns_cw.
    cbn [constructs drops returned returns]. rewrite count_occ_seq.
    pose proof (in_range_le1 0 n id) as L.
    split; [lia|]. split; [lia|]. split; [lia|]. split.
    + intros t1 t2 E. symmetry in E.
      destruct (split_right _ _ _ _ _ E (no_drop_in_cw id 0 n)) as (m & _ & E2).
      destruct m as [|x [|y m]]; discriminate.
    + intros t1 t2 ids E Hin. symmetry in E.
      destruct (split_right _ _ _ _ _ E (no_return_in_cw ids 0 n)) as (m & E1 & E2).
      destruct m as [|x [|y m]]; [|destruct t2; discriminate|discriminate].
      cbn [app] in E2. injection E2 as E3 E4. subst ids t2 t1.
      split; [|reflexivity]. rewrite app_nil_r.
      apply in_seq in Hin. apply In_construct_cw. lia.
  - rewrite (run_failure n o j H). cbn [trace]. unfold failure_trace.
    rewrite constructs_app, drops_app, returned_app, returns_app.
    rewrite constructs_cw, drops_cw, returned_cw, returns_cw.
    rewrite constructs_map, drops_map, returned_map, returns_map.
    pose proof (in_range_le1 0 j id) as L.
    split; [lia|]. split; [lia|]. split; [lia|]. split.
    + intros t1 t2 E. symmetry in E.
      destruct (split_right _ _ _ _ _ E (no_drop_in_cw id 0 j)) as (m & E1 & E2).
      subst t1. apply in_or_app. left.
      assert (I : In (DropEv id) (map DropEv (seq 0 j))) by (rewrite E2; apply in_or_app; right; left; reflexivity).
      apply in_map_iff in I. destruct I as (x & Ex & Hx). injection Ex as ->.
      apply in_seq in Hx. apply In_construct_cw. lia.
    + intros t1 t2 ids E _. exfalso. symmetry in E.
      destruct (split_right _ _ _ _ _ E (no_return_in_cw ids 0 j)) as (m & _ & E2).
      assert (I : In (Return ids) (map DropEv (seq 0 j))) by (rewrite E2; apply in_or_app; right; left; reflexivity).
      apply in_map_iff in I. destruct I as (x & Ex & _). discriminate.
Qed.

Lemma failure_drops_prefix n o j :
  fails_at n o j ->
  let r := run n o in
  final r = stop_outcome (answer_at o j) /\
  trace r = cw 0 j ++ map DropEv (seq 0 j) /\
  constructed_ids (trace r) = seq 0 j /\
  dropped_ids (trace r) = constructed_ids (trace r) /\
  returns (trace r) = 0 /\
  calls_made r = S j.
Proof.
  intro H. cbn zeta. rewrite (run_failure n o j H). cbn [trace final calls_made]. unfold failure_trace.
  rewrite constructed_ids_app, dropped_ids_app, returns_app.
  rewrite constructed_ids_cw, dropped_ids_cw, returns_cw, constructed_ids_map, dropped_ids_map, returns_map.
  rewrite app_nil_r. repeat split; reflexivity.
Qed.

Lemma success_returns_all n o :
  all_ok n o ->
  let r := run n o in
  final r = Returned (seq 0 n) /\
  trace r = cw 0 n ++ [Return (seq 0 n)] /\
  constructed_ids (trace r) = seq 0 n /\
  dropped_ids (trace r) = [] /\
  calls_made r = n.
Proof.
  intro H. cbn zeta. rewrite (run_success n o H). cbn [trace final calls_made]. unfold success_trace.
  rewrite constructed_ids_app, dropped_ids_app, constructed_ids_cw, dropped_ids_cw.
  cbn [constructed_ids dropped_ids]. rewrite app_nil_r. repeat split; reflexivity.
Qed.

(** the loop preserves the invariant as worded in the Rust SAFETY comments, and
    [debug_assert_eq!(self.init_count, N)] in [transmute_to_array] holds *)
Lemma fill_invariant n o :
  match fill as_written o n 0 (initial n) with
  | (_, fl, s) => inv n s /\ (fl = Continue -> init_count s = n)
  end.
Proof.
  destruct (script_cases n o) as [H | (j & Hj & Hok & Hbad)].
  - rewrite initial_shape, fill_ok by exact H. cbn [plus]. split.
    + pose proof (shape_inv n 0) as I. rewrite Nat.add_0_r in I. exact I.
    + reflexivity.
  - pose proof (fill_stop o j (n - S j) 0 Hok Hbad) as F. cbn [plus] in F.
    replace (j + S (n - S j)) with n in F by lia.
    rewrite initial_shape, F. split.
    + destruct (shape_inv j (S (n - S j))) as (ids & I1 & I2 & I3 & I4).
      replace (j + S (n - S j)) with n in * by lia.
      exists ids. repeat split; assumption.
    + destruct (answer_at o j); [congruence|discriminate|discriminate].
Qed.

(** the hypotheses of the two case theorems are satisfiable (used by Properties/C15.v) *)
Lemma ex_hypotheses_met :
  fails_at 3 [OkElem; ErrElem; OkElem] 1 /\ all_ok 3 [OkElem; OkElem; OkElem; PanicElem].
Proof.
  split.
  - split; [repeat constructor|]. split.
    + intros i Hi. destruct i as [|i]; [reflexivity|]. inversion Hi as [|m Hm]. inversion Hm.
    + discriminate.
  - intros i Hi. destruct i as [|[|[|i]]]; try reflexivity.
    do 3 apply le_S_n in Hi. inversion Hi.
Qed.
