(** Basic facts for the io proofs: [take_upto], loops with an outcome predicate,
    equality of the two [read_exact] / [write_all] transcriptions. *)
From Coq Require Import List NArith PArith Bool Lia.
From Borsh Require Import Bytes BytesFacts Result Loop LoopFacts Ty Ser De Entry Io.
Import ListNotations.
Local Open Scope N_scope.

(** * take_upto *)
Lemma take_upto_aux_spec bs : forall n acc,
  take_upto_aux bs n acc = (rev acc ++ firstn (N.to_nat n) bs, skipn (N.to_nat n) bs).
Proof.
  induction bs as [|b r IH]; intros n acc; cbn [take_upto_aux].
  - rewrite rev_append_rev. destruct (N.eqb_spec n 0) as [->|Hn].
    + reflexivity.
    + now rewrite firstn_nil, skipn_nil.
  - destruct (N.eqb_spec n 0) as [->|Hn].
    + now rewrite rev_append_rev.
    + rewrite IH. replace (N.to_nat n) with (S (N.to_nat (N.pred n))) by lia.
      cbn [firstn skipn rev]. now rewrite <- app_assoc.
Qed.

Lemma take_upto_spec n bs :
  take_upto n bs = (firstn (N.to_nat n) bs, skipn (N.to_nat n) bs).
Proof. unfold take_upto. now rewrite take_upto_aux_spec. Qed.

Lemma take_upto_app n bs a r :
  take_upto n bs = (a, r) -> bs = a ++ r /\ len a = N.min n (len bs).
Proof.
  rewrite take_upto_spec. intros E; inversion E; subst; clear E. split.
  - now rewrite firstn_skipn.
  - rewrite !len_eq, firstn_length. lia.
Qed.

Lemma take_upto_all n bs : len bs <= n -> take_upto n bs = (bs, []).
Proof.
  intros H. rewrite take_upto_spec. rewrite len_eq in H.
  rewrite firstn_all2, skipn_all2 by lia. reflexivity.
Qed.

Lemma take_upto_exact a r : take_upto (len a) (a ++ r) = (a, r).
Proof.
  rewrite take_upto_spec, len_eq, Nnat.Nat2N.id.
  rewrite firstn_app, skipn_app, PeanoNat.Nat.sub_diag, firstn_all, skipn_all. cbn.
  now rewrite app_nil_r.
Qed.

Lemma len_zero_nil {A} (l : list A) : len l = 0 -> l = [].
Proof. rewrite len_eq. destruct l; cbn; [reflexivity|lia]. Qed.

Lemma len_pos_cons {A} (x : A) l : 0 < len (x :: l).
Proof. rewrite len_cons. lia. Qed.

Lemma app_len_inj {A} (a b c d : list A) : a ++ b = c ++ d -> len a = len c -> a = c /\ b = d.
Proof.
  intros E L. rewrite !len_eq in L. apply Nnat.Nat2N.inj in L.
  revert c E L. induction a as [|x a IH]; intros [|y c] E L; cbn in *; try discriminate.
  - auto.
  - inversion E; subst. destruct (IH c H1) as [-> ->]; [lia|auto].
Qed.

Lemma concat_rev_cons (ch : bytes) acc : concat (rev (ch :: acc)) = concat (rev acc) ++ ch.
Proof. cbn [rev]. rewrite concat_app. cbn. now rewrite app_nil_r. Qed.

(** * Loops: outcome predicate covering failures *)
Definition lift_out {S A} (Q : result A -> Prop) (Cont : S -> Prop) (r : result (S + A)) : Prop :=
  match r with
  | Ok (inl s') => Cont s'
  | Ok (inr a) => Q (Ok a)
  | Err k m => Q (Err k m)
  | Panic w => Q (Panic w)
  end.

Lemma loopP_gen {S A} (f : S -> result (S + A)) (Inv : S -> Prop) (mu : S -> N) (Q : result A -> Prop) :
  (forall s, Inv s -> lift_out Q (fun s' => Inv s' /\ mu s' < mu s) (f s)) ->
  forall p s, Inv s -> lift_out Q (fun s' => Inv s' /\ mu s' + Npos p <= mu s) (loopP p f s).
Proof.
  intros Hstep. induction p as [p IH|p IH|]; intros s HI; cbn [loopP].
  - pose proof (Hstep s HI) as H0. destruct (f s) as [[s0|a]|k m|w]; cbn [bind lift_out] in *; auto.
    destruct H0 as [I0 M0].
    pose proof (IH s0 I0) as H1. destruct (loopP p f s0) as [[s1|a]|k m|w]; cbn [bind lift_out] in *; auto.
    destruct H1 as [I1 M1].
    pose proof (IH s1 I1) as H2. destruct (loopP p f s1) as [[s2|a]|k m|w]; cbn [bind lift_out] in *; auto.
    destruct H2 as [I2 M2]. split; [assumption|lia].
  - pose proof (IH s HI) as H1. destruct (loopP p f s) as [[s1|a]|k m|w]; cbn [bind lift_out] in *; auto.
    destruct H1 as [I1 M1].
    pose proof (IH s1 I1) as H2. destruct (loopP p f s1) as [[s2|a]|k m|w]; cbn [bind lift_out] in *; auto.
    destruct H2 as [I2 M2]. split; [assumption|lia].
  - pose proof (Hstep s HI) as H0. destruct (f s) as [[s0|a]|k m|w]; cbn [lift_out] in *; auto.
    destruct H0 as [I0 M0]. split; [assumption|lia].
Qed.

Lemma loop_fuel_gen {S A} (f : S -> result (S + A)) (Inv : S -> Prop) (mu : S -> N) (Q : result A -> Prop) fuel s :
  (forall s, Inv s -> lift_out Q (fun s' => Inv s' /\ mu s' < mu s) (f s)) ->
  Inv s -> mu s <= fuel -> Q (loop_fuel fuel f s).
Proof.
  intros Hstep HI Hm. unfold loop_fuel.
  pose proof (loopP_gen f Inv mu Q Hstep (N.succ_pos fuel) s HI) as H.
  destruct (loopP (N.succ_pos fuel) f s) as [[s1|a]|k m|w]; cbn [bind lift_out] in *; auto.
  destruct H as [_ M]. rewrite N.succ_pos_spec in M. lia.
Qed.

(** * Loops: pointwise equal bodies, and bodies that differ in where they finish *)
Lemma loopP_ext {S A} (f g : S -> result (S + A)) :
  (forall s, f s = g s) -> forall p s, loopP p f s = loopP p g s.
Proof.
  intros E. induction p as [p IH|p IH|]; intros s; cbn [loopP].
  - rewrite E. destruct (g s) as [[s0|a]|k m|w]; cbn [bind]; auto.
    rewrite IH. destruct (loopP p g s0) as [[s1|a]|k m|w]; cbn [bind]; auto.
  - rewrite IH. destruct (loopP p g s) as [[s1|a]|k m|w]; cbn [bind]; auto.
  - apply E.
Qed.

Lemma loop_fuel_ext {S A} (f g : S -> result (S + A)) fuel s :
  (forall s, f s = g s) -> loop_fuel fuel f s = loop_fuel fuel g s.
Proof. intros E. unfold loop_fuel. now rewrite (loopP_ext f g E). Qed.

Definition lift_fin {S A B} (fin : B -> result A) (r : result (S + B)) : result (S + A) :=
  match r with
  | Ok (inl s') => Ok (inl s')
  | Ok (inr b) => match fin b with Ok a => Ok (inr a) | Err k m => Err k m | Panic w => Panic w end
  | Err k m => Err k m
  | Panic w => Panic w
  end.

Lemma loopP_fin {S A B} (f : S -> result (S + A)) (g : S -> result (S + B)) (fin : B -> result A) :
  (forall s, f s = lift_fin fin (g s)) ->
  forall p s, loopP p f s = lift_fin fin (loopP p g s).
Proof.
  intros E. induction p as [p IH|p IH|]; intros s; cbn [loopP].
  - rewrite E. destruct (g s) as [[s0|b]|k m|w]; cbn [bind lift_fin]; auto.
    + rewrite IH. destruct (loopP p g s0) as [[s1|b]|k m|w]; cbn [bind lift_fin]; auto.
      destruct (fin b); reflexivity.
    + destruct (fin b); reflexivity.
  - rewrite IH. destruct (loopP p g s) as [[s1|b]|k m|w]; cbn [bind lift_fin]; auto.
    destruct (fin b); reflexivity.
  - apply E.
Qed.

Lemma loop_fuel_fin {S A B} (f : S -> result (S + A)) (g : S -> result (S + B)) (fin : B -> result A) fuel s :
  (forall s, f s = lift_fin fin (g s)) ->
  loop_fuel fuel f s = bind (loop_fuel fuel g s) fin.
Proof.
  intros E. unfold loop_fuel. rewrite (loopP_fin f g fin E).
  destruct (loopP (N.succ_pos fuel) g s) as [[s1|b]|k m|w]; cbn [bind lift_fin]; auto.
  destruct (fin b); reflexivity.
Qed.

(** * The two [read_exact] transcriptions compute the same function *)
Lemma read_exact_std_shim {S} (rd : N -> S -> read_result * S) budget n s :
  read_exact_std rd budget n s = read_exact_shim rd budget n s.
Proof.
  unfold read_exact_std, read_exact_shim.
  rewrite (loop_fuel_fin (rx_step_std rd) (rx_step_shim rd)
             (fun x : N * list bytes * S =>
                let '(need, acc, s') := x in
                if need =? 0 then Ok (concat (rev acc), s') else Err UnexpectedEof MFillWhole)).
  - apply bind_ext. intros [[need acc] s']. reflexivity.
  - intros [[need acc] s0]. unfold rx_step_std, rx_step_shim.
    destruct (N.eqb_spec need 0) as [->|Hn]; cbn [lift_fin].
    + reflexivity.
    + destruct (rd need s0) as [[[|b ch]| |k m] s1]; cbn [lift_fin]; try reflexivity.
      destruct (N.eqb_spec need 0); [contradiction|reflexivity].
Qed.

(** * The two [write_all] transcriptions compute the same function *)
Lemma wa_step_std_shim {W} (wr : bytes -> W -> write_result * W) st :
  wa_step_std wr st = wa_step_shim wr st.
Proof.
  destruct st as [rem w]. unfold wa_step_std, wa_step_shim.
  destruct rem as [|b rem].
  - reflexivity.
  - destruct (N.eqb_spec (len (b :: rem)) 0) as [E|_].
    + pose proof (len_pos_cons b rem). lia.
    + destruct (wr (b :: rem) w) as [[n| |k m] w']; try reflexivity.
      destruct n; reflexivity.
Qed.

Lemma write_all_std_shim {W} (wr : bytes -> W -> write_result * W) budget b w :
  write_all_std wr budget b w = write_all_shim wr budget b w.
Proof. unfold write_all_std, write_all_shim. apply loop_fuel_ext. apply wa_step_std_shim. Qed.
