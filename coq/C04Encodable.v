(** C04, "accepted iff a well-formed encoding of SOME VALUE of the type": every value the
    decoder returns -- in BOTH key-order modes, for ALL collection kinds (IndexSet / IndexMap
    included) -- is a value the ENCODER accepts.

    [C04_sound] gives [has_ty t v], and [has_ty] admits values the encoder refuses (a float NaN,
    a collection of 2^32 or more elements, a guarded collection of memory-zero-sized elements:
    exactly [Spec.refusable], C02_refuses).  Here: a decoded value is never [refusable]
    ([dec_nr]: the decoder rejects NaN, a decoded collection has fewer than 2^32 elements
    because its count was read from 4 bytes -- and collecting into a set or map only shortens
    it --, and the decoder's zero-size guard covers every collection kind); hence by
    [enc_total] (C02_total) it has an encoding, and by [round_trip] (C01) that encoding is
    accepted in every mode and gives back the same value. *)
From Coq Require Import String.
From Coq Require Import List NArith Bool Lia.
From Coq.Strings Require Import Byte.
From Borsh Require Import Bytes BytesFacts Result Loop LoopFacts Ty TyInd Ser De Entry CodecFacts RoundTrip
     OrderFacts SortFacts RoundTripKeyed ParseFacts DecCorollaries C04Facts Spec SpecFacts SpecRefuse.
Import ListNotations.
Local Open Scope N_scope.

(** not refusable *)
Definition NR (t : ty) (v : val) (_ : bytes) : Prop := refusable t v = false.

(** * Small facts *)
Lemma existsb_false_Forall {A} (g : A -> bool) l : Forall (fun x => g x = false) l -> existsb g l = false.
Proof. induction 1 as [|x r Hx Hr IH]; cbn [existsb]; [reflexivity|]. now rewrite Hx, IH. Qed.

Lemma existsb_false_In {A} (g : A -> bool) l x : existsb g l = false -> In x l -> g x = false.
Proof.
  induction l as [|y r IH]; intros H Hx; [destruct Hx|]. cbn [existsb] in H.
  apply orb_false_iff in H. destruct H as [Hy Hr]. destruct Hx as [<-|Hx]; auto.
Qed.

Lemma existsb_false_incl {A} (g : A -> bool) l l' :
  (forall x, In x l' -> In x l) -> existsb g l = false -> existsb g l' = false.
Proof.
  intros Hin H. apply existsb_false_Forall. apply Forall_forall. intros x Hx.
  exact (existsb_false_In g l x H (Hin x Hx)).
Qed.

Lemma refusable_u8_of_bytes b : existsb (refusable (TPrim (PInt false W1))) (of_bytes b) = false.
Proof. induction b as [|x r IH]; [reflexivity|]. cbn [of_bytes map existsb refusable orb]. exact IH. Qed.

Lemma u8_is t : is_u8 t = true -> t = TPrim (PInt false W1).
Proof. destruct t as [[[] []| | | | | |]| | | | | | | |]; cbn; intros H; try discriminate; reflexivity. Qed.

Lemma too_many_lt n : n < U32_LIMIT -> too_many n = false.
Proof. intros H. unfold too_many. change U32_LIMIT with (2 ^ 32) in H. apply N.leb_gt. exact H. Qed.

(** collecting into a set / map never lengthens the list *)
Section Len.
  Variable cmp : val -> val -> comparison.
  Variable key : val -> val.

  Lemma insert_replace_length x l : (length (insert_replace cmp key x l) <= S (length l))%nat.
  Proof.
    induction l as [|y r IH]; cbn [insert_replace length]; [lia|].
    destruct (cmp (key x) (key y)); cbn [length]; lia.
  Qed.

  Lemma index_insert_length x l : (length (index_insert cmp key x l) <= S (length l))%nat.
  Proof.
    induction l as [|y r IH]; cbn [index_insert length]; [lia|].
    destruct (cmp (key x) (key y)); cbn [length]; lia.
  Qed.

  Lemma fold_left_length (ins : val -> list val -> list val) :
    (forall x l, (length (ins x l) <= S (length l))%nat) ->
    forall l acc, (length (fold_left (fun a x => ins x a) l acc) <= length acc + length l)%nat.
  Proof.
    intros Hins. induction l as [|x r IH]; intros acc; cbn [fold_left length]; [lia|].
    specialize (IH (ins x acc)). specialize (Hins x acc). lia.
  Qed.

  Lemma collect_sorted_length l : (length (collect_sorted cmp key l) <= length l)%nat.
  Proof. unfold collect_sorted. apply (fold_left_length _ insert_replace_length l []). Qed.

  Lemma collect_index_length l : (length (collect_index cmp key l) <= length l)%nat.
  Proof. unfold collect_index. apply (fold_left_length _ index_insert_length l []). Qed.
End Len.

(** * What [post] returns for a short list of non-refusable elements *)
Lemma post_nr c k t' l v :
  mem_zst (key_ty k t') = false -> len l < U32_LIMIT -> existsb (refusable t') l = false ->
  post c k (key_ty k t') l = Ok v -> refusable (TSeq k t') v = false.
Proof.
  intros Hz Hlen Hel. unfold post.
  set (cmp := cmp_val (key_ty k t')). set (key := key_val k).
  destruct (is_ordered k && strict c && negb (strictly_ascending cmp key l)); [discriminate|].
  intros H. injection H as <-.
  rewrite len_eq in Hlen.
  assert (Hl : too_many (count_of l) = false) by (apply too_many_lt; exact Hlen).
  assert (Hcs : too_many (count_of (collect_sorted cmp key l)) = false).
  { apply too_many_lt. unfold count_of. pose proof (collect_sorted_length cmp key l). lia. }
  assert (Hci : too_many (count_of (collect_index cmp key l)) = false).
  { apply too_many_lt. unfold count_of. pose proof (collect_index_length cmp key l). lia. }
  assert (Hcse : existsb (refusable t') (collect_sorted cmp key l) = false)
    by (apply (existsb_false_incl _ l); [apply collect_sorted_incl|exact Hel]).
  assert (Hcie : existsb (refusable t') (collect_index cmp key l) = false)
    by (apply (existsb_false_incl _ l); [apply collect_index_incl|exact Hel]).
  cbn [refusable]. change (spec_key_ty k t') with (key_ty k t'). rewrite Hz, andb_false_r. cbn [orb].
  destruct k; rewrite ?Hl, ?Hcs, ?Hci, ?Hcse, ?Hcie, ?Hel; try reflexivity.
  (* Deque *)
  change (count_of (@nil val)) with 0. rewrite N.add_0_r, Hl. reflexivity.
Qed.

(** * Fields: skipped positions are not written, so their defaults do not matter *)
Lemma PS_dec_fields_nr c ts :
  Forall (fun t => PS (NR t) (dec slice_reader c t)) ts ->
  forall sk,
    PS (fun l _ => any_field (fun t' x => refusable t' x) ts sk l = false)
       (dec_fields (fun t' s => dec slice_reader c t' s) ts (pad_false (length ts) sk)).
Proof.
  induction 1 as [|t' tr Ht' Htr IH]; intros sk; cbn [dec_fields].
  - apply PS_ret. reflexivity.
  - assert (Epad : pad_false (length (t' :: tr)) sk = hd false sk :: pad_false (length tr) (tl sk)).
    { destruct sk; reflexivity. }
    rewrite Epad.
    eapply (PS_bind (fun v _ => if hd false sk then True else refusable t' v = false)).
    + destruct (hd false sk); [apply PS_ret; exact I|exact Ht'].
    + intros v pre1 Hv.
      eapply PS_ext with (p := fun s => '(r, s2) <- dec_fields (fun t' s => dec slice_reader c t' s) tr (pad_false (length tr) (tl sk)) s ;; l <- Ok (v :: r) ;; Ok (l, s2)).
      { intros bs. destruct (dec_fields _ tr _ bs) as [[r s2]|k m|w]; reflexivity. }
      eapply PS_post; [apply (IH (tl sk))|].
      intros r pre Hr. cbn beta iota. cbn [any_field]. rewrite Hr, orb_false_r.
      destruct (hd false sk); [reflexivity|exact Hv].
Qed.

(** * Every accepted input yields a value the encoder does not refuse: all types, both modes *)
Theorem dec_nr c t : PS (NR t) (dec slice_reader c t).
Proof.
  induction t as [p|u|k|k|k t' IH|n t' IH|k ts IH|k vs IH|w t' IH] using ty_ind'.
  - (* prim: the decoder rejects NaN *)
    cbn [dec].
    eapply PS_ext with (p := fun s => '(b, s') <- read_mapped slice_reader (N.of_nat (prim_width p)) s ;;
                                      v <- (match prim_de_check p (unle b) with Some m => Err InvalidData m | None => Ok (VN (unle b)) end) ;; Ok (v, s')).
    { intros bs. destruct (read_mapped slice_reader _ bs) as [[b r]|k m|w]; cbn [bind]; [|reflexivity|reflexivity].
      destruct (prim_de_check p (unle b)); reflexivity. }
    eapply PS_post; [apply PS_read|]. intros b pre [-> L].
    destruct (prim_de_check p (unle pre)) eqn:Ec; [reflexivity|]. unfold NR.
    destruct p; try reflexivity. cbn [refusable]. rewrite spec_nan_eq. cbn [prim_de_check] in Ec.
    destruct (is_nan double (unle pre)); [discriminate|reflexivity].
  - cbn [dec]. apply PS_ret. reflexivity.
  - (* raw *)
    cbn [dec].
    eapply PS_ext with (p := fun s => '(b, s') <- read_mapped slice_reader (raw_len k) s ;; v <- Ok (VL (of_bytes b)) ;; Ok (v, s')).
    { intros bs. destruct (read_mapped slice_reader _ bs) as [[b r]|? ?|?]; reflexivity. }
    eapply PS_post; [apply PS_read|]. intros b pre _. reflexivity.
  - (* text: the count was read from 4 bytes *)
    assert (Hvec : PS (NR (TText k)) (fun s => '(l, s') <- dec_vec slice_reader true (fun _ => Panic P_ILLTYPED) s ;; v <- text_post k l ;; Ok (v, s'))).
    { eapply PS_post.
      - eapply PS_ext; [|apply (PS_dec_vec true (fun _ => Err InvalidData MSimple) (fun _ _ => True)); apply PS_fail].
        intros bs. unfold dec_vec. destruct (read_u32 slice_reader bs) as [[n s1]|? ?|?]; cbn [bind]; [|reflexivity|reflexivity].
        destruct (n =? 0); reflexivity.
      - intros l pre (body & _ & Hlen & ->). unfold text_post.
        destruct (typed_bytes body) as (ns & E & B & _). rewrite E.
        destruct (text_check k ns) eqn:Et; [reflexivity|]. unfold NR. cbn [refusable].
        rewrite count_of_len. now apply too_many_lt. }
    destruct k; cbn [dec]; try exact Hvec.
    (* BytesMut *)
    eapply (PS_bind _ _ (read_u32 slice_reader)); [apply PS_read_u32|].
    intros n pre1 [_ Hn].
    eapply PS_ext with (p := fun s => '(l, s2) <- repeat_dec (fun s => '(b, s') <- read_u8 slice_reader s ;; Ok (VN b, s')) n s ;; v <- Ok (VL l) ;; Ok (v, s2)).
    { intros bs. destruct (repeat_dec _ n bs) as [[l s2]|? ?|?]; reflexivity. }
    eapply PS_post.
    + apply PS_repeat_dec with (V := fun _ _ => True).
      eapply PS_ext with (p := fun s => '(b, s') <- read_u8 slice_reader s ;; v <- Ok (VN b) ;; Ok (v, s')).
      { intros bs. destruct (read_u8 slice_reader bs) as [[b r]|? ?|?]; reflexivity. }
      eapply PS_post; [apply PS_read_u8|intros; exact I].
    + intros l pre [_ Hl]. cbn beta iota. unfold NR. cbn [refusable]. rewrite count_of_len, Hl.
      now apply too_many_lt.
  - (* seq *)
    cbn [dec]. destruct (mem_zst (key_ty k t')) eqn:Hz; [apply PS_fail|].
    eapply PS_post; [apply (PS_dec_vec (is_u8 t') _ (NR t') IH)|].
    intros l pre (body & _ & Hlen & Hl).
    assert (Hel : existsb (refusable t') l = false).
    { destruct (is_u8 t') eqn:Eu.
      - apply u8_is in Eu. subst t' l. apply refusable_u8_of_bytes.
      - apply existsb_false_Forall. eapply chunks_Forall; [|exact Hl]. intros a p H. exact H. }
    pose proof (post_good c k (key_ty k t') l) as Hg.
    destruct (post c k (key_ty k t') l) as [v|e m|w] eqn:Ep; [|exact Hg|exact Hg].
    exact (post_nr c k t' l v Hz Hlen Hel Ep).
  - (* array *)
    cbn [dec]. destruct (is_u8 t') eqn:Eu.
    + eapply PS_ext with (p := fun s => '(b, s') <- read_mapped slice_reader n s ;; v <- Ok (VL (of_bytes b)) ;; Ok (v, s')).
      { intros bs. destruct (read_mapped slice_reader _ bs) as [[b r]|? ?|?]; reflexivity. }
      eapply PS_post; [apply PS_read|]. intros b pre _. cbn beta iota. unfold NR. cbn [refusable].
      apply u8_is in Eu. subst t'. apply refusable_u8_of_bytes.
    + eapply PS_ext with (p := fun s => '(l, s') <- repeat_dec (dec slice_reader c t') n s ;; v <- Ok (VL l) ;; Ok (v, s')).
      { intros bs. destruct (repeat_dec _ n bs) as [[l r]|? ?|?]; reflexivity. }
      eapply PS_post; [apply (PS_repeat_dec _ (NR t') n IH)|].
      intros l pre [Hc _]. cbn beta iota. unfold NR. cbn [refusable].
      apply existsb_false_Forall. eapply chunks_Forall; [|exact Hc]. intros a p H. exact H.
  - (* prod *)
    cbn [dec]. rewrite prod_skips_spec.
    eapply PS_ext with (p := fun s => '(l, s') <- dec_fields (fun t' s => dec slice_reader c t' s) ts (pad_false (length ts) (spec_skips k)) s ;; v <- Ok (VL l) ;; Ok (v, s')).
    { intros bs. destruct (dec_fields _ ts _ bs) as [[l r]|? ?|?]; reflexivity. }
    eapply PS_post; [apply PS_dec_fields_nr; exact IH|].
    intros l pre H. cbn beta iota. unfold NR. cbn [refusable]. exact H.
  - (* sum *)
    cbn [dec].
    eapply (PS_bind _ _ (read_u8 slice_reader)); [apply PS_read_u8|].
    intros b pre1 _. destruct (find_tag (sum_tags k) b 0) as [i|]; [|apply PS_fail].
    eapply PS_ext with (p := fun s => '(v, s2) <- nth_or (fun t' => dec slice_reader c t') (fun _ => Err InvalidData (bad_tag k b)) vs (N.to_nat i) s ;; v' <- Ok (VV i v) ;; Ok (v', s2)).
    { intros bs.
      assert (E : nth_or (fun t' => dec slice_reader c t' bs) (Err InvalidData (bad_tag k b)) vs (N.to_nat i) =
                  nth_or (fun t' => dec slice_reader c t') (fun _ => Err InvalidData (bad_tag k b)) vs (N.to_nat i) bs)
        by apply nth_or_parser.
      rewrite E. destruct (nth_or _ _ vs (N.to_nat i) bs) as [[v r]|? ?|?]; reflexivity. }
    eapply PS_post; [apply (PS_nth_or NR (fun t' => dec slice_reader c t')); exact IH|].
    intros v pre (t0 & E & Hv). cbn beta iota. unfold NR. cbn [refusable].
    rewrite at_variant_nth_or, (nth_or_some _ _ _ _ _ E). exact Hv.
  - (* wrap *)
    cbn [dec]. eapply PS_weaken; [|exact IH]. intros a pre H. exact H.
Qed.

(** * Statements *)
Lemma accept_not_refusable c t bs v rest :
  dec_slice c t bs = Ok (v, rest) -> refusable t v = false.
Proof.
  intros H. pose proof (dec_nr c t bs) as P. unfold dec_slice in H. rewrite H in P.
  destruct P as (pre & _ & Hnr & _). exact Hnr.
Qed.

(** every accepted input decodes to a value that HAS an encoding *)
Theorem accepted_is_encodable c t bs v rest :
  wf t = true -> dflt_ok t = true -> dec_slice c t bs = Ok (v, rest) ->
  exists bs', enc t v = Ok bs'.
Proof.
  intros Hwf Hd H.
  destruct (accept_sound c t bs v rest Hwf Hd H) as (pre & _ & Hty & _).
  pose proof (accept_not_refusable c t bs v rest H) as Hnr.
  destruct (enc_total t v Hwf Hty) as [[_ Hok]|[Hr _]]; [exact Hok|congruence].
Qed.
Print Assumptions accepted_is_encodable.

(** ... more precisely: the value is typed, not in the refusable set, its encoding exists, and
    that encoding is accepted in every mode, completely, and gives back the same value (so the
    accepted input and the encoding of its value are two inputs with the same meaning; they
    are the same bytes in strict mode without index kinds: [C04_strict_reencodes]) *)
Theorem accepted_reencodes c t bs v rest :
  wf t = true -> dflt_ok t = true -> dec_slice c t bs = Ok (v, rest) ->
  has_ty t v = true /\ refusable t v = false /\
  exists bs', enc t v = Ok bs' /\ forall c', try_from_slice c' t bs' = Ok v.
Proof.
  intros Hwf Hd H.
  destruct (accept_sound c t bs v rest Hwf Hd H) as (pre & _ & Hty & Hlog).
  pose proof (accept_not_refusable c t bs v rest H) as Hnr.
  split; [exact Hty|]. split; [exact Hnr|].
  destruct (enc_total t v Hwf Hty) as [[_ (bs' & Henc)]|[Hr _]]; [|congruence].
  exists bs'. split; [exact Henc|]. intros c'.
  pose proof (from_slice_round_trip c' t v bs' Hwf Hty Henc) as Hrt. unfold from_slice in Hrt.
  now rewrite Hlog in Hrt.
Qed.
Print Assumptions accepted_reencodes.
