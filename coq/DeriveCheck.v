(** Which definitions the derive macros (and rustc, for the emitted tag expressions)
    refuse: [check] transcribes the code of borsh-derive; [violations] is the rule
    list of property C18, written from the property text and the rustdoc.
    Definitions only. *)
From Coq Require Import String.
From Coq Require Import List NArith ZArith Bool.
From Borsh Require Import Bytes Result Ty Discr Item.
Import ListNotations.

(** * Outcomes *)
Inductive reject_class :=
| CMultipleAttrs          (* "multiple `borsh` attributes not allowed"           attributes/mod.rs:67 *)
| CRepeatedKey            (* "`key` is given more than once in `borsh(...)`" (commit 922f373):
                             item/mod.rs check_attributes, parsing.rs get_nested_meta_logic *)
| CVariantAttr            (* "`borsh` attributes are not supported on enum variants"   item/mod.rs:10-19 *)
| CUnknownItemKey         (* "`crate`, `use_discriminant` or `init` are the only supported attributes" *)
| CUseDiscrStruct         (* "borsh(use_discriminant=<bool>) does not support structs" *)
| CUseDiscrValue          (* "`use_discriminant` accepts only `true` or `false`" *)
| CMalformedValue         (* a value that does not parse as what the key expects (syn parse error) *)
| CTooManyVariants        (* "up to 256 enum variants are supported" *)
| CDiscrNeedsSetting      (* "You have to specify `#[borsh(use_discriminant=true)]` or ..." *)
| CSkipConflict           (* "`skip` cannot be used at the same time as `serialize_with` or `deserialize_with`" *)
| CSkipSchemaConflict     (* "`skip` cannot be used at the same time as `schema(params|with_funcs)`" *)
| CUnknownFieldKey        (* "malformed borsh attribute, expected `borsh(bound(...), ...)`" *)
| CWithFuncsIncomplete    (* "both `declaration = ...` and `definitions = ...` have to be specified" *)
| CUnion                  (* unimplemented!() in serialize/deserialize, explicit error in schema *)
(* "typecheck": rustc refuses the emitted tag expression, which is typed [u8] *)
| CTagType                (* E0600 cannot apply unary operator `-` to type `u8` *)
| CTagLiteral             (* overflowing_literals: literal out of range for `u8` *)
| CTagArith.              (* arithmetic_overflow / unconditional_panic on a user-written operation *)

Inductive verdict := accept | reject (c : reject_class).

Definition res := option reject_class.       (* [None]: no error so far *)
Definition andthen (a b : res) : res := match a with Some c => Some c | None => b end.
Infix ";;;" := andthen (at level 61, right associativity).

(** [for x in l { f(x)?; }] *)
Fixpoint first_err {A} (f : A -> res) (l : list A) : res :=
  match l with
  | [] => None
  | x :: r => match f x with Some c => Some c | None => first_err f r end
  end.

(** * attributes/mod.rs *)
(** [get_one_attribute]: more than one [#[borsh(..)]] on a node is an error. *)
Definition get_one {M} (a : attrs M) : res :=
  if Nat.ltb 1 (length a) then Some CMultipleAttrs else None.
(** [attrs.iter().find(|attr| attr.path() == BORSH)] *)
Definition first_attr {M} (a : attrs M) : list M :=
  match a with m :: _ => m | [] => [] end.

Definition missing (v : meta_val) : bool := match v with MVNone => true | _ => false end.
(** [let _expr: Expr = meta.value()?.parse()?] *)
Definition value_expr (v : meta_val) : res := if missing v then Some CMalformedValue else None.

Definition is_struct (b : body) : bool := match b with BStruct _ => true | _ => false end.

(** * A key may occur only once in one [#[borsh(k1, k2, ...)]] list (commit 922f373) *)
Definition item_key_eqb (a b : item_key) : bool :=
  match a, b with
  | IKUseDiscriminant, IKUseDiscriminant | IKInit, IKInit | IKCrate, IKCrate => true
  | IKOther x, IKOther y => String.eqb x y
  | _, _ => false
  end.
(** the key a field-level entry is filed under ([BORSH_FIELD_PARSE_MAP]) *)
Inductive field_key := FKSkip | FKSerializeWith | FKDeserializeWith | FKBound | FKSchema | FKOther (name : string).
Definition field_key_of (m : field_meta) : field_key :=
  match m with
  | FSkip => FKSkip
  | FSerializeWith _ _ => FKSerializeWith
  | FDeserializeWith _ _ => FKDeserializeWith
  | FBound _ _ => FKBound
  | FSchema _ _ => FKSchema
  | FOther n => FKOther n
  end.
Definition field_key_eqb (a b : field_key) : bool :=
  match a, b with
  | FKSkip, FKSkip | FKSerializeWith, FKSerializeWith | FKDeserializeWith, FKDeserializeWith
  | FKBound, FKBound | FKSchema, FKSchema => true
  | FKOther x, FKOther y => String.eqb x y
  | _, _ => false
  end.
(** [if seen.contains(&key) { return Err(..) }] / [if result.insert(key, v).is_some() { return Err(..) }] *)
Definition seen_err {K} (eqb : K -> K -> bool) (k : K) (seen : list K) : res :=
  if existsb (eqb k) seen then Some CRepeatedKey else None.
(** the closure of [parse_nested_meta] run over the entries of one attribute, in order, with the
    keys met so far: [pre x] (errors reported before the key is recorded), the repetition test,
    [post x] (errors reported after it) *)
Fixpoint keyed_err {A K} (key : A -> K) (eqb : K -> K -> bool) (pre post : A -> res)
         (seen : list K) (l : list A) : res :=
  match l with
  | [] => None
  | x :: r => pre x ;;; seen_err eqb (key x) seen ;;; post x ;;; keyed_err key eqb pre post (key x :: seen) r
  end.

(** * attributes/item/mod.rs *)
(** [check_attributes] *)
Definition check_item_meta (b : body) (m : item_meta) : res :=
  match im_key m with
  | IKOther _ => Some CUnknownItemKey
  | IKUseDiscriminant =>
      value_expr (im_val m) ;;; (if is_struct b then Some CUseDiscrStruct else None)
  | IKInit | IKCrate => value_expr (im_val m)
  end.
(** the loop over [data.variants] (commit 12e49aa): any [#[borsh(..)]] on a variant is an error *)
Definition variant_attr_err (v : variant) : res :=
  match v_attrs v with [] => None | _ :: _ => Some CVariantAttr end.
Definition variants_attr_err (b : body) : res :=
  match b with BEnum vs => first_err variant_attr_err vs | _ => None end.
(** the closure of [check_attributes]: unknown key, then (922f373) a key already seen, then the value *)
Definition item_unknown_err (m : item_meta) : res :=
  match im_key m with IKOther _ => Some CUnknownItemKey | _ => None end.
Definition check_item_metas (b : body) (ms : list item_meta) : res :=
  keyed_err im_key item_key_eqb item_unknown_err (check_item_meta b) [] ms.
Definition check_attributes (it : item) : res :=
  get_one (it_attrs it) ;;; variants_attr_err (it_body it) ;;;
  check_item_metas (it_body it) (first_attr (it_attrs it)).

(** [get_crate] (through [cratename::get]): the value of [crate] is a string literal holding a path. *)
Definition get_crate_meta (m : item_meta) : res :=
  match im_key m with
  | IKCrate => match im_val m with MVStr _ true => None | _ => Some CMalformedValue end
  | IKUseDiscriminant | IKInit => value_expr (im_val m)
  | IKOther _ => None
  end.
Definition get_crate (it : item) : res := first_err get_crate_meta (first_attr (it_attrs it)).

(** [contains_use_discriminant], the attribute walk *)
Definition use_discr_meta (m : item_meta) : res :=
  match im_key m with
  | IKUseDiscriminant =>
      match im_val m with
      | MVTrue | MVFalse => None
      | MVNone => Some CMalformedValue
      | _ => Some CUseDiscrValue
      end
  | IKInit | IKCrate => value_expr (im_val m)
  | IKOther _ => None
  end.
(** the value the walk leaves in [use_discriminant] (the last entry wins) *)
Definition use_discr_setting (ms : list item_meta) : option bool :=
  fold_left (fun acc m =>
               match im_key m, im_val m with
               | IKUseDiscriminant, MVTrue => Some true
               | IKUseDiscriminant, MVFalse => Some false
               | _, _ => acc
               end) ms None.
Definition has_explicit (vs : list variant) : bool :=
  existsb (fun v => match v_discr v with Some _ => true | None => false end) vs.

Definition contains_use_discriminant (it : item) (vs : list variant) : res :=
  (if Nat.ltb 256 (length vs) then Some CTooManyVariants else None) ;;;
  first_err use_discr_meta (first_attr (it_attrs it)) ;;;
  (if has_explicit vs && match use_discr_setting (first_attr (it_attrs it)) with None => true | Some _ => false end
   then Some CDiscrNeedsSetting else None).
Definition use_discriminant (it : item) : bool :=
  match use_discr_setting (first_attr (it_attrs it)) with Some b => b | None => false end.

(** [contains_initialize_with]: the value of [init] must parse as a [syn::Path] *)
Definition init_meta (m : item_meta) : res :=
  match im_key m with
  | IKInit => match im_val m with MVPath _ => None | _ => Some CMalformedValue end
  | IKUseDiscriminant | IKCrate => value_expr (im_val m)
  | IKOther _ => None
  end.
Definition contains_initialize_with (it : item) : res := first_err init_meta (first_attr (it_attrs it)).
Definition init_of (it : item) : option string :=
  fold_left (fun acc m => match im_key m, im_val m with IKInit, MVPath p => Some p | _, _ => acc end)
            (first_attr (it_attrs it)) None.

(** * attributes/field/mod.rs *)
Record fattr := {
  fa_skip : bool;
  fa_ser_with : option ty;
  fa_de_with : option ty;
  fa_schema_params : bool;
  fa_schema_funcs : bool;
}.
Definition no_fattr : fattr :=
  {| fa_skip := false; fa_ser_with := None; fa_de_with := None; fa_schema_params := false; fa_schema_funcs := false |}.

(** [get_nested_meta_logic] against [BORSH_FIELD_PARSE_MAP] (+ the [with_funcs] completeness test) *)
(** syn's nested [parse_nested_meta] refuses an empty list: [bound()], [schema()], [with_funcs()] *)
Definition empty_nested (m : field_meta) : bool :=
  match m with
  | FBound false false => true
  | FSchema false None => true
  | FSchema _ (Some (false, false)) => true
  | _ => false
  end.
Definition field_meta_err (m : field_meta) : res :=
  if empty_nested m then Some CMalformedValue else
  match m with
  | FOther _ => Some CUnknownFieldKey
  | FSchema _ (Some (d1, d2)) => if xorb d1 d2 then Some CWithFuncsIncomplete else None
  | _ => None
  end.
(** [get_nested_meta_logic] over the entries of the attribute: the parse function of the key first
    (an unknown key has none: error), then (922f373) [result.insert(key, v).is_some()] is an error *)
Definition field_metas_err (ms : list field_meta) : res :=
  keyed_err field_key_of field_key_eqb field_meta_err (fun _ => None) [] ms.
(** [impl From<BTreeMap<Symbol, Variants>> for Attributes]: one slot per key (since 922f373 a key
    cannot be entered twice; the fold below would keep the last entry) *)
Definition field_meta_apply (a : fattr) (m : field_meta) : fattr :=
  match m with
  | FSkip => {| fa_skip := true; fa_ser_with := fa_ser_with a; fa_de_with := fa_de_with a;
                fa_schema_params := fa_schema_params a; fa_schema_funcs := fa_schema_funcs a |}
  | FSerializeWith _ t => {| fa_skip := fa_skip a; fa_ser_with := Some t; fa_de_with := fa_de_with a;
                             fa_schema_params := fa_schema_params a; fa_schema_funcs := fa_schema_funcs a |}
  | FDeserializeWith _ t => {| fa_skip := fa_skip a; fa_ser_with := fa_ser_with a; fa_de_with := Some t;
                               fa_schema_params := fa_schema_params a; fa_schema_funcs := fa_schema_funcs a |}
  | FSchema p wf => {| fa_skip := fa_skip a; fa_ser_with := fa_ser_with a; fa_de_with := fa_de_with a;
                       fa_schema_params := p;
                       fa_schema_funcs := match wf with Some _ => true | None => false end |}
  | FBound _ _ | FOther _ => a
  end.
Definition field_attr_of (ms : list field_meta) : fattr := fold_left field_meta_apply ms no_fattr.

(** [Attributes::check] and [check_schema] *)
Definition fattr_check (a : fattr) : res :=
  (if fa_skip a && (match fa_ser_with a with Some _ => true | None => false end ||
                    match fa_de_with a with Some _ => true | None => false end)
   then Some CSkipConflict else None) ;;;
  (if fa_skip a && fa_schema_params a then Some CSkipSchemaConflict else None) ;;;
  (if fa_skip a && fa_schema_funcs a then Some CSkipSchemaConflict else None).

(** [Attributes::parse] *)
Definition field_attrs_err (a : attrs field_meta) : res :=
  get_one a ;;; field_metas_err (first_attr a) ;;; fattr_check (field_attr_of (first_attr a)).
Definition parsed (f : field) : fattr := field_attr_of (first_attr (f_attrs f)).

Definition fields_err (fs : fields) : res :=
  first_err (fun f => field_attrs_err (f_attrs f)) (fields_list fs).

(** * enum_discriminant.rs: [Discriminants::get], the [u8::try_from(variant_idx)] part *)
Definition discr_get (variant_idx : nat) : res :=
  if Nat.ltb variant_idx 256 then None else Some CTooManyVariants.

(** the per-variant loop of serialize/enums, deserialize/enums, schema/enums *)
Fixpoint variants_err (k : derive_kind) (idx : nat) (vs : list variant) : res :=
  match vs with
  | [] => None
  | v :: r =>
      (match k with
       | DSer => discr_get idx ;;; fields_err (v_fields v)
       | DDe | DSchema => fields_err (v_fields v) ;;; discr_get idx
       end) ;;; variants_err k (S idx) r
  end.

(** * rustc on the emitted tag expressions ([let variant_idx: u8 = match self { .. => TAG }],
    [if variant_tag == TAG], [u8::from(TAG)]): only under [use_discriminant = true]; with
    [false] the tags are the literals [0u8 ..= 255u8].  Type errors mask the lints, and
    lints are not reported for tokens the macro wrote ([lax] evaluation). *)
Definition tag_exprs (vs : list variant) : list (option expr) :=
  map parse (derive_discrs (map v_discr vs)).
Definition any_tag (p : expr -> bool) (es : list (option expr)) : bool :=
  existsb (fun oe => match oe with Some e => p e | None => false end) es.
Definition tag_unevaluable (oe : option expr) : bool :=
  match oe with
  | Some e => match eval true U8 e with Some _ => false | None => true end
  | None => true
  end.
Definition rustc_tags (it : item) (vs : list variant) : res :=
  if use_discriminant it then
    let es := tag_exprs vs in
    if any_tag (has_neg U8) es then Some CTagType
    else if any_tag (has_big_lit U8) es then Some CTagLiteral
    else if existsb tag_unevaluable es then Some CTagArith
    else None
  else None.

(** * lib.rs: the three derive entry points *)
Definition check_res (k : derive_kind) (it : item) : res :=
  check_attributes it ;;; get_crate it ;;;
  match it_body it with
  | BStruct fs =>
      fields_err fs ;;;
      (match k with DDe => contains_initialize_with it | _ => None end)
  | BEnum vs =>
      contains_use_discriminant it vs ;;;
      variants_err k 0 vs ;;;
      (match k with DDe => contains_initialize_with it | _ => None end) ;;;
      rustc_tags it vs
  | BUnion _ => Some CUnion
  end.

Definition check (k : derive_kind) (it : item) : verdict :=
  match check_res k it with None => accept | Some c => reject c end.

(** * The rules of C18, from the property statement *)
Inductive rule :=
| RDiscrNoSetting     (* an enum with any explicit discriminant but no use_discriminant setting *)
| RUseDiscrStruct     (* use_discriminant on a struct *)
| RUseDiscrValue      (* use_discriminant with a value other than true/false *)
| RDiscrFit           (* a discriminant that does not fit one byte when discriminants are used as tags *)
| RTooManyVariants    (* more than 256 variants *)
| RSkipConflict       (* skip combined with serialize_with/deserialize_with or a schema override *)
| RUnknownAttr        (* unknown borsh attributes *)
| RRepeatedAttr       (* repeated borsh attributes: two [#[borsh(..)]] on one node *)
| RRepeatedKey        (* repeated borsh attributes: one key twice inside one [#[borsh(..)]] *)
| RUnion              (* unions *)
| RUndocumented.      (* not a definition "the documentation allows": a value of another shape
                         than documented (missing, crate not a string path, init not a path,
                         with_funcs with only one of declaration/definitions, an empty
                         nested list) *)

Definition item_metas (it : item) : list item_meta := concat (it_attrs it).
Definition all_fields (it : item) : list field :=
  match it_body it with
  | BStruct fs => fields_list fs
  | BEnum vs => flat_map (fun v => fields_list (v_fields v)) vs
  | BUnion fs => fs
  end.
Definition variants_of (it : item) : list variant :=
  match it_body it with BEnum vs => vs | _ => [] end.
Definition field_metas (f : field) : list field_meta := concat (f_attrs f).

Definition is_use_discr (m : item_meta) : bool :=
  match im_key m with IKUseDiscriminant => true | _ => false end.

(** the documented tag of variant [i]: its discriminant, which must be a [u8] constant *)
Definition tag_doc (ds : list (option expr)) (i : nat) : option Z :=
  match nth i (rust_discrs U8 ds) None, nth i (rust_discrs ISize ds) None with
  | Some n, Some m => if Z.eqb n m then Some n else None
  | _, _ => None
  end.
(** the setting: the [use_discriminant = true/false] entry.  An item with two of them violates
    [RRepeatedKey] whatever they say; for such an item this is the last one, which is what the
    later functions of the macro would read. *)
Definition setting (it : item) : option bool := use_discr_setting (item_metas it).

Definition r_discr_no_setting (it : item) : bool :=
  has_explicit (variants_of it) && negb (existsb is_use_discr (item_metas it)).
Definition r_use_discr_struct (it : item) : bool :=
  is_struct (it_body it) && existsb is_use_discr (item_metas it).
Definition r_use_discr_value (it : item) : bool :=
  existsb (fun m => is_use_discr m &&
                    match im_val m with MVTrue | MVFalse | MVNone => false | _ => true end) (item_metas it).
Definition r_discr_fit (it : item) : bool :=
  match setting it with
  | Some true =>
      let ds := map v_discr (variants_of it) in
      existsb (fun i => match tag_doc ds i with Some _ => false | None => true end) (seq 0 (length ds))
  | _ => false
  end.
Definition r_too_many (it : item) : bool := Nat.ltb 256 (length (variants_of it)).
Definition is_skip (m : field_meta) : bool := match m with FSkip => true | _ => false end.
Definition is_with (m : field_meta) : bool :=
  match m with FSerializeWith _ _ | FDeserializeWith _ _ => true | _ => false end.
(** a schema override: [schema(params = ..)] or [schema(with_funcs(..))] *)
Definition has_schema_override (m : field_meta) : bool :=
  match m with
  | FSchema p wf => p || match wf with Some _ => true | None => false end
  | _ => false
  end.
Definition r_skip_conflict (it : item) : bool :=
  existsb (fun f => existsb is_skip (field_metas f) &&
                    (existsb is_with (field_metas f) || existsb has_schema_override (field_metas f))) (all_fields it).
Definition r_unknown (it : item) : bool :=
  existsb (fun m => match im_key m with IKOther _ => true | _ => false end) (item_metas it) ||
  existsb (fun f => existsb (fun m => match m with FOther _ => true | _ => false end) (field_metas f)) (all_fields it) ||
  existsb (fun v => match v_attrs v with [] => false | _ => true end) (variants_of it).
Definition r_repeated (it : item) : bool :=
  Nat.ltb 1 (length (it_attrs it)) ||
  existsb (fun f => Nat.ltb 1 (length (f_attrs f))) (all_fields it) ||
  existsb (fun v => Nat.ltb 1 (length (v_attrs v))) (variants_of it).
(** some key occurs twice within ONE attribute's list: item level ([use_discriminant], [init],
    [crate], or an unknown key), field level ([skip], [serialize_with], [deserialize_with], [bound],
    [schema], or an unknown key), or on a variant.  (Repetitions inside the nested lists
    [bound(..)], [schema(..)], [with_funcs(..)] are outside the item syntax: their entries are
    flags here; they are exercised at source level by checks/c18.py.) *)
Fixpoint has_dup {K} (eqb : K -> K -> bool) (l : list K) : bool :=
  match l with
  | [] => false
  | k :: r => existsb (eqb k) r || has_dup eqb r
  end.
Definition r_repeated_key (it : item) : bool :=
  existsb (fun a => has_dup item_key_eqb (map im_key a)) (it_attrs it) ||
  existsb (fun f => existsb (fun a => has_dup field_key_eqb (map field_key_of a)) (f_attrs f)) (all_fields it) ||
  existsb (fun v => existsb (has_dup String.eqb) (v_attrs v)) (variants_of it).
Definition r_union (it : item) : bool := match it_body it with BUnion _ => true | _ => false end.
Definition r_undocumented (k : derive_kind) (it : item) : bool :=
  existsb (fun m => match im_key m with
                    | IKOther _ => false
                    | IKUseDiscriminant => missing (im_val m)
                    | IKCrate => match im_val m with MVStr _ true => false | _ => true end
                    | IKInit => match k with
                                | DDe => match im_val m with MVPath _ => false | _ => true end
                                | _ => missing (im_val m)
                                end
                    end) (item_metas it) ||
  existsb (fun f => existsb (fun m => match m with
                                      | FSchema false None | FBound false false => true     (* [schema()], [bound()] *)
                                      | FSchema _ (Some (d1, d2)) => negb (d1 && d2)        (* [with_funcs] needs both *)
                                      | _ => false
                                      end) (field_metas f)) (all_fields it).

Definition rules (k : derive_kind) (it : item) : list (rule * bool) :=
  [ (RRepeatedAttr, r_repeated it);
    (RRepeatedKey, r_repeated_key it);
    (RUnknownAttr, r_unknown it);
    (RUndocumented, r_undocumented k it);
    (RUseDiscrStruct, r_use_discr_struct it);
    (RUseDiscrValue, r_use_discr_value it);
    (RUnion, r_union it);
    (RTooManyVariants, r_too_many it);
    (RDiscrNoSetting, r_discr_no_setting it);
    (RSkipConflict, r_skip_conflict it);
    (RDiscrFit, r_discr_fit it) ].
Definition violations (k : derive_kind) (it : item) : list rule :=
  map fst (filter snd (rules k it)).
Definition violates (k : derive_kind) (it : item) : option rule := hd_error (violations k it).

(** the rule a rejection class belongs to *)
Definition rule_of_class (c : reject_class) : rule :=
  match c with
  | CMultipleAttrs => RRepeatedAttr
  | CRepeatedKey => RRepeatedKey
  | CVariantAttr | CUnknownItemKey | CUnknownFieldKey => RUnknownAttr
  | CUseDiscrStruct => RUseDiscrStruct
  | CUseDiscrValue => RUseDiscrValue
  | CMalformedValue | CWithFuncsIncomplete => RUndocumented
  | CTooManyVariants => RTooManyVariants
  | CDiscrNeedsSetting => RDiscrNoSetting
  | CSkipConflict | CSkipSchemaConflict => RSkipConflict
  | CUnion => RUnion
  | CTagType | CTagLiteral | CTagArith => RDiscrFit
  end.

(** * Classes of items on which the code as found departs from C18 (DESIGN section 6 and NOTES) *)
(** some variant carries a [#[borsh(..)]] attribute (refused since commit 12e49aa; was F7) *)
Definition has_variant_attrs (it : item) : bool :=
  existsb (fun v => match v_attrs v with [] => false | _ => true end) (variants_of it).
(** F11: an implicit discriminant overflows [u8] in a [+ 1] the macro wrote: rustc does not
    lint it; the tag wraps (release) or the derived code panics (debug). *)
Definition implicit_overflow (it : item) : bool :=
  match setting it with
  | Some true =>
      existsb (fun oe => match oe with
                         | Some e => match eval true U8 e, eval false U8 e with
                                     | Some _, None => true
                                     | _, _ => false
                                     end
                         | None => false
                         end) (tag_exprs (variants_of it))
  | _ => false
  end.
(** F12: an explicit discriminant whose value depends on the integer type it is typed at
    ([!0] is -1 as [isize] and 255 as [u8]; [128 << 1] is 256 and 0). *)
Definition type_dependent_discr (it : item) : bool :=
  match setting it with
  | Some true =>
      existsb (fun v => match v_discr v with Some e => negb (stable e) | None => false end) (variants_of it)
  | _ => false
  end.
Definition discrs_canonical (it : item) : bool :=
  forallb (fun v => match v_discr v with Some e => canonical e | None => true end) (variants_of it).
