(** Abstract machine for [<[T; N] as BorshDeserialize>::deserialize_reader] on the
    non-u8 path (borsh/src/de/mod.rs, [ArrayDropGuard]).  Definitions only; the
    proofs are in ArrayGuardProofs.v, the property theorems in Properties/C15.v.

    What is modelled is the *bookkeeping* of the three pieces of unsafe code:
    which slot of the [MaybeUninit] buffer holds an owned value, what the register
    [init_count] says, and which values the guard's [Drop] and the final
    [ptr::read] touch.  The memory behind the pointer casts is not modelled. *)
From Coq Require Import List Arith Bool.
Import ListNotations.

(** * Carriers *)

(** One slot of [buffer: [MaybeUninit<T>; N]].  [Init id]: the slot owns the value
    [id].  [Moved]: the bits are still there but ownership has been transferred by
    [ptr::read]; dropping it again would be a double drop. *)
Inductive slot := Uninit | Init (id : nat) | Moved.

(** What the [i]-th call of the closure [|| T::deserialize_reader(reader)] does. *)
Inductive answer := OkElem | ErrElem | PanicElem.

(** The script of the element decoder.  A script that is exhausted answers [ErrElem]:
    the reader is at its end and the element decoder returns an error. *)
Definition answer_at (o : list answer) (call : nat) : answer := nth call o ErrElem.

Inductive why :=
| DropUninit (i : nat)   (* drop_in_place on a slot that was never written *)
| DropMoved (i : nat)    (* drop_in_place on a slot whose value was moved out: double drop *)
| ReadUninit (i : nat)   (* ptr::read of a slot that was never written *)
| ReadMoved (i : nat)    (* ptr::read of a slot whose value was already moved out *)
| SliceRange.            (* [..init_count] with init_count > N (a bounds panic inside Drop; flagged too) *)

Inductive event :=
| Construct (id : nat)          (* the element decoder produced a value; fresh id *)
| Write (i id : nat)            (* [elem.write(v)] on slot i *)
| DropEv (id : nat)             (* the destructor of value id runs *)
| Return (ids : list nat)       (* [Ok(array)] handed to the caller, in slot order *)
| UB (w : why).

Inductive outcome := Returned (ids : list nat) | Failed | Panicked.

(** * The two places where the order of steps matters

    [incr_first = false], [reset_first = true] is the code as written.  The other
    settings are the classic mistakes and are used for the negative examples. *)
Record variant := { incr_first : bool;   (* [init_count += 1] placed before [elem.write(f()?)] *)
                    reset_first : bool   (* [init_count = 0] before the [ptr::read] *) }.
Definition as_written : variant := {| incr_first := false; reset_first := true |}.
Definition bug_incr_before_write : variant := {| incr_first := true; reset_first := true |}.
Definition bug_no_reset : variant := {| incr_first := false; reset_first := false |}.

(** * Machine state: the guard's two fields and two counters of the environment *)
Record st := { buffer : list slot;     (* ArrayDropGuard::buffer *)
               init_count : nat;       (* ArrayDropGuard::init_count *)
               next_id : nat;          (* ids handed out so far *)
               calls : nat             (* calls of the closure so far *) }.

Definition initial (n : nat) : st :=
  {| buffer := repeat Uninit n; init_count := 0; next_id := 0; calls := 0 |}.

Fixpoint set_nth {A} (i : nat) (x : A) (l : list A) : list A :=
  match l, i with
  | [], _ => []
  | _ :: t, 0 => x :: t
  | h :: t, S i' => h :: set_nth i' x t
  end.

(** ** The separate steps *)

(** [self.init_count += 1] *)
Definition step_incr (s : st) : st :=
  {| buffer := buffer s; init_count := S (init_count s); next_id := next_id s; calls := calls s |}.

(** [f()]: consult the script; the call is counted whatever the answer *)
Definition step_call (o : list answer) (s : st) : answer * st :=
  (answer_at o (calls s),
   {| buffer := buffer s; init_count := init_count s; next_id := next_id s; calls := S (calls s) |}).

(** the value produced by a successful call gets a fresh id *)
Definition step_fresh (s : st) : nat * st :=
  (next_id s,
   {| buffer := buffer s; init_count := init_count s; next_id := S (next_id s); calls := calls s |}).

(** [elem.write(v)]: [MaybeUninit::write] overwrites without dropping *)
Definition step_write (i id : nat) (s : st) : st :=
  {| buffer := set_nth i (Init id) (buffer s); init_count := init_count s;
     next_id := next_id s; calls := calls s |}.

(** [self.init_count = 0] *)
Definition step_reset (s : st) : st :=
  {| buffer := buffer s; init_count := 0; next_id := next_id s; calls := calls s |}.

(** * [impl Drop for ArrayDropGuard]
    [drop_in_place(&mut self.buffer[..self.init_count] as *mut [T])]: the destructor of
    every slot of the range runs, in index order, whatever the slot holds. *)
Definition drop_slot (i : nat) (s : slot) : event :=
  match s with
  | Init id => DropEv id
  | Uninit => UB (DropUninit i)
  | Moved => UB (DropMoved i)
  end.

Fixpoint drop_slots (i : nat) (l : list slot) : list event :=
  match l with
  | [] => []
  | s :: l' => drop_slot i s :: drop_slots (S i) l'
  end.

Definition drop_guard (s : st) : list event :=
  if init_count s <=? length (buffer s)
  then drop_slots 0 (firstn (init_count s) (buffer s))
  else [UB SliceRange].

(** * [fill_buffer]
    [for elem in self.buffer.iter_mut() { elem.write(f()?); self.init_count += 1; }] *)
Inductive flow := Continue | StopErr | StopPanic.

(** one iteration, for slot [i] *)
Definition body (v : variant) (o : list answer) (i : nat) (s : st) : list event * flow * st :=
  let s1 := if incr_first v then step_incr s else s in          (* buggy placement *)
  let (a, s2) := step_call o s1 in                                (* f() *)
  match a with
  | ErrElem => ([], StopErr, s2)                                  (* `?` returns the error *)
  | PanicElem => ([], StopPanic, s2)                              (* unwinding starts *)
  | OkElem =>
      let (id, s3) := step_fresh s2 in
      let s4 := step_write i id s3 in                             (* elem.write(v) *)
      let s5 := if incr_first v then s4 else step_incr s4 in      (* THEN init_count += 1 *)
      ([Construct id; Write i id], Continue, s5)
  end.

(** the loop: [k] slots remain, the next one is [i] *)
Fixpoint fill (v : variant) (o : list answer) (k i : nat) (s : st) : list event * flow * st :=
  match k with
  | 0 => ([], Continue, s)                                        (* Ok(()) *)
  | S k' =>
      match body v o i s with
      | (ev, Continue, s') =>
          match fill v o k' (S i) s' with
          | (ev', fl, s'') => (ev ++ ev', fl, s'')
          end
      | stop => stop
      end
  end.

(** * [transmute_to_array]
    [self.init_count = 0; core::ptr::read(&self.buffer as *const _ as *const [T; N])];
    [self] goes out of scope at the end of the function, so the guard is dropped after
    the read and before the array reaches the caller. *)
Fixpoint read_slots (i : nat) (l : list slot) : list event * list nat * list slot :=
  match l with
  | [] => ([], [], [])
  | s :: l' =>
      match read_slots (S i) l' with
      | (ev, ids, l'') =>
          match s with
          | Init id => (ev, id :: ids, Moved :: l'')
          | Uninit => (UB (ReadUninit i) :: ev, ids, Uninit :: l'')
          | Moved => (UB (ReadMoved i) :: ev, ids, Moved :: l'')
          end
      end
  end.

Definition transmute_to_array (v : variant) (s : st) : list event * list nat :=
  let s1 := if reset_first v then step_reset s else s in
  match read_slots 0 (buffer s1) with
  | (ev, ids, buf') =>
      let s2 := {| buffer := buf'; init_count := init_count s1;
                   next_id := next_id s1; calls := calls s1 |} in
      (ev ++ drop_guard s2, ids)
  end.

(** * The whole function (the branch taken when [T::array_from_reader] returns [None]) *)
Record run_result := { trace : list event; final : outcome; calls_made : nat }.

Definition deserialize (v : variant) (n : nat) (o : list answer) : run_result :=
  match fill v o n 0 (initial n) with
  | (ev, Continue, s) =>
      let (ev2, ids) := transmute_to_array v s in
      {| trace := ev ++ ev2 ++ [Return ids]; final := Returned ids; calls_made := calls s |}
  | (ev, StopErr, s) =>      (* `?` in deserialize_reader: `result` goes out of scope *)
      {| trace := ev ++ drop_guard s; final := Failed; calls_made := calls s |}
  | (ev, StopPanic, s) =>    (* unwinding through deserialize_reader drops `result` *)
      {| trace := ev ++ drop_guard s; final := Panicked; calls_made := calls s |}
  end.

(** The machine for the code as written. *)
Definition run (n : nat) (o : list answer) : run_result := deserialize as_written n o.

(** * Observers used in the statements *)

(** the element decoder fails (error, panic, or end of input) at call [j], after [j] successes *)
Definition fails_at (n : nat) (o : list answer) (j : nat) : Prop :=
  j < n /\ (forall i, i < j -> answer_at o i = OkElem) /\ answer_at o j <> OkElem.

Definition all_ok (n : nat) (o : list answer) : Prop :=
  forall i, i < n -> answer_at o i = OkElem.

Definition stop_outcome (a : answer) : outcome :=
  match a with PanicElem => Panicked | _ => Failed end.

Fixpoint constructs (id : nat) (t : list event) : nat :=
  match t with
  | [] => 0
  | Construct x :: t' => (if x =? id then 1 else 0) + constructs id t'
  | _ :: t' => constructs id t'
  end.

Fixpoint drops (id : nat) (t : list event) : nat :=
  match t with
  | [] => 0
  | DropEv x :: t' => (if x =? id then 1 else 0) + drops id t'
  | _ :: t' => drops id t'
  end.

(** how many times [id] is handed to the caller *)
Fixpoint returned (id : nat) (t : list event) : nat :=
  match t with
  | [] => 0
  | Return ids :: t' => count_occ Nat.eq_dec ids id + returned id t'
  | _ :: t' => returned id t'
  end.

Fixpoint returns (t : list event) : nat :=
  match t with
  | [] => 0
  | Return _ :: t' => S (returns t')
  | _ :: t' => returns t'
  end.

(** ids in order of construction / of destruction *)
Fixpoint constructed_ids (t : list event) : list nat :=
  match t with
  | [] => []
  | Construct x :: t' => x :: constructed_ids t'
  | _ :: t' => constructed_ids t'
  end.

Fixpoint dropped_ids (t : list event) : list nat :=
  match t with
  | [] => []
  | DropEv x :: t' => x :: dropped_ids t'
  | _ :: t' => dropped_ids t'
  end.

Definition is_ub (e : event) : bool := match e with UB _ => true | _ => false end.

(** the trace of [k] successful iterations starting at slot/id [i] *)
Fixpoint cw (i k : nat) : list event :=
  match k with
  | 0 => []
  | S k' => Construct i :: Write i i :: cw (S i) k'
  end.
