(** The type universe of the supported family, values, and the static
    judgements on them (typing, memory-zero-size, Rust's [Ord], defaults,
    the logical value a representation stands for). *)
From Coq Require Import String.
From Coq Require Import List NArith Bool.
From Borsh Require Import Bytes Result.
Import ListNotations.
Local Open Scope N_scope.

(** * Kinds *)

Inductive width := W1 | W2 | W4 | W8 | W16.
Definition wbytes (w : width) : nat :=
  match w with W1 => 1 | W2 => 2 | W4 => 4 | W8 => 8 | W16 => 16 end%nat.

Inductive prim :=
| PInt (signed : bool) (w : width)       (* u8..u128, i8..i128 *)
| PSize (signed : bool)                   (* usize / isize: 8 bytes on the wire *)
| PNonZero (signed : bool) (w : width)    (* NonZeroU8 .. NonZeroI128 *)
| PNonZeroSize                            (* NonZeroUsize *)
| PFloat (double : bool)                  (* f32 / f64, value = bit pattern *)
| PBool
| PAsciiChar.

Inductive unit_kind := UUnit | UPhantom | URangeFull.
Inductive raw_kind := RIpv4 | RIpv6 | RObjectId.
Inductive text_kind := XString | XStr | XAsciiString | XAsciiStr | XBytes | XBytesMut.
Inductive seq_kind :=
| SVec | SDeque | SList | SSlice
| SBTreeSet | SHashSet | SIndexSet
| SBTreeMap | SHashMap | SIndexMap.
Inductive range_kind := RRange | RRangeInclusive | RRangeFrom | RRangeTo | RRangeToInclusive.
Inductive prod_kind :=
| PTuple
| PRange (r : range_kind)
| PSockV4 | PSockV6
| PStruct (name : string) (fnames : list string) (skips : list bool)
| PVariant (fnames : list string) (skips : list bool).   (* payload of one enum variant *)
Inductive sum_kind :=
| KOption | KResult | KIpAddr | KSocketAddr
| KEnum (name : string) (vnames : list string) (tags : list N).
Inductive wrap_kind := WRef | WBox | WCow | WRc | WArc | WCell | WRefCell.

(** * Types and values *)

Inductive ty :=
| TPrim (p : prim)
| TUnit (u : unit_kind)
| TRaw (k : raw_kind)
| TText (k : text_kind)
| TSeq (k : seq_kind) (t : ty)       (* map kinds: [t = TProd PTuple [key; value]] *)
| TArray (n : N) (t : ty)
| TProd (k : prod_kind) (ts : list ty)
| TSum (k : sum_kind) (vs : list ty)  (* one payload type per variant, in declaration order *)
| TWrap (w : wrap_kind) (t : ty).

(** A value is a *representation*: integers and floats are their unsigned
    bit pattern; text, raw bytes, sequences, arrays and products are lists;
    a sum is (ordinal of the variant, payload).  A [VecDeque] is the pair of
    its two slices; hash collections are listed in iteration order. *)
Inductive val :=
| VN (n : N)
| VL (l : list val)
| VV (i : N) (v : val).

(** * Primitives *)

Definition prim_width (p : prim) : nat :=
  match p with
  | PInt _ w | PNonZero _ w => wbytes w
  | PSize _ | PNonZeroSize => 8
  | PFloat d => if d then 8 else 4
  | PBool | PAsciiChar => 1
  end%nat.

Definition prim_signed (p : prim) : bool :=
  match p with
  | PInt s _ | PNonZero s _ | PSize s => s
  | _ => false
  end.

Definition is_nan (double : bool) (n : N) : bool :=
  if double
  then ((n / 2 ^ 52) mod 2048 =? 2047) && negb (n mod 2 ^ 52 =? 0)
  else ((n / 2 ^ 23) mod 256 =? 255) && negb (n mod 2 ^ 23 =? 0).

(** What the decoder rejects after reading the bytes of a primitive. *)
Definition prim_de_check (p : prim) (n : N) : option msg :=
  match p with
  | PInt _ _ | PSize _ => None         (* usize/isize: 64-bit host, try_from cannot fail *)
  | PNonZero _ _ | PNonZeroSize => if n =? 0 then Some MZeroNonZero else None
  | PFloat d => if is_nan d n then Some MNaNDe else None
  | PBool => if n <? 2 then None else Some (MBadBool n)
  | PAsciiChar => if n <? 128 then None else Some MAscii
  end.

(** What the encoder refuses. *)
Definition prim_ser_check (p : prim) (n : N) : option msg :=
  match p with
  | PFloat d => if is_nan d n then Some MNaNSer else None
  | _ => None
  end.

Definition prim_val_ok (p : prim) (n : N) : bool :=
  (n <? 256 ^ N.of_nat (prim_width p)) &&
  match p with
  | PFloat _ => true                     (* NaN is a value; it fails to serialize *)
  | _ => match prim_de_check p n with None => true | Some _ => false end
  end.

(** Rust's [Ord] on a primitive, from the bit pattern. *)
Definition prim_key (p : prim) (n : N) : N :=
  if prim_signed p
  then (n + 2 ^ (8 * N.of_nat (prim_width p) - 1)) mod 2 ^ (8 * N.of_nat (prim_width p))
  else n.

(** * Text *)

Definition raw_len (k : raw_kind) : N :=
  match k with RIpv4 => 4 | RIpv6 => 16 | RObjectId => 12 end.

(** UTF-8 well-formedness (Unicode Table 3-7), as a left-to-right automaton:
    [need] continuation bytes outstanding, the next one within [lo, hi]. *)
Fixpoint utf8_go (need : nat) (lo hi : N) (l : list N) : bool :=
  match l with
  | [] => match need with O => true | _ => false end
  | b :: r =>
      match need with
      | O =>
          if b <? 128 then utf8_go 0 128 191 r
          else if (194 <=? b) && (b <=? 223) then utf8_go 1 128 191 r
          else if b =? 224 then utf8_go 2 160 191 r
          else if ((225 <=? b) && (b <=? 236)) || (b =? 238) || (b =? 239) then utf8_go 2 128 191 r
          else if b =? 237 then utf8_go 2 128 159 r
          else if b =? 240 then utf8_go 3 144 191 r
          else if (241 <=? b) && (b <=? 243) then utf8_go 3 128 191 r
          else if b =? 244 then utf8_go 3 128 143 r
          else false
      | S need' => if (lo <=? b) && (b <=? hi) then utf8_go need' 128 191 r else false
      end
  end.
Definition utf8_valid (l : list N) : bool := utf8_go 0 128 191 l.
Definition ascii_valid (l : list N) : bool := forallb (fun b => b <? 128) l.

Definition text_check (k : text_kind) (l : list N) : option msg :=
  match k with
  | XString | XStr => if utf8_valid l then None else Some MUtf8
  | XAsciiString | XAsciiStr => if ascii_valid l then None else Some MAscii
  | XBytes | XBytesMut => None
  end.

(** * Values as lists of bytes *)

Definition val_n (v : val) : option N := match v with VN n => Some n | _ => None end.
Fixpoint vals_ns (l : list val) : option (list N) :=
  match l with
  | [] => Some []
  | VN n :: r => match vals_ns r with Some ns => Some (n :: ns) | None => None end
  | _ :: _ => None
  end.
Definition of_bytes (bs : bytes) : list val := map (fun b => VN (b2n b)) bs.
Definition to_bytes (ns : list N) : bytes := map n2b ns.
Definition all_byte (ns : list N) : bool := forallb (fun b => b <? 256) ns.

(** * Structure of kinds *)

Definition is_u8 (t : ty) : bool :=
  match t with TPrim (PInt false W1) => true | _ => false end.

Definition is_map (k : seq_kind) : bool :=
  match k with SBTreeMap | SHashMap | SIndexMap => true | _ => false end.
Definition is_ordered (k : seq_kind) : bool :=    (* kinds whose element/key type must be [Ord] *)
  match k with SBTreeSet | SHashSet | SBTreeMap | SHashMap => true | _ => false end.
Definition is_hash (k : seq_kind) : bool :=
  match k with SHashSet | SHashMap => true | _ => false end.
Definition is_index (k : seq_kind) : bool :=
  match k with SIndexSet | SIndexMap => true | _ => false end.
Definition is_keyed (k : seq_kind) : bool := is_ordered k || is_index k.

(** The type whose memory size the collection's [check_zst] looks at. *)
Definition key_ty (k : seq_kind) (t : ty) : ty :=
  if is_map k then match t with TProd _ (kt :: _) => kt | _ => t end else t.
Definition key_val (k : seq_kind) (v : val) : val :=
  if is_map k then match v with VL (kv :: _) => kv | _ => v end else v.

Fixpoint pad_false (n : nat) (l : list bool) : list bool :=
  match n with
  | O => []
  | S n' => match l with [] => false :: pad_false n' [] | b :: r => b :: pad_false n' r end
  end.
Definition prod_skips (k : prod_kind) (n : nat) : list bool :=
  match k with
  | PStruct _ _ sk | PVariant _ sk => pad_false n sk
  | _ => pad_false n []
  end.

Definition sum_tags (k : sum_kind) : list N :=
  match k with
  | KOption | KIpAddr | KSocketAddr => [0; 1]
  | KResult => [1; 0]                    (* declaration order Ok, Err; wire tags 1, 0 *)
  | KEnum _ _ tags => tags
  end.
Definition bad_tag (k : sum_kind) (b : N) : msg :=
  match k with
  | KOption => MBadOption b
  | KResult => MBadResult b
  | KIpAddr => MBadIpAddr b
  | KSocketAddr => MBadSocketAddr b
  | KEnum _ _ _ => MBadVariant b
  end.

Fixpoint find_tag (tags : list N) (b : N) (i : N) : option N :=
  match tags with
  | [] => None
  | t :: r => if t =? b then Some i else find_tag r b (N.succ i)
  end.

Definition nth_ty (vs : list ty) (i : N) : option ty := nth_error vs (N.to_nat i).


(** * List combinators (the function is a section variable so that the guard
    checker sees through them when they are used in a [Fixpoint] on [ty]) *)
Section Comb.
  Context {A B : Type}.
  Section All2. Variable f : A -> B -> bool.
    Fixpoint all2 (la : list A) (lb : list B) : bool :=
      match la, lb with
      | [], [] => true
      | a :: ra, b :: rb => f a b && all2 ra rb
      | _, _ => false
      end.
  End All2.
  Section NthOr. Context {R : Type}. Variable f : A -> R. Variable d : R.
    (** [f] of the [n]-th element, [d] when out of range *)
    Fixpoint nth_or (l : list A) (n : nat) : R :=
      match l, n with
      | x :: _, O => f x
      | _ :: r, S n' => nth_or r n'
      | [], _ => d
      end.
  End NthOr.
End Comb.

Section ValComb.
  (** lexicographic order of two lists under one element order *)
  Section LexBy. Variable f : val -> val -> comparison.
    Fixpoint lex_by (l1 l2 : list val) : comparison :=
      match l1, l2 with
      | [], [] => Eq
      | [], _ :: _ => Lt
      | _ :: _, [] => Gt
      | x :: r1, y :: r2 => match f x y with Eq => lex_by r1 r2 | c => c end
      end.
  End LexBy.
  (** lexicographic order of two field lists, field types given *)
  Section Lex2. Variable f : ty -> val -> val -> comparison.
    Fixpoint lex2 (ts : list ty) (l1 l2 : list val) : comparison :=
      match ts, l1, l2 with
      | t' :: tr, x :: r1, y :: r2 => match f t' x y with Eq => lex2 tr r1 r2 | c => c end
      | _, _, _ => Eq
      end.
  End Lex2.
  (** per-field map with skip flags: a skipped field becomes [d t'] *)
  Section MapFields. Variable f : ty -> val -> val. Variable d : ty -> val.
    Fixpoint map_fields (ts : list ty) (sk : list bool) (l : list val) : list val :=
      match ts, sk, l with
      | t' :: tr, s :: sr, x :: r => (if s then d t' else f t' x) :: map_fields tr sr r
      | _, _, _ => []
      end.
  End MapFields.
End ValComb.

(** * Memory-zero-size: the model of [size_of::<T>() == 0] *)
Fixpoint mem_zst (t : ty) : bool :=
  match t with
  | TPrim _ | TRaw _ | TText _ | TSeq _ _ => false
  | TUnit _ => true
  | TArray n t' => (n =? 0) || mem_zst t'
  | TProd k ts =>
      match k with
      | PRange RRangeInclusive => false        (* carries an [exhausted] flag *)
      | _ => forallb (fun x => mem_zst x) ts
      end
  | TSum _ vs =>
      match vs with
      | [v] => mem_zst v
      | _ => false
      end
  | TWrap w t' => match w with WCell => mem_zst t' | _ => false end
  end.

(** * Defaults (for skipped fields) *)
Fixpoint default_of (t : ty) : val :=
  match t with
  | TPrim _ => VN 0
  | TUnit _ => VL []
  | TRaw k => VL (repeat (VN 0) (N.to_nat (raw_len k)))
  | TText _ => VL []
  | TSeq SDeque _ => VL [VL []; VL []]
  | TSeq _ _ => VL []
  | TArray n t' => VL (repeat (default_of t') (N.to_nat n))
  | TProd _ ts => VL (map (fun x => default_of x) ts)
  | TSum _ vs => match vs with v :: _ => VV 0 (default_of v) | [] => VV 0 (VL []) end
  | TWrap _ t' => default_of t'
  end.

(** Types for which Rust provides [Default] with the value above. *)
Fixpoint has_default (t : ty) : bool :=
  match t with
  | TPrim (PInt _ _) | TPrim (PSize _) | TPrim (PFloat _) | TPrim PBool => true
  | TPrim _ => false
  | TUnit _ => true
  | TRaw _ => false
  | TText XString | TText XBytes | TText XBytesMut | TText XAsciiString => true
  | TText XStr => true                (* behind Box / Rc / Arc / Cow: the empty string *)
  | TText _ => false
  | TSeq SSlice _ => false
  | TSeq _ _ => true
  | TArray n t' => (n <=? 32) && has_default t'
  | TProd PTuple ts =>
      (Nat.leb (length ts) 12) && forallb (fun x => has_default x) ts
  | TProd (PStruct _ _ _) ts =>        (* [#[derive(Default)]] on the struct: every field at its Default, which is what
                                          [default_of] returns; a hand-written [impl Default] is outside the model *)
      forallb (fun x => has_default x) ts
  | TProd _ _ => false
  | TSum KOption _ => true
  | TSum _ _ => false                  (* enums: [#[default]] may name any variant *)
  | TWrap WBox t' | TWrap WRc t' | TWrap WArc t' | TWrap WCell t' | TWrap WRefCell t' | TWrap WCow t' => has_default t'
  | TWrap _ _ => false
  end.

(** * Rust's [Ord] on values of key types *)
Definition lex_cmp (c : comparison) (k : comparison) : comparison :=
  match c with Eq => k | _ => c end.

Definition lex_bytes : list val -> list val -> comparison :=
  lex_by (fun a b => match a, b with VN x, VN y => N.compare x y | _, _ => Eq end).

(** What [#[derive(PartialOrd, Ord)]] compares first on an enum: the DISCRIMINANT VALUE of the variant,
    not its position in the declaration.  For a derived enum the model knows the discriminants exactly
    when they are the wire tags ([use_discriminant = true]: [sum_tags k] are the discriminants; without
    explicit discriminants tags = discriminants = ordinals).  The built-in sums ([Option], [Result],
    [IpAddr], [SocketAddr]) have no explicit discriminants and are ordered by declaration order, whatever
    their wire tags are ([Result]: Ok < Err, tags 1, 0).
    The second comparison, by ordinal, never decides for a well-formed type ([wf] demands distinct tags
    and as many tags as variants, so two ordinals of one rank are equal - [OrderFacts.cmp_val_enum_tags]);
    it makes [cmp_val] an order on the values of every type, with no side condition. *)
Definition sum_rank (k : sum_kind) (i : N) : N :=
  match k with
  | KEnum _ _ tags => nth (N.to_nat i) tags i
  | _ => i
  end.

Fixpoint cmp_val (t : ty) (a b : val) {struct t} : comparison :=
  match t with
  | TPrim p =>
      match a, b with
      | VN x, VN y => N.compare (prim_key p x) (prim_key p y)
      | _, _ => Eq
      end
  | TUnit _ => Eq
  | TRaw _ | TText _ =>
      match a, b with
      | VL la, VL lb => lex_bytes la lb
      | _, _ => Eq
      end
  | TSeq _ t' | TArray _ t' =>
      match a, b with
      | VL la, VL lb => lex_by (cmp_val t') la lb
      | _, _ => Eq
      end
  | TProd _ ts =>
      match a, b with
      | VL la, VL lb => lex2 (fun t' x y => cmp_val t' x y) ts la lb
      | _, _ => Eq
      end
  | TSum k vs =>
      match a, b with
      | VV i x, VV j y =>
          lex_cmp (N.compare (sum_rank k i) (sum_rank k j))
            (lex_cmp (N.compare i j) (nth_or (fun t' => cmp_val t' x y) Eq vs (N.to_nat i)))
      | _, _ => Eq
      end
  | TWrap _ t' => cmp_val t' a b
  end.

Definition ltb_val (t : ty) (a b : val) : bool :=
  match cmp_val t a b with Lt => true | _ => false end.
Definition eqb_val (t : ty) (a b : val) : bool :=
  match cmp_val t a b with Eq => true | _ => false end.

(** Types whose values may be keys: [Ord] is defined, the representation is
    already the logical value, nothing is skipped. *)
Fixpoint key_ok (t : ty) : bool :=
  match t with
  | TPrim (PFloat _) => false
  | TPrim _ | TUnit _ | TRaw _ => true
  | TText XString | TText XAsciiString | TText XStr => true      (* [str] only occurs behind a wrapper: Box<str>, Rc<str>, .. *)
  | TText _ => false
  | TSeq SVec t' | TSeq SBTreeSet t' => key_ok t'
  | TSeq _ _ => false
  | TArray _ t' => key_ok t'
  | TProd k ts =>
      (* SocketAddrV6: Rust's Ord / Hash / Eq also look at flowinfo and scope_id, which the format does not
         carry - two keys can differ only there and collide after a round trip (finding F22); like a struct
         with a skipped field it is not a key type of the model (SocketAddr contains it) *)
      negb (match k with PSockV6 => true | _ => false end) &&
      (forallb negb (prod_skips k (length ts))) && forallb (fun x => key_ok x) ts
  | TSum _ vs => forallb (fun x => key_ok x) vs
  | TWrap (WBox | WRc | WArc | WCow) t' => key_ok t'     (* Ord and Hash delegate to the contents *)
  | TWrap _ _ => false      (* Cell / RefCell: not Hash, Ord through a borrow; `&K`: serialize-only, and the
                               placeholder of Rec.v (`&Vec<()>`) must not be a key type *)
  end.

(** * Sorting and collecting, as the collections do it *)
Section Sort.
  Variable cmp : val -> val -> comparison.   (* on keys *)
  Variable key : val -> val.

  (** Stable insertion sort by key: the model of [sort_by] on a [Vec]. *)
  Fixpoint insert_sorted (x : val) (l : list val) : list val :=
    match l with
    | [] => [x]
    | y :: r => match cmp (key x) (key y) with
                | Lt => x :: l
                | _ => y :: insert_sorted x r
                end
    end.
  Definition sort_by (l : list val) : list val := fold_right insert_sorted [] l.

  (** Ordered-map insertion with replacement (last occurrence of a key wins):
      the model of [BTreeMap::from_iter] / [HashMap::from_iter] up to iteration
      order, listed in ascending key order. *)
  Fixpoint insert_replace (x : val) (l : list val) : list val :=
    match l with
    | [] => [x]
    | y :: r => match cmp (key x) (key y) with
                | Lt => x :: l
                | Eq => x :: r
                | Gt => y :: insert_replace x r
                end
    end.
  Definition collect_sorted (l : list val) : list val :=
    fold_left (fun acc x => insert_replace x acc) l [].

  (** [IndexMap::from_iter]: first position of a key, last value. *)
  Fixpoint index_insert (x : val) (l : list val) : list val :=
    match l with
    | [] => [x]
    | y :: r => match cmp (key x) (key y) with
                | Eq => x :: r
                | _ => y :: index_insert x r
                end
    end.
  Definition collect_index (l : list val) : list val :=
    fold_left (fun acc x => index_insert x acc) l [].

  (** [windows(2)] strictly ascending. *)
  Fixpoint strictly_ascending (l : list val) : bool :=
    match l with
    | [] => true
    | x :: r => match r with
                | [] => true
                | y :: _ => match cmp (key x) (key y) with Lt => strictly_ascending r | _ => false end
                end
    end.

  Fixpoint no_dup_keys (l : list val) : bool :=
    match l with
    | [] => true
    | x :: r => forallb (fun y => match cmp (key x) (key y) with Eq => false | _ => true end) r
                && no_dup_keys r
    end.
End Sort.

(** * Typing *)
Fixpoint has_ty (t : ty) (v : val) {struct t} : bool :=
  match t with
  | TPrim p => match v with VN n => prim_val_ok p n | _ => false end
  | TUnit _ => match v with VL [] => true | _ => false end
  | TRaw k =>
      match v with
      | VL l => match vals_ns l with
                | Some ns => all_byte ns && (len ns =? raw_len k)
                | None => false
                end
      | _ => false
      end
  | TText k =>
      match v with
      | VL l => match vals_ns l with
                | Some ns => all_byte ns && match text_check k ns with None => true | Some _ => false end
                | None => false
                end
      | _ => false
      end
  | TSeq k t' =>
      match k, v with
      | SDeque, VL [VL a; VL b] => forallb (has_ty t') a && forallb (has_ty t') b
      | SDeque, _ => false
      | _, VL l =>
          forallb (has_ty t') l &&
          match k with
          | SBTreeSet | SBTreeMap => strictly_ascending (cmp_val (key_ty k t')) (key_val k) l
          | SHashSet | SHashMap | SIndexSet | SIndexMap => no_dup_keys (cmp_val (key_ty k t')) (key_val k) l
          | _ => true
          end
      | _, _ => false
      end
  | TArray n t' =>
      match v with
      | VL l => (len l =? n) && forallb (has_ty t') l
      | _ => false
      end
  | TProd _ ts =>
      match v with
      | VL l => all2 (fun t' x => has_ty t' x) ts l
      | _ => false
      end
  | TSum _ vs =>
      match v with
      | VV i x => nth_or (fun t' => has_ty t' x) false vs (N.to_nat i)
      | _ => false
      end
  | TWrap _ t' => has_ty t' v
  end.

(** * The logical value a representation stands for ("everything the format carries") *)
Fixpoint logical (t : ty) (v : val) {struct t} : val :=
  match t with
  | TPrim _ | TUnit _ | TRaw _ | TText _ => v
  | TSeq k t' =>
      let mp := map (logical t') in
      match k, v with
      | SDeque, VL [VL a; VL b] => VL [VL (mp (a ++ b)); VL []]
      | SDeque, _ => v
      | (SHashSet | SHashMap), VL l => VL (sort_by (cmp_val (key_ty k t')) (key_val k) (mp l))
      | _, VL l => VL (mp l)
      | _, _ => v
      end
  | TArray _ t' => match v with VL l => VL (map (logical t') l) | _ => v end
  | TProd k ts =>
      match v with
      | VL l => VL (map_fields (fun t' x => logical t' x) default_of ts (prod_skips k (length ts)) l)
      | _ => v
      end
  | TSum _ vs =>
      match v with
      | VV i x => VV i (nth_or (fun t' => logical t' x) x vs (N.to_nat i))
      | _ => v
      end
  | TWrap _ t' => logical t' v
  end.

(** * The supported family *)
Fixpoint nodup_n (l : list N) : bool :=
  match l with
  | [] => true
  | x :: r => negb (existsb (N.eqb x) r) && nodup_n r
  end.

Definition prod_arity_ok (k : prod_kind) (n : nat) : bool :=
  match k with
  | PTuple => Nat.leb 1 n && Nat.leb n 20
  | PRange (RRange | RRangeInclusive) => Nat.eqb n 2
  | PRange _ => Nat.eqb n 1
  | PSockV4 | PSockV6 => Nat.eqb n 2
  | PStruct _ _ sk | PVariant _ sk => Nat.eqb (length sk) n
  end.

(** skipped fields need a [Default] *)
Fixpoint skips_ok (ts : list ty) (sk : list bool) : bool :=
  match ts, sk with
  | t' :: tr, s :: sr => (if s then has_default t' else true) && skips_ok tr sr
  | [], _ => true
  | _ :: _, [] => false
  end.

Fixpoint wf (t : ty) : bool :=
  match t with
  | TPrim _ | TUnit _ | TRaw _ | TText _ => true
  | TSeq k t' =>
      wf t' &&
      (if is_map k then match t' with TProd PTuple [_; _] => true | _ => false end else true) &&
      (if is_keyed k then key_ok (key_ty k t') else true) &&
      (match k with SSlice => negb (mem_zst t') | _ => true end)
  | TArray _ t' => wf t'
  | TProd k ts =>
      prod_arity_ok k (length ts) && skips_ok ts (prod_skips k (length ts)) && forallb (fun x => wf x) ts
  | TSum k vs =>
      Nat.eqb (length (sum_tags k)) (length vs) &&
      Nat.leb 1 (length vs) &&
      nodup_n (sum_tags k) && forallb (fun b => b <? 256) (sum_tags k) &&
      forallb (fun x => wf x) vs
  | TWrap _ t' => wf t'
  end.
