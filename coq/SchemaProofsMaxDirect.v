(** Facts about [max_size_impl] that hold for every container and every [usize] width,
    including the [is_zero_size_impl] shortcut taken when a sequence's largest length does
    not fit [usize] (no [ranges_fit] hypothesis): an [SOk] answer restores the stack and
    bounds every described value; the fuel is never exhausted and nothing panics;
    [Recursive] and [MissingDefinition] are reported only at a reachable cycle / a
    reachable undefined declaration. *)
From Coq Require Import String List NArith ZArith Bool Lia ZifyBool Arith.
From Borsh Require Import Schema SchemaFns SchemaSpec SchemaProofsBase SchemaProofsZero SchemaProofsUnb SchemaProofsC10.
Import ListNotations.
Local Open Scope N_scope.

Lemma usize_add_ok ub x y r : usize_add ub x y = SOk r -> r = x + y.
Proof. unfold usize_add. destruct (x + y <? 2 ^ ub); intros H; inversion H; reflexivity. Qed.

Lemma usize_mul_ok ub x y r : usize_mul ub x y = SOk r -> r = x * y.
Proof. unfold usize_mul. destruct (x * y <? 2 ^ ub); intros H; inversion H; reflexivity. Qed.

Lemma usize_add_value ub x y : is_value (usize_add ub x y).
Proof. unfold usize_add. destruct (x + y <? 2 ^ ub); exact I. Qed.

Lemma usize_mul_value ub x y : is_value (usize_mul ub x y).
Proof. unfold usize_mul. destruct (x * y <? 2 ^ ub); exact I. Qed.

Lemma map_err_ok {E F A} (f : E -> F) (r : sres E A) a : map_err f r = SOk a -> r = SOk a.
Proof. destruct r; cbn; intros H; inversion H; reflexivity. Qed.

Lemma map_err_err {E F A} (f : E -> F) (r : sres E A) e : map_err f r = SErr e -> exists e0, r = SErr e0 /\ e = f e0.
Proof. destruct r; cbn; intros H; inversion H; eauto. Qed.

Lemma map_err_value {E F A} (f : E -> F) (r : sres E A) : is_value r -> is_value (map_err f r).
Proof. destruct r; cbn; auto. Qed.

(** * [SOk]: the stack is restored and the answer bounds every value *)
Definition rec_ok (c : container) (rec : string -> list string -> sres mserr (N * list string)) : Prop :=
  forall el st m st', rec el st = SOk (m, st') -> st' = st /\ forall n, sizes c el n -> n <= m.

Lemma tuple_loop_ok ub c rec : rec_ok c rec ->
  forall els sum st T st', tuple_loop ub rec els sum st = SOk (T, st') ->
  st' = st /\ forall ns, Forall2 (sizes c) els ns -> sum + sumN ns <= T.
Proof.
  intros Hrec. induction els as [|el els IH]; cbn [tuple_loop]; intros sum st T st' H.
  - inversion H; subst. split; [reflexivity|]. intros ns Hns. inversion Hns; subst. cbn. lia.
  - apply sbind_ok in H as ([sz st1] & H1 & H). apply Hrec in H1 as [-> Hb].
    apply sbind_ok in H as (sum' & Hs & H). apply usize_add_ok in Hs. subst sum'.
    apply IH in H as [-> HT]. split; [reflexivity|]. intros ns Hns.
    inversion Hns as [|x0 y0 l0 ns0 Hy0 Hns0]; subst.
    rewrite sumN_cons. specialize (HT _ Hns0). specialize (Hb _ Hy0). lia.
Qed.

Lemma enum_loop_ok c rec : rec_ok c rec ->
  forall vs mx st M st', enum_loop rec vs mx st = SOk (M, st') ->
  st' = st /\ mx <= M /\ forall v n, In v vs -> sizes c v n -> n <= M.
Proof.
  intros Hrec. induction vs as [|v vs IH]; cbn [enum_loop]; intros mx st M st' H.
  - inversion H; subst. split; [reflexivity|]. split; [lia | intros v n []].
  - apply sbind_ok in H as ([sz st1] & H1 & H). apply Hrec in H1 as [-> Hb].
    apply IH in H as (-> & Hmx & Hvs). split; [reflexivity|]. split; [lia|].
    intros v' n [<-|Hin] Hn; [specialize (Hb _ Hn); lia | eauto].
Qed.

Lemma rep_sum_bound hi sz ns :
  0 < hi -> N.of_nat (length ns) <= hi -> Forall (fun x => hi * x <= sz) ns -> sumN ns <= sz.
Proof.
  intros Hpos Hlen HF.
  assert (H : hi * sumN ns <= N.of_nat (length ns) * sz).
  { clear Hlen. induction HF as [|x l Hx _ IH]; [cbn; lia|]. rewrite sumN_cons. cbn [length]. lia. }
  assert (N.of_nat (length ns) * sz <= hi * sz) by (apply N.mul_le_mono_r; exact Hlen).
  apply (N.mul_le_mono_pos_l _ _ hi); lia.
Qed.

Lemma msi_ok ub c : forall fuel count d st m st', 1 <= count ->
  max_size_impl ub fuel c count d st = SOk (m, st') ->
  st' = st /\ forall n, sizes c d n -> count * n <= m.
Proof.
  induction fuel as [|fuel IH]; intros count d st m st' Hc H; [discriminate|].
  cbn [max_size_impl] in H. destruct (on_stack d st); [discriminate|].
  apply sbind_ok in H as ([res st1] & H1 & H2). inversion H2; subst; clear H2.
  assert (Hone : rec_ok c (max_size_impl ub fuel c 1)).
  { intros el st0 m0 st0' H0. apply IH in H0 as [-> Hb]; [|lia]. split; [reflexivity|].
    intros n Hn. specialize (Hb _ Hn). lia. }
  assert (Htup : forall els, tuple_size ub (max_size_impl ub fuel c 1) count els (d :: st) = SOk (m, st1) ->
                 st1 = d :: st /\ forall ns, Forall2 (sizes c) els ns -> count * sumN ns <= m).
  { intros els Ht. unfold tuple_size in Ht. apply sbind_ok in Ht as ([sum st2] & Hl & Ht).
    apply (tuple_loop_ok ub c _ Hone) in Hl as [-> Hs].
    apply sbind_ok in Ht as (r & Hr & Ht). apply usize_mul_ok in Hr. inversion Ht; subst.
    split; [reflexivity|]. intros ns Hns. specialize (Hs _ Hns). nia. }
  destruct (get_definition c d) as [[s|lw lo hi el|els|tw vs|fs]|] eqn:Hd; [| | | | |discriminate].
  - (* Primitive *)
    destruct (s =? 0) eqn:Hs.
    + inversion H1; subst. cbn [tl]. split; [reflexivity|]. intros n Hn. apply sizes_inv in Hn. rewrite Hd in Hn. lia.
    + apply sbind_ok in H1 as (r & Hr & H1). apply usize_mul_ok in Hr. inversion H1; subst. cbn [tl].
      split; [reflexivity|]. intros n Hn. apply sizes_inv in Hn. rewrite Hd in Hn. subst. lia.
  - (* Sequence *)
    apply sbind_ok in H1 as ([sz st2] & Hsz & H1).
    apply sbind_ok in H1 as (s & Hs & H1). apply usize_add_ok in Hs.
    apply sbind_ok in H1 as (r & Hr & H1). apply usize_mul_ok in Hr. inversion H1; subst; clear H1.
    assert (Hgoal : st1 = d :: st /\ forall ns, N.of_nat (length ns) <= hi -> Forall (sizes c el) ns -> sumN ns <= sz).
    { destruct (hi <? 2 ^ ub).
      - destruct (hi =? 0) eqn:Hz.
        + inversion Hsz; subst. split; [reflexivity|]. intros ns Hlen _.
          destruct ns; [cbn; lia | cbn [length] in Hlen; lia].
        + apply IH in Hsz as [-> Hb]; [|lia]. split; [reflexivity|]. intros ns Hlen HF.
          apply (rep_sum_bound hi); [lia | exact Hlen|]. revert HF. apply Forall_impl. exact Hb.
      - apply sbind_ok in Hsz as ([z st3] & Hz & Hsz). apply map_err_ok in Hz.
        apply izs_ok in Hz as [-> Hzs]. destruct z; [|discriminate]. inversion Hsz; subst.
        split; [reflexivity|]. intros ns _ HF. rewrite sumN_zero; [lia|].
        revert HF. apply Forall_impl. apply zero_sized_sizes. apply Hzs. reflexivity. }
    destruct Hgoal as [-> Hb]. cbn [tl]. split; [reflexivity|].
    intros n Hn. apply sizes_inv in Hn. rewrite Hd in Hn. destruct Hn as (ns & _ & Hhi & HF & ->).
    specialize (Hb ns Hhi HF). nia.
  - (* Tuple *)
    apply Htup in H1 as [-> Hb]. cbn [tl]. split; [reflexivity|].
    intros n Hn. apply sizes_inv in Hn. rewrite Hd in Hn. destruct Hn as (ns & HF & ->). auto.
  - (* Enum *)
    apply sbind_ok in H1 as ([mx st2] & Hl & H1). apply (enum_loop_ok c _ Hone) in Hl as (-> & _ & Hvs).
    apply sbind_ok in H1 as (s & Hs & H1). apply usize_add_ok in Hs.
    apply sbind_ok in H1 as (r & Hr & H1). apply usize_mul_ok in Hr. inversion H1; subst; clear H1.
    cbn [tl]. split; [reflexivity|].
    intros n Hn. apply sizes_inv in Hn. rewrite Hd in Hn. destruct Hn as (v & k & Hv & Hk & ->).
    specialize (Hvs _ _ (in_map variant_decl _ _ Hv) Hk). nia.
  - (* Struct *)
    destruct fs as [fs|fs|].
    + apply Htup in H1 as [-> Hb]. cbn [tl]. split; [reflexivity|].
      intros n Hn. apply sizes_inv in Hn. rewrite Hd in Hn. destruct Hn as (ns & HF & ->). auto.
    + apply Htup in H1 as [-> Hb]. cbn [tl]. split; [reflexivity|].
      intros n Hn. apply sizes_inv in Hn. rewrite Hd in Hn. destruct Hn as (ns & HF & ->). auto.
    + inversion H1; subst. cbn [tl]. split; [reflexivity|].
      intros n Hn. apply sizes_inv in Hn. rewrite Hd in Hn. destruct Hn as (ns & HF & ->).
      inversion HF; subst. cbn. lia.
Qed.

(** * Where an error comes from *)
Lemma tuple_loop_err ub c rec : rec_ok c rec ->
  forall els sum st e, tuple_loop ub rec els sum st = SErr e ->
  e = Overflow \/ exists x, In x els /\ rec x st = SErr e.
Proof.
  intros Hrec. induction els as [|el els IH]; cbn [tuple_loop]; intros sum st e H; [discriminate|].
  apply sbind_err in H as [H|([sz st1] & H1 & H)]; [right; exists el; split; [left; reflexivity | exact H]|].
  apply Hrec in H1 as [-> _].
  apply sbind_err in H as [H|(sum' & _ & H)].
  - left. unfold usize_add in H. destruct (sum + sz <? 2 ^ ub); inversion H; reflexivity.
  - apply IH in H as [->|(x & Hx & Hr)]; [left; reflexivity | right; exists x; split; [right; exact Hx | exact Hr]].
Qed.

Lemma enum_loop_err c rec : rec_ok c rec ->
  forall vs mx st e, enum_loop rec vs mx st = SErr e -> exists x, In x vs /\ rec x st = SErr e.
Proof.
  intros Hrec. induction vs as [|v vs IH]; cbn [enum_loop]; intros mx st e H; [discriminate|].
  apply sbind_err in H as [H|([sz st1] & H1 & H)]; [exists v; split; [left; reflexivity | exact H]|].
  apply Hrec in H1 as [-> _]. apply IH in H as (x & Hx & Hr). exists x. split; [right; exact Hx | exact Hr].
Qed.

Lemma usize_tail_err ub count sz lw (st : list string) e :
  (s <~ usize_add ub sz lw ;; r <~ usize_mul ub count s ;; SOk (r, st)) = SErr e -> e = Overflow.
Proof.
  unfold usize_add, usize_mul. destruct (sz + lw <? 2 ^ ub); cbn [sbind]; [|intros H; inversion H; reflexivity].
  destruct (count * (sz + lw) <? 2 ^ ub); cbn [sbind]; intros H; inversion H; reflexivity.
Qed.

Lemma msi_err_cases ub c fuel count d st e : 1 <= count ->
  max_size_impl ub (S fuel) c count d st = SErr e ->
  e = Overflow \/
  (In d st /\ e = MRecursive) \/
  (get_definition c d = None /\ e = MMissingDefinition d) \/
  (exists m k, Edge c d m /\ 1 <= k /\ max_size_impl ub fuel c k m (d :: st) = SErr e) \/
  (exists m ze, Edge c d m /\ is_zero_size_impl (full_fuel c) c m (d :: st) = SErr ze /\ e = mserr_of_zserr ze).
Proof.
  intros Hc. cbn [max_size_impl]. destruct (on_stack d st) eqn:Hst.
  { intros H. inversion H; subst. right; left. split; [apply on_stack_true, Hst | reflexivity]. }
  intros H. apply sbind_err in H as [H|([res st1] & _ & H)]; [|discriminate].
  assert (Hone : rec_ok c (max_size_impl ub fuel c 1)).
  { intros el st0 m0 st0' H0. apply msi_ok in H0 as [-> Hb]; [|lia]. split; [reflexivity|].
    intros n Hn. specialize (Hb _ Hn). lia. }
  assert (Htup : forall els def, get_definition c d = Some def -> incl els (members def) ->
                 tuple_size ub (max_size_impl ub fuel c 1) count els (d :: st) = SErr e ->
                 e = Overflow \/ exists m k, Edge c d m /\ 1 <= k /\ max_size_impl ub fuel c k m (d :: st) = SErr e).
  { intros els def Hd Hincl Ht. unfold tuple_size in Ht.
    apply sbind_err in Ht as [Ht|([sum st2] & _ & Ht)].
    - apply (tuple_loop_err ub c _ Hone) in Ht as [->|(x & Hx & Hr)]; [left; reflexivity|].
      right. exists x, 1. split; [eapply edge_intro; [exact Hd | apply Hincl, Hx]|]. split; [lia | exact Hr].
    - left. unfold usize_mul in Ht. destruct (count * sum <? 2 ^ ub); cbn [sbind] in Ht; inversion Ht; reflexivity. }
  destruct (get_definition c d) as [[s|lw lo hi el|els|tw vs|fs]|] eqn:Hd.
  - left. destruct (s =? 0); [discriminate|]. unfold usize_mul in H.
    destruct (s * count <? 2 ^ ub); cbn [sbind] in H; inversion H; reflexivity.
  - apply sbind_err in H as [H|([sz st2] & _ & H)]; [|left; eapply usize_tail_err, H].
    assert (He : Edge c d el) by (eapply edge_intro; [exact Hd | left; reflexivity]).
    destruct (hi <? 2 ^ ub).
    + destruct (hi =? 0) eqn:Hz; [discriminate|].
      right; right; right; left. exists el, hi. split; [exact He|]. split; [lia | exact H].
    + apply sbind_err in H as [H|([z st3] & _ & H)].
      * apply map_err_err in H as (ze & Hz & ->). right; right; right; right. exists el, ze. auto.
      * left. destruct z; inversion H; reflexivity.
  - destruct (Htup els _ eq_refl (incl_refl _) H) as [->|Hm]; auto.
  - apply sbind_err in H as [H|([mx st2] & _ & H)]; [|left; eapply usize_tail_err, H].
    apply (enum_loop_err c _ Hone) in H as (x & Hx & Hr).
    right; right; right; left. exists x, 1. split; [eapply edge_intro; [exact Hd | exact Hx]|]. split; [lia | exact Hr].
  - destruct fs as [fs|fs|]; [| |discriminate].
    + destruct (Htup (map snd fs) _ eq_refl (incl_refl _) H) as [->|Hm]; auto.
    + destruct (Htup fs _ eq_refl (incl_refl _) H) as [->|Hm]; auto.
  - inversion H; subst. right; right; left. split; reflexivity.
Qed.

(** [is_zero_size_impl]: where an error comes from *)
Lemma izs_err_cases c fuel d st e :
  is_zero_size_impl (S fuel) c d st = SErr e ->
  (In d st /\ e = ZRecursive) \/
  (get_definition c d = None /\ e = ZMissingDefinition d) \/
  (exists m, Edge c d m /\ is_zero_size_impl fuel c m (d :: st) = SErr e).
Proof.
  cbn [is_zero_size_impl]. destruct (on_stack d st) eqn:Hst.
  { intros H. inversion H; subst. left. split; [apply on_stack_true, Hst | reflexivity]. }
  intros H. apply sbind_err in H as [H|([res st1] & _ & H)]; [|discriminate].
  assert (Hloop : forall ds def, get_definition c d = Some def -> incl ds (members def) ->
                  all_with (is_zero_size_impl fuel c) ds (d :: st) = SErr e ->
                  exists m, Edge c d m /\ is_zero_size_impl fuel c m (d :: st) = SErr e).
  { intros ds def Hd Hincl Hds.
    apply all_with_err in Hds as (m & Hm & Hr); [|intros ? ? ? ? Hok; apply (izs_ok _ _ _ _ _ _ Hok)].
    exists m. split; [eapply edge_intro; [exact Hd | apply Hincl, Hm] | exact Hr]. }
  destruct (get_definition c d) as [[s|lw lo hi el|els|tw vs|fs]|] eqn:Hd.
  - discriminate.
  - destruct (lw =? 0); [|discriminate].
    destruct ((lo =? 0) && (hi =? 0) && negb (range_is_empty lo hi)); [discriminate|].
    right; right. exists el. split; [eapply edge_intro; [exact Hd | left; reflexivity] | exact H].
  - right; right. eapply Hloop; [reflexivity | apply incl_refl | exact H].
  - destruct (tw =? 0); [|discriminate]. right; right. eapply Hloop; [reflexivity | apply incl_refl | exact H].
  - destruct fs as [fs|fs|]; [| |discriminate]; right; right;
      (eapply Hloop; [reflexivity | apply incl_refl | exact H]).
  - inversion H; subst. right; left. split; reflexivity.
Qed.

Lemma izs_recursive c : forall fuel d st,
  is_zero_size_impl fuel c d st = SErr ZRecursive ->
  exists x, Reach c d x /\ (In x st \/ OnCycle c x).
Proof.
  induction fuel as [|fuel IH]; intros d st H; [discriminate|].
  apply izs_err_cases in H as [[Hin _]|[[_ He]|(m & Hedge & Hm)]].
  - exists d. split; [constructor | left; exact Hin].
  - discriminate.
  - apply IH in Hm as (x & Hr & [[<-|Hin]|Hc]).
    + exists d. split; [constructor|]. right. exists m. split; assumption.
    + exists x. split; [econstructor; eauto | left; exact Hin].
    + exists x. split; [econstructor; eauto | right; exact Hc].
Qed.

Lemma msi_recursive ub c : forall fuel count d st, 1 <= count ->
  max_size_impl ub fuel c count d st = SErr MRecursive ->
  exists x, Reach c d x /\ (In x st \/ OnCycle c x).
Proof.
  induction fuel as [|fuel IH]; intros count d st Hc H; [discriminate|].
  assert (Hlift : forall m, Edge c d m -> (exists x, Reach c m x /\ (In x (d :: st) \/ OnCycle c x)) ->
                  exists x, Reach c d x /\ (In x st \/ OnCycle c x)).
  { intros m Hedge (x & Hr & [[<-|Hin]|Hcy]).
    - exists d. split; [constructor|]. right. exists m. split; assumption.
    - exists x. split; [econstructor; eauto | left; exact Hin].
    - exists x. split; [econstructor; eauto | right; exact Hcy]. }
  apply msi_err_cases in H as [He|[[Hin _]|[[_ He]|[(m & k & Hedge & Hk & Hm)|(m & ze & Hedge & Hz & He)]]]]; [| | | | |exact Hc].
  - discriminate.
  - exists d. split; [constructor | left; exact Hin].
  - discriminate.
  - eapply Hlift; [exact Hedge | eapply IH; eauto].
  - destruct ze; [|discriminate]. eapply Hlift; [exact Hedge | eapply izs_recursive, Hz].
Qed.

Lemma msi_missing ub c : forall fuel count d st x, 1 <= count ->
  max_size_impl ub fuel c count d st = SErr (MMissingDefinition x) ->
  Reach c d x /\ get_definition c x = None.
Proof.
  induction fuel as [|fuel IH]; intros count d st x Hc H; [discriminate|].
  apply msi_err_cases in H as [He|[[_ He]|[[Hd He]|[(m & k & Hedge & Hk & Hm)|(m & ze & Hedge & Hz & He)]]]]; [| | | | |exact Hc].
  - discriminate.
  - discriminate.
  - inversion He; subst. split; [constructor | exact Hd].
  - apply IH in Hm as [Hr Hx]; [|exact Hk]. split; [econstructor; eauto | exact Hx].
  - destruct ze as [|y]; [discriminate|]. inversion He; subst y.
    apply izs_missing in Hz as [Hr Hx]. split; [econstructor; eauto | exact Hx].
Qed.

(** * Fuel and panics *)
Lemma tuple_loop_value ub c rec st : rec_ok c rec -> (forall el, is_value (rec el st)) ->
  forall els sum, is_value (tuple_loop ub rec els sum st).
Proof.
  intros Hok Hv. induction els as [|el els IH]; intros sum; cbn [tuple_loop]; [exact I|].
  apply sbind_value; [apply Hv|]. intros [sz st1] H1. apply Hok in H1 as [-> _].
  apply sbind_value; [apply usize_add_value|]. intros sum' _. apply IH.
Qed.

Lemma enum_loop_value c rec st : rec_ok c rec -> (forall el, is_value (rec el st)) ->
  forall vs mx, is_value (enum_loop rec vs mx st).
Proof.
  intros Hok Hv. induction vs as [|v vs IH]; intros mx; cbn [enum_loop]; [exact I|].
  apply sbind_value; [apply Hv|]. intros [sz st1] H1. apply Hok in H1 as [-> _]. apply IH.
Qed.

Lemma msi_value ub c : forall fuel count d st, 1 <= count ->
  stack_ok c st -> (length (defs c) < fuel + length st)%nat ->
  is_value (max_size_impl ub fuel c count d st).
Proof.
  induction fuel as [|fuel IH]; intros count d st Hc Hok Hf.
  { pose proof (stack_ok_length _ _ Hok). lia. }
  cbn [max_size_impl].
  destruct (on_stack d st) eqn:Hst; [exact I|]. apply on_stack_false in Hst.
  destruct (get_definition c d) as [def|] eqn:Hd; [|exact I].
  assert (Hok' : stack_ok c (d :: st)) by (eapply stack_ok_push; eauto).
  assert (Hrec : forall k m, 1 <= k -> is_value (max_size_impl ub fuel c k m (d :: st))).
  { intros k m Hk. apply IH; [exact Hk | exact Hok' | cbn [length]; lia]. }
  assert (Hone : rec_ok c (max_size_impl ub fuel c 1)).
  { intros el st0 m0 st0' H0. apply msi_ok in H0 as [-> Hb]; [|lia]. split; [reflexivity|].
    intros n Hn. specialize (Hb _ Hn). lia. }
  assert (Htail : forall sz lw (st0 : list string), is_value (s <~ usize_add ub sz lw ;; r <~ usize_mul ub count s ;; SOk (r, st0))).
  { intros sz lw st0. apply sbind_value; [apply usize_add_value|]. intros s _.
    apply sbind_value; [apply usize_mul_value|]. intros r _. exact I. }
  assert (Htup : forall els, is_value (tuple_size ub (max_size_impl ub fuel c 1) count els (d :: st))).
  { intros els. unfold tuple_size. apply sbind_value.
    - apply tuple_loop_value with (c := c); [exact Hone | intros el; apply Hrec; lia].
    - intros [sum st2] _. apply sbind_value; [apply usize_mul_value|]. intros r _. exact I. }
  apply sbind_value; [|intros [res st1] _; exact I].
  destruct def as [s|lw lo hi el|els|tw vs|fs].
  - destruct (s =? 0); [exact I|]. apply sbind_value; [apply usize_mul_value | intros; exact I].
  - apply sbind_value; [|intros [sz st2] _; apply Htail].
    destruct (hi <? 2 ^ ub).
    + destruct (hi =? 0) eqn:Hz; [exact I | apply Hrec; lia].
    + apply sbind_value.
      * apply map_err_value, izs_value; [exact Hok' | unfold full_fuel; lia].
      * intros [z st3] _. destruct z; exact I.
  - apply Htup.
  - apply sbind_value; [|intros [mx st2] _; apply Htail].
    apply enum_loop_value with (c := c); [exact Hone | intros el; apply Hrec; lia].
  - destruct fs; [apply Htup | apply Htup | exact I].
Qed.

(** * The public function, any [usize] width, any container *)
Lemma max_size_at_value ub c : is_value (max_size_at ub c).
Proof.
  unfold max_size_at. apply sbind_value; [|intros [m st] _; exact I].
  apply msi_value; [lia | apply stack_ok_nil | unfold full_fuel; cbn [length]; lia].
Qed.

Lemma c09_total_any ub c : max_size_at ub c <> SFuel /\ max_size_at ub c <> SPanic.
Proof. apply value_not_fuel_panic, max_size_at_value. Qed.

Lemma c09_sound_any ub c m : max_size_at ub c = SOk m -> forall n, sizes c (root c) n -> n <= m.
Proof.
  unfold max_size_at. intros H n Hn. apply sbind_ok in H as ([m0 st] & H1 & H2). inversion H2; subst.
  apply msi_ok in H1 as [_ Hb]; [|lia]. specialize (Hb _ Hn). lia.
Qed.

Lemma c09_recursive_any ub c :
  max_size_at ub c = SErr MRecursive -> exists x, Reach c (root c) x /\ OnCycle c x.
Proof.
  unfold max_size_at. intros H. apply sbind_err in H as [H|([m st] & _ & H)]; [|discriminate].
  apply msi_recursive in H as (x & Hr & [[]|Hc]); [eauto | lia].
Qed.

Lemma c09_missing_any ub c d :
  max_size_at ub c = SErr (MMissingDefinition d) -> Reach c (root c) d /\ get_definition c d = None.
Proof.
  unfold max_size_at. intros H. apply sbind_err in H as [H|([m st] & _ & H)]; [|discriminate].
  eapply msi_missing; [|exact H]. lia.
Qed.

(** * Attainment, any [usize] width, any container *)
Lemma tuple_loop_attain ub c rec :
  forall els sum st T st', tuple_loop ub rec els sum st = SOk (T, st') ->
  (forall el m st0 st1, In el els -> rec el st0 = SOk (m, st1) -> sizes c el m) ->
  exists ns, Forall2 (sizes c) els ns /\ T = sum + sumN ns.
Proof.
  induction els as [|el els IH]; cbn [tuple_loop]; intros sum st T st' H Hatt.
  - inversion H; subst. exists []. split; [constructor | cbn; lia].
  - apply sbind_ok in H as ([sz st1] & H1 & H). pose proof (Hatt _ _ _ _ (or_introl eq_refl) H1) as Hsz.
    apply sbind_ok in H as (sum' & Hs & H). apply usize_add_ok in Hs. subst sum'.
    apply IH in H as (ns & HF & ->); [|intros; eapply Hatt; [right|]; eauto].
    exists (sz :: ns). split; [constructor; assumption | rewrite sumN_cons; lia].
Qed.

Lemma enum_loop_attain c rec :
  forall vs mx st M st', enum_loop rec vs mx st = SOk (M, st') ->
  (forall v m st0 st1, In v vs -> rec v st0 = SOk (m, st1) -> sizes c v m) ->
  (forall v, In v vs -> exists m, sizes c v m /\ m <= M) /\
  (M = mx \/ exists v, In v vs /\ sizes c v M).
Proof.
  induction vs as [|v vs IH]; cbn [enum_loop]; intros mx st M st' H Hatt.
  - inversion H; subst. split; [intros v [] | left; reflexivity].
  - apply sbind_ok in H as ([sz st1] & H1 & H). pose proof (Hatt _ _ _ _ (or_introl eq_refl) H1) as Hsz.
    pose proof H as Hloop.
    apply IH in H as [Hall Hmax]; [|intros; eapply Hatt; [right|]; eauto].
    assert (Hge : N.max mx sz <= M).
    { clear - Hloop. revert Hloop. generalize (N.max mx sz). revert st1 M st'.
      induction vs as [|w vs IHvs]; cbn [enum_loop]; intros st1 M st' k H.
      - inversion H; subst. lia.
      - apply sbind_ok in H as ([sz' st2] & _ & H). apply IHvs in H. lia. }
    split.
    + intros w [<-|Hw]; [exists sz; split; [exact Hsz | lia] | auto].
    + destruct Hmax as [->|(w & Hw & Hs)].
      * destruct (N.max_spec mx sz) as [[_ ->]|[_ ->]]; [right; exists v; split; [left; reflexivity | exact Hsz] | left; reflexivity].
      * right. exists w. split; [right; exact Hw | exact Hs].
Qed.

Lemma msi_attain ub c : forall fuel count d st m st', 1 <= count ->
  max_size_impl ub fuel c count d st = SOk (m, st') ->
  (forall d', Reach c d d' -> Inhabited c d') ->
  exists M, m = count * M /\ sizes c d M.
Proof.
  induction fuel as [|fuel IH]; intros count d st m st' Hc H Hinh; [discriminate|].
  cbn [max_size_impl] in H. destruct (on_stack d st); [discriminate|].
  apply sbind_ok in H as ([res st1] & H1 & H2). inversion H2; subst; clear H2.
  destruct (Hinh d (Reach_refl _ _)) as [n0 Hn0]. apply sizes_inv in Hn0.
  assert (Hmem : forall x, Edge c d x -> forall d', Reach c x d' -> Inhabited c d').
  { intros x He d' Hr. apply Hinh. econstructor; eauto. }
  assert (Hone : forall def, get_definition c d = Some def ->
                 forall el x st0 st2, In el (members def) -> max_size_impl ub fuel c 1 el st0 = SOk (x, st2) -> sizes c el x).
  { intros def Hd el x st0 st2 Hin H0. eapply IH in H0 as (M & -> & HM); [|lia|apply Hmem; eapply edge_intro; eauto].
    rewrite N.mul_1_l. exact HM. }
  assert (Htup : forall els def, get_definition c d = Some def -> incl els (members def) ->
                 tuple_size ub (max_size_impl ub fuel c 1) count els (d :: st) = SOk (m, st1) ->
                 exists ns, Forall2 (sizes c) els ns /\ m = count * sumN ns).
  { intros els def Hd Hincl Ht. unfold tuple_size in Ht. apply sbind_ok in Ht as ([sum st2] & Hl & Ht).
    apply (tuple_loop_attain ub c) in Hl as (ns & HF & ->); [|intros; eapply (Hone _ Hd); [apply Hincl|]; eauto].
    apply sbind_ok in Ht as (r & Hr & Ht). apply usize_mul_ok in Hr. inversion Ht; subst.
    exists ns. split; [exact HF | rewrite N.add_0_l; reflexivity]. }
  destruct (get_definition c d) as [[s|lw lo hi el|els|tw vs|fs]|] eqn:Hd; [| | | | |contradiction].
  - (* Primitive *)
    exists s. split; [|apply Sz_prim; exact Hd].
    destruct (s =? 0) eqn:Hs.
    + inversion H1; subst. lia.
    + apply sbind_ok in H1 as (r & Hr & H1). apply usize_mul_ok in Hr. inversion H1; subst. lia.
  - (* Sequence *)
    destruct Hn0 as (ns0 & Hlo & Hhi & _ & _).
    apply sbind_ok in H1 as ([sz st2] & Hsz & H1).
    apply sbind_ok in H1 as (s & Hs & H1). apply usize_add_ok in Hs.
    apply sbind_ok in H1 as (r & Hr & H1). apply usize_mul_ok in Hr. inversion H1; subst; clear H1.
    assert (He : Edge c d el) by (eapply edge_intro; [exact Hd | left; reflexivity]).
    assert (Hgoal : exists ns, N.of_nat (length ns) = hi /\ Forall (sizes c el) ns /\ sz = sumN ns).
    { destruct (hi <? 2 ^ ub).
      - destruct (hi =? 0) eqn:Hz.
        + inversion Hsz; subst. exists []. split; [cbn; lia|]. split; [constructor | reflexivity].
        + eapply IH in Hsz as (M & -> & HM); [|lia|apply Hmem, He].
          exists (repeat M (N.to_nat hi)). rewrite repeat_length, N2Nat.id, sumN_repeat, N2Nat.id.
          split; [reflexivity|]. split; [|reflexivity].
          apply Forall_forall. intros x Hx. apply repeat_spec in Hx. subst. exact HM.
      - apply sbind_ok in Hsz as ([z st3] & Hz & Hsz). apply map_err_ok in Hz.
        apply izs_ok in Hz as [-> Hzs]. destruct z; [|discriminate]. inversion Hsz; subst.
        destruct (Hmem el He el (Reach_refl _ _)) as [k Hk].
        pose proof (zero_sized_sizes c el (proj1 Hzs eq_refl) _ Hk) as ->.
        exists (repeat 0 (N.to_nat hi)). rewrite repeat_length, N2Nat.id, sumN_repeat.
        split; [reflexivity|]. split; [|lia].
        apply Forall_forall. intros x Hx. apply repeat_spec in Hx. subst. exact Hk. }
    destruct Hgoal as (ns & Hlen & HF & ->).
    exists (lw + sumN ns). split; [lia|]. eapply Sz_seq; [exact Hd | lia | lia | exact HF].
  - (* Tuple *)
    destruct (Htup els _ eq_refl (incl_refl _) H1) as (ns & HF & ->).
    exists (sumN ns). split; [reflexivity | eapply Sz_tuple; eauto].
  - (* Enum *)
    destruct Hn0 as (v0 & m0 & Hv0 & _ & _).
    apply sbind_ok in H1 as ([mx st2] & Hl & H1).
    apply (enum_loop_attain c) in Hl as [Hall Hmax]; [|intros; eapply (Hone _ eq_refl); eauto].
    apply sbind_ok in H1 as (s & Hs & H1). apply usize_add_ok in Hs.
    apply sbind_ok in H1 as (r & Hr & H1). apply usize_mul_ok in Hr. inversion H1; subst; clear H1.
    assert (Hv : exists v, In v vs /\ sizes c (variant_decl v) mx).
    { destruct Hmax as [->|(w & Hw & Hs)].
      - destruct (Hall _ (in_map variant_decl _ _ Hv0)) as (k & Hk & Hle).
        assert (k = 0) by lia. subst k. eauto.
      - apply in_map_iff in Hw as (v & <- & Hv). eauto. }
    destruct Hv as (v & Hv & Hs). exists (tw + mx). split; [lia|]. eapply Sz_enum; eauto.
  - (* Struct *)
    destruct fs as [fs|fs|].
    + destruct (Htup (map snd fs) _ eq_refl (incl_refl _) H1) as (ns & HF & ->).
      exists (sumN ns). split; [reflexivity | eapply Sz_struct; eauto].
    + destruct (Htup fs _ eq_refl (incl_refl _) H1) as (ns & HF & ->).
      exists (sumN ns). split; [reflexivity | eapply Sz_struct; eauto].
    + inversion H1; subst. exists (sumN []). split; [cbn; lia|]. eapply Sz_struct; [exact Hd | constructor].
Qed.

Lemma c09_exact_any ub c m :
  max_size_at ub c = SOk m -> (forall d, Reach c (root c) d -> Inhabited c d) -> sizes c (root c) m.
Proof.
  unfold max_size_at. intros H Hinh. apply sbind_ok in H as ([m0 st] & H1 & H2). inversion H2; subst.
  eapply msi_attain in H1 as (M & -> & HM); [|lia|exact Hinh]. rewrite N.mul_1_l. exact HM.
Qed.
