(** The C09 statements, assembled from SchemaProofsUnb.v (meaning of the unbounded
    maximum) and SchemaProofsMax.v (the transcription refines it). *)
From Coq Require Import String List NArith ZArith Bool Lia ZifyBool.
From Borsh Require Import Schema SchemaFns SchemaSpec SchemaProofsBase SchemaProofsUnb SchemaProofsMax SchemaProofsC10.
Import ListNotations.
Local Open Scope N_scope.

Section AnyUsize.
  Variable ub : N.
  Variable c : container.
  Hypothesis Hfit : ranges_fit ub c.

  Lemma c09_refines_at n :
    max_unbounded c = SOk n -> max_size_at ub c = if n <? 2 ^ ub then SOk n else SErr Overflow.
  Proof. intros H. pose proof (max_size_at_sim ub c Hfit) as Hs. rewrite H in Hs. exact Hs. Qed.

  Lemma c09_refines_err_at e :
    max_unbounded c = SErr e -> max_size_at ub c = SErr e \/ max_size_at ub c = SErr Overflow.
  Proof. intros H. pose proof (max_size_at_sim ub c Hfit) as Hs. rewrite H in Hs. exact Hs. Qed.

  Lemma c09_total_at : max_size_at ub c <> SFuel /\ max_size_at ub c <> SPanic.
  Proof.
    pose proof (max_unbounded_value c) as Hv. pose proof (max_size_at_sim ub c Hfit) as Hs.
    destruct (max_unbounded c) as [n|e| |]; try contradiction.
    - rewrite Hs. destruct (n <? 2 ^ ub); split; discriminate.
    - destruct Hs as [-> | ->]; split; discriminate.
  Qed.

  Lemma c09_ok_unbounded_at m : max_size_at ub c = SOk m -> max_unbounded c = SOk m /\ m < 2 ^ ub.
  Proof.
    intros H. pose proof (max_unbounded_value c) as Hv. pose proof (max_size_at_sim ub c Hfit) as Hs.
    destruct (max_unbounded c) as [n|e| |]; try contradiction.
    - rewrite Hs in H. destruct (n <? 2 ^ ub) eqn:Hn; inversion H; subst. split; [reflexivity | lia].
    - destruct Hs as [Hs|Hs]; rewrite Hs in H; discriminate.
  Qed.

  Lemma c09_sound_at m : max_size_at ub c = SOk m -> forall n, sizes c (root c) n -> n <= m.
  Proof. intros H. apply c09_ok_unbounded_at in H as [H _]. eapply max_unb_sound, H. Qed.

  Lemma c09_exact_at m :
    max_size_at ub c = SOk m -> (forall d, Reach c (root c) d -> Inhabited c d) -> sizes c (root c) m.
  Proof. intros H. apply c09_ok_unbounded_at in H as [H _]. eapply max_unb_attain, H. Qed.

  Lemma c09_errors_at :
    (max_size_at ub c = SErr MRecursive -> exists x, Reach c (root c) x /\ OnCycle c x) /\
    (forall d, max_size_at ub c = SErr (MMissingDefinition d) ->
               Reach c (root c) d /\ get_definition c d = None) /\
    (max_size_at ub c = SErr Overflow -> forall n, max_unbounded c = SOk n -> 2 ^ ub <= n) /\
    (forall n, max_unbounded c = SOk n -> n < 2 ^ ub -> max_size_at ub c = SOk n).
  Proof.
    pose proof (max_unbounded_value c) as Hv. pose proof (max_size_at_sim ub c Hfit) as Hs.
    assert (Hsame : forall e, e <> Overflow -> max_size_at ub c = SErr e -> max_unbounded c = SErr e).
    { intros e He H. destruct (max_unbounded c) as [n|e'| |]; try contradiction.
      - rewrite Hs in H. destruct (n <? 2 ^ ub); [discriminate | congruence].
      - destruct Hs as [Hs|Hs]; rewrite Hs in H; congruence. }
    repeat split.
    - intros H. apply Hsame in H; [|discriminate]. apply max_unb_recursive in H as (x & Hr & [[]|Hc]). eauto.
    - apply Hsame in H; [|discriminate]. apply max_unb_missing in H. apply H.
    - apply Hsame in H; [|discriminate]. apply max_unb_missing in H. apply H.
    - intros H n Hn. rewrite Hn in Hs. rewrite Hs in H. destruct (n <? 2 ^ ub) eqn:E; [discriminate | lia].
    - intros n Hn Hlt. rewrite Hn in Hs. rewrite Hs. replace (n <? 2 ^ ub) with true by lia. reflexivity.
  Qed.
End AnyUsize.

(** What the unbounded maximum means, without any hypothesis on the container. *)
Lemma c09_unbounded_meaning c n :
  max_unbounded c = SOk n ->
  (forall k, sizes c (root c) k -> k <= n) /\
  ((forall d, Reach c (root c) d -> Inhabited c d) -> sizes c (root c) n).
Proof. intros H. split; [eapply max_unb_sound, H | eapply max_unb_attain, H]. Qed.

Lemma c09_unbounded_errors c :
  max_unbounded c <> SFuel /\ max_unbounded c <> SPanic /\ max_unbounded c <> SErr Overflow /\
  (max_unbounded c = SErr MRecursive -> exists x, Reach c (root c) x /\ OnCycle c x) /\
  (forall d, max_unbounded c = SErr (MMissingDefinition d) -> Reach c (root c) d /\ get_definition c d = None).
Proof.
  pose proof (value_not_fuel_panic _ (max_unbounded_value c)) as [H1 H2].
  repeat split; auto.
  - apply max_unb_no_overflow.
  - intros H. apply max_unb_recursive in H as (x & Hr & [[]|Hc]). eauto.
  - apply max_unb_missing in H. apply H.
  - apply max_unb_missing in H. apply H.
Qed.

(** A decidable sufficient condition for "everything reachable lies in [L]", for examples. *)
Definition closed_b (c : container) (L : list string) : bool :=
  forallb (fun x => match get_definition c x with
                    | Some def => forallb (fun m => on_stack m L) (members def)
                    | None => true
                    end) L.

Lemma reach_closed c L r : In r L -> closed_b c L = true -> forall d, Reach c r d -> In d L.
Proof.
  intros Hr Hc d H. induction H as [x|x m d (def & Hd & Hm) _ IH]; [exact Hr|].
  apply IH. unfold closed_b in Hc. rewrite forallb_forall in Hc. specialize (Hc _ Hr).
  rewrite Hd in Hc. rewrite forallb_forall in Hc. apply on_stack_true, Hc, Hm.
Qed.
