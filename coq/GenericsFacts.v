(** Proofs about Generics.v: the where-clause the derives build is the documented one. *)
From Coq Require Import String List Bool Arith Btauto.
From Borsh Require Import Item Generics GenericsSamples.
Import ListNotations.
Local Open Scope string_scope.
Local Open Scope list_scope.

(** * Sets and maps *)
Lemma mem_app : forall x l l', mem x (l ++ l') = mem x l || mem x l'.
Proof. intros x l l'. unfold mem. apply existsb_app. Qed.

Lemma mem_In : forall x l, mem x l = true <-> In x l.
Proof.
  intros x l. unfold mem. rewrite existsb_exists. split.
  - intros [y [Hin Heq]]. apply String.eqb_eq in Heq. subst. exact Hin.
  - intros Hin. exists x. split; [exact Hin | apply String.eqb_refl].
Qed.

Lemma mem_set_insert : forall x y l, mem x (set_insert y l) = (x =? y) || mem x l.
Proof.
  intros x y l. unfold set_insert. destruct (mem y l) eqn:Hy.
  - destruct (x =? y) eqn:Hxy; [|reflexivity]. apply String.eqb_eq in Hxy. subst. rewrite Hy. reflexivity.
  - rewrite mem_app. unfold mem at 2. cbn [existsb]. btauto.
Qed.

Definition amap_list (P : string) (m : amap) : list gty :=
  match amap_get P m with Some v => v | None => [] end.

Lemma amap_list_push : forall P k t m,
  amap_list P (amap_push k t m) = amap_list P m ++ (if k =? P then [t] else []).
Proof.
  intros P k t m. unfold amap_list. induction m as [|[k' v] r IH]; cbn [amap_push amap_get].
  - rewrite (String.eqb_sym P k). destruct (k =? P); reflexivity.
  - destruct (k =? k') eqn:Hkk; cbn [amap_get].
    + apply String.eqb_eq in Hkk. subst k'. rewrite (String.eqb_sym k P).
      destruct (P =? k); [reflexivity|]. destruct (amap_get P r); [rewrite app_nil_r|]; reflexivity.
    + destruct (P =? k') eqn:Hpk.
      * apply String.eqb_eq in Hpk. subst k'. rewrite Hkk. rewrite app_nil_r. reflexivity.
      * exact IH.
Qed.

(** * The visitor finds exactly the occurrences *)
Lemma path_hit_mem : forall P all rel colon segs,
  mem P (path_hit all rel colon segs) = mem P rel || (mem P all && (negb colon && is_single P segs)).
Proof.
  intros P all rel colon segs. unfold path_hit, is_single.
  destruct colon; cbn [negb andb]; [rewrite andb_false_r, orb_false_r; reflexivity|].
  destruct segs as [|id a r]; [rewrite andb_false_r, orb_false_r; reflexivity|].
  destruct r; [|rewrite andb_false_r, orb_false_r; reflexivity].
  destruct (id =? P) eqn:Hid.
  - apply String.eqb_eq in Hid. subst id. destruct (mem P all) eqn:Hall.
    + rewrite mem_set_insert, String.eqb_refl. cbn. rewrite orb_true_r. reflexivity.
    + cbn. rewrite orb_false_r. reflexivity.
  - rewrite andb_false_r, orb_false_r. destruct (mem id all); [|reflexivity].
    rewrite mem_set_insert, (String.eqb_sym P id), Hid. reflexivity.
Qed.

Lemma visit_occurs_all :
  (forall t all rel P, mem P (visit_type all rel t) = mem P rel || (mem P all && occurs P t)) /\
  (forall o all rel P, mem P (visit_otype all rel o) = mem P rel || (mem P all && occurs_o P o)) /\
  (forall l all rel P, mem P (visit_types all rel l) = mem P rel || (mem P all && occurs_tys P l)) /\
  (forall s all rel P, mem P (visit_segs all rel s) = mem P rel || (mem P all && occurs_segs P s)) /\
  (forall a all rel P, mem P (visit_args all rel a) = mem P rel || (mem P all && occurs_args P a)) /\
  (forall l all rel P, mem P (visit_arglist all rel l) = mem P rel || (mem P all && occurs_arglist P l)) /\
  (forall b all rel P, mem P (visit_bounds all rel b) = mem P rel || (mem P all && occurs_bounds P b)).
Proof.
  apply gty_mutind.
  - (* GPath *) intros q IHq qpos colon segs IHs all rel P. cbn [visit_type occurs].
    destruct (is_phantom segs).
    + rewrite IHq. cbn. rewrite orb_false_r. reflexivity.
    + rewrite IHs, path_hit_mem, IHq. cbn [negb andb]. btauto.
  - (* GWrap *) intros w e IH all rel P. cbn [visit_type occurs]. apply IH.
  - (* GTuple *) intros es IH all rel P. cbn [visit_type occurs]. apply IH.
  - (* GFn *) intros ins IHi out IHo all rel P. cbn [visit_type occurs]. rewrite IHo, IHi. btauto.
  - (* GBounds *) intros d bs IH all rel P. cbn [visit_type occurs]. apply IH.
  - (* GMacro *) intros n args all rel P. cbn. rewrite andb_false_r, orb_false_r. reflexivity.
  - (* GOther *) intros s all rel P. cbn. rewrite andb_false_r, orb_false_r. reflexivity.
  - (* ONone *) intros all rel P. cbn. rewrite andb_false_r, orb_false_r. reflexivity.
  - (* OSome *) intros t IH all rel P. cbn [visit_otype occurs_o]. apply IH.
  - (* TNil *) intros all rel P. cbn. rewrite andb_false_r, orb_false_r. reflexivity.
  - (* TCons *) intros t IHt r IHr all rel P. cbn [visit_types occurs_tys]. rewrite IHr, IHt. btauto.
  - (* SNil *) intros all rel P. cbn. rewrite andb_false_r, orb_false_r. reflexivity.
  - (* SCons *) intros id a IHa r IHr all rel P. cbn [visit_segs occurs_segs]. rewrite IHr, IHa. btauto.
  - (* ANone *) intros all rel P. cbn. rewrite andb_false_r, orb_false_r. reflexivity.
  - (* AAngle *) intros l IH all rel P. cbn [visit_args occurs_args]. apply IH.
  - (* AParen *) intros ins IHi out IHo all rel P. cbn [visit_args occurs_args]. rewrite IHo, IHi. btauto.
  - (* LNil *) intros all rel P. cbn. rewrite andb_false_r, orb_false_r. reflexivity.
  - (* LType *) intros t IHt r IHr all rel P. cbn [visit_arglist occurs_arglist]. rewrite IHr, IHt. btauto.
  - (* LAssoc *) intros id t IHt r IHr all rel P. cbn [visit_arglist occurs_arglist]. rewrite IHr, IHt. btauto.
  - (* LOther *) intros s r IHr all rel P. cbn [visit_arglist occurs_arglist]. apply IHr.
  - (* BNil *) intros all rel P. cbn. rewrite andb_false_r, orb_false_r. reflexivity.
  - (* BTrait *) intros colon segs IHs r IHr all rel P. cbn [visit_bounds occurs_bounds]. rewrite IHr.
    destruct (is_phantom segs).
    + cbn [negb andb orb]. reflexivity.
    + rewrite IHs, path_hit_mem. cbn [negb andb]. btauto.
  - (* BOther *) intros s r IHr all rel P. cbn [visit_bounds occurs_bounds]. apply IHr.
Qed.

Lemma visit_type_occurs : forall t all rel P,
  mem P (visit_type all rel t) = mem P rel || (mem P all && occurs P t).
Proof. exact (proj1 visit_occurs_all). Qed.

(** * One step of a field walk, in general form: visit when [sel], then file the explicit entries *)
Definition gstep (sel : gfield -> bool) (explicit : gfield -> list (string * gty)) (v : finder) (f : gfield) : finder :=
  let v := if sel f then visit_field v f else v in
  fold_left (fun v ov => param_associated_type_insert v (fst ov) (snd ov)) (explicit f) v.

Lemma inserts_all : forall l v,
  all_type_params (fold_left (fun v ov => param_associated_type_insert v (fst ov) (snd ov)) l v) = all_type_params v.
Proof. induction l as [|e l IH]; intros v; cbn [fold_left]; [reflexivity|]. rewrite IH. reflexivity. Qed.
Lemma inserts_rel : forall l v,
  relevant_type_params (fold_left (fun v ov => param_associated_type_insert v (fst ov) (snd ov)) l v) = relevant_type_params v.
Proof. induction l as [|e l IH]; intros v; cbn [fold_left]; [reflexivity|]. rewrite IH. reflexivity. Qed.
Lemma inserts_assoc : forall P l v,
  amap_list P (associated_type_params_usage (fold_left (fun v ov => param_associated_type_insert v (fst ov) (snd ov)) l v))
  = amap_list P (associated_type_params_usage v) ++ flat_map (fun e => if fst e =? P then [snd e] else []) l.
Proof.
  intros P. induction l as [|e l IH]; intros v; cbn [fold_left flat_map]; [rewrite app_nil_r; reflexivity|].
  rewrite IH. cbn [param_associated_type_insert associated_type_params_usage]. rewrite amap_list_push, app_assoc. reflexivity.
Qed.

Lemma top_level_all : forall v t, all_type_params (visit_type_top_level v t) = all_type_params v.
Proof.
  intros v t. unfold visit_type_top_level. cbn [all_type_params].
  destruct (punctuated_head t); [|reflexivity]. destruct (mem s (all_type_params v)); reflexivity.
Qed.
Lemma top_level_rel : forall v t P,
  mem P (relevant_type_params (visit_type_top_level v t))
  = mem P (relevant_type_params v) || (mem P (all_type_params v) && occurs P t).
Proof.
  intros v t P. unfold visit_type_top_level. cbn [relevant_type_params]. rewrite visit_type_occurs.
  destruct (punctuated_head t); [|reflexivity]. destruct (mem s (all_type_params v)); reflexivity.
Qed.
Lemma top_level_assoc : forall v t P,
  amap_list P (associated_type_params_usage (visit_type_top_level v t))
  = amap_list P (associated_type_params_usage v) ++ (if mem P (all_type_params v) && assoc_of P t then [t] else []).
Proof.
  intros v t P. unfold visit_type_top_level, assoc_of. cbn [associated_type_params_usage].
  destruct (punctuated_head t) as [id|]; [|rewrite andb_false_r, app_nil_r; reflexivity].
  destruct (id =? P) eqn:Hid.
  - apply String.eqb_eq in Hid. subst id. destruct (mem P (all_type_params v)).
    + cbn [param_associated_type_insert associated_type_params_usage andb]. rewrite amap_list_push, String.eqb_refl. reflexivity.
    + cbn [andb]. rewrite app_nil_r. reflexivity.
  - rewrite andb_false_r, app_nil_r. destruct (mem id (all_type_params v)); [|reflexivity].
    cbn [param_associated_type_insert associated_type_params_usage]. rewrite amap_list_push, Hid, app_nil_r. reflexivity.
Qed.

Lemma gstep_all : forall sel ex v f, all_type_params (gstep sel ex v f) = all_type_params v.
Proof.
  intros sel ex v f. unfold gstep. rewrite inserts_all. destruct (sel f); [|reflexivity]. apply top_level_all.
Qed.
Lemma gsteps_all : forall sel ex fs v, all_type_params (fold_left (gstep sel ex) fs v) = all_type_params v.
Proof. intros sel ex. induction fs as [|f fs IH]; intros v; cbn [fold_left]; [reflexivity|]. rewrite IH. apply gstep_all. Qed.

Lemma gsteps_rel : forall sel ex P fs v,
  mem P (relevant_type_params (fold_left (gstep sel ex) fs v))
  = mem P (relevant_type_params v) || (mem P (all_type_params v) && existsb (fun f => sel f && occurs P (gf_ty f)) fs).
Proof.
  intros sel ex P. induction fs as [|f fs IH]; intros v; cbn [fold_left existsb].
  - rewrite andb_false_r, orb_false_r. reflexivity.
  - rewrite IH, gstep_all. unfold gstep at 1. rewrite inserts_rel. destruct (sel f).
    + unfold visit_field. rewrite top_level_rel. cbn [andb]. btauto.
    + cbn [andb orb]. reflexivity.
Qed.

Lemma gsteps_assoc : forall sel ex P fs v,
  amap_list P (associated_type_params_usage (fold_left (gstep sel ex) fs v))
  = amap_list P (associated_type_params_usage v) ++
    flat_map (fun f => (if sel f && (mem P (all_type_params v) && assoc_of P (gf_ty f)) then [gf_ty f] else []) ++
                       flat_map (fun e => if fst e =? P then [snd e] else []) (ex f)) fs.
Proof.
  intros sel ex P. induction fs as [|f fs IH]; intros v; cbn [fold_left flat_map]; [rewrite app_nil_r; reflexivity|].
  rewrite IH, gstep_all. unfold gstep at 1. rewrite inserts_assoc.
  destruct (sel f).
  - unfold visit_field. rewrite top_level_assoc. cbn [andb]. rewrite <- !app_assoc. reflexivity.
  - cbn [andb app]. rewrite <- !app_assoc. reflexivity.
Qed.

(** * [process_for_bounds] keeps the first of equal renderings, parameter after parameter *)
Lemma push_new_fold : forall l acc,
  fold_left push_new l acc = (fst acc ++ dedup (snd acc) l, snd acc ++ map render (dedup (snd acc) l)).
Proof.
  induction l as [|t l IH]; intros [ps seen]; cbn [fold_left dedup fst snd map].
  - rewrite !app_nil_r. reflexivity.
  - unfold push_new at 2. cbn [fst snd]. destruct (mem (render t) seen).
    + rewrite IH. reflexivity.
    + rewrite IH. cbn [fst snd map]. rewrite <- !app_assoc. reflexivity.
Qed.

Lemma process_for_bounds_spec : forall v,
  process_for_bounds v =
  dedup [] (flat_map (fun P => (if mem P (relevant_type_params v) then [GParam P] else []) ++
                               amap_list P (associated_type_params_usage v)) (all_type_params v)).
Proof.
  intros v. unfold process_for_bounds.
  set (g := fun P => (if mem P (relevant_type_params v) then [GParam P] else []) ++
                     amap_list P (associated_type_params_usage v)).
  assert (Hstep : forall ps acc,
    fold_left (fun acc param =>
                 let acc := if mem param (relevant_type_params v) then push_new acc (GParam param) else acc in
                 match amap_get param (associated_type_params_usage v) with
                 | Some v0 => fold_left push_new v0 acc
                 | None => acc
                 end) ps acc
    = fold_left push_new (flat_map g ps) acc).
  { induction ps as [|P ps IH]; intros acc; cbn [fold_left flat_map]; [reflexivity|].
    rewrite IH, fold_left_app. f_equal. unfold g, amap_list. rewrite fold_left_app.
    destruct (mem P (relevant_type_params v)); destruct (amap_get P (associated_type_params_usage v)); reflexivity. }
  rewrite Hstep, push_new_fold. reflexivity.
Qed.

Lemma flat_map_ext_in : forall (A B : Type) (f g : A -> list B) l,
  (forall a, In a l -> f a = g a) -> flat_map f l = flat_map g l.
Proof.
  intros A B f g l. induction l as [|a l IH]; intros H; cbn [flat_map]; [reflexivity|].
  rewrite (H a (or_introl eq_refl)), IH; [reflexivity|]. intros b Hb. apply H. right. exact Hb.
Qed.

Lemma type_params_without_defaults : forall ps, type_params (without_defaults ps) = type_params ps.
Proof.
  unfold type_params, without_defaults. induction ps as [|p ps IH]; cbn [map flat_map]; [reflexivity|].
  rewrite IH. destruct p; reflexivity.
Qed.

(** The types a finished visitor bounds are the documented ones. *)
Lemma walk_documented : forall sel ex ps fs,
  process_for_bounds (fold_left (gstep sel ex) fs (finder_new (without_defaults ps)))
  = documented_types (type_params ps) sel ex fs.
Proof.
  intros sel ex ps fs. rewrite process_for_bounds_spec, gsteps_all. unfold documented_types.
  cbn [finder_new all_type_params]. rewrite type_params_without_defaults. f_equal.
  apply flat_map_ext_in. intros P HP. apply mem_In in HP.
  rewrite gsteps_rel, gsteps_assoc. cbn [finder_new all_type_params relevant_type_params associated_type_params_usage].
  rewrite type_params_without_defaults, HP. cbn [mem existsb orb andb amap_list amap_get app]. reflexivity.
Qed.

(** * The three derives *)
Lemma ser_fold : forall fs g,
  fold_left ser_process_field fs g =
  {| so_overrides := so_overrides g ++ user_bounds BTSerialize fs;
     so_visitor := fold_left (gstep infers_ser no_explicit) fs (so_visitor g) |}.
Proof.
  induction fs as [|f fs IH]; intros g; cbn [fold_left user_bounds flat_map].
  - rewrite app_nil_r. destruct g; reflexivity.
  - rewrite IH. unfold ser_process_field, gstep, infers_ser, no_explicit, needs_bounds_derive, collect_bounds, user_bounds.
    cbn [get_bounds fold_left so_overrides so_visitor].
    destruct (gf_skip f); destruct (gf_bound_ser f); cbn [negb andb so_overrides so_visitor];
      rewrite <- ?app_assoc, ?app_nil_r; reflexivity.
Qed.

Lemma de_fold : forall fs g,
  fold_left de_process_field fs g =
  {| do_overrides := do_overrides g ++ user_bounds BTDeserialize fs;
     do_default_visitor := fold_left (gstep infers_default no_explicit) fs (do_default_visitor g);
     do_deserialize_visitor := fold_left (gstep infers_de no_explicit) fs (do_deserialize_visitor g) |}.
Proof.
  induction fs as [|f fs IH]; intros g; cbn [fold_left user_bounds flat_map].
  - rewrite app_nil_r. destruct g; reflexivity.
  - rewrite IH. unfold de_process_field, gstep, infers_de, infers_default, no_explicit, needs_bounds_derive, collect_bounds, user_bounds.
    cbn [get_bounds fold_left do_overrides do_default_visitor do_deserialize_visitor].
    destruct (gf_skip f); destruct (gf_bound_de f);
      cbn [negb andb do_overrides do_default_visitor do_deserialize_visitor];
      rewrite <- ?app_assoc, ?app_nil_r; reflexivity.
Qed.

Lemma schema_step : forall v f, schema_visit_field v f = gstep infers_schema schema_explicit v f.
Proof.
  intros v f. unfold schema_visit_field, gstep, infers_schema, schema_explicit, needs_schema_params_derive.
  destruct (gf_skip f); destruct (gf_schema_params f); reflexivity.
Qed.
Lemma schema_fold : forall fs v,
  fold_left schema_visit_field fs v = fold_left (gstep infers_schema schema_explicit) fs v.
Proof. induction fs as [|f fs IH]; intros v; cbn [fold_left]; [reflexivity|]. rewrite IH, schema_step. reflexivity. Qed.

Theorem bounds_documented : forall k it, bounds_of k it = documented_bounds k it.
Proof.
  intros k it. destruct k; unfold bounds_of, documented_bounds.
  - unfold ser_where, ser_extend, default_where, compute_predicates. rewrite ser_fold.
    cbn [so_overrides so_visitor app]. rewrite walk_documented. reflexivity.
  - unfold de_where, de_extend, default_where, compute_predicates. rewrite de_fold.
    cbn [do_overrides do_default_visitor do_deserialize_visitor app]. rewrite !walk_documented. reflexivity.
  - unfold schema_where, schema_visitor, default_where, compute_predicates.
    rewrite schema_fold, walk_documented. reflexivity.
Qed.

(** the parameters of the derived [declaration()] are the types bounded by [BorshSchema], same order *)
Theorem schema_declaration_params_documented : forall it,
  schema_declaration_params it
  = documented_types (type_params (gi_params it)) infers_schema schema_explicit (all_fields it).
Proof. intros it. unfold schema_declaration_params, schema_visitor. rewrite schema_fold. apply walk_documented. Qed.

(** * The rule, read as membership *)
Lemma dedup_incl : forall l seen t, In t (dedup seen l) -> In t l.
Proof.
  induction l as [|x l IH]; intros seen t; cbn [dedup]; [tauto|].
  destruct (mem (render x) seen); intros H.
  - right. exact (IH _ _ H).
  - destruct H as [H|H]; [left; exact H | right; exact (IH _ _ H)].
Qed.

Lemma dedup_complete : forall l seen t,
  In t l -> mem (render t) seen = false -> exists t', In t' (dedup seen l) /\ render t' = render t.
Proof.
  induction l as [|x l IH]; intros seen t Hin Hseen; [destruct Hin|]. cbn [dedup].
  destruct (mem (render x) seen) eqn:Hx.
  - destruct Hin as [->|Hin]; [congruence|]. exact (IH _ _ Hin Hseen).
  - destruct Hin as [->|Hin]; [exists t; split; [left; reflexivity|reflexivity]|].
    destruct (render x =? render t) eqn:Hxt.
    + apply String.eqb_eq in Hxt. exists x. split; [left; reflexivity|exact Hxt].
    + assert (Hs : mem (render t) (seen ++ [render x]) = false).
      { rewrite mem_app, Hseen. cbn. rewrite (String.eqb_sym (render t)), Hxt. reflexivity. }
      destruct (IH _ _ Hin Hs) as [t' [Ht' Hr]]. exists t'. split; [right; exact Ht'|exact Hr].
Qed.

(** A type parameter bounded by the derive's trait is a declared type parameter that occurs
    (outside PhantomData / macros) in a field the derive infers from -- when no explicit
    [schema(params)] entries are in play. *)
Theorem param_bounded_sound : forall ps sel ex fs P,
  (forall f, In f fs -> ex f = []) ->
  In (GParam P) (documented_types ps sel ex fs) ->
  In P ps /\ exists f, In f fs /\ sel f = true /\ occurs P (gf_ty f) = true.
Proof.
  intros ps sel ex fs P Hex H. unfold documented_types in H.
  apply dedup_incl in H. apply in_flat_map in H. destruct H as [Q [HQ H]].
  apply in_app_or in H. destruct H as [H|H].
  - destruct (existsb (fun f => sel f && occurs Q (gf_ty f)) fs) eqn:He; [|destruct H].
    destruct H as [H|[]]. injection H as ->. split; [exact HQ|].
    apply existsb_exists in He. destruct He as [f [Hf Hb]]. apply andb_prop in Hb. exists f. tauto.
  - exfalso. unfold entries_of in H. apply in_flat_map in H. destruct H as [f [Hf H]].
    rewrite (Hex f Hf) in H. cbn [flat_map] in H. rewrite app_nil_r in H.
    destruct (sel f && assoc_of Q (gf_ty f)) eqn:Hb; [|destruct H]. destruct H as [H|[]].
    apply andb_prop in Hb. destruct Hb as [_ Hb]. unfold assoc_of, punctuated_head in Hb.
    rewrite H in Hb. cbn in Hb. discriminate.
Qed.

(** Conversely such a parameter is bounded (the list holds a type spelled exactly like it). *)
Theorem param_bounded_complete : forall ps sel ex fs P f,
  In P ps -> In f fs -> sel f = true -> occurs P (gf_ty f) = true ->
  exists t, In t (documented_types ps sel ex fs) /\ render t = render (GParam P).
Proof.
  intros ps sel ex fs P f HP Hf Hs Ho. unfold documented_types.
  apply dedup_complete; [|reflexivity].
  apply in_flat_map. exists P. split; [exact HP|]. apply in_or_app. left.
  replace (existsb (fun f0 => sel f0 && occurs P (gf_ty f0)) fs) with true; [left; reflexivity|].
  symmetry. apply existsb_exists. exists f. rewrite Hs, Ho. tauto.
Qed.

(** Every explicit [schema(params)] entry filed under a DECLARED parameter is bounded. *)
Theorem entry_bounded : forall ps sel ex fs P f t,
  In P ps -> In f fs -> In (P, t) (ex f) ->
  exists t', In t' (documented_types ps sel ex fs) /\ render t' = render t.
Proof.
  intros ps sel ex fs P f t HP Hf He. unfold documented_types.
  apply dedup_complete; [|reflexivity].
  apply in_flat_map. exists P. split; [exact HP|]. apply in_or_app. right.
  unfold entries_of. apply in_flat_map. exists f. split; [exact Hf|]. apply in_or_app. right.
  apply in_flat_map. exists (P, t). split; [exact He|]. cbn [fst snd]. rewrite String.eqb_refl. left. reflexivity.
Qed.

(** Nothing else is bounded: every inferred type is a declared parameter or is filed under one. *)
Theorem bounded_provenance : forall ps sel ex fs t,
  In t (documented_types ps sel ex fs) ->
  exists P, In P ps /\
    ((t = GParam P /\ exists f, In f fs /\ sel f = true /\ occurs P (gf_ty f) = true) \/
     (exists f, In f fs /\ sel f = true /\ assoc_of P (gf_ty f) = true /\ t = gf_ty f) \/
     (exists f, In f fs /\ In (P, t) (ex f))).
Proof.
  intros ps sel ex fs t H. unfold documented_types in H.
  apply dedup_incl in H. apply in_flat_map in H. destruct H as [P [HP H]]. exists P. split; [exact HP|].
  apply in_app_or in H. destruct H as [H|H].
  - left. destruct (existsb (fun f => sel f && occurs P (gf_ty f)) fs) eqn:He; [|destruct H].
    destruct H as [H|[]]. split; [symmetry; exact H|].
    apply existsb_exists in He. destruct He as [f [Hf Hb]]. apply andb_prop in Hb. exists f. tauto.
  - right. unfold entries_of in H. apply in_flat_map in H. destruct H as [f [Hf H]].
    apply in_app_or in H. destruct H as [H|H].
    + left. destruct (sel f && assoc_of P (gf_ty f)) eqn:Hb; [|destruct H]. destruct H as [H|[]].
      apply andb_prop in Hb. exists f. intuition.
    + right. apply in_flat_map in H. destruct H as [[Q t'] [He H]]. cbn [fst snd] in H.
      destruct (Q =? P) eqn:HQ; [|destruct H]. destruct H as [H|[]]. apply String.eqb_eq in HQ. subst.
      exists f. tauto.
Qed.

(** [schema(params)] entries of a non-skipped field, filed under a declared parameter, are bounded. *)
Theorem override_bounded : forall it f l P t,
  In f (all_fields it) -> gf_skip f = false -> gf_schema_params f = Some l -> In (P, t) l ->
  In P (type_params (gi_params it)) ->
  exists t', In (WBound t' TrSchema) (bounds_of DSchema it) /\ render t' = render t.
Proof.
  intros it f l P t Hf Hs Hp Hin HP. rewrite bounds_documented. unfold documented_bounds.
  destruct (entry_bounded (type_params (gi_params it)) infers_schema schema_explicit (all_fields it) P f t HP Hf)
    as [t' [Ht' Hr]].
  { unfold schema_explicit. rewrite Hs, Hp. exact Hin. }
  exists t'. split; [|exact Hr]. apply in_or_app. right.
  exact (in_map (fun t0 => WBound t0 TrSchema) _ _ Ht').
Qed.

(** * Refuted readings *)
(** "adds the bound to ANY type parameter found in item's fields", read as "whose identifier is
    written in a (serialized, un-overridden) field": false.  [struct S<T: Tr> { a: Vec<T::A> }]
    gets no predicate at all (the derived impl then does not type-check: E0277 on [T::A]); the rustdoc
    concedes "complex cases, when derive hasn't figured out the right bounds". *)
Theorem naive_rule_refuted :
  exists it f P,
    In f (all_fields it) /\ gf_skip f = false /\ gf_bound_ser f = None /\
    In P (type_params (gi_params it)) /\ uses P (gf_ty f) = true /\
    forall p, In p (bounds_of DSer it) -> ~ In P (ident_toks (toks_pred p)).
Proof.
  exists nested_assoc. eexists. exists "T".
  split; [left; reflexivity|]. split; [reflexivity|]. split; [reflexivity|]. split; [left; reflexivity|].
  split; [vm_compute; reflexivity|]. vm_compute. tauto.
Qed.

(** "Such an entry instructs BorshSchema derive to add override_type to types bounded by
    borsh::BorshSchema" -- not when the [order_param] is not a type parameter of the item: the entry is
    filed under a key that is never read, silently. *)
Theorem override_unknown_param_refuted :
  exists it f P t,
    In f (all_fields it) /\ gf_skip f = false /\ gf_schema_params f = Some [(P, t)] /\
    forall p, In p (bounds_of DSchema it) -> render_pred p <> render_pred (WBound t TrSchema).
Proof.
  exists unknown_order_param. eexists. exists "X". eexists.
  split; [left; reflexivity|]. split; [reflexivity|]. split; [reflexivity|]. vm_compute. tauto.
Qed.
