(** Facts about discriminant expressions: the parser inverts [tokens_of] on
    canonical ASTs, and the token splice of [Discriminants::new] (with the
    grouping rule) evaluates to the language rule. *)
From Coq Require Import List ZArith NArith Bool Lia Arith.
From Borsh Require Import Discr.
Import ListNotations.

(** * Unfolding equations *)
Lemma parse_expr_S f minp ts :
  parse_expr (S f) minp ts =
  match parse_atom f ts with
  | Some (a, r) => parse_loop f minp a r
  | None => None
  end.
Proof. reflexivity. Qed.

Lemma parse_atom_S f ts :
  parse_atom (S f) ts =
  match ts with
  | TLit o n :: r => Some (ELit o n, r)
  | TLP :: r =>
      match parse_expr f 0 r with
      | Some (e, TRP :: r') => Some (EParen e, r')
      | _ => None
      end
  | TOp _ Sub :: r =>
      match parse_atom f r with
      | Some (e, r') => Some (EUn Neg e, r')
      | None => None
      end
  | TBang :: r =>
      match parse_atom f r with
      | Some (e, r') => Some (EUn Not e, r')
      | None => None
      end
  | _ => None
  end.
Proof. reflexivity. Qed.

Lemma parse_loop_S f minp lhs ts :
  parse_loop (S f) minp lhs ts =
  match ts with
  | TOp o op :: r =>
      if Nat.leb minp (prec op) then
        match parse_expr f (S (prec op)) r with
        | Some (rhs, r') => parse_loop f minp (EBin o op lhs rhs) r'
        | None => None
        end
      else Some (lhs, ts)
  | _ => Some (lhs, ts)
  end.
Proof. reflexivity. Qed.

(** * More fuel never changes an answer *)
Lemma parse_mono_step : forall f,
  (forall minp ts x, parse_expr f minp ts = Some x -> parse_expr (S f) minp ts = Some x) /\
  (forall ts x, parse_atom f ts = Some x -> parse_atom (S f) ts = Some x) /\
  (forall minp lhs ts x, parse_loop f minp lhs ts = Some x -> parse_loop (S f) minp lhs ts = Some x).
Proof.
  induction f as [|f [IHe [IHa IHl]]].
  { repeat split; intros; discriminate. }
  repeat split.
  - intros minp ts x H. rewrite parse_expr_S in H. rewrite parse_expr_S.
    destruct (parse_atom f ts) as [[a r]|] eqn:E; [|discriminate].
    rewrite (IHa _ _ E). apply IHl. exact H.
  - intros ts x H. rewrite parse_atom_S in H. rewrite parse_atom_S.
    destruct ts as [|t r]; [discriminate|].
    destruct t as [o n| | | |o op]; try discriminate.
    + exact H.
    + destruct (parse_expr f 0 r) as [[e r']|] eqn:E; [|discriminate].
      rewrite (IHe _ _ _ E). exact H.
    + destruct (parse_atom f r) as [[e r']|] eqn:E; [|discriminate].
      rewrite (IHa _ _ E). exact H.
    + destruct op; try discriminate.
      destruct (parse_atom f r) as [[e r']|] eqn:E; [|discriminate].
      rewrite (IHa _ _ E). exact H.
  - intros minp lhs ts x H. rewrite parse_loop_S in H. rewrite parse_loop_S.
    destruct ts as [|t r]; [exact H|].
    destruct t as [o n| | | |o op]; try exact H.
    destruct (Nat.leb minp (prec op)); [|exact H].
    destruct (parse_expr f (S (prec op)) r) as [[rhs r']|] eqn:E; [|discriminate].
    rewrite (IHe _ _ _ E). apply IHl. exact H.
Qed.

Lemma parse_expr_mono f g minp ts x :
  parse_expr f minp ts = Some x -> f <= g -> parse_expr g minp ts = Some x.
Proof.
  intros H L. induction L; [exact H|]. apply (proj1 (parse_mono_step _)). exact IHL.
Qed.
Lemma parse_atom_mono f g ts x :
  parse_atom f ts = Some x -> f <= g -> parse_atom g ts = Some x.
Proof.
  intros H L. induction L; [exact H|]. apply (proj1 (proj2 (parse_mono_step _))). exact IHL.
Qed.
Lemma parse_loop_mono f g minp lhs ts x :
  parse_loop f minp lhs ts = Some x -> f <= g -> parse_loop g minp lhs ts = Some x.
Proof.
  intros H L. induction L; [exact H|]. apply (proj2 (proj2 (parse_mono_step _))). exact IHL.
Qed.

(** * Round trip *)
(** [rest] does not continue an expression parsed at minimum precedence [p]. *)
Definition stops (p : nat) (rest : list token) : bool :=
  match rest with
  | TOp _ op :: _ => Nat.ltb (prec op) p
  | _ => true
  end.

Lemma stops_mono p q rest : stops p rest = true -> p <= q -> stops q rest = true.
Proof.
  destruct rest as [|[| | | |o op] r]; simpl; auto.
  intros H L. apply Nat.ltb_lt in H. apply Nat.ltb_lt. lia.
Qed.

Lemma loop_stops f p e rest : stops p rest = true -> parse_loop (S f) p e rest = Some (e, rest).
Proof.
  intro H. rewrite parse_loop_S.
  destruct rest as [|[| | | |o op] r]; try reflexivity.
  simpl in H. apply Nat.ltb_lt in H.
  destruct (Nat.leb p (prec op)) eqn:E; [|reflexivity].
  apply Nat.leb_le in E. lia.
Qed.

Fixpoint cost (e : expr) : nat :=
  match e with
  | ELit _ _ => 1
  | EParen e' => cost e' + 2
  | EUn _ e' => cost e' + 1
  | EBin _ _ l r => cost l + cost r + 2
  end.

Lemma prec_lt_atom op : prec op < ATOM.
Proof. destruct op; unfold ATOM; simpl; lia. Qed.

Lemma roundtrip_gen : forall e, canonical e = true ->
  (level e = ATOM -> forall g rest, cost e <= g -> parse_atom g (tokens_of e ++ rest) = Some (e, rest)) /\
  (forall minp rest f x g, minp <= level e -> stops (S (level e)) rest = true ->
     parse_loop f minp e rest = Some x -> f + cost e <= g ->
     parse_expr g minp (tokens_of e ++ rest) = Some x).
Proof.
  assert (ATOM2 : forall e, level e = ATOM ->
            (forall g rest, cost e <= g -> parse_atom g (tokens_of e ++ rest) = Some (e, rest)) ->
            forall minp rest f x g, parse_loop f minp e rest = Some x -> f + cost e <= g ->
              parse_expr g minp (tokens_of e ++ rest) = Some x).
  { intros e _ HA minp rest f x g HL HG.
    destruct f as [|f]; [discriminate|].
    destruct g as [|g]; [lia|].
    rewrite parse_expr_S. rewrite HA by lia.
    eapply parse_loop_mono; [exact HL|]. assert (1 <= cost e) by (destruct e; simpl; lia). lia. }
  induction e as [o n|e IH|u e IH|o op l IHl r IHr]; intro C.
  - (* literal *)
    assert (A : forall g rest, cost (ELit o n) <= g -> parse_atom g (tokens_of (ELit o n) ++ rest) = Some (ELit o n, rest)).
    { intros g rest HG. simpl in HG. destruct g; [lia|]. reflexivity. }
    split; [intros _; exact A|].
    intros minp rest f x g _ _. apply ATOM2; [reflexivity|exact A].
  - (* parentheses *)
    simpl in C. destruct (IH C) as [_ IH2].
    assert (A : forall g rest, cost (EParen e) <= g -> parse_atom g (tokens_of (EParen e) ++ rest) = Some (EParen e, rest)).
    { intros g rest HG. simpl in HG. destruct g as [|g]; [lia|].
      simpl tokens_of. simpl app. rewrite <- app_assoc. simpl app. rewrite parse_atom_S. cbv iota.
      rewrite (IH2 0 (TRP :: rest) 1 (e, TRP :: rest) g); [reflexivity|lia|reflexivity|reflexivity|lia]. }
    split; [intros _; exact A|].
    intros minp rest f x g _ _. apply ATOM2; [reflexivity|exact A].
  - (* unary *)
    simpl in C. apply andb_prop in C. destruct C as [CL C]. apply Nat.eqb_eq in CL.
    destruct (IH C) as [IH1 _].
    assert (A : forall g rest, cost (EUn u e) <= g -> parse_atom g (tokens_of (EUn u e) ++ rest) = Some (EUn u e, rest)).
    { intros g rest HG. simpl in HG. destruct g as [|g]; [lia|].
      destruct u; simpl tokens_of; simpl app; rewrite parse_atom_S; cbv iota; rewrite (IH1 CL) by lia; reflexivity. }
    split; [intros _; exact A|].
    intros minp rest f x g _ _. apply ATOM2; [reflexivity|exact A].
  - (* binary *)
    simpl in C. apply andb_prop in C. destruct C as [C Cr]. apply andb_prop in C. destruct C as [C Cl].
    apply andb_prop in C. destruct C as [PL PR]. apply Nat.leb_le in PL. apply Nat.ltb_lt in PR.
    destruct (IHl Cl) as [_ IHl2]. destruct (IHr Cr) as [_ IHr2].
    split.
    { simpl. intro H. pose proof (prec_lt_atom op). lia. }
    intros minp rest f x g HM HS HL HG. simpl in HM, HS, HG.
    simpl tokens_of. rewrite <- app_assoc. simpl app.
    apply (IHl2 minp (TOp o op :: tokens_of r ++ rest) (S (S (f + cost r))) x g); [lia| |  |lia].
    + simpl. apply Nat.ltb_lt. lia.
    + rewrite parse_loop_S.
      assert (E : Nat.leb minp (prec op) = true) by (apply Nat.leb_le; lia). rewrite E.
      rewrite (IHr2 (S (prec op)) rest 1 (r, rest) (S (f + cost r))).
      * eapply parse_loop_mono; [exact HL|lia].
      * lia.
      * eapply stops_mono; [exact HS|lia].
      * apply loop_stops. exact HS.
      * lia.
Qed.

Lemma cost_le_tokens e : cost e <= 3 * length (tokens_of e).
Proof.
  induction e as [o n|e IH|u e IH|o op l IHl r IHr]; simpl.
  - lia.
  - rewrite app_length. simpl. lia.
  - destruct u; simpl; lia.
  - rewrite app_length. simpl. lia.
Qed.

(** The parser inverts [tokens_of] on every canonical AST. *)
Theorem parse_tokens_of e : canonical e = true -> parse (tokens_of e) = Some e.
Proof.
  intro C. unfold parse.
  destruct (roundtrip_gen e C) as [_ R].
  specialize (R 0 [] 1 (e, []) (parse_fuel (tokens_of e))).
  rewrite app_nil_r in R. rewrite R; [reflexivity|lia|reflexivity|reflexivity|].
  unfold parse_fuel. pose proof (cost_le_tokens e). lia.
Qed.

(** * The splice of [Discriminants::new] on the AST level *)
Definition group_expr (e : expr) : expr :=
  match e with
  | ELit _ _ | EParen _ => e
  | _ => EParen e
  end.
Definition plus1 (e : expr) : expr := EBin Macro Add e (ELit Macro 1).

Lemma group_tokens e : group true e = tokens_of (group_expr e).
Proof. destruct e; reflexivity. Qed.
Lemma group_canonical e : canonical e = true -> canonical (group_expr e) = true.
Proof. destruct e; simpl; auto. Qed.
Lemma group_level e : level (group_expr e) = ATOM.
Proof. destruct e; reflexivity. Qed.
Lemma group_eval lax t e : eval lax t (group_expr e) = eval lax t e.
Proof. destruct e; reflexivity. Qed.
Lemma plus1_tokens e : tokens_of (plus1 e) = tokens_of e ++ PLUS_ONE.
Proof. reflexivity. Qed.
Lemma plus1_canonical e : canonical e = true -> prec Add <= level e -> canonical (plus1 e) = true.
Proof.
  intros C L. simpl in L. unfold plus1. cbn [canonical prec level].
  assert (E : Nat.leb 6 (level e) = true) by (apply Nat.leb_le; exact L). rewrite E, C. reflexivity.
Qed.

Lemma chk_one t : chk t 1 = Some 1%Z.
Proof. destruct t; reflexivity. Qed.

Lemma plus1_eval_strict t e :
  eval false t (plus1 e) = obind (eval false t e) (fun z => chk t (z + 1)).
Proof.
  simpl. destruct (eval false t e) as [z|]; [|reflexivity]. simpl. rewrite chk_one. reflexivity.
Qed.

Definition canonical_opt (d : option expr) : bool :=
  match d with Some e => canonical e | None => true end.

Lemma tag_eval_tokens lax t e : canonical e = true -> tag_eval lax t (tokens_of e) = eval lax t e.
Proof. intro C. unfold tag_eval. rewrite (parse_tokens_of e C). reflexivity. Qed.

Lemma derive_discrs_from_correct t : forall ds en next,
  forallb canonical_opt ds = true ->
  canonical en = true -> prec Add <= level en ->
  eval false t en = obind next (chk t) ->
  map (tag_eval false t) (derive_discrs_from true (tokens_of en) ds) = rust_discrs_from t next ds.
Proof.
  induction ds as [|d ds IH]; intros en next CD CE LE EV; [reflexivity|].
  simpl in CD. apply andb_prop in CD. destruct CD as [Cd CD].
  destruct d as [e|]; simpl.
  - simpl in Cd. rewrite group_tokens.
    rewrite tag_eval_tokens by (apply group_canonical; exact Cd). rewrite group_eval.
    f_equal. rewrite <- plus1_tokens. apply IH; [exact CD| | |].
    + apply plus1_canonical; [apply group_canonical; exact Cd|rewrite group_level; unfold ATOM; simpl; lia].
    + unfold plus1; simpl; lia.
    + rewrite plus1_eval_strict, group_eval. destruct (eval false t e); reflexivity.
  - rewrite tag_eval_tokens by exact CE. rewrite EV.
    f_equal. rewrite <- plus1_tokens. apply IH; [exact CD| | |].
    + apply plus1_canonical; assumption.
    + unfold plus1; simpl; lia.
    + rewrite plus1_eval_strict, EV. destruct (obind next (chk t)); reflexivity.
Qed.

(** C06_discr, list form: rustc's reading of every spliced tag expression is the
    language rule, in whichever integer type both are read. *)
Theorem derive_discrs_correct t ds :
  forallb canonical_opt ds = true ->
  map (tag_eval false t) (derive_discrs ds) = rust_discrs t ds.
Proof.
  intro C. unfold derive_discrs, rust_discrs.
  apply (derive_discrs_from_correct t ds (ELit Macro 0) (Some 0%Z)); auto.
  - simpl. unfold ATOM. lia.
Qed.

Lemma map_nth_default {A B} (f : A -> B) (l : list A) (d : A) (d' : B) i :
  f d = d' -> nth i (map f l) d' = f (nth i l d).
Proof. intro H. rewrite <- H. apply map_nth. Qed.

Theorem derive_discr_correct ds i :
  forallb canonical_opt ds = true ->
  tag_eval false ISize (derive_discr ds i) = rust_discr ds i.
Proof.
  intro C. unfold derive_discr, rust_discr. rewrite <- (derive_discrs_correct ISize ds C).
  symmetry. apply map_nth_default. reflexivity.
Qed.
