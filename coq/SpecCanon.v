(** C03: the bytes are a function of the logical value -- permutations of a hash collection,
    deque splits, wrappers, borrowed versus owned sequences, bulk versus element-wise writes. *)
From Coq Require Import String.
From Coq Require Import List NArith Bool Lia Permutation.
From Coq.Strings Require Import Byte.
From Borsh Require Import Bytes BytesFacts Result Loop LoopFacts Ty TyInd Ser De Entry CodecFacts
  RoundTrip OrderFacts SortFacts RoundTripKeyed Spec SpecFacts SpecConform SpecRefuse.
Import ListNotations.
Local Open Scope N_scope.

(** * Traces that give the same [enc] result *)
Definition out_eq (a b : out) : Prop := snd a = snd b /\ (snd a = None -> sbytes a = sbytes b).

Lemma out_eq_refl a : out_eq a a.
Proof. split; auto. Qed.

Lemma out_eq_trans a b c : out_eq a b -> out_eq b c -> out_eq a c.
Proof.
  intros [S1 B1] [S2 B2]. split; [congruence|]. intros H. rewrite B1 by exact H. apply B2. congruence.
Qed.

Lemma out_eq_andthen a a' b b' : out_eq a a' -> out_eq b b' -> out_eq (a >> b) (a' >> b').
Proof.
  intros [Sa Ba] [Sb Bb]. destruct (snd a) as [e|] eqn:Ea.
  - rewrite (andthen_err a b e Ea), (andthen_err a' b' e (eq_sym Sa)). split; [congruence|]. intros H. congruence.
  - symmetry in Sa. split.
    + unfold andthen. now rewrite Ea, Sa.
    + intros H. apply andthen_ok in H. destruct H as [_ Hb].
      rewrite !andthen_bytes by assumption. now rewrite (Ba eq_refl), (Bb Hb).
Qed.

Lemma enc_of_out_eq t1 v1 t2 v2 : out_eq (ser t1 v1) (ser t2 v2) -> enc t1 v1 = enc t2 v2.
Proof.
  intros [S B]. unfold enc. rewrite <- S. destruct (snd (ser t1 v1)) as [[k m]|]; [reflexivity|].
  f_equal. now apply B.
Qed.

Lemma andthen_assoc a b c : (a >> b) >> c = a >> (b >> c).
Proof.
  unfold andthen. destruct a as [la [ea|]], b as [lb [eb|]], c as [lc ec]; cbn [fst snd]; try reflexivity.
  now rewrite app_assoc.
Qed.

Lemma done_andthen a : done >> a = a.
Proof. unfold andthen, done. cbn [fst snd app]. now destruct a. Qed.

Lemma each_out_app (f : val -> out) a b : each_out f (a ++ b) = each_out f a >> each_out f b.
Proof.
  induction a as [|x r IH]; cbn [app each_out].
  - now rewrite done_andthen.
  - now rewrite IH, andthen_assoc.
Qed.

Lemma slice_out_eq t' b l :
  forallb (has_ty t') l = true -> (b = true -> is_u8 t' = true) ->
  out_eq (slice_out b (ser t') l) (each_out (ser t') l).
Proof. intros Hty Hb. destruct (slice_out_each t' b l Hty Hb) as [Es Eb]. split; auto. Qed.

(** * Hash collections: only the set of entries matters, and it is written in ascending order *)
Lemma hash_keyed k : is_hash k = true -> is_keyed k = true.
Proof. destruct k; cbn; intros H; try discriminate; reflexivity. Qed.

Lemma has_ty_hash k t l :
  is_hash k = true -> has_ty (TSeq k t) (VL l) = true ->
  forallb (has_ty t) l = true /\ no_dup_keys (cmp_val (key_ty k t)) (key_val k) l = true.
Proof.
  intros Hh Hty. destruct k; cbn in Hh; try discriminate; cbn [has_ty] in Hty;
    apply andb_true_iff in Hty; exact Hty.
Qed.

Lemma ser_hash k t l :
  is_hash k = true ->
  ser (TSeq k t) (VL l) =
  if mem_zst (key_ty k t) then fail InvalidData MZst
  else emit_len (len (sort_by (cmp_val (key_ty k t)) (key_val k) l)) >>
       each_out (ser t) (sort_by (cmp_val (key_ty k t)) (key_val k) l).
Proof. intros Hh. destruct k; cbn in Hh; try discriminate; reflexivity. Qed.

Lemma hash_perm k t l1 l2 :
  is_hash k = true -> wf (TSeq k t) = true -> Permutation l1 l2 ->
  has_ty (TSeq k t) (VL l1) = true ->
  enc (TSeq k t) (VL l1) = enc (TSeq k t) (VL l2).
Proof.
  intros Hh Hwf Hp Hty. destruct (has_ty_hash k t l1 Hh Hty) as [Hel Hnd].
  unfold enc. rewrite !(ser_hash k t _ Hh).
  rewrite (sort_by_perm_eq (cmp_val (key_ty k t)) (key_val k)
             (fun x => has_ty (key_ty k t) (key_val k x) = true)
             (c_anti k t) (c_lt k t (hash_keyed k Hh) Hwf) l1 l2 (Forall_P k t Hwf l1 Hel) Hnd Hp).
  reflexivity.
Qed.

(** a permutation of a well-typed hash collection is a well-typed hash collection *)
Lemma hash_perm_typed k t l1 l2 :
  is_hash k = true -> wf (TSeq k t) = true -> Permutation l1 l2 ->
  has_ty (TSeq k t) (VL l1) = true -> has_ty (TSeq k t) (VL l2) = true.
Proof.
  intros Hh Hwf Hp Hty. destruct (has_ty_hash k t l1 Hh Hty) as [Hel Hnd].
  assert (Hel2 : forallb (has_ty t) l2 = true) by exact (forallb_perm _ _ _ Hp Hel).
  assert (Hnd2 : no_dup_keys (cmp_val (key_ty k t)) (key_val k) l2 = true).
  { exact (no_dup_keys_perm (cmp_val (key_ty k t)) (key_val k)
             (fun x => has_ty (key_ty k t) (key_val k x) = true) (c_anti k t) l1 l2
             (Forall_P k t Hwf l1 Hel) Hp Hnd). }
  destruct k; cbn in Hh; try discriminate; cbn [has_ty]; now rewrite Hel2, Hnd2.
Qed.

(** the ordered collection with the same content *)
Definition ordered_twin (k : seq_kind) : seq_kind :=
  match k with SHashSet => SBTreeSet | SHashMap => SBTreeMap | _ => k end.

Lemma hash_sorted k t l bs :
  is_hash k = true -> wf (TSeq k t) = true -> has_ty (TSeq k t) (VL l) = true ->
  enc (TSeq k t) (VL l) = Ok bs ->
  let sorted := sort_by (cmp_val (key_ty k t)) (key_val k) l in
  (* what is written is the count and then the entries of [sorted], one by one *)
  ser (TSeq k t) (VL l) = emit_len (len sorted) >> each_out (ser t) sorted /\
  Permutation sorted l /\
  strictly_ascending (cmp_val (key_ty k t)) (key_val k) sorted = true /\
  (* these are the bytes of the B-tree collection with the same content *)
  has_ty (TSeq (ordered_twin k) t) (VL sorted) = true /\
  enc (TSeq (ordered_twin k) t) (VL sorted) = Ok bs /\
  (* and a decoder that insists on ascending keys accepts them *)
  dec_slice {| strict := true |} (TSeq k t) bs = Ok (logical (TSeq k t) (VL l), []).
Proof.
  intros Hh Hwf Hty Henc sorted.
  destruct (has_ty_hash k t l Hh Hty) as [Hel Hnd].
  pose proof (sort_by_perm (cmp_val (key_ty k t)) (key_val k) l) as Hp. fold sorted in Hp.
  assert (Hsa : strictly_ascending (cmp_val (key_ty k t)) (key_val k) sorted = true).
  { exact (sort_by_sorted (cmp_val (key_ty k t)) (key_val k)
             (fun x => has_ty (key_ty k t) (key_val k x) = true)
             (c_anti k t) (c_lt k t (hash_keyed k Hh) Hwf) l (Forall_P k t Hwf l Hel) Hnd). }
  assert (Hels : forallb (has_ty t) sorted = true) by exact (forallb_perm _ _ _ (Permutation_sym Hp) Hel).
  assert (Hz : mem_zst (key_ty k t) = false).
  { apply enc_ok_iff in Henc. destruct Henc as [Hok _].
    exact (not_zst_of_ok k t (hash_keyed k Hh) Hwf (VL l) Hok). }
  assert (Hser : ser (TSeq k t) (VL l) = emit_len (len sorted) >> each_out (ser t) sorted).
  { rewrite (ser_hash k t l Hh), Hz. reflexivity. }
  assert (Htwin : enc (TSeq (ordered_twin k) t) (VL sorted) = enc (TSeq k t) (VL l)).
  { unfold enc. rewrite Hser.
    destruct k; cbn in Hh; try discriminate;
      cbn [ordered_twin ser ser_checks_zst uses_slice_path key_ty is_map andb] in Hz |- *;
      rewrite Hz, andb_false_r; reflexivity. }
  repeat split; try assumption.
  - destruct k; cbn in Hh; try discriminate; cbn [ordered_twin has_ty]; rewrite Hels; exact Hsa.
  - now rewrite Htwin.
  - rewrite <- (app_nil_r bs). now apply round_trip.
Qed.

(** * Deque: every split encodes like the vector holding the joined content *)
Lemma deque_as_vec t a b :
  has_ty (TSeq SDeque t) (VL [VL a; VL b]) = true ->
  enc (TSeq SDeque t) (VL [VL a; VL b]) = enc (TSeq SVec t) (VL (a ++ b)).
Proof.
  intros Hty. cbn [has_ty] in Hty. apply andb_true_iff in Hty. destruct Hty as [Ha Hb].
  assert (Hab : forallb (has_ty t) (a ++ b) = true) by (now rewrite forallb_app, Ha, Hb).
  apply enc_of_out_eq. cbn [ser ser_checks_zst uses_slice_path key_ty is_map andb].
  destruct (mem_zst t); [apply out_eq_refl|].
  rewrite len_app. apply out_eq_andthen; [apply out_eq_refl|].
  apply (out_eq_trans _ (each_out (ser t) a >> each_out (ser t) b)).
  - apply out_eq_andthen; apply slice_out_eq; try assumption; apply (u8_and true t).
  - rewrite <- each_out_app. split.
    + symmetry. apply (slice_out_each t _ (a ++ b) Hab (u8_and true t)).
    + intros _. symmetry. apply (slice_out_each t _ (a ++ b) Hab (u8_and true t)).
Qed.

(** * Wrappers and borrowed sequences *)
Lemma wrap_transparent w t v : enc (TWrap w t) v = enc t v.
Proof. reflexivity. Qed.

Lemma slice_as_vec t v : mem_zst t = false -> enc (TSeq SSlice t) v = enc (TSeq SVec t) v.
Proof.
  intros Hz. unfold enc. cbn [ser ser_checks_zst uses_slice_path key_ty is_map andb]. rewrite Hz. reflexivity.
Qed.

(** * The bulk write of bytes *)
Lemma fast_path l :
  forallb (has_ty TyU8) l = true ->
  snd (emit_bytes_of l) = None /\ snd (each_out (ser TyU8) l) = None /\
  concat (fst (emit_bytes_of l)) = concat (fst (each_out (ser TyU8) l)).
Proof.
  intros Hty. destruct (has_ty_u8_list l Hty) as (ns & Ens & Hns).
  destruct (slice_out_u8 true l ns Ens Hns) as [H1 H2].
  destruct (slice_out_u8 false l ns Ens Hns) as [H3 H4].
  unfold slice_out, sbytes in *. repeat split; try assumption. now rewrite H2, H4.
Qed.

(** every sequence kind of u8 gives the bytes of the kind that always writes element by
    element (LinkedList); hash sets sort first, a deque is covered by [deque_as_vec] *)
Lemma fast_path_seq k l :
  is_hash k = false -> k <> SDeque -> forallb (has_ty TyU8) l = true ->
  enc (TSeq k TyU8) (VL l) = enc (TSeq SList TyU8) (VL l).
Proof.
  intros Hh Hd Hty. apply enc_of_out_eq.
  assert (Hgen : forall b, out_eq (emit_len (len l) >> slice_out b (ser TyU8) l)
                                  (emit_len (len l) >> slice_out false (ser TyU8) l)).
  { intros b. apply out_eq_andthen; [apply out_eq_refl|].
    apply (slice_out_eq TyU8 b l Hty). reflexivity. }
  destruct k; cbn in Hh; try discriminate; try (exfalso; now apply Hd); apply Hgen.
Qed.

Lemma fast_path_array n l :
  has_ty (TArray n TyU8) (VL l) = true ->
  enc (TArray n TyU8) (VL l) = Ok (concat (fst (each_out (ser TyU8) l))).
Proof.
  intros Hty. cbn [has_ty] in Hty. apply andb_true_iff in Hty. destruct Hty as [Hlen Hty].
  apply N.eqb_eq in Hlen. destruct (fast_path l Hty) as (H1 & H2 & H3).
  unfold enc. cbn [ser is_u8]. destruct (N.eqb_spec n 0) as [E0|E0].
  - subst n. apply len_zero_nil in E0. subst l. reflexivity.
  - unfold slice_out. rewrite H1. now rewrite H3.
Qed.

(** * Refusal depends only on the logical value *)
Definition LR (t : ty) : Prop :=
  forall v1 v2, has_ty t v1 = true -> has_ty t v2 = true -> logical t v1 = logical t v2 ->
                refusable t v1 = refusable t v2.

Lemma bool_eq_of_imp (a b : bool) : (a = true -> b = true) -> (b = true -> a = true) -> a = b.
Proof. destruct a, b; intros H1 H2; try reflexivity; [symmetry; now apply H1|now apply H2]. Qed.

Lemma existsb_logical t' l1 l2 :
  LR t' -> forallb (has_ty t') l1 = true -> forallb (has_ty t') l2 = true ->
  (forall y, In y (map (logical t') l1) <-> In y (map (logical t') l2)) ->
  existsb (refusable t') l1 = existsb (refusable t') l2.
Proof.
  intros IH H1 H2 Hin.
  assert (Himp : forall la lb, forallb (has_ty t') la = true -> forallb (has_ty t') lb = true ->
                   (forall y, In y (map (logical t') la) -> In y (map (logical t') lb)) ->
                   existsb (refusable t') la = true -> existsb (refusable t') lb = true).
  { intros la lb Ha Hb Hi He. apply existsb_exists in He. destruct He as (x & Hx & Hr).
    assert (Hy : In (logical t' x) (map (logical t') lb)) by (apply Hi; now apply in_map).
    apply in_map_iff in Hy. destruct Hy as (x' & El & Hx').
    apply existsb_exists. exists x'. split; [exact Hx'|].
    rewrite <- Hr. apply IH; [exact (forallb_In _ _ _ Hb Hx')|exact (forallb_In _ _ _ Ha Hx)|exact El]. }
  apply bool_eq_of_imp; apply Himp; try assumption; intros y; apply Hin.
Qed.

Lemma lr_list t' l1 l2 :
  LR t' -> forallb (has_ty t') l1 = true -> forallb (has_ty t') l2 = true ->
  map (logical t') l1 = map (logical t') l2 ->
  count_of l1 = count_of l2 /\ existsb (refusable t') l1 = existsb (refusable t') l2.
Proof.
  intros IH H1 H2 E. split.
  - unfold count_of. now rewrite <- (map_length (logical t') l1), E, map_length.
  - apply existsb_logical; try assumption. intros y. now rewrite E.
Qed.

Lemma lr_seq k t' : LR t' -> LR (TSeq k t').
Proof.
  intros IH v1 v2 H1 H2 E. cbn [refusable]. f_equal.
  assert (Hplain : forall l1 l2, forallb (has_ty t') l1 = true -> forallb (has_ty t') l2 = true ->
            map (logical t') l1 = map (logical t') l2 ->
            too_many (count_of l1) || existsb (refusable t') l1 = too_many (count_of l2) || existsb (refusable t') l2).
  { intros l1 l2 Ha Hb El. destruct (lr_list t' l1 l2 IH Ha Hb El) as [-> ->]. reflexivity. }
  assert (Hhash : forall l1 l2, forallb (has_ty t') l1 = true -> forallb (has_ty t') l2 = true ->
            sort_by (cmp_val (key_ty k t')) (key_val k) (map (logical t') l1) =
            sort_by (cmp_val (key_ty k t')) (key_val k) (map (logical t') l2) ->
            too_many (count_of l1) || existsb (refusable t') l1 = too_many (count_of l2) || existsb (refusable t') l2).
  { intros l1 l2 Ha Hb El.
    pose proof (sort_by_perm' (cmp_val (key_ty k t')) (key_val k) (map (logical t') l1)) as P1.
    pose proof (sort_by_perm' (cmp_val (key_ty k t')) (key_val k) (map (logical t') l2)) as P2.
    rewrite El in P1.
    assert (Pm : Permutation (map (logical t') l1) (map (logical t') l2))
      by (eapply perm_trans; [apply Permutation_sym; exact P1|exact P2]).
    f_equal.
    - unfold count_of. f_equal. f_equal.
      rewrite <- (map_length (logical t') l1), <- (map_length (logical t') l2). now apply Permutation_length.
    - apply existsb_logical; try assumption. intros y. split; intros Hy.
      + eapply Permutation_in; eauto.
      + eapply Permutation_in; [apply Permutation_sym|]; eauto. }
  destruct k;
    try (destruct v1 as [|l1|]; cbn [has_ty] in H1; try discriminate H1;
         destruct v2 as [|l2|]; cbn [has_ty] in H2; try discriminate H2;
         apply andb_true_iff in H1; destruct H1 as [H1 _];
         apply andb_true_iff in H2; destruct H2 as [H2 _];
         cbn [logical] in E; inversion E as [El];
         first [ exact (Hplain l1 l2 H1 H2 El) | exact (Hhash l1 l2 H1 H2 El) ]).
  (* Deque *)
  destruct v1 as [|[|[|a1|] [|[|b1|] [|]]]|]; cbn [has_ty] in H1; try discriminate.
  destruct v2 as [|[|[|a2|] [|[|b2|] [|]]]|]; cbn [has_ty] in H2; try discriminate.
  apply andb_true_iff in H1. destruct H1 as [Ha1 Hb1].
  apply andb_true_iff in H2. destruct H2 as [Ha2 Hb2].
  cbn [logical] in E. inversion E as [El].
  assert (T1 : forallb (has_ty t') (a1 ++ b1) = true) by (now rewrite forallb_app, Ha1, Hb1).
  assert (T2 : forallb (has_ty t') (a2 ++ b2) = true) by (now rewrite forallb_app, Ha2, Hb2).
  pose proof (Hplain (a1 ++ b1) (a2 ++ b2) T1 T2 El) as Hp.
  rewrite !existsb_app in Hp. unfold count_of in *. rewrite !app_length, !Nnat.Nat2N.inj_add in Hp.
  rewrite <- !orb_assoc. exact Hp.
Qed.

Lemma lr_array n t' : LR t' -> LR (TArray n t').
Proof.
  intros IH v1 v2 H1 H2 E.
  destruct v1 as [|l1|]; cbn [has_ty] in H1; try discriminate.
  destruct v2 as [|l2|]; cbn [has_ty] in H2; try discriminate.
  apply andb_true_iff in H1. destruct H1 as [_ H1]. apply andb_true_iff in H2. destruct H2 as [_ H2].
  cbn [logical] in E. inversion E as [El]. cbn [refusable].
  now destruct (lr_list t' l1 l2 IH H1 H2 El) as [_ ->].
Qed.

Lemma lr_fields ts :
  Forall LR ts ->
  forall sk l1 l2,
    all2 (fun t' x => has_ty t' x) ts l1 = true -> all2 (fun t' x => has_ty t' x) ts l2 = true ->
    map_fields (fun t' x => logical t' x) default_of ts (pad_false (length ts) sk) l1 =
    map_fields (fun t' x => logical t' x) default_of ts (pad_false (length ts) sk) l2 ->
    any_field (fun t' x => refusable t' x) ts sk l1 = any_field (fun t' x => refusable t' x) ts sk l2.
Proof.
  induction 1 as [|t' tr Ht' Htr IH]; intros sk l1 l2 H1 H2 E.
  - destruct l1, l2; cbn in H1, H2; try discriminate. reflexivity.
  - destruct l1 as [|x1 r1]; cbn [all2] in H1; try discriminate.
    destruct l2 as [|x2 r2]; cbn [all2] in H2; try discriminate.
    apply andb_true_iff in H1. destruct H1 as [Hx1 Hr1].
    apply andb_true_iff in H2. destruct H2 as [Hx2 Hr2].
    assert (Epad : pad_false (length (t' :: tr)) sk = hd false sk :: pad_false (length tr) (tl sk)).
    { destruct sk; reflexivity. }
    rewrite Epad in E. cbn [map_fields any_field] in *. inversion E as [[Eh Et]].
    rewrite (IH (tl sk) r1 r2 Hr1 Hr2 Et).
    destruct (hd false sk); [reflexivity|]. now rewrite (Ht' x1 x2 Hx1 Hx2 Eh).
Qed.

Lemma lr_prod k ts : Forall LR ts -> LR (TProd k ts).
Proof.
  intros IH v1 v2 H1 H2 E.
  destruct v1 as [|l1|]; cbn [has_ty] in H1; try discriminate.
  destruct v2 as [|l2|]; cbn [has_ty] in H2; try discriminate.
  cbn [logical] in E. inversion E as [El]. rewrite prod_skips_spec in El.
  cbn [refusable]. exact (lr_fields ts IH _ l1 l2 H1 H2 El).
Qed.

Lemma lr_sum k vs : Forall LR vs -> LR (TSum k vs).
Proof.
  intros IH v1 v2 H1 H2 E.
  destruct v1 as [| |i1 x1]; cbn [has_ty] in H1; try discriminate.
  destruct v2 as [| |i2 x2]; cbn [has_ty] in H2; try discriminate.
  cbn [logical] in E. inversion E as [[Ei Ex]]. subst i2.
  apply nth_or_true in H1. destruct H1 as (t' & Et' & Hx1).
  apply nth_or_true in H2. destruct H2 as (t2 & Et2 & Hx2).
  rewrite Et' in Et2. inversion Et2; subst t2.
  assert (E1 : forall R (f : ty -> R) d, nth_or f d vs (N.to_nat i1) = f t') by (intros; now apply nth_or_some).
  assert (E2 : forall R (f : ty -> R) d, at_variant f d vs (N.to_nat i1) = f t')
    by (intros; rewrite at_variant_nth_or; apply E1).
  rewrite !E1 in Ex. cbn [refusable]. rewrite !E2.
  exact (Forall_nth_error _ _ _ _ IH Et' x1 x2 Hx1 Hx2 Ex).
Qed.

Theorem lr_all t : LR t.
Proof.
  induction t as [p|u|k|k|k t' IH|n t' IH|k ts IH|k vs IH|w t' IH] using ty_ind'.
  - intros v1 v2 _ _ E. cbn [logical] in E. now subst.
  - intros v1 v2 _ _ _. reflexivity.
  - intros v1 v2 _ _ _. reflexivity.
  - intros v1 v2 _ _ E. cbn [logical] in E. now subst.
  - now apply lr_seq.
  - now apply lr_array.
  - now apply lr_prod.
  - now apply lr_sum.
  - intros v1 v2 H1 H2 E. cbn [has_ty logical refusable] in *. now apply IH.
Qed.

Lemma canonical_refusal t v1 v2 :
  has_ty t v1 = true -> has_ty t v2 = true -> logical t v1 = logical t v2 ->
  refusable t v1 = refusable t v2.
Proof. apply lr_all. Qed.

(** equal values: both encoded, to the same bytes, or both refused *)
Lemma canonical_total t v1 v2 :
  wf t = true -> has_ty t v1 = true -> has_ty t v2 = true -> logical t v1 = logical t v2 ->
  (exists bs, enc t v1 = Ok bs /\ enc t v2 = Ok bs) \/
  (exists m1 m2, enc t v1 = Err InvalidData m1 /\ enc t v2 = Err InvalidData m2).
Proof.
  intros Hwf H1 H2 E. pose proof (canonical_refusal t v1 v2 H1 H2 E) as R.
  destruct (enc_total t v1 Hwf H1) as [[R1 (b1 & E1)]|[R1 (m1 & E1)]];
    destruct (enc_total t v2 Hwf H2) as [[R2 (b2 & E2)]|[R2 (m2 & E2)]]; try congruence.
  - left. exists b1. split; [exact E1|]. now rewrite (canonical_bytes t v1 v2 b1 b2 Hwf H1 H2 E E1 E2).
  - right. eauto.
Qed.
