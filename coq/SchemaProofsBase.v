(** Basic facts shared by the schema proofs: the outcome monad, the stack test,
    lookups, reachability, fuel bookkeeping. *)
From Coq Require Import String List NArith ZArith Bool Lia ZifyBool Arith.
From Borsh Require Import Schema SchemaFns SchemaSpec.
Import ListNotations.
Local Open Scope N_scope.

(** * Outcome monad *)
Lemma sbind_ok {E A B} (r : sres E A) (f : A -> sres E B) b :
  sbind r f = SOk b -> exists a, r = SOk a /\ f a = SOk b.
Proof. destruct r; cbn; intros H; try discriminate; eauto. Qed.

Lemma sbind_err {E A B} (r : sres E A) (f : A -> sres E B) e :
  sbind r f = SErr e -> r = SErr e \/ exists a, r = SOk a /\ f a = SErr e.
Proof. destruct r; cbn; intros H; try discriminate; eauto. left; congruence. Qed.

Definition is_value {E A} (r : sres E A) : Prop :=
  match r with SOk _ | SErr _ => True | SFuel | SPanic => False end.

Lemma is_value_cases {E A} (r : sres E A) :
  is_value r -> (exists a, r = SOk a) \/ (exists e, r = SErr e).
Proof. destruct r; cbn; intros H; try contradiction; eauto. Qed.

Lemma sbind_value {E A B} (r : sres E A) (f : A -> sres E B) :
  is_value r -> (forall a, r = SOk a -> is_value (f a)) -> is_value (sbind r f).
Proof. destruct r; cbn; intros H1 H2; try contradiction; auto. Qed.

(** * The stack test *)
Lemma on_stack_true d st : on_stack d st = true <-> In d st.
Proof.
  unfold on_stack. rewrite existsb_exists. split.
  - intros (x & Hin & Heq). apply String.eqb_eq in Heq. subst. exact Hin.
  - intros Hin. exists d. split; [exact Hin | apply String.eqb_refl].
Qed.

Lemma on_stack_false d st : on_stack d st = false <-> ~ In d st.
Proof.
  rewrite <- on_stack_true. destruct (on_stack d st); split; intros H; congruence.
Qed.

(** * Lookups *)
Lemma lookup_in l d def : lookup l d = Some def -> In (d, def) l.
Proof.
  induction l as [|[k v] l IH]; cbn; intros H; [discriminate|].
  destruct (String.eqb k d) eqn:Hk.
  - apply String.eqb_eq in Hk. inversion H; subst. left; reflexivity.
  - right. apply IH, H.
Qed.

Lemma defined_in_keys c d def : get_definition c d = Some def -> In d (map fst (defs c)).
Proof.
  intros H. apply lookup_in in H. apply in_map_iff. exists (d, def). split; [reflexivity | exact H].
Qed.

Lemma ranges_fit_b_sound ub c : ranges_fit_b ub c = true -> ranges_fit ub c.
Proof.
  unfold ranges_fit_b, ranges_fit. intros H d lw lo hi el Hd.
  apply lookup_in in Hd. rewrite forallb_forall in H. specialize (H _ Hd). cbn in H. lia.
Qed.

(** The invariant under which fuel suffices: the stack lists pairwise distinct defined names. *)
Definition stack_ok (c : container) (st : list string) : Prop :=
  NoDup st /\ forall s, In s st -> exists def, get_definition c s = Some def.

Lemma stack_ok_nil c : stack_ok c [].
Proof. split; [constructor | intros s []]. Qed.

Lemma stack_ok_push c st d def :
  stack_ok c st -> ~ In d st -> get_definition c d = Some def -> stack_ok c (d :: st).
Proof.
  intros [Hnd Hdef] Hni Hd. split.
  - constructor; assumption.
  - intros s [<-|Hs]; eauto.
Qed.

Lemma stack_ok_length c st : stack_ok c st -> (length st <= length (defs c))%nat.
Proof.
  intros [Hnd Hdef]. rewrite <- (map_length fst (defs c)).
  apply NoDup_incl_length; [exact Hnd|].
  intros s Hs. destruct (Hdef s Hs) as [def Hd]. eapply defined_in_keys, Hd.
Qed.

(** A stack holding a fresh defined name on top of an ok stack leaves room for it. *)
Lemma stack_ok_room c st d def :
  stack_ok c st -> ~ In d st -> get_definition c d = Some def -> (length st < length (defs c))%nat.
Proof.
  intros Hok Hni Hd. pose proof (stack_ok_length c (d :: st) (stack_ok_push _ _ _ _ Hok Hni Hd)) as H.
  cbn in H. lia.
Qed.

(** * Reachability *)
Lemma Reach_trans c a b d : Reach c a b -> Reach c b d -> Reach c a d.
Proof. induction 1; intros H2; [exact H2|]. econstructor; eauto. Qed.

Lemma Reach_edge c a b : Edge c a b -> Reach c a b.
Proof. intros H. econstructor; [exact H | constructor]. Qed.

Lemma Reach_snoc c a b d : Reach c a b -> Edge c b d -> Reach c a d.
Proof. intros H1 H2. eapply Reach_trans; [exact H1 | apply Reach_edge, H2]. Qed.

Lemma edge_intro c d def m : get_definition c d = Some def -> In m (members def) -> Edge c d m.
Proof. intros H1 H2. exists def. split; assumption. Qed.

(** * Small list facts *)
Lemma sumN_cons x l : sumN (x :: l) = x + sumN l.
Proof. reflexivity. Qed.

Lemma sumN_app a b : sumN (a ++ b) = sumN a + sumN b.
Proof.
  induction a as [|x a IH]; [reflexivity|].
  rewrite <- app_comm_cons, !sumN_cons, IH. lia.
Qed.

Lemma sumN_repeat x k : sumN (repeat x k) = N.of_nat k * x.
Proof.
  induction k as [|k IH]; [reflexivity|]. cbn [repeat]. rewrite sumN_cons, IH. lia.
Qed.

Lemma sumN_bound ns m : Forall (fun n => n <= m) ns -> sumN ns <= N.of_nat (length ns) * m.
Proof.
  induction 1 as [|x l Hx _ IH]; [cbn; lia|].
  rewrite sumN_cons. cbn [length]. lia.
Qed.

Lemma sumN_zero ns : Forall (fun n => n = 0) ns -> sumN ns = 0.
Proof. induction 1 as [|x l Hx _ IH]; [reflexivity|]. rewrite sumN_cons. lia. Qed.
