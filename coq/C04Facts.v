(** C04: what the decoder accepts.  (1) every accepted input yields a well-typed value in
    logical form; (2) under strict key ordering the accepted bytes are exactly the encoding
    of the returned value (so encodings and values correspond one to one). *)
From Coq Require Import String.
From Coq Require Import List NArith Bool Lia Permutation.
From Coq.Strings Require Import Byte.
From Borsh Require Import Bytes BytesFacts Result Loop LoopFacts Ty TyInd Ser De Entry CodecFacts RoundTrip
     OrderFacts SortFacts RoundTripKeyed ParseFacts DecCorollaries.
Import ListNotations.
Local Open Scope N_scope.

(** two facts about the same parser can be combined *)
Lemma PS_conj {A} (V W : A -> bytes -> Prop) (p : parser A) :
  PS V p -> PS W p -> PS (fun a pre => V a pre /\ W a pre) p.
Proof.
  intros HV HW bs. specialize (HV bs). specialize (HW bs).
  destruct (p bs) as [[a r]|k m|w]; auto.
  destruct HV as (pre1 & E1 & Hv & Hext & Htr). destruct HW as (pre2 & E2 & Hw & _ & _).
  assert (pre1 = pre2) by (apply (app_inv_tail r); congruence). subst pre2.
  exists pre1. repeat split; auto.
Qed.

(** * chunks *)
Lemma chunks_Forall {A} (V : A -> bytes -> Prop) (Q : A -> Prop) l pre :
  (forall a p, V a p -> Q a) -> chunks V l pre -> Forall Q l.
Proof.
  intros H Hc. induction Hc as [|l a p1 p2 Hc IH Hv]; [constructor|].
  apply Forall_app. split; [exact IH|]. constructor; [eapply H; eauto|constructor].
Qed.

Lemma chunks_len_nil {A} (V : A -> bytes -> Prop) pre : chunks V [] pre -> pre = [].
Proof.
  intros H. inversion H as [|l a p1 p2 Hc Hv E1 E2]; [reflexivity|].
  destruct l; discriminate.
Qed.

(** the bytes of a chunked list are the concatenation of the elements' traces *)
Lemma chunks_each_out (g : val -> out) l pre :
  chunks (fun x p => snd (g x) = None /\ sbytes (g x) = p) l pre ->
  snd (each_out g l) = None /\ sbytes (each_out g l) = pre.
Proof.
  intros Hc. induction Hc as [|l a p1 p2 Hc [IHok IHb] [Hok Hb]].
  - split; reflexivity.
  - split.
    + apply each_out_ok. intros x Hx. apply in_app_or in Hx. destruct Hx as [Hx|[<-|[]]]; [|exact Hok].
      now apply (proj1 (each_out_ok g l) IHok).
    + clear Hc. revert p2 IHb IHok. induction l as [|y r IHl]; intros p2 IHb IHok.
      * cbn [app each_out]. rewrite andthen_bytes by exact Hok. cbn in IHb. subst p2.
        rewrite Hb. cbn. now rewrite app_nil_r.
      * cbn [app]. cbn [each_out] in IHok. apply andthen_ok in IHok. destruct IHok as [Hy Hr].
        rewrite each_out_cons_bytes in IHb by exact Hy. rewrite each_out_cons_bytes by exact Hy.
        rewrite (IHl (sbytes (each_out g r)) eq_refl Hr). rewrite <- IHb. now rewrite app_assoc.
Qed.

(** * defaults of skipped fields must be values of their type (decidable, checked per type) *)
Fixpoint dflt_ok (t : ty) : bool :=
  match t with
  | TPrim _ | TUnit _ | TRaw _ | TText _ => true
  | TSeq _ t' | TArray _ t' | TWrap _ t' => dflt_ok t'
  | TProd k ts =>
      forallb (fun x => dflt_ok x) ts &&
      all2 (fun (t' : ty) (s : bool) => if s then has_ty t' (default_of t') else true)
           ts (prod_skips k (length ts))
  | TSum _ vs => forallb (fun x => dflt_ok x) vs
  end.

(** no IndexSet / IndexMap anywhere: those accept repeated entries in every mode (finding F8) *)
Fixpoint no_index (t : ty) : bool :=
  match t with
  | TPrim _ | TUnit _ | TRaw _ | TText _ => true
  | TSeq k t' => negb (is_index k) && no_index t'
  | TArray _ t' | TWrap _ t' => no_index t'
  | TProd _ ts => forallb (fun x => no_index x) ts
  | TSum _ vs => forallb (fun x => no_index x) vs
  end.

(** What an accepted input tells about the value: typed, in logical form. *)
Definition Typed (t : ty) (v : val) (_ : bytes) : Prop := has_ty t v = true /\ logical t v = v.
(** ... and, under strict ordering, re-encoding gives back exactly the consumed bytes. *)
Definition Reenc (t : ty) (v : val) (pre : bytes) : Prop := snd (ser t v) = None /\ sbytes (ser t v) = pre.

Lemma PS_typed_weaken t p : PS (Typed t) p -> PS (fun v _ => has_ty t v = true) p.
Proof. apply PS_weaken. intros a pre [H _]. exact H. Qed.

(** * Small typing facts *)
Lemma typed_bytes b : exists ns, vals_ns (of_bytes b) = Some ns /\ all_byte ns = true /\ len ns = len b.
Proof.
  exists (map b2n b). rewrite vals_ns_of_bytes. repeat split; [apply map_b2n_lt|].
  rewrite !len_eq, map_length. reflexivity.
Qed.

Lemma forallb_u8_of_bytes b : forallb (has_ty (TPrim (PInt false W1))) (of_bytes b) = true.
Proof.
  unfold of_bytes. induction b as [|x r IH]; cbn [map forallb]; [reflexivity|]. rewrite IH, andb_true_r.
  cbn [has_ty]. unfold prim_val_ok. cbn. rewrite andb_true_r. apply N.ltb_lt. apply b2n_lt.
Qed.

Lemma map_fixed {A} (f : A -> A) l : (forall x, In x l -> f x = x) -> map f l = l.
Proof. intros H. rewrite <- (map_id l) at 2. apply map_ext_in. exact H. Qed.

Lemma forallb_of_Forall {A} (f : A -> bool) l : Forall (fun x => f x = true) l -> forallb f l = true.
Proof. intros H. apply forallb_forall. now apply Forall_forall. Qed.

Lemma vals_ns_of_VN l : Forall (fun x => exists n, x = VN n /\ n < 256) l ->
  exists ns, vals_ns l = Some ns /\ all_byte ns = true.
Proof.
  induction 1 as [|x r (n & -> & Hn) Hr (ns & E & B)].
  - exists []. split; reflexivity.
  - exists (n :: ns). cbn [vals_ns]. rewrite E. split; [reflexivity|].
    unfold all_byte in *. cbn [forallb]. rewrite B, andb_true_r. now apply N.ltb_lt.
Qed.

(** * [post]: the collected value is typed and in logical form *)
Lemma post_typed c k t' l :
  wf (TSeq k t') = true ->
  forallb (has_ty t') l = true -> (forall x, In x l -> logical t' x = x) ->
  match post c k (key_ty k t') l with
  | Ok v => has_ty (TSeq k t') v = true /\ logical (TSeq k t') v = v
  | Err e _ => e = InvalidData
  | Panic _ => False
  end.
Proof.
  intros Hwf Hty Hlog. unfold post.
  set (cmp := cmp_val (key_ty k t')). set (key := key_val k).
  destruct (is_ordered k && strict c && negb (strictly_ascending cmp key l)); [reflexivity|].
  destruct (is_keyed k) eqn:Hk.
  - (* keyed kinds *)
    pose (P := fun x => has_ty (key_ty k t') (key x) = true).
    assert (HP : Forall P l) by (apply (Forall_P k t' Hwf); exact Hty).
    assert (Hcs : strictly_ascending cmp key (collect_sorted cmp key l) = true).
    { apply (collect_sorted_sorted cmp key P); [apply (c_anti k t')|apply (c_eq k t' Hk Hwf)|apply (c_lt k t' Hk Hwf)|exact HP]. }
    assert (Hcs_in : forall x, In x (collect_sorted cmp key l) -> In x l) by (intros x; apply collect_sorted_incl).
    assert (Hci_in : forall x, In x (collect_index cmp key l) -> In x l) by (intros x; apply collect_index_incl).
    assert (Hcs_ty : forallb (has_ty t') (collect_sorted cmp key l) = true).
    { apply forallb_forall. intros x Hx. exact (forallb_In _ _ _ Hty (Hcs_in x Hx)). }
    assert (Hci_ty : forallb (has_ty t') (collect_index cmp key l) = true).
    { apply forallb_forall. intros x Hx. exact (forallb_In _ _ _ Hty (Hci_in x Hx)). }
    assert (HPcs : Forall P (collect_sorted cmp key l)).
    { apply Forall_forall. intros x Hx. rewrite Forall_forall in HP. apply HP. auto. }
    assert (Hcs_nd : no_dup_keys cmp key (collect_sorted cmp key l) = true).
    { apply (strictly_ascending_no_dup cmp key P); [apply (c_lt k t' Hk Hwf)|exact HPcs|exact Hcs]. }
    assert (Hci_nd : no_dup_keys cmp key (collect_index cmp key l) = true).
    { apply (collect_index_nodup cmp key P); [apply (c_anti k t')|apply (c_eq k t' Hk Hwf)|exact HP]. }
    assert (Hcs_log : map (logical t') (collect_sorted cmp key l) = collect_sorted cmp key l)
      by (apply map_fixed; intros x Hx; apply Hlog; auto).
    assert (Hci_log : map (logical t') (collect_index cmp key l) = collect_index cmp key l)
      by (apply map_fixed; intros x Hx; apply Hlog; auto).
    assert (Hsort_id : sort_by cmp key (collect_sorted cmp key l) = collect_sorted cmp key l)
      by (apply (sort_by_sorted_id cmp key P); assumption).
    destruct k; cbn in Hk; try discriminate Hk; cbn [has_ty logical]; fold cmp key;
      rewrite ?Hcs_ty, ?Hci_ty, ?Hcs, ?Hcs_nd, ?Hci_nd, ?Hcs_log, ?Hci_log, ?Hsort_id; split; reflexivity.
  - destruct k; cbn in Hk; try discriminate Hk; cbn [has_ty logical].
    + rewrite Hty, (map_fixed _ l Hlog). split; reflexivity.
    + rewrite Hty. cbn [forallb andb]. rewrite app_nil_r, (map_fixed _ l Hlog). split; reflexivity.
    + rewrite Hty, (map_fixed _ l Hlog). split; reflexivity.
    + rewrite Hty, (map_fixed _ l Hlog). split; reflexivity.
Qed.

(** * Fields *)
Lemma PS_dec_fields_typed c ts :
  Forall (fun t => PS (Typed t) (dec slice_reader c t)) ts ->
  forall sk, length sk = length ts ->
    all2 (fun (t' : ty) (s : bool) => if s then has_ty t' (default_of t') else true) ts sk = true ->
    PS (fun l _ => all2 (fun t' x => has_ty t' x) ts l = true /\
                   map_fields (fun t' x => logical t' x) default_of ts sk l = l)
       (dec_fields (fun t' s => dec slice_reader c t' s) ts sk).
Proof.
  induction 1 as [|t' tr Ht' Htr IH]; intros sk Hsk Hd; cbn [dec_fields].
  - apply PS_ret. destruct sk; split; reflexivity.
  - destruct sk as [|sb sr]; [discriminate|]. cbn [length] in Hsk. cbn [all2] in Hd.
    apply andb_true_iff in Hd. destruct Hd as [Hd0 Hdr].
    eapply (PS_bind (fun v _ => has_ty t' v = true /\ (if sb then v = default_of t' else logical t' v = v))).
    + destruct sb.
      * apply PS_ret. auto.
      * eapply PS_weaken; [|exact Ht']. intros a pre [H1 H2]. auto.
    + intros v pre1 [Hv Hlv].
      eapply PS_ext with (p := fun s => '(r, s2) <- dec_fields (fun t' s => dec slice_reader c t' s) tr sr s ;; l <- Ok (v :: r) ;; Ok (l, s2)).
      { intros bs. destruct (dec_fields _ tr sr bs) as [[r s2]|k m|w]; reflexivity. }
      eapply PS_post; [apply (IH sr); [lia|exact Hdr]|].
      intros r pre [Hr Hlr]. cbn [all2 map_fields]. rewrite Hv, Hr. split; [reflexivity|].
      rewrite Hlr. destruct sb; [now rewrite Hlv|now rewrite Hlv].
Qed.

(** the variant payload at a valid index *)
Lemma PS_nth_or {A} (V : ty -> A -> bytes -> Prop) (f : ty -> parser A) m vs :
  Forall (fun t => PS (V t) (f t)) vs ->
  forall n, PS (fun a pre => exists t', nth_error vs n = Some t' /\ V t' a pre)
               (nth_or f (fun _ => Err InvalidData m) vs n).
Proof.
  induction 1 as [|x r Hx Hr IH]; intros [|n]; cbn [nth_or]; try apply PS_fail.
  - eapply PS_weaken; [|exact Hx]. intros a pre H. exists x. split; [reflexivity|exact H].
  - eapply PS_weaken; [|apply IH]. intros a pre (t' & E & H). exists t'. split; [exact E|exact H].
Qed.

Lemma nth_or_parser {A} (f : ty -> parser A) (d : result (A * bytes)) vs n bs :
  nth_or (fun t' => f t' bs) d vs n = nth_or f (fun _ => d) vs n bs.
Proof. revert n; induction vs as [|x r IH]; intros [|n]; cbn; auto. Qed.

(** * Every accepted input yields a well-typed value in logical form *)
Theorem dec_typed c t : wf t = true -> dflt_ok t = true -> PS (Typed t) (dec slice_reader c t).
Proof.
  induction t as [p|u|k|k|k t' IH|n t' IH|k ts IH|k vs IH|w t' IH] using ty_ind'; intros Hwf Hd.
  - (* prim *)
    cbn [dec].
    eapply PS_ext with (p := fun s => '(b, s') <- read_mapped slice_reader (N.of_nat (prim_width p)) s ;;
                                      v <- (match prim_de_check p (unle b) with Some m => Err InvalidData m | None => Ok (VN (unle b)) end) ;; Ok (v, s')).
    { intros bs. destruct (read_mapped slice_reader _ bs) as [[b r]|k m|w]; cbn [bind]; [|reflexivity|reflexivity].
      destruct (prim_de_check p (unle b)); reflexivity. }
    eapply PS_post; [apply PS_read|]. intros b pre [-> L].
    destruct (prim_de_check p (unle pre)) eqn:Ec; [reflexivity|]. split; [|reflexivity].
    cbn [has_ty]. unfold prim_val_ok. apply andb_true_iff. split.
    + apply N.ltb_lt. pose proof (unle_bound pre) as Hb. rewrite len_eq in L.
      replace (N.of_nat (length pre)) with (N.of_nat (prim_width p)) in Hb by lia. exact Hb.
    + rewrite Ec. destruct p; reflexivity.
  - cbn [dec]. apply PS_ret. split; reflexivity.
  - (* raw *)
    cbn [dec].
    eapply PS_ext with (p := fun s => '(b, s') <- read_mapped slice_reader (raw_len k) s ;; v <- Ok (VL (of_bytes b)) ;; Ok (v, s')).
    { intros bs. destruct (read_mapped slice_reader _ bs) as [[b r]|? ?|?]; reflexivity. }
    eapply PS_post; [apply PS_read|]. intros b pre [-> L]. cbn. split; [|reflexivity].
    destruct (typed_bytes pre) as (ns & E & B & Ln). cbn [has_ty]. rewrite E, B, Ln, L, N.eqb_refl. reflexivity.
  - (* text *)
    assert (Hvec : PS (Typed (TText k)) (fun s => '(l, s') <- dec_vec slice_reader true (fun _ => Panic P_ILLTYPED) s ;; v <- text_post k l ;; Ok (v, s'))).
    { eapply PS_post.
      - eapply PS_ext; [|apply (PS_dec_vec true (fun _ => Err InvalidData MSimple) (fun _ _ => True)); apply PS_fail].
        intros bs. unfold dec_vec. destruct (read_u32 slice_reader bs) as [[n s1]|? ?|?]; cbn [bind]; [|reflexivity|reflexivity].
        destruct (n =? 0); reflexivity.
      - intros l pre (body & _ & _ & ->). unfold text_post.
        destruct (typed_bytes body) as (ns & E & B & _). rewrite E.
        destruct (text_check k ns) eqn:Et; [reflexivity|]. split; [|reflexivity].
        cbn [has_ty]. now rewrite E, B, Et. }
    destruct k; cbn [dec]; try exact Hvec.
    eapply (PS_bind _ _ (read_u32 slice_reader)); [apply PS_read_u32|].
    intros n pre1 _.
    eapply PS_ext with (p := fun s => '(l, s2) <- repeat_dec (fun s => '(b, s') <- read_u8 slice_reader s ;; Ok (VN b, s')) n s ;; v <- Ok (VL l) ;; Ok (v, s2)).
    { intros bs. destruct (repeat_dec _ n bs) as [[l s2]|? ?|?]; reflexivity. }
    eapply PS_post.
    + apply PS_repeat_dec with (V := fun x _ => exists b, x = VN b /\ b < 256).
      eapply PS_ext with (p := fun s => '(b, s') <- read_u8 slice_reader s ;; v <- Ok (VN b) ;; Ok (v, s')).
      { intros bs. destruct (read_u8 slice_reader bs) as [[b r]|? ?|?]; reflexivity. }
      eapply PS_post; [apply PS_read_u8|]. intros b pre [_ Hb]. cbn. eauto.
    + intros l pre [Hc _]. cbn. split; [|reflexivity].
      assert (HF : Forall (fun x => exists n, x = VN n /\ n < 256) l).
      { eapply chunks_Forall; [|exact Hc]. intros a p H. exact H. }
      destruct (vals_ns_of_VN l HF) as (ns & E & B). cbn [has_ty text_check]. now rewrite E, B.
  - (* seq *)
    assert (Hw' : wf t' = true).
    { cbn [wf] in Hwf. repeat (apply andb_true_iff in Hwf; destruct Hwf as [Hwf ?]). exact Hwf. }
    cbn [dflt_ok] in Hd. cbn [dec]. destruct (mem_zst (key_ty k t')); [apply PS_fail|].
    eapply PS_post; [apply (PS_dec_vec (is_u8 t') _ (Typed t') (IH Hw' Hd))|].
    intros l pre (body & _ & _ & Hl).
    assert (Hel : forallb (has_ty t') l = true /\ (forall x, In x l -> logical t' x = x)).
    { destruct (is_u8 t') eqn:Eu.
      - assert (t' = TPrim (PInt false W1)).
        { destruct t' as [[[] []| | | | | |]| | | | | | | |]; cbn in Eu; try discriminate; reflexivity. }
        subst t' l. split; [apply forallb_u8_of_bytes|reflexivity].
      - assert (HF : Forall (fun x => has_ty t' x = true /\ logical t' x = x) l).
        { eapply chunks_Forall; [|exact Hl]. intros a p H. exact H. }
        rewrite Forall_forall in HF. split.
        + apply forallb_forall. intros x Hx. apply HF. exact Hx.
        + intros x Hx. apply HF. exact Hx. }
    destruct Hel as [Hel Hlog].
    pose proof (post_typed c k t' l Hwf Hel Hlog) as Hp.
    destruct (post c k (key_ty k t') l); auto.
  - (* array *)
    cbn [wf dflt_ok] in *. cbn [dec]. destruct (is_u8 t') eqn:Eu.
    + eapply PS_ext with (p := fun s => '(b, s') <- read_mapped slice_reader n s ;; v <- Ok (VL (of_bytes b)) ;; Ok (v, s')).
      { intros bs. destruct (read_mapped slice_reader _ bs) as [[b r]|? ?|?]; reflexivity. }
      eapply PS_post; [apply PS_read|]. intros b pre [-> L]. cbn beta iota.
      assert (t' = TPrim (PInt false W1)).
      { destruct t' as [[[] []| | | | | |]| | | | | | | |]; cbn in Eu; try discriminate; reflexivity. }
      subst t'. unfold Typed. cbn [has_ty logical]. rewrite len_of_bytes, L, N.eqb_refl, forallb_u8_of_bytes.
      split; [reflexivity|]. now rewrite logical_u8_list.
    + eapply PS_ext with (p := fun s => '(l, s') <- repeat_dec (dec slice_reader c t') n s ;; v <- Ok (VL l) ;; Ok (v, s')).
      { intros bs. destruct (repeat_dec _ n bs) as [[l r]|? ?|?]; reflexivity. }
      eapply PS_post; [apply (PS_repeat_dec _ (Typed t') n (IH Hwf Hd))|].
      intros l pre [Hc Hn]. cbn beta iota. unfold Typed.
      assert (HF : Forall (fun x => has_ty t' x = true /\ logical t' x = x) l).
      { eapply chunks_Forall; [|exact Hc]. intros a p H. exact H. }
      rewrite Forall_forall in HF. cbn [has_ty logical]. rewrite Hn, N.eqb_refl. split.
      * apply forallb_forall. intros x Hx. apply HF. exact Hx.
      * f_equal. apply map_fixed. intros x Hx. apply HF. exact Hx.
  - (* prod *)
    cbn [wf] in Hwf. apply andb_true_iff in Hwf. destruct Hwf as [_ Hwts].
    cbn [dflt_ok] in Hd. apply andb_true_iff in Hd. destruct Hd as [Hdts Hdsk].
    cbn [dec].
    eapply PS_ext with (p := fun s => '(l, s') <- dec_fields (fun t' s => dec slice_reader c t' s) ts (prod_skips k (length ts)) s ;; v <- Ok (VL l) ;; Ok (v, s')).
    { intros bs. destruct (dec_fields _ ts _ bs) as [[l r]|? ?|?]; reflexivity. }
    eapply PS_post.
    + apply PS_dec_fields_typed; [|apply prod_skips_length|exact Hdsk].
      rewrite Forall_forall in *. intros t0 Ht0. apply IH; [exact Ht0|exact (forallb_In _ _ _ Hwts Ht0)|exact (forallb_In _ _ _ Hdts Ht0)].
    + intros l pre [H1 H2]. cbn beta iota. unfold Typed. cbn [has_ty logical]. rewrite H1, H2. split; reflexivity.
  - (* sum *)
    cbn [wf] in Hwf. repeat (apply andb_true_iff in Hwf; destruct Hwf as [Hwf ?]). rename H into Hwvs.
    cbn [dflt_ok] in Hd. cbn [dec].
    eapply (PS_bind _ _ (read_u8 slice_reader)); [apply PS_read_u8|].
    intros b pre1 _. destruct (find_tag (sum_tags k) b 0) as [i|]; [|apply PS_fail].
    eapply PS_ext with (p := fun s => '(v, s2) <- nth_or (fun t' => dec slice_reader c t') (fun _ => Err InvalidData (bad_tag k b)) vs (N.to_nat i) s ;; v' <- Ok (VV i v) ;; Ok (v', s2)).
    { intros bs.
      assert (E : nth_or (fun t' => dec slice_reader c t' bs) (Err InvalidData (bad_tag k b)) vs (N.to_nat i) =
                  nth_or (fun t' => dec slice_reader c t') (fun _ => Err InvalidData (bad_tag k b)) vs (N.to_nat i) bs)
        by apply nth_or_parser.
      rewrite E. destruct (nth_or _ _ vs (N.to_nat i) bs) as [[v r]|? ?|?]; reflexivity. }
    eapply PS_post.
    + apply (PS_nth_or Typed (fun t' => dec slice_reader c t')).
      rewrite Forall_forall in *. intros t0 Ht0. apply IH; [exact Ht0|exact (forallb_In _ _ _ Hwvs Ht0)|exact (forallb_In _ _ _ Hd Ht0)].
    + intros v pre (t0 & E & Hv & Hl). cbn beta iota. unfold Typed. cbn [has_ty logical].
      rewrite (nth_or_some _ _ _ _ _ E), (nth_or_some (fun t1 => logical t1 v) v vs _ _ E), Hv, Hl. split; reflexivity.
  - cbn [wf dflt_ok dec] in *. eapply PS_weaken; [|apply IH; assumption].
    intros a pre [H1 H2]. split; [exact H1|exact H2].
Qed.
