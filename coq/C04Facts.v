(** C04: what the decoder accepts.  (1) every accepted input yields a well-typed value in
    logical form; (2) under strict key ordering the accepted bytes are exactly the encoding
    of the returned value (so encodings and values correspond one to one). *)
From Coq Require Import String.
From Coq Require Import List NArith Bool Lia Permutation.
From Coq.Strings Require Import Byte.
From Borsh Require Import Bytes BytesFacts Result Loop LoopFacts Ty TyInd Ser De Entry CodecFacts RoundTrip
     OrderFacts SortFacts RoundTripKeyed ParseFacts DecCorollaries.
Import ListNotations.
Local Open Scope N_scope.

(** two facts about the same parser can be combined *)
Lemma PS_conj {A} (V W : A -> bytes -> Prop) (p : parser A) :
  PS V p -> PS W p -> PS (fun a pre => V a pre /\ W a pre) p.
Proof.
  intros HV HW bs. specialize (HV bs). specialize (HW bs).
  destruct (p bs) as [[a r]|k m|w]; auto.
  destruct HV as (pre1 & E1 & Hv & Hext & Htr). destruct HW as (pre2 & E2 & Hw & _ & _).
  assert (pre1 = pre2) by (apply (app_inv_tail r); congruence). subst pre2.
  exists pre1. repeat split; auto.
Qed.

(** * chunks *)
Lemma chunks_Forall {A} (V : A -> bytes -> Prop) (Q : A -> Prop) l pre :
  (forall a p, V a p -> Q a) -> chunks V l pre -> Forall Q l.
Proof.
  intros H Hc. induction Hc as [|l a p1 p2 Hc IH Hv]; [constructor|].
  apply Forall_app. split; [exact IH|]. constructor; [eapply H; eauto|constructor].
Qed.

Lemma chunks_len_nil {A} (V : A -> bytes -> Prop) pre : chunks V [] pre -> pre = [].
Proof.
  intros H. inversion H as [|l a p1 p2 Hc Hv E1 E2]; [reflexivity|].
  destruct l; discriminate.
Qed.

(** the bytes of a chunked list are the concatenation of the elements' traces *)
Lemma chunks_each_out (g : val -> out) l pre :
  chunks (fun x p => snd (g x) = None /\ sbytes (g x) = p) l pre ->
  snd (each_out g l) = None /\ sbytes (each_out g l) = pre.
Proof.
  intros Hc. induction Hc as [|l a p1 p2 Hc [IHok IHb] [Hok Hb]].
  - split; reflexivity.
  - split.
    + apply each_out_ok. intros x Hx. apply in_app_or in Hx. destruct Hx as [Hx|[<-|[]]]; [|exact Hok].
      now apply (proj1 (each_out_ok g l) IHok).
    + clear Hc. revert p2 IHb IHok. induction l as [|y r IHl]; intros p2 IHb IHok.
      * cbn [app each_out]. rewrite andthen_bytes by exact Hok. cbn in IHb. subst p2.
        rewrite Hb. cbn. now rewrite app_nil_r.
      * cbn [app]. cbn [each_out] in IHok. apply andthen_ok in IHok. destruct IHok as [Hy Hr].
        rewrite each_out_cons_bytes in IHb by exact Hy. rewrite each_out_cons_bytes by exact Hy.
        rewrite (IHl (sbytes (each_out g r)) eq_refl Hr). rewrite <- IHb. now rewrite app_assoc.
Qed.

(** * defaults of skipped fields must be values of their type (decidable, checked per type) *)
Fixpoint dflt_ok (t : ty) : bool :=
  match t with
  | TPrim _ | TUnit _ | TRaw _ | TText _ => true
  | TSeq _ t' | TArray _ t' | TWrap _ t' => dflt_ok t'
  | TProd k ts =>
      forallb (fun x => dflt_ok x) ts &&
      all2 (fun (t' : ty) (s : bool) => if s then has_ty t' (default_of t') else true)
           ts (prod_skips k (length ts))
  | TSum _ vs => forallb (fun x => dflt_ok x) vs
  end.

(** no IndexSet / IndexMap anywhere: those accept repeated entries in every mode (finding F8) *)
Fixpoint no_index (t : ty) : bool :=
  match t with
  | TPrim _ | TUnit _ | TRaw _ | TText _ => true
  | TSeq k t' => negb (is_index k) && no_index t'
  | TArray _ t' | TWrap _ t' => no_index t'
  | TProd _ ts => forallb (fun x => no_index x) ts
  | TSum _ vs => forallb (fun x => no_index x) vs
  end.

(** What an accepted input tells about the value: typed, in logical form. *)
Definition Typed (t : ty) (v : val) (_ : bytes) : Prop := has_ty t v = true /\ logical t v = v.
(** ... and, under strict ordering, re-encoding gives back exactly the consumed bytes. *)
Definition Reenc (t : ty) (v : val) (pre : bytes) : Prop := snd (ser t v) = None /\ sbytes (ser t v) = pre.

Lemma PS_typed_weaken t p : PS (Typed t) p -> PS (fun v _ => has_ty t v = true) p.
Proof. apply PS_weaken. intros a pre [H _]. exact H. Qed.

(** * Small typing facts *)
Lemma typed_bytes b : exists ns, vals_ns (of_bytes b) = Some ns /\ all_byte ns = true /\ len ns = len b.
Proof.
  exists (map b2n b). rewrite vals_ns_of_bytes. repeat split; [apply map_b2n_lt|].
  rewrite !len_eq, map_length. reflexivity.
Qed.

Lemma forallb_u8_of_bytes b : forallb (has_ty (TPrim (PInt false W1))) (of_bytes b) = true.
Proof.
  unfold of_bytes. induction b as [|x r IH]; cbn [map forallb]; [reflexivity|]. rewrite IH, andb_true_r.
  cbn [has_ty]. unfold prim_val_ok. cbn. rewrite andb_true_r. apply N.ltb_lt. apply b2n_lt.
Qed.

Lemma map_fixed {A} (f : A -> A) l : (forall x, In x l -> f x = x) -> map f l = l.
Proof. intros H. rewrite <- (map_id l) at 2. apply map_ext_in. exact H. Qed.

Lemma forallb_of_Forall {A} (f : A -> bool) l : Forall (fun x => f x = true) l -> forallb f l = true.
Proof. intros H. apply forallb_forall. now apply Forall_forall. Qed.

Lemma vals_ns_of_VN l : Forall (fun x => exists n, x = VN n /\ n < 256) l ->
  exists ns, vals_ns l = Some ns /\ all_byte ns = true.
Proof.
  induction 1 as [|x r (n & -> & Hn) Hr (ns & E & B)].
  - exists []. split; reflexivity.
  - exists (n :: ns). cbn [vals_ns]. rewrite E. split; [reflexivity|].
    unfold all_byte in *. cbn [forallb]. rewrite B, andb_true_r. now apply N.ltb_lt.
Qed.

(** * [post]: the collected value is typed and in logical form *)
Lemma post_typed c k t' l :
  wf (TSeq k t') = true ->
  forallb (has_ty t') l = true -> (forall x, In x l -> logical t' x = x) ->
  match post c k (key_ty k t') l with
  | Ok v => has_ty (TSeq k t') v = true /\ logical (TSeq k t') v = v
  | Err e _ => e = InvalidData
  | Panic _ => False
  end.
Proof.
  intros Hwf Hty Hlog. unfold post.
  set (cmp := cmp_val (key_ty k t')). set (key := key_val k).
  destruct (is_ordered k && strict c && negb (strictly_ascending cmp key l)); [reflexivity|].
  destruct (is_keyed k) eqn:Hk.
  - (* keyed kinds *)
    pose (P := fun x => has_ty (key_ty k t') (key x) = true).
    assert (HP : Forall P l) by (apply (Forall_P k t' Hwf); exact Hty).
    assert (Hcs : strictly_ascending cmp key (collect_sorted cmp key l) = true).
    { apply (collect_sorted_sorted cmp key P); [apply (c_anti k t')|apply (c_eq k t' Hk Hwf)|apply (c_lt k t' Hk Hwf)|exact HP]. }
    assert (Hcs_in : forall x, In x (collect_sorted cmp key l) -> In x l) by (intros x; apply collect_sorted_incl).
    assert (Hci_in : forall x, In x (collect_index cmp key l) -> In x l) by (intros x; apply collect_index_incl).
    assert (Hcs_ty : forallb (has_ty t') (collect_sorted cmp key l) = true).
    { apply forallb_forall. intros x Hx. exact (forallb_In _ _ _ Hty (Hcs_in x Hx)). }
    assert (Hci_ty : forallb (has_ty t') (collect_index cmp key l) = true).
    { apply forallb_forall. intros x Hx. exact (forallb_In _ _ _ Hty (Hci_in x Hx)). }
    assert (HPcs : Forall P (collect_sorted cmp key l)).
    { apply Forall_forall. intros x Hx. rewrite Forall_forall in HP. apply HP. auto. }
    assert (Hcs_nd : no_dup_keys cmp key (collect_sorted cmp key l) = true).
    { apply (strictly_ascending_no_dup cmp key P); [apply (c_lt k t' Hk Hwf)|exact HPcs|exact Hcs]. }
    assert (Hci_nd : no_dup_keys cmp key (collect_index cmp key l) = true).
    { apply (collect_index_nodup cmp key P); [apply (c_anti k t')|apply (c_eq k t' Hk Hwf)|exact HP]. }
    assert (Hcs_log : map (logical t') (collect_sorted cmp key l) = collect_sorted cmp key l)
      by (apply map_fixed; intros x Hx; apply Hlog; auto).
    assert (Hci_log : map (logical t') (collect_index cmp key l) = collect_index cmp key l)
      by (apply map_fixed; intros x Hx; apply Hlog; auto).
    assert (Hsort_id : sort_by cmp key (collect_sorted cmp key l) = collect_sorted cmp key l)
      by (apply (sort_by_sorted_id cmp key P); assumption).
    destruct k; cbn in Hk; try discriminate Hk; cbn [has_ty logical]; fold cmp key;
      rewrite ?Hcs_ty, ?Hci_ty, ?Hcs, ?Hcs_nd, ?Hci_nd, ?Hcs_log, ?Hci_log, ?Hsort_id; split; reflexivity.
  - destruct k; cbn in Hk; try discriminate Hk; cbn [has_ty logical].
    + rewrite Hty, (map_fixed _ l Hlog). split; reflexivity.
    + rewrite Hty. cbn [forallb andb]. rewrite app_nil_r, (map_fixed _ l Hlog). split; reflexivity.
    + rewrite Hty, (map_fixed _ l Hlog). split; reflexivity.
    + rewrite Hty, (map_fixed _ l Hlog). split; reflexivity.
Qed.

(** * Fields *)
Lemma PS_dec_fields_typed c ts :
  Forall (fun t => PS (Typed t) (dec slice_reader c t)) ts ->
  forall sk, length sk = length ts ->
    all2 (fun (t' : ty) (s : bool) => if s then has_ty t' (default_of t') else true) ts sk = true ->
    PS (fun l _ => all2 (fun t' x => has_ty t' x) ts l = true /\
                   map_fields (fun t' x => logical t' x) default_of ts sk l = l)
       (dec_fields (fun t' s => dec slice_reader c t' s) ts sk).
Proof.
  induction 1 as [|t' tr Ht' Htr IH]; intros sk Hsk Hd; cbn [dec_fields].
  - apply PS_ret. destruct sk; split; reflexivity.
  - destruct sk as [|sb sr]; [discriminate|]. cbn [length] in Hsk. cbn [all2] in Hd.
    apply andb_true_iff in Hd. destruct Hd as [Hd0 Hdr].
    eapply (PS_bind (fun v _ => has_ty t' v = true /\ (if sb then v = default_of t' else logical t' v = v))).
    + destruct sb.
      * apply PS_ret. auto.
      * eapply PS_weaken; [|exact Ht']. intros a pre [H1 H2]. auto.
    + intros v pre1 [Hv Hlv].
      eapply PS_ext with (p := fun s => '(r, s2) <- dec_fields (fun t' s => dec slice_reader c t' s) tr sr s ;; l <- Ok (v :: r) ;; Ok (l, s2)).
      { intros bs. destruct (dec_fields _ tr sr bs) as [[r s2]|k m|w]; reflexivity. }
      eapply PS_post; [apply (IH sr); [lia|exact Hdr]|].
      intros r pre [Hr Hlr]. cbn [all2 map_fields]. rewrite Hv, Hr. split; [reflexivity|].
      rewrite Hlr. destruct sb; [now rewrite Hlv|now rewrite Hlv].
Qed.

(** the variant payload at a valid index *)
Lemma PS_nth_or {A} (V : ty -> A -> bytes -> Prop) (f : ty -> parser A) m vs :
  Forall (fun t => PS (V t) (f t)) vs ->
  forall n, PS (fun a pre => exists t', nth_error vs n = Some t' /\ V t' a pre)
               (nth_or f (fun _ => Err InvalidData m) vs n).
Proof.
  induction 1 as [|x r Hx Hr IH]; intros [|n]; cbn [nth_or]; try apply PS_fail.
  - eapply PS_weaken; [|exact Hx]. intros a pre H. exists x. split; [reflexivity|exact H].
  - eapply PS_weaken; [|apply IH]. intros a pre (t' & E & H). exists t'. split; [exact E|exact H].
Qed.

Lemma nth_or_parser {A} (f : ty -> parser A) (d : result (A * bytes)) vs n bs :
  nth_or (fun t' => f t' bs) d vs n = nth_or f (fun _ => d) vs n bs.
Proof. revert n; induction vs as [|x r IH]; intros [|n]; cbn; auto. Qed.

(** * Every accepted input yields a well-typed value in logical form *)
Theorem dec_typed c t : wf t = true -> dflt_ok t = true -> PS (Typed t) (dec slice_reader c t).
Proof.
  induction t as [p|u|k|k|k t' IH|n t' IH|k ts IH|k vs IH|w t' IH] using ty_ind'; intros Hwf Hd.
  - (* prim *)
    cbn [dec].
    eapply PS_ext with (p := fun s => '(b, s') <- read_mapped slice_reader (N.of_nat (prim_width p)) s ;;
                                      v <- (match prim_de_check p (unle b) with Some m => Err InvalidData m | None => Ok (VN (unle b)) end) ;; Ok (v, s')).
    { intros bs. destruct (read_mapped slice_reader _ bs) as [[b r]|k m|w]; cbn [bind]; [|reflexivity|reflexivity].
      destruct (prim_de_check p (unle b)); reflexivity. }
    eapply PS_post; [apply PS_read|]. intros b pre [-> L].
    destruct (prim_de_check p (unle pre)) eqn:Ec; [reflexivity|]. split; [|reflexivity].
    cbn [has_ty]. unfold prim_val_ok. apply andb_true_iff. split.
    + apply N.ltb_lt. pose proof (unle_bound pre) as Hb. rewrite len_eq in L.
      replace (N.of_nat (length pre)) with (N.of_nat (prim_width p)) in Hb by lia. exact Hb.
    + rewrite Ec. destruct p; reflexivity.
  - cbn [dec]. apply PS_ret. split; reflexivity.
  - (* raw *)
    cbn [dec].
    eapply PS_ext with (p := fun s => '(b, s') <- read_mapped slice_reader (raw_len k) s ;; v <- Ok (VL (of_bytes b)) ;; Ok (v, s')).
    { intros bs. destruct (read_mapped slice_reader _ bs) as [[b r]|? ?|?]; reflexivity. }
    eapply PS_post; [apply PS_read|]. intros b pre [-> L]. cbn. split; [|reflexivity].
    destruct (typed_bytes pre) as (ns & E & B & Ln). cbn [has_ty]. rewrite E, B, Ln, L, N.eqb_refl. reflexivity.
  - (* text *)
    assert (Hvec : PS (Typed (TText k)) (fun s => '(l, s') <- dec_vec slice_reader true (fun _ => Panic P_ILLTYPED) s ;; v <- text_post k l ;; Ok (v, s'))).
    { eapply PS_post.
      - eapply PS_ext; [|apply (PS_dec_vec true (fun _ => Err InvalidData MSimple) (fun _ _ => True)); apply PS_fail].
        intros bs. unfold dec_vec. destruct (read_u32 slice_reader bs) as [[n s1]|? ?|?]; cbn [bind]; [|reflexivity|reflexivity].
        destruct (n =? 0); reflexivity.
      - intros l pre (body & _ & _ & ->). unfold text_post.
        destruct (typed_bytes body) as (ns & E & B & _). rewrite E.
        destruct (text_check k ns) eqn:Et; [reflexivity|]. split; [|reflexivity].
        cbn [has_ty]. now rewrite E, B, Et. }
    destruct k; cbn [dec]; try exact Hvec.
    eapply (PS_bind _ _ (read_u32 slice_reader)); [apply PS_read_u32|].
    intros n pre1 _.
    eapply PS_ext with (p := fun s => '(l, s2) <- repeat_dec (fun s => '(b, s') <- read_u8 slice_reader s ;; Ok (VN b, s')) n s ;; v <- Ok (VL l) ;; Ok (v, s2)).
    { intros bs. destruct (repeat_dec _ n bs) as [[l s2]|? ?|?]; reflexivity. }
    eapply PS_post.
    + apply PS_repeat_dec with (V := fun x _ => exists b, x = VN b /\ b < 256).
      eapply PS_ext with (p := fun s => '(b, s') <- read_u8 slice_reader s ;; v <- Ok (VN b) ;; Ok (v, s')).
      { intros bs. destruct (read_u8 slice_reader bs) as [[b r]|? ?|?]; reflexivity. }
      eapply PS_post; [apply PS_read_u8|]. intros b pre [_ Hb]. cbn. eauto.
    + intros l pre [Hc _]. cbn. split; [|reflexivity].
      assert (HF : Forall (fun x => exists n, x = VN n /\ n < 256) l).
      { eapply chunks_Forall; [|exact Hc]. intros a p H. exact H. }
      destruct (vals_ns_of_VN l HF) as (ns & E & B). cbn [has_ty text_check]. now rewrite E, B.
  - (* seq *)
    assert (Hw' : wf t' = true).
    { cbn [wf] in Hwf. repeat (apply andb_true_iff in Hwf; destruct Hwf as [Hwf ?]). exact Hwf. }
    cbn [dflt_ok] in Hd. cbn [dec]. destruct (mem_zst (key_ty k t')); [apply PS_fail|].
    eapply PS_post; [apply (PS_dec_vec (is_u8 t') _ (Typed t') (IH Hw' Hd))|].
    intros l pre (body & _ & _ & Hl).
    assert (Hel : forallb (has_ty t') l = true /\ (forall x, In x l -> logical t' x = x)).
    { destruct (is_u8 t') eqn:Eu.
      - assert (t' = TPrim (PInt false W1)).
        { destruct t' as [[[] []| | | | | |]| | | | | | | |]; cbn in Eu; try discriminate; reflexivity. }
        subst t' l. split; [apply forallb_u8_of_bytes|reflexivity].
      - assert (HF : Forall (fun x => has_ty t' x = true /\ logical t' x = x) l).
        { eapply chunks_Forall; [|exact Hl]. intros a p H. exact H. }
        rewrite Forall_forall in HF. split.
        + apply forallb_forall. intros x Hx. apply HF. exact Hx.
        + intros x Hx. apply HF. exact Hx. }
    destruct Hel as [Hel Hlog].
    pose proof (post_typed c k t' l Hwf Hel Hlog) as Hp.
    destruct (post c k (key_ty k t') l); auto.
  - (* array *)
    cbn [wf dflt_ok] in *. cbn [dec]. destruct (is_u8 t') eqn:Eu.
    + eapply PS_ext with (p := fun s => '(b, s') <- read_mapped slice_reader n s ;; v <- Ok (VL (of_bytes b)) ;; Ok (v, s')).
      { intros bs. destruct (read_mapped slice_reader _ bs) as [[b r]|? ?|?]; reflexivity. }
      eapply PS_post; [apply PS_read|]. intros b pre [-> L]. cbn beta iota.
      assert (t' = TPrim (PInt false W1)).
      { destruct t' as [[[] []| | | | | |]| | | | | | | |]; cbn in Eu; try discriminate; reflexivity. }
      subst t'. unfold Typed. cbn [has_ty logical]. rewrite len_of_bytes, L, N.eqb_refl, forallb_u8_of_bytes.
      split; [reflexivity|]. now rewrite logical_u8_list.
    + eapply PS_ext with (p := fun s => '(l, s') <- repeat_dec (dec slice_reader c t') n s ;; v <- Ok (VL l) ;; Ok (v, s')).
      { intros bs. destruct (repeat_dec _ n bs) as [[l r]|? ?|?]; reflexivity. }
      eapply PS_post; [apply (PS_repeat_dec _ (Typed t') n (IH Hwf Hd))|].
      intros l pre [Hc Hn]. cbn beta iota. unfold Typed.
      assert (HF : Forall (fun x => has_ty t' x = true /\ logical t' x = x) l).
      { eapply chunks_Forall; [|exact Hc]. intros a p H. exact H. }
      rewrite Forall_forall in HF. cbn [has_ty logical]. rewrite Hn, N.eqb_refl. split.
      * apply forallb_forall. intros x Hx. apply HF. exact Hx.
      * f_equal. apply map_fixed. intros x Hx. apply HF. exact Hx.
  - (* prod *)
    cbn [wf] in Hwf. apply andb_true_iff in Hwf. destruct Hwf as [_ Hwts].
    cbn [dflt_ok] in Hd. apply andb_true_iff in Hd. destruct Hd as [Hdts Hdsk].
    cbn [dec].
    eapply PS_ext with (p := fun s => '(l, s') <- dec_fields (fun t' s => dec slice_reader c t' s) ts (prod_skips k (length ts)) s ;; v <- Ok (VL l) ;; Ok (v, s')).
    { intros bs. destruct (dec_fields _ ts _ bs) as [[l r]|? ?|?]; reflexivity. }
    eapply PS_post.
    + apply PS_dec_fields_typed; [|apply prod_skips_length|exact Hdsk].
      rewrite Forall_forall in *. intros t0 Ht0. apply IH; [exact Ht0|exact (forallb_In _ _ _ Hwts Ht0)|exact (forallb_In _ _ _ Hdts Ht0)].
    + intros l pre [H1 H2]. cbn beta iota. unfold Typed. cbn [has_ty logical]. rewrite H1, H2. split; reflexivity.
  - (* sum *)
    cbn [wf] in Hwf. repeat (apply andb_true_iff in Hwf; destruct Hwf as [Hwf ?]). rename H into Hwvs.
    cbn [dflt_ok] in Hd. cbn [dec].
    eapply (PS_bind _ _ (read_u8 slice_reader)); [apply PS_read_u8|].
    intros b pre1 _. destruct (find_tag (sum_tags k) b 0) as [i|]; [|apply PS_fail].
    eapply PS_ext with (p := fun s => '(v, s2) <- nth_or (fun t' => dec slice_reader c t') (fun _ => Err InvalidData (bad_tag k b)) vs (N.to_nat i) s ;; v' <- Ok (VV i v) ;; Ok (v', s2)).
    { intros bs.
      assert (E : nth_or (fun t' => dec slice_reader c t' bs) (Err InvalidData (bad_tag k b)) vs (N.to_nat i) =
                  nth_or (fun t' => dec slice_reader c t') (fun _ => Err InvalidData (bad_tag k b)) vs (N.to_nat i) bs)
        by apply nth_or_parser.
      rewrite E. destruct (nth_or _ _ vs (N.to_nat i) bs) as [[v r]|? ?|?]; reflexivity. }
    eapply PS_post.
    + apply (PS_nth_or Typed (fun t' => dec slice_reader c t')).
      rewrite Forall_forall in *. intros t0 Ht0. apply IH; [exact Ht0|exact (forallb_In _ _ _ Hwvs Ht0)|exact (forallb_In _ _ _ Hd Ht0)].
    + intros v pre (t0 & E & Hv & Hl). cbn beta iota. unfold Typed. cbn [has_ty logical].
      rewrite (nth_or_some _ _ _ _ _ E), (nth_or_some (fun t1 => logical t1 v) v vs _ _ E), Hv, Hl. split; reflexivity.
  - cbn [wf dflt_ok dec] in *. eapply PS_weaken; [|apply IH; assumption].
    intros a pre [H1 H2]. split; [exact H1|exact H2].
Qed.

(** * Strict mode: the accepted bytes are the encoding of the returned value *)
Lemma find_tag_some tags b base i : find_tag tags b base = Some i ->
  exists n, i = base + N.of_nat n /\ nth_error tags n = Some b.
Proof.
  revert base; induction tags as [|t r IH]; intros base H; cbn [find_tag] in H; [discriminate|].
  destruct (N.eqb_spec t b) as [->|Hne].
  - inversion H; subst. exists 0%nat. split; [lia|reflexivity].
  - destruct (IH _ H) as (n & -> & E). exists (S n). split; [lia|exact E].
Qed.

Lemma reenc_bytes body : snd (emit_bytes_of (of_bytes body)) = None /\ sbytes (emit_bytes_of (of_bytes body)) = body.
Proof.
  destruct (emit_bytes_of_ok (of_bytes body) (map b2n body) (vals_ns_of_bytes body)) as [H1 H2].
  split; [exact H1|]. rewrite H2. apply to_bytes_map_b2n.
Qed.

Lemma each_u8_of_bytes body :
  snd (each_out (ser (TPrim (PInt false W1))) (of_bytes body)) = None /\
  sbytes (each_out (ser (TPrim (PInt false W1))) (of_bytes body)) = body.
Proof.
  destruct (each_u8_bytes (of_bytes body) (map b2n body) (vals_ns_of_bytes body) (map_b2n_lt body)) as [H1 H2].
  split; [exact H1|]. rewrite H2. apply to_bytes_map_b2n.
Qed.

(** the element block, written by [slice_out], equals the consumed body *)
Lemma reenc_body t' b l body :
  (if is_u8 t' then l = of_bytes body else chunks (fun x p => Typed t' x p /\ Reenc t' x p) l body) ->
  snd (slice_out (is_u8 t' && b) (ser t') l) = None /\ sbytes (slice_out (is_u8 t' && b) (ser t') l) = body.
Proof.
  intros H. destruct (is_u8 t') eqn:Eu.
  - assert (t' = TPrim (PInt false W1)).
    { destruct t' as [[[] []| | | | | |]| | | | | | | |]; cbn in Eu; try discriminate; reflexivity. }
    subst t' l. unfold slice_out. destruct b; cbn [andb]; [apply reenc_bytes|apply each_u8_of_bytes].
  - cbn [andb]. unfold slice_out. apply chunks_each_out.
    clear Eu. induction H as [|l a p1 p2 Hc IH [_ Hr]]; constructor; auto.
Qed.

Lemma emit_len_then n body_out body :
  n < U32_LIMIT -> snd body_out = None -> sbytes body_out = body ->
  snd (emit_len n >> body_out) = None /\ sbytes (emit_len n >> body_out) = le 4 n ++ body.
Proof.
  intros Hn Hok Hb. pose proof (emit_len_intro n Hn) as Hl. split.
  - now apply andthen_ok_intro.
  - rewrite andthen_bytes by exact Hl. destruct (emit_len_ok n Hl) as [_ ->]. now rewrite Hb.
Qed.

Lemma PS_dec_fields_reenc c ts :
  Forall (fun t => PS (Reenc t) (dec slice_reader c t)) ts ->
  forall sk, length sk = length ts ->
    PS (fun l pre => snd (fields_out (fun t' x => ser t' x) ts sk l) = None /\
                     sbytes (fields_out (fun t' x => ser t' x) ts sk l) = pre)
       (dec_fields (fun t' s => dec slice_reader c t' s) ts sk).
Proof.
  induction 1 as [|t' tr Ht' Htr IH]; intros sk Hsk; cbn [dec_fields].
  - apply PS_ret. destruct sk; split; reflexivity.
  - destruct sk as [|sb sr]; [discriminate|]. cbn [length] in Hsk.
    eapply (PS_bind (fun v pre => if sb then pre = [] else Reenc t' v pre)).
    + destruct sb; [apply PS_ret; reflexivity|exact Ht'].
    + intros v pre1 Hv.
      eapply PS_ext with (p := fun s => '(r, s2) <- dec_fields (fun t' s => dec slice_reader c t' s) tr sr s ;; l <- Ok (v :: r) ;; Ok (l, s2)).
      { intros bs. destruct (dec_fields _ tr sr bs) as [[r s2]|k m|w]; reflexivity. }
      eapply PS_post; [apply (IH sr); lia|].
      intros r pre2 [Hok Hb]. cbn beta iota. cbn [fields_out].
      destruct sb.
      * subst pre1. split; [apply andthen_ok_intro; [reflexivity|exact Hok]|].
        rewrite andthen_bytes by reflexivity. rewrite sbytes_done. exact Hb.
      * destruct Hv as [Hvo Hvb]. split; [apply andthen_ok_intro; assumption|].
        rewrite andthen_bytes by exact Hvo. now rewrite Hvb, Hb.
Qed.

Lemma slice_out_nil b f : snd (slice_out b f []) = None /\ sbytes (slice_out b f []) = [].
Proof. unfold slice_out. destruct b; split; reflexivity. Qed.

Lemma post_reenc c k t' l body :
  strict c = true -> wf (TSeq k t') = true -> is_index k = false ->
  mem_zst (key_ty k t') = false ->
  forallb (has_ty t') l = true -> len l < U32_LIMIT ->
  (if is_u8 t' then l = of_bytes body else chunks (fun x p => Typed t' x p /\ Reenc t' x p) l body) ->
  match post c k (key_ty k t') l with
  | Ok v => Reenc (TSeq k t') v (le 4 (len l) ++ body)
  | Err e _ => e = InvalidData
  | Panic _ => False
  end.
Proof.
  intros Hs Hwf Hni Hz Hty Hlen Hbody. unfold post, Reenc.
  set (cmp := cmp_val (key_ty k t')). set (key := key_val k). rewrite Hs.
  destruct (is_ordered k) eqn:Ho; cbn [andb].
  - destruct (strictly_ascending cmp key l) eqn:Hsa; cbn [negb]; [|reflexivity].
    assert (Hk : is_keyed k = true) by (unfold is_keyed; now rewrite Ho).
    pose (P := fun x => has_ty (key_ty k t') (key x) = true).
    assert (HP : Forall P l) by (apply (Forall_P k t' Hwf); exact Hty).
    assert (Hcs : collect_sorted cmp key l = l).
    { apply (collect_sorted_id cmp key P); [apply (c_anti k t')|apply (c_lt k t' Hk Hwf)|exact HP|exact Hsa]. }
    assert (Hsb : sort_by cmp key l = l) by (apply (sort_by_sorted_id cmp key P); assumption).
    destruct (reenc_body t' false l body Hbody) as [Hbo Hbb]. rewrite andb_false_r in Hbo, Hbb.
    unfold slice_out in Hbo, Hbb.
    destruct k; cbn in Ho; try discriminate Ho; rewrite Hcs; cbn [ser ser_checks_zst uses_slice_path andb];
      fold cmp key; rewrite Hz, ?andb_false_r, ?Hsb; unfold slice_out; cbn [andb];
      apply emit_len_then; assumption.
  - destruct k; cbn in Ho, Hni; try discriminate Ho; try discriminate Hni;
      cbn [ser ser_checks_zst uses_slice_path andb]; rewrite ?Hz, ?andb_false_r; cbn [key_ty is_map] in Hz; rewrite ?Hz.
    + (* Vec *) destruct (reenc_body t' true l body Hbody) as [Hbo Hbb]. now apply emit_len_then.
    + (* Deque *)
      destruct (reenc_body t' true l body Hbody) as [Hbo Hbb].
      destruct (slice_out_nil (is_u8 t' && true) (ser t')) as [Hno Hnb].
      rewrite len_nil, N.add_0_r.
      apply emit_len_then; [exact Hlen| |].
      * apply andthen_ok_intro; assumption.
      * rewrite andthen_bytes by exact Hbo. rewrite Hbb, Hnb. apply app_nil_r.
    + (* List *) destruct (reenc_body t' false l body Hbody) as [Hbo Hbb]. rewrite andb_false_r in Hbo, Hbb. now apply emit_len_then.
    + (* Slice *) destruct (reenc_body t' true l body Hbody) as [Hbo Hbb]. now apply emit_len_then.
Qed.

Theorem dec_reenc c t :
  strict c = true -> wf t = true -> dflt_ok t = true -> no_index t = true ->
  PS (Reenc t) (dec slice_reader c t).
Proof.
  intros Hs.
  induction t as [p|u|k|k|k t' IH|n t' IH|k ts IH|k vs IH|w t' IH] using ty_ind'; intros Hwf Hd Hni.
  - (* prim *)
    cbn [dec].
    eapply PS_ext with (p := fun s => '(b, s') <- read_mapped slice_reader (N.of_nat (prim_width p)) s ;;
                                      v <- (match prim_de_check p (unle b) with Some m => Err InvalidData m | None => Ok (VN (unle b)) end) ;; Ok (v, s')).
    { intros bs. destruct (read_mapped slice_reader _ bs) as [[b r]|k m|w]; cbn [bind]; [|reflexivity|reflexivity].
      destruct (prim_de_check p (unle b)); reflexivity. }
    eapply PS_post; [apply PS_read|]. intros b pre [-> L].
    destruct (prim_de_check p (unle pre)) eqn:Ec; [reflexivity|]. unfold Reenc. cbn [ser].
    assert (Hsc : prim_ser_check p (unle pre) = None).
    { destruct p; cbn in *; try reflexivity. destruct (is_nan double (unle pre)); [discriminate|reflexivity]. }
    rewrite Hsc. split; [reflexivity|]. rewrite sbytes_emit.
    assert (Hl : length pre = prim_width p) by (rewrite len_eq in L; lia).
    rewrite <- Hl. apply le_unle.
  - cbn [dec]. apply PS_ret. split; reflexivity.
  - (* raw *)
    cbn [dec].
    eapply PS_ext with (p := fun s => '(b, s') <- read_mapped slice_reader (raw_len k) s ;; v <- Ok (VL (of_bytes b)) ;; Ok (v, s')).
    { intros bs. destruct (read_mapped slice_reader _ bs) as [[b r]|? ?|?]; reflexivity. }
    eapply PS_post; [apply PS_read|]. intros b pre [-> L]. cbn beta iota. unfold Reenc. cbn [ser]. apply reenc_bytes.
  - (* text *)
    assert (Hvec : PS (Reenc (TText k)) (fun s => '(l, s') <- dec_vec slice_reader true (fun _ => Panic P_ILLTYPED) s ;; v <- text_post k l ;; Ok (v, s'))).
    { eapply PS_post.
      - eapply PS_ext; [|apply (PS_dec_vec true (fun _ => Err InvalidData MSimple) (fun _ _ => True)); apply PS_fail].
        intros bs. unfold dec_vec. destruct (read_u32 slice_reader bs) as [[n s1]|? ?|?]; cbn [bind]; [|reflexivity|reflexivity].
        destruct (n =? 0); reflexivity.
      - intros l pre (body & -> & Hlen & ->). unfold text_post.
        destruct (typed_bytes body) as (ns & E & B & _). rewrite E.
        destruct (text_check k ns) eqn:Et; [reflexivity|]. unfold Reenc. cbn [ser].
        destruct (reenc_bytes body) as [Hbo Hbb]. now apply emit_len_then. }
    destruct k; cbn [dec]; try exact Hvec.
    (* BytesMut *)
    eapply (PS_bind _ _ (read_u32 slice_reader)); [apply PS_read_u32|].
    intros n pre1 [-> Hn].
    eapply PS_ext with (p := fun s => '(l, s2) <- repeat_dec (fun s => '(b, s') <- read_u8 slice_reader s ;; Ok (VN b, s')) n s ;; v <- Ok (VL l) ;; Ok (v, s2)).
    { intros bs. destruct (repeat_dec _ n bs) as [[l s2]|? ?|?]; reflexivity. }
    eapply PS_post.
    + apply PS_repeat_dec with (V := fun x p => exists b, x = VN b /\ p = [n2b b] /\ b < 256).
      eapply PS_ext with (p := fun s => '(b, s') <- read_u8 slice_reader s ;; v <- Ok (VN b) ;; Ok (v, s')).
      { intros bs. destruct (read_u8 slice_reader bs) as [[b r]|? ?|?]; reflexivity. }
      eapply PS_post; [apply PS_read_u8|]. intros b pre [-> Hb]. cbn. eauto.
    + intros l pre [Hc Hl]. cbn beta iota. unfold Reenc. cbn [ser]. subst n.
      assert (Hns : exists ns, vals_ns l = Some ns /\ to_bytes ns = pre).
      { clear Hn. induction Hc as [|l a p1 p2 Hc IHc (b & -> & -> & Hb)].
        - exists []. split; reflexivity.
        - destruct IHc as (ns & E & <-). exists (ns ++ [b]). split.
          + rewrite (vals_ns_Some l ns E). change [VN b] with (map VN [b]). rewrite <- (map_app VN ns [b]).
            clear. induction (ns ++ [b]) as [|x r IHl]; cbn; [reflexivity|now rewrite IHl].
          + unfold to_bytes. now rewrite map_app. }
      destruct Hns as (ns & E & <-).
      destruct (emit_bytes_of_ok l ns E) as [Hbo Hbb]. now apply emit_len_then.
  - (* seq *)
    assert (Hw' : wf t' = true).
    { cbn [wf] in Hwf. repeat (apply andb_true_iff in Hwf; destruct Hwf as [Hwf ?]). exact Hwf. }
    cbn [dflt_ok] in Hd. cbn [no_index] in Hni. apply andb_true_iff in Hni. destruct Hni as [Hnk Hni].
    apply negb_true_iff in Hnk.
    cbn [dec]. destruct (mem_zst (key_ty k t')) eqn:Hz; [apply PS_fail|].
    eapply PS_post.
    + apply (PS_dec_vec (is_u8 t') _ (fun x p => Typed t' x p /\ Reenc t' x p)).
      apply PS_conj; [apply dec_typed; assumption|apply IH; assumption].
    + intros l pre (body & -> & Hlen & Hl).
      assert (Hel : forallb (has_ty t') l = true).
      { destruct (is_u8 t') eqn:Eu.
        - assert (t' = TPrim (PInt false W1)).
          { destruct t' as [[[] []| | | | | |]| | | | | | | |]; cbn in Eu; try discriminate; reflexivity. }
          subst t' l. apply forallb_u8_of_bytes.
        - apply forallb_of_Forall. eapply chunks_Forall; [|exact Hl]. intros a p [[H _] _]. exact H. }
      exact (post_reenc c k t' l body Hs Hwf Hnk Hz Hel Hlen Hl).
  - (* array *)
    cbn [wf dflt_ok no_index] in *. cbn [dec]. destruct (is_u8 t') eqn:Eu.
    + eapply PS_ext with (p := fun s => '(b, s') <- read_mapped slice_reader n s ;; v <- Ok (VL (of_bytes b)) ;; Ok (v, s')).
      { intros bs. destruct (read_mapped slice_reader _ bs) as [[b r]|? ?|?]; reflexivity. }
      eapply PS_post; [apply PS_read|]. intros b pre [-> L]. cbn beta iota. unfold Reenc. cbn [ser].
      destruct (N.eqb_spec n 0) as [E0|E0].
      * subst n. apply len_zero_nil in E0. subst pre. split; reflexivity.
      * rewrite Eu. unfold slice_out. apply reenc_bytes.
    + eapply PS_ext with (p := fun s => '(l, s') <- repeat_dec (dec slice_reader c t') n s ;; v <- Ok (VL l) ;; Ok (v, s')).
      { intros bs. destruct (repeat_dec _ n bs) as [[l r]|? ?|?]; reflexivity. }
      eapply PS_post; [apply (PS_repeat_dec _ (Reenc t') n (IH Hwf Hd Hni))|].
      intros l pre [Hc Hn]. cbn beta iota. unfold Reenc. cbn [ser].
      destruct (N.eqb_spec n 0) as [E0|E0].
      * subst n. apply len_zero_nil in E0. subst l. apply chunks_len_nil in Hc. subst pre. split; reflexivity.
      * rewrite Eu. unfold slice_out. now apply chunks_each_out.
  - (* prod *)
    cbn [wf] in Hwf. apply andb_true_iff in Hwf. destruct Hwf as [_ Hwts].
    cbn [dflt_ok] in Hd. apply andb_true_iff in Hd. destruct Hd as [Hdts _].
    cbn [no_index] in Hni. cbn [dec].
    eapply PS_ext with (p := fun s => '(l, s') <- dec_fields (fun t' s => dec slice_reader c t' s) ts (prod_skips k (length ts)) s ;; v <- Ok (VL l) ;; Ok (v, s')).
    { intros bs. destruct (dec_fields _ ts _ bs) as [[l r]|? ?|?]; reflexivity. }
    eapply PS_post.
    + apply PS_dec_fields_reenc; [|apply prod_skips_length].
      rewrite Forall_forall in *. intros t0 Ht0.
      apply IH; [exact Ht0|exact (forallb_In _ _ _ Hwts Ht0)|exact (forallb_In _ _ _ Hdts Ht0)|exact (forallb_In _ _ _ Hni Ht0)].
    + intros l pre H. cbn beta iota. unfold Reenc. cbn [ser]. exact H.
  - (* sum *)
    cbn [wf] in Hwf. repeat (apply andb_true_iff in Hwf; destruct Hwf as [Hwf ?]). rename H into Hwvs.
    cbn [dflt_ok no_index] in Hd, Hni. cbn [dec].
    eapply (PS_bind _ _ (read_u8 slice_reader)); [apply PS_read_u8|].
    intros b pre1 [-> Hb]. destruct (find_tag (sum_tags k) b 0) as [i|] eqn:Eft; [|apply PS_fail].
    destruct (find_tag_some _ _ _ _ Eft) as (ni & Ei & Etag). rewrite N.add_0_l in Ei.
    eapply PS_ext with (p := fun s => '(v, s2) <- nth_or (fun t' => dec slice_reader c t') (fun _ => Err InvalidData (bad_tag k b)) vs (N.to_nat i) s ;; v' <- Ok (VV i v) ;; Ok (v', s2)).
    { intros bs.
      assert (E : nth_or (fun t' => dec slice_reader c t' bs) (Err InvalidData (bad_tag k b)) vs (N.to_nat i) =
                  nth_or (fun t' => dec slice_reader c t') (fun _ => Err InvalidData (bad_tag k b)) vs (N.to_nat i) bs)
        by apply nth_or_parser.
      rewrite E. destruct (nth_or _ _ vs (N.to_nat i) bs) as [[v r]|? ?|?]; reflexivity. }
    eapply PS_post.
    + apply (PS_nth_or Reenc (fun t' => dec slice_reader c t')).
      rewrite Forall_forall in *. intros t0 Ht0.
      apply IH; [exact Ht0|exact (forallb_In _ _ _ Hwvs Ht0)|exact (forallb_In _ _ _ Hd Ht0)|exact (forallb_In _ _ _ Hni Ht0)].
    + intros v pre (t0 & E & Hvo & Hvb). cbn beta iota. unfold Reenc. cbn [ser].
      assert (Hni' : N.to_nat i = ni) by lia. rewrite Hni' in *. rewrite Etag.
      rewrite (nth_or_some _ _ _ _ _ E). split.
      * apply andthen_ok_intro; [reflexivity|exact Hvo].
      * rewrite andthen_bytes by reflexivity. rewrite sbytes_emit, Hvb. reflexivity.
  - cbn [wf dflt_ok no_index dec] in *. eapply PS_weaken; [|apply IH; assumption].
    intros a pre H. exact H.
Qed.

(** * Loose versus strict key ordering *)
Definition Rel {A} (rl rs : result A) : Prop := rs = rl \/ rs = Err InvalidData MKeyOrder.

Lemma Rel_refl {A} (r : result A) : Rel r r.
Proof. now left. Qed.

Lemma Rel_bind {A B} (rl rs : result A) (fl fs : A -> result B) :
  Rel rl rs -> (forall a, Rel (fl a) (fs a)) -> Rel (bind rl fl) (bind rs fs).
Proof.
  intros [E|E] H; subst rs.
  - destruct rl as [a|k m|w]; cbn [bind]; [apply H|apply Rel_refl|apply Rel_refl].
  - right. reflexivity.
Qed.

Lemma Rel_iterN {S} (fl fs : S -> result S) :
  (forall s, Rel (fl s) (fs s)) -> forall n s, Rel (iterN n fl s) (iterN n fs s).
Proof.
  intros H n. induction n as [|n IH] using N.peano_ind; intros s.
  - apply Rel_refl.
  - rewrite !iterN_succ. apply Rel_bind; [apply H|apply IH].
Qed.

Definition c_loose : cfg := {| strict := false |}.
Definition c_strict : cfg := {| strict := true |}.

Lemma Rel_repeat_dec (fl fs : bytes -> result (val * bytes)) n s :
  (forall s, Rel (fl s) (fs s)) -> Rel (repeat_dec fl n s) (repeat_dec fs n s).
Proof.
  intros H. unfold repeat_dec. apply Rel_bind; [|intros [acc s']; apply Rel_refl].
  apply Rel_iterN. intros [acc s0]. apply Rel_bind; [apply H|intros [v s1]; apply Rel_refl].
Qed.

Lemma Rel_dec_vec u8 (fl fs : bytes -> result (val * bytes)) s :
  (forall s, Rel (fl s) (fs s)) -> Rel (dec_vec slice_reader u8 fl s) (dec_vec slice_reader u8 fs s).
Proof.
  intros H. unfold dec_vec. apply Rel_bind; [apply Rel_refl|]. intros [n s1].
  destruct (n =? 0); [apply Rel_refl|]. destruct u8; [apply Rel_refl|]. now apply Rel_repeat_dec.
Qed.

Lemma Rel_post k kt l : Rel (post c_loose k kt l) (post c_strict k kt l).
Proof.
  unfold post. cbn [strict c_loose c_strict]. rewrite andb_false_r. cbn [andb].
  destruct (is_ordered k && true && negb (strictly_ascending (cmp_val kt) (key_val k) l)); [now right|now left].
Qed.

Lemma Rel_dec_fields ts :
  Forall (fun t => forall s, Rel (dec slice_reader c_loose t s) (dec slice_reader c_strict t s)) ts ->
  forall sk s, Rel (dec_fields (fun t' s => dec slice_reader c_loose t' s) ts sk s)
                   (dec_fields (fun t' s => dec slice_reader c_strict t' s) ts sk s).
Proof.
  induction 1 as [|t' tr Ht' Htr IH]; intros sk s; cbn [dec_fields]; [apply Rel_refl|].
  apply Rel_bind.
  - destruct (match sk with b :: _ => b | [] => false end); [apply Rel_refl|apply Ht'].
  - intros [v s1]. apply Rel_bind; [apply IH|intros [r s2]; apply Rel_refl].
Qed.

Theorem dec_loose_strict t : forall s, Rel (dec slice_reader c_loose t s) (dec slice_reader c_strict t s).
Proof.
  induction t as [p|u|k|k|k t' IH|n t' IH|k ts IH|k vs IH|w t' IH] using ty_ind'; intros s; cbn [dec]; try apply Rel_refl.
  - destruct (mem_zst (key_ty k t')); [apply Rel_refl|].
    apply Rel_bind; [apply Rel_dec_vec; exact IH|]. intros [l s']. apply Rel_bind; [apply Rel_post|intros v; apply Rel_refl].
  - destruct (is_u8 t'); [apply Rel_refl|].
    apply Rel_bind; [apply Rel_repeat_dec; exact IH|intros [l s']; apply Rel_refl].
  - apply Rel_bind; [apply Rel_dec_fields; exact IH|intros [l s']; apply Rel_refl].
  - apply Rel_bind; [apply Rel_refl|]. intros [b s1].
    destruct (find_tag (sum_tags k) b 0) as [i|]; [|apply Rel_refl].
    apply Rel_bind; [|intros [v s2]; apply Rel_refl].
    generalize (N.to_nat i). induction IH as [|x r Hx Hr IHr]; intros [|m]; cbn [nth_or]; try apply Rel_refl.
    + apply Hx.
    + apply IHr.
  - apply IH.
Qed.

(** * Statements *)
Lemma accept_sound c t bs v rest :
  wf t = true -> dflt_ok t = true -> dec_slice c t bs = Ok (v, rest) ->
  exists pre, bs = pre ++ rest /\ has_ty t v = true /\ logical t v = v.
Proof.
  intros Hwf Hd H. pose proof (dec_typed c t Hwf Hd bs) as P. unfold dec_slice in H. rewrite H in P.
  destruct P as (pre & E & [Hty Hlog] & _). exists pre. auto.
Qed.

Lemma accept_strict_reencodes c t bs v rest :
  strict c = true -> wf t = true -> dflt_ok t = true -> no_index t = true ->
  dec_slice c t bs = Ok (v, rest) ->
  exists pre, bs = pre ++ rest /\ has_ty t v = true /\ enc t v = Ok pre.
Proof.
  intros Hs Hwf Hd Hni H.
  pose proof (PS_conj _ _ _ (dec_typed c t Hwf Hd) (dec_reenc c t Hs Hwf Hd Hni) bs) as P.
  unfold dec_slice in H. rewrite H in P.
  destruct P as (pre & E & [[Hty _] [Hok Hb]] & _). exists pre. repeat split; auto.
  apply enc_ok_iff. split; [exact Hok|now symmetry].
Qed.

Lemma strict_whole_input_bijective c t bs v :
  strict c = true -> wf t = true -> dflt_ok t = true -> no_index t = true ->
  try_from_slice c t bs = Ok v -> enc t v = Ok bs.
Proof.
  intros Hs Hwf Hd Hni H. unfold try_from_slice in H.
  destruct (dec_slice c t bs) as [[v' r]|k m|w] eqn:E; cbn [bind] in H; try discriminate.
  destruct r; [|discriminate]. inversion H; subst v'.
  destruct (accept_strict_reencodes c t bs v [] Hs Hwf Hd Hni E) as (pre & Eb & _ & Henc).
  rewrite app_nil_r in Eb. now subst.
Qed.

Lemma strict_injective c t bs1 bs2 v :
  strict c = true -> wf t = true -> dflt_ok t = true -> no_index t = true ->
  try_from_slice c t bs1 = Ok v -> try_from_slice c t bs2 = Ok v -> bs1 = bs2.
Proof.
  intros Hs Hwf Hd Hni H1 H2.
  pose proof (strict_whole_input_bijective c t bs1 v Hs Hwf Hd Hni H1) as E1.
  pose proof (strict_whole_input_bijective c t bs2 v Hs Hwf Hd Hni H2) as E2. congruence.
Qed.

Lemma loose_accepts_more t bs r :
  dec_slice c_loose t bs = Ok r ->
  dec_slice c_strict t bs = Ok r \/ dec_slice c_strict t bs = Err InvalidData MKeyOrder.
Proof. intros H. destruct (dec_loose_strict t bs) as [E|E]; unfold dec_slice in *; [left; congruence|right; exact E]. Qed.

Lemma strict_accepts_less t bs r :
  dec_slice c_strict t bs = Ok r -> dec_slice c_loose t bs = Ok r.
Proof. intros H. destruct (dec_loose_strict t bs) as [E|E]; unfold dec_slice in *; congruence. Qed.

Lemma loose_same_errors t bs k m :
  dec_slice c_loose t bs = Err k m ->
  dec_slice c_strict t bs = Err k m \/ dec_slice c_strict t bs = Err InvalidData MKeyOrder.
Proof. intros H. destruct (dec_loose_strict t bs) as [E|E]; unfold dec_slice in *; [left; congruence|right; exact E]. Qed.

Lemma index_accepts_duplicates :
  exists (t : ty) (bs : bytes) (v : val),
    wf t = true /\ dflt_ok t = true /\ try_from_slice c_strict t bs = Ok v /\ enc t v <> Ok bs.
Proof.
  exists (TSeq SIndexSet (TPrim (PInt false W1))), [x02; x00; x00; x00; x01; x01], (VL [VN 1]).
  repeat split; try reflexivity. vm_compute. discriminate.
Qed.
