(** C02, refusals: the model of the encoder stops with an error exactly on the values
    [Spec.refusable] describes, and the error kind is always InvalidData. *)
From Coq Require Import String.
From Coq Require Import List NArith Bool Lia Permutation.
From Coq.Strings Require Import Byte.
From Borsh Require Import Bytes BytesFacts Result Loop LoopFacts Ty TyInd Ser De Entry CodecFacts
  RoundTrip OrderFacts SortFacts RoundTripKeyed Spec SpecFacts.
Import ListNotations.
Local Open Scope N_scope.

(** [status r o]: the trace [o] ends well when [r] is false, with an InvalidData error when
    [r] is true *)
Definition status (r : bool) (o : out) : Prop :=
  (r = false /\ snd o = None) \/ (r = true /\ exists m, snd o = Some (InvalidData, m)).

Lemma status_done : status false done.
Proof. left. split; reflexivity. Qed.
Lemma status_emit b : status false (emit b).
Proof. left. split; reflexivity. Qed.
Lemma status_fail m : status true (fail InvalidData m).
Proof. right. split; [reflexivity|]. now exists m. Qed.

Lemma status_andthen r1 r2 a b : status r1 a -> status r2 b -> status (r1 || r2) (a >> b).
Proof.
  intros [[-> Ha]|[-> (m & Ha)]] Hb.
  - cbn [orb]. unfold andthen. rewrite Ha.
    destruct Hb as [[-> Hb]|[-> (m & Hb)]]; [left|right]; cbn [snd]; split; try reflexivity; eauto.
  - right. split; [reflexivity|]. exists m. now rewrite (andthen_err a b _ Ha).
Qed.

Lemma status_snd r o o' : snd o = snd o' -> status r o -> status r o'.
Proof. unfold status. now intros ->. Qed.

Lemma status_eq r r' o : r = r' -> status r o -> status r' o.
Proof. now intros ->. Qed.

Lemma status_emit_len n : status (too_many n) (emit_len n).
Proof.
  unfold too_many, emit_len, U32_LIMIT.
  destruct (N.ltb_spec n (2 ^ 32)); destruct (N.leb_spec (2 ^ 32) n); try lia.
  - apply status_emit.
  - apply status_fail.
Qed.

Lemma status_each (f : val -> out) (g : val -> bool) l :
  (forall x, In x l -> status (g x) (f x)) -> status (existsb g l) (each_out f l).
Proof.
  induction l as [|x r IH]; intros H; cbn [existsb each_out].
  - apply status_done.
  - apply status_andthen; [apply H; now left|]. apply IH. intros y Hy. apply H. now right.
Qed.

Lemma existsb_perm {A} (g : A -> bool) l l' : Permutation l l' -> existsb g l = existsb g l'.
Proof.
  induction 1 as [|x l l' _ IH|x y l|l l' l'' _ IH1 _ IH2]; cbn [existsb].
  - reflexivity.
  - now rewrite IH.
  - destruct (g x), (g y); reflexivity.
  - now rewrite IH1.
Qed.

Lemma forallb_perm {A} (g : A -> bool) l l' : Permutation l l' -> forallb g l = true -> forallb g l' = true.
Proof.
  intros Hp H. apply forallb_forall. intros x Hx. apply (forallb_In _ _ _ H).
  eapply Permutation_in; [apply Permutation_sym|]; eauto.
Qed.

Lemma len_perm {A} (l l' : list A) : Permutation l l' -> len l = len l'.
Proof. intros H. rewrite !len_eq. now rewrite (Permutation_length H). Qed.

Definition RS (t : ty) : Prop := forall v, has_ty t v = true -> status (refusable t v) (ser t v).

Lemma rs_prim p : RS (TPrim p).
Proof.
  intros v Hty. destruct v as [n| |]; cbn [has_ty] in Hty; try discriminate.
  cbn [ser]. rewrite prim_ser_check_nan.
  destruct p; cbn [refusable]; try apply status_emit.
  destruct (spec_nan double n); [apply status_fail|apply status_emit].
Qed.

Lemma rs_raw k : RS (TRaw k).
Proof.
  intros v Hty. destruct v as [|l|]; cbn [has_ty] in Hty; try discriminate.
  destruct (vals_ns l) as [ns|] eqn:Ens; [|discriminate].
  cbn [ser refusable]. unfold emit_bytes_of. rewrite Ens. apply status_emit.
Qed.

Lemma rs_text k : RS (TText k).
Proof.
  intros v Hty. destruct v as [|l|]; cbn [has_ty] in Hty; try discriminate.
  destruct (vals_ns l) as [ns|] eqn:Ens; [|discriminate].
  cbn [ser refusable]. rewrite count_of_len, <- (orb_false_r (too_many (len l))).
  apply status_andthen; [apply status_emit_len|].
  unfold emit_bytes_of. rewrite Ens. apply status_emit.
Qed.

(** the element block, however it is written *)
Lemma rs_slice t' b l :
  RS t' -> forallb (has_ty t') l = true -> (b = true -> is_u8 t' = true) ->
  status (existsb (refusable t') l) (slice_out b (ser t') l).
Proof.
  intros IH Hty Hb. destruct (slice_out_each t' b l Hty Hb) as [Es _].
  apply (status_snd _ (each_out (ser t') l)); [now symmetry|].
  apply status_each. intros x Hx. apply IH. exact (forallb_In _ _ _ Hty Hx).
Qed.

Lemma rs_body t' b l :
  RS t' -> forallb (has_ty t') l = true -> (b = true -> is_u8 t' = true) ->
  status (too_many (count_of l) || existsb (refusable t') l) (emit_len (len l) >> slice_out b (ser t') l).
Proof.
  intros IH Hty Hb. rewrite count_of_len.
  apply status_andthen; [apply status_emit_len|now apply rs_slice].
Qed.

Lemma rs_seq k t' : RS t' -> RS (TSeq k t').
Proof.
  intros IH v Hty. cbn [ser refusable].
  change (guards k) with (ser_checks_zst k). change (spec_key_ty k t') with (key_ty k t').
  destruct (ser_checks_zst k && mem_zst (key_ty k t')); [apply status_fail|].
  cbn [orb].
  assert (Hhash : forall l, forallb (has_ty t') l = true ->
            status (too_many (count_of l) || existsb (refusable t') l)
              (emit_len (len (sort_by (cmp_val (key_ty k t')) (key_val k) l)) >>
               each_out (ser t') (sort_by (cmp_val (key_ty k t')) (key_val k) l))).
  { intros l Hel.
    pose proof (sort_by_perm' (cmp_val (key_ty k t')) (key_val k) l) as Hp.
    set (sorted := sort_by (cmp_val (key_ty k t')) (key_val k) l) in *.
    apply (status_eq (too_many (count_of sorted) || existsb (refusable t') sorted)).
    { now rewrite !count_of_len, (len_perm _ _ Hp), (existsb_perm _ _ _ Hp). }
    apply (rs_body t' false sorted IH).
    - exact (forallb_perm _ _ _ (Permutation_sym Hp) Hel).
    - intros H; discriminate H. }
  destruct k;
    try (destruct v as [|l|]; cbn [has_ty] in Hty; try discriminate Hty;
         apply andb_true_iff in Hty; destruct Hty as [Hel _];
         first [ exact (Hhash l Hel) | exact (rs_body t' _ l IH Hel (u8_and _ t')) ]).
  (* Deque *)
  destruct v as [|[|[|a|] [|[|b|] [|]]]|]; cbn [has_ty] in Hty; try discriminate.
  apply andb_true_iff in Hty. destruct Hty as [Ha Hb].
  rewrite <- orb_assoc, !count_of_len.
  apply status_andthen; [apply status_emit_len|].
  cbn [uses_slice_path].
  apply status_andthen; apply rs_slice; try assumption; apply (u8_and true t').
Qed.

Lemma rs_array n t' : RS t' -> RS (TArray n t').
Proof.
  intros IH v Hty. destruct v as [|l|]; cbn [has_ty] in Hty; try discriminate.
  apply andb_true_iff in Hty. destruct Hty as [Hlen Hty]. apply N.eqb_eq in Hlen.
  cbn [ser refusable].
  destruct (N.eqb_spec n 0) as [E0|E0].
  - subst n. apply len_zero_nil in E0. subst l. apply status_done.
  - now apply rs_slice.
Qed.

Lemma rs_fields ts :
  Forall (fun t => wf t = true -> RS t) ts ->
  forall sk l,
    forallb (fun x => wf x) ts = true ->
    all2 (fun t' x => has_ty t' x) ts l = true ->
    status (any_field (fun t' x => refusable t' x) ts sk l)
           (fields_out (fun t' x => ser t' x) ts (pad_false (length ts) sk) l).
Proof.
  induction 1 as [|t' tr Ht' Htr IH]; intros sk l Hwf Hty.
  - destruct l; cbn in Hty; try discriminate. apply status_done.
  - destruct l as [|x r]; cbn [all2] in Hty; try discriminate.
    apply andb_true_iff in Hty. destruct Hty as [Hx Hr].
    cbn [forallb] in Hwf. apply andb_true_iff in Hwf. destruct Hwf as [Hwx Hwr].
    assert (Epad : pad_false (length (t' :: tr)) sk = hd false sk :: pad_false (length tr) (tl sk)).
    { destruct sk; reflexivity. }
    rewrite Epad. cbn [fields_out any_field].
    apply status_andthen; [|now apply IH].
    destruct (hd false sk); [apply status_done|now apply Ht'].
Qed.

Lemma rs_prod k ts : Forall (fun t => wf t = true -> RS t) ts -> wf (TProd k ts) = true -> RS (TProd k ts).
Proof.
  intros IH Hwf v Hty. destruct v as [|l|]; cbn [has_ty] in Hty; try discriminate.
  cbn [wf] in Hwf. apply andb_true_iff in Hwf. destruct Hwf as [_ Hwf].
  cbn [ser refusable]. rewrite prod_skips_spec. now apply rs_fields.
Qed.

Lemma rs_sum k vs : Forall (fun t => wf t = true -> RS t) vs -> wf (TSum k vs) = true -> RS (TSum k vs).
Proof.
  intros IH Hwf v Hty. destruct v as [| |i x]; cbn [has_ty] in Hty; try discriminate.
  cbn [wf] in Hwf. repeat (apply andb_true_iff in Hwf; destruct Hwf as [Hwf ?]).
  rename H into Hwvs. rename H0 into Hlt. rename H1 into Hnd. rename H2 into Hne.
  apply nth_or_true in Hty. destruct Hty as (t' & Et' & Hx).
  assert (E1 : forall R (f : ty -> R) d, nth_or f d vs (N.to_nat i) = f t') by (intros; now apply nth_or_some).
  assert (E2 : forall R (f : ty -> R) d, at_variant f d vs (N.to_nat i) = f t')
    by (intros; rewrite at_variant_nth_or; apply E1).
  cbn [ser refusable]. rewrite ?E1, ?E2.
  destruct (nth_error (sum_tags k) (N.to_nat i)) as [tag|] eqn:Etag.
  - rewrite <- (orb_false_l (refusable t' x)).
    apply status_andthen; [apply status_emit|].
    assert (Hwt : wf t' = true) by exact (forallb_In _ _ _ Hwvs (nth_error_In _ _ Et')).
    exact (Forall_nth_error _ _ _ _ IH Et' Hwt x Hx).
  - exfalso. apply nth_error_None in Etag. apply PeanoNat.Nat.eqb_eq in Hwf.
    assert (N.to_nat i < length vs)%nat by (apply nth_error_Some; congruence). lia.
Qed.

Theorem rs_all t : wf t = true -> RS t.
Proof.
  induction t as [p|u|k|k|k t' IH|n t' IH|k ts IH|k vs IH|w t' IH] using ty_ind'; intros Hwf.
  - apply rs_prim.
  - intros v _. apply status_done.
  - apply rs_raw.
  - apply rs_text.
  - apply rs_seq. apply IH.
    cbn [wf] in Hwf. repeat (apply andb_true_iff in Hwf; destruct Hwf as [Hwf ?]). exact Hwf.
  - apply rs_array. apply IH. exact Hwf.
  - apply rs_prod; [|exact Hwf]. exact IH.
  - apply rs_sum; [|exact Hwf]. exact IH.
  - intros v Hty. cbn [has_ty ser refusable wf] in *. now apply IH.
Qed.

Lemma refuses t v :
  wf t = true -> has_ty t v = true -> ((exists k m, enc t v = Err k m) <-> refusable t v = true).
Proof.
  intros Hwf Hty. pose proof (rs_all t Hwf v Hty) as S. unfold enc.
  destruct S as [[Hr Ho]|[Hr (m & Ho)]]; rewrite Ho, Hr.
  - split; [intros (k & m & H); discriminate H|intros H; discriminate H].
  - split; [reflexivity|]. intros _. now exists InvalidData, m.
Qed.

Lemma refusal_kind t v k m :
  wf t = true -> has_ty t v = true -> enc t v = Err k m -> k = InvalidData.
Proof.
  intros Hwf Hty. pose proof (rs_all t Hwf v Hty) as S. unfold enc.
  destruct S as [[Hr Ho]|[Hr (m' & Ho)]]; rewrite Ho; intros H; [discriminate H|].
  now inversion H.
Qed.

(** the encoder of a well-typed value never panics and never reports another outcome:
    it is either the reference encoding or a refusal *)
Lemma enc_total t v :
  wf t = true -> has_ty t v = true ->
  (refusable t v = false /\ exists bs, enc t v = Ok bs) \/
  (refusable t v = true /\ exists m, enc t v = Err InvalidData m).
Proof.
  intros Hwf Hty. pose proof (rs_all t Hwf v Hty) as S. unfold enc.
  destruct S as [[Hr Ho]|[Hr (m & Ho)]]; rewrite Ho, Hr; [left|right]; split; eauto.
Qed.

(** the one reachable case of "2^32 or more elements": a borrowed slice (the impl without the
    zero-size guard) of any element type stops at the length prefix *)
Lemma too_long_slice t l : U32_LIMIT <= len l -> enc (TSeq SSlice t) (VL l) = Err InvalidData MSimple.
Proof.
  intros H. unfold enc. cbn [ser ser_checks_zst andb]. unfold emit_len.
  destruct (N.ltb_spec (len l) U32_LIMIT); [lia|]. reflexivity.
Qed.
