(** Facts about SchemaOf.v: the definitions map, [add_definition], and the traversal
    [defs_of]: it only adds definitions, never changes one, every entry it adds is one of the
    calls the type's impls make ([calls t]), and every declaration an added entry refers to is
    defined when the traversal of the type is over. *)
From Coq Require Import String Ascii List NArith ZArith Bool Lia.
From Borsh Require Import Bytes BytesFacts Result LoopFacts Ty TyInd Schema SchemaFns SchemaOf.
Import ListNotations.
Local Open Scope N_scope.
Local Open Scope string_scope.
Local Open Scope list_scope.

Lemma prim_widths_agree : forall p, prim_schema_width p = N.of_nat (prim_width p).
Proof. intros [[] []|[]|[] []| |[]| |]; reflexivity. Qed.

(** * definition_eqb *)
Lemma list_eqb_eq {A} (eqb : A -> A -> bool) :
  (forall x y, eqb x y = true -> x = y) -> forall a b, list_eqb eqb a b = true -> a = b.
Proof.
  intros He. induction a as [|x a IH]; intros [|y b] H; cbn in H; try discriminate; [reflexivity|].
  apply andb_true_iff in H. destruct H as [H1 H2]. f_equal; [now apply He|now apply IH].
Qed.
Lemma list_eqb_refl {A} (eqb : A -> A -> bool) : (forall x, eqb x x = true) -> forall a, list_eqb eqb a a = true.
Proof. intros He. induction a as [|x a IH]; cbn; [reflexivity|]. now rewrite He, IH. Qed.

Lemma str_eqb_true a b : String.eqb a b = true -> a = b.
Proof. apply String.eqb_eq. Qed.

Lemma pair_str_eqb_eq a b : pair_str_eqb a b = true -> a = b.
Proof.
  destruct a as [a1 a2], b as [b1 b2]. unfold pair_str_eqb. cbn [fst snd]. intros H.
  apply andb_true_iff in H. destruct H as [H1 H2]. apply str_eqb_true in H1, H2. now subst.
Qed.
Lemma variant_eqb_eq a b : variant_eqb a b = true -> a = b.
Proof.
  destruct a as [[a1 a2] a3], b as [[b1 b2] b3]. unfold variant_eqb. cbn [fst snd]. intros H.
  apply andb_true_iff in H. destruct H as [H H3]. apply andb_true_iff in H. destruct H as [H1 H2].
  apply Z.eqb_eq in H1. apply str_eqb_true in H2, H3. now subst.
Qed.
Lemma fields_eqb_eq a b : fields_eqb a b = true -> a = b.
Proof.
  destruct a, b; cbn; intros H; try discriminate; try reflexivity; f_equal.
  - exact (list_eqb_eq _ pair_str_eqb_eq _ _ H).
  - exact (list_eqb_eq _ str_eqb_true _ _ H).
Qed.
Lemma definition_eqb_eq a b : definition_eqb a b = true -> a = b.
Proof.
  destruct a, b; cbn; intros H; try discriminate.
  - apply N.eqb_eq in H. now subst.
  - repeat (apply andb_true_iff in H; destruct H as [H ?]).
    apply N.eqb_eq in H. repeat match goal with X : (_ =? _)%N = true |- _ => apply N.eqb_eq in X end.
    match goal with X : String.eqb _ _ = true |- _ => apply str_eqb_true in X end. now subst.
  - f_equal. exact (list_eqb_eq _ str_eqb_true _ _ H).
  - apply andb_true_iff in H. destruct H as [H1 H2]. apply N.eqb_eq in H1.
    apply (list_eqb_eq _ variant_eqb_eq) in H2. now subst.
  - f_equal. now apply fields_eqb_eq.
Qed.
Lemma definition_eqb_refl a : definition_eqb a a = true.
Proof.
  assert (Hs : forall x, String.eqb x x = true) by apply String.eqb_refl.
  destruct a as [n|w l h e|els|w vs|fs]; cbn.
  - apply N.eqb_refl.
  - now rewrite !N.eqb_refl, Hs.
  - now apply list_eqb_refl.
  - rewrite N.eqb_refl. cbn. apply list_eqb_refl. intros [[z s1] s2]. unfold variant_eqb. cbn.
    now rewrite Z.eqb_refl, !Hs.
  - destruct fs; cbn; try reflexivity; apply list_eqb_refl; auto.
    intros [a b]. unfold pair_str_eqb. cbn. now rewrite !Hs.
Qed.

(** * lookup / insert *)
Lemma lookup_insert_same k v l : lookup l k = None -> lookup (insert k v l) k = Some v.
Proof.
  induction l as [|[k0 v0] l IH]; cbn [insert lookup]; intros H.
  - now rewrite String.eqb_refl.
  - destruct (String.eqb k0 k) eqn:E; [discriminate|].
    destruct (String.compare k k0); cbn [lookup]; rewrite ?String.eqb_refl, ?E; auto.
Qed.
Lemma lookup_insert_other k v l k' : k' <> k -> lookup (insert k v l) k' = lookup l k'.
Proof.
  intros Hne. assert (E : String.eqb k k' = false) by (apply String.eqb_neq; congruence).
  induction l as [|[k0 v0] l IH]; cbn [insert lookup].
  - now rewrite E.
  - destruct (String.compare k k0); cbn [lookup]; rewrite ?E, ?IH; reflexivity.
Qed.

Definition defined (ds : defmap) (d : string) : Prop := lookup ds d <> None.
Definition extends (a b : defmap) : Prop := forall k e, lookup a k = Some e -> lookup b k = Some e.

Lemma extends_refl a : extends a a.
Proof. intros k e H. exact H. Qed.
Lemma extends_trans a b c : extends a b -> extends b c -> extends a c.
Proof. intros H1 H2 k e H. auto. Qed.
Lemma defined_mono a b d : extends a b -> defined a d -> defined b d.
Proof.
  unfold defined. intros He Hd. destruct (lookup a d) as [e|] eqn:E; [|congruence].
  rewrite (He d e E). discriminate.
Qed.
Lemma lookup_defined ds d e : lookup ds d = Some e -> defined ds d.
Proof. unfold defined. intros ->. discriminate. Qed.

Lemma add_definition_ok d def a b :
  add_definition d def a = Ok b ->
  lookup b d = Some def /\ (forall k, k <> d -> lookup b k = lookup a k) /\ (lookup a d = None \/ b = a).
Proof.
  unfold add_definition. destruct (lookup a d) as [e|] eqn:E.
  - destruct (definition_eqb e def) eqn:Q; [|discriminate]. intros H. inversion H; subst.
    apply definition_eqb_eq in Q. subst. repeat split; auto.
  - intros H. inversion H; subst. repeat split.
    + now apply lookup_insert_same.
    + intros k Hk. now apply lookup_insert_other.
    + now left.
Qed.
Lemma add_definition_extends d def a b : add_definition d def a = Ok b -> extends a b.
Proof.
  intros H. destruct (add_definition_ok _ _ _ _ H) as (H1 & H2 & H3). intros k e Hk.
  destruct (string_dec k d) as [->|Hne]; [|now rewrite H2].
  destruct H3 as [H3| ->]; [congruence|exact Hk].
Qed.

(** * The entries a traversal adds *)

(** [step P C a b]: [b] extends [a]; every entry of [b] is an entry of [a] or one of the calls [C],
    and then every declaration it refers to is defined in [b] or still pending ([P]). *)
Definition step (P : list string) (C : list (string * definition)) (a b : defmap) : Prop :=
  extends a b /\
  forall k e, lookup b k = Some e ->
    lookup a k = Some e \/ (In (k, e) C /\ forall m, In m (members e) -> defined b m \/ In m P).

Lemma step_refl P C a : step P C a a.
Proof. split; [apply extends_refl|]. intros k e H. now left. Qed.

Lemma step_weaken P P' C C' a b : incl P P' -> incl C C' -> step P C a b -> step P' C' a b.
Proof.
  intros HP HC [He Hs]. split; [exact He|]. intros k e H. destruct (Hs k e H) as [Ho|[Hin Hm]]; [now left|right].
  split; [now apply HC|]. intros m Hmm. destruct (Hm m Hmm); [now left|right; now apply HP].
Qed.

Lemma step_trans P1 P2 C1 C2 a b c : step P1 C1 a b -> step P2 C2 b c -> step (P1 ++ P2) (C1 ++ C2) a c.
Proof.
  intros [He1 Hs1] [He2 Hs2]. split; [eapply extends_trans; eauto|]. intros k e H.
  destruct (Hs2 k e H) as [Ho|[Hin Hm]].
  - destruct (Hs1 k e Ho) as [Ho1|[Hin Hm]]; [now left|right]. split; [apply in_or_app; now left|].
    intros m Hmm. destruct (Hm m Hmm) as [Hd|Hp]; [left; eapply defined_mono; eauto|right; apply in_or_app; now left].
  - right. split; [apply in_or_app; now right|]. intros m Hmm.
    destruct (Hm m Hmm) as [Hd|Hp]; [now left|right; apply in_or_app; now right].
Qed.

Lemma step_discharge P C a b : step P C a b -> (forall m, In m P -> defined b m) -> step [] C a b.
Proof.
  intros [He Hs] HP. split; [exact He|]. intros k e H. destruct (Hs k e H) as [Ho|[Hin Hm]]; [now left|right].
  split; [exact Hin|]. intros m Hmm. destruct (Hm m Hmm); [now left|left; now apply HP].
Qed.

Lemma step_add d def a b : add_definition d def a = Ok b -> step (members def) [(d, def)] a b /\ lookup b d = Some def.
Proof.
  intros H. pose proof (add_definition_extends _ _ _ _ H) as He.
  destruct (add_definition_ok _ _ _ _ H) as (H1 & H2 & H3). split; [|exact H1].
  split; [exact He|]. intros k e Hk. destruct (string_dec k d) as [->|Hne].
  - rewrite H1 in Hk. inversion Hk; subst. right. split; [now left|]. intros m Hm. now right.
  - left. now rewrite <- H2.
Qed.

(** a definition, then the rest: the shape of every hand-written impl *)
Lemma step_node d def (k : defmap -> result defmap) C a b :
  (ds1 <- add_definition d def a ;; k ds1) = Ok b ->
  (forall a1 b1, k a1 = Ok b1 -> step [] C a1 b1 /\ forall m, In m (members def) -> defined b1 m) ->
  step [] ((d, def) :: C) a b /\ lookup b d = Some def.
Proof.
  intros H Hk. apply bind_ok in H. destruct H as (ds1 & H1 & H2).
  destruct (step_add _ _ _ _ H1) as [S1 L1]. destruct (Hk _ _ H2) as [S2 Hm].
  split.
  - apply (step_discharge (members def ++ [])).
    + exact (step_trans _ _ _ _ _ _ _ S1 S2).
    + intros m Hin. rewrite app_nil_r in Hin. now apply Hm.
  - exact (proj1 S2 _ _ L1).
Qed.

(** the derive's struct expansion with its [no_recursion_flag] *)
Lemma step_derived name fs (rec : defmap -> result defmap) C a b :
  derived_struct name fs rec a = Ok b ->
  (forall a1 b1, rec a1 = Ok b1 -> step [] C a1 b1 /\ forall m, In m (field_decls fs) -> defined b1 m) ->
  step [] ((name, Struct fs) :: C) a b /\ lookup b name = Some (Struct fs).
Proof.
  unfold derived_struct. intros H Hk. destruct (lookup a name) as [e|] eqn:E.
  - apply bind_ok in H. destruct H as (ds1 & H1 & H2). inversion H2; subst.
    destruct (add_definition_ok _ _ _ _ H1) as (L1 & _ & [Hn| ->]); [congruence|].
    split; [apply step_refl|exact L1].
  - apply (step_node name (Struct fs) rec C a b H). exact Hk.
Qed.

Lemma step_cons_C P C x a b : step P C a b -> step P (x :: C) a b.
Proof. apply step_weaken; [apply incl_refl|apply incl_tl, incl_refl]. Qed.

(** * The calls a type makes (every flag taken as "recurse") *)
Definition ip_calls (n : N) : list (string * definition) :=
  [(ip_decl n, Struct (NamedFields [("octets", octets_decl n)])); (octets_decl n, array_def n "u8"); ("u8", Primitive 1)].
Definition ipaddr_calls : list (string * definition) :=
  (("IpAddrV4", Struct (UnnamedFields ["Ipv4Addr"])) :: ip_calls 4) ++
  (("IpAddrV6", Struct (UnnamedFields ["Ipv6Addr"])) :: ip_calls 16) ++ [("IpAddr", ipaddr_def)].

Section CallsComb.
  Variable f : ty -> list (string * definition).
  Fixpoint calls_fields (ts : list ty) (sk : list bool) : list (string * definition) :=
    match ts with
    | [] => []
    | t :: tr =>
        match sk with
        | true :: sr => calls_fields tr sr
        | _ :: sr => f t ++ calls_fields tr sr
        | [] => f t ++ calls_fields tr []
        end
    end.
End CallsComb.

Fixpoint calls (t : ty) {struct t} : list (string * definition) :=
  match t with
  | TPrim p => [(prim_decl p, Primitive (prim_schema_width p))]
  | TUnit (UUnit | UPhantom) => [(UNIT_DECL, Primitive 0)]
  | TUnit URangeFull => [("RangeFull", Struct EmptyFields)]
  | TRaw RIpv4 => ip_calls 4
  | TRaw RIpv6 => ip_calls 16
  | TRaw RObjectId => []
  | TText (XString | XStr) => [("String", seq_def "u8"); ("u8", Primitive 1)]
  | TText (XAsciiString | XAsciiStr) => [("AsciiString", seq_def "AsciiChar"); ("AsciiChar", Primitive 1)]
  | TText (XBytes | XBytesMut) => []
  | TSeq k t' => (decl_of t, seq_def (decl_of t')) :: calls t'
  | TArray n t' => (decl_of t, array_def n (decl_of t')) :: calls t'
  | TProd k ts =>
      match k with
      | PTuple => (decl_of t, Tuple (map (fun x => decl_of x) ts)) :: flat_map (fun x => calls x) ts
      | PRange r =>
          (decl_of t, Struct (NamedFields (combine (range_fields r) (map (fun x => decl_of x) ts)))) ::
          flat_map (fun x => calls x) ts
      | PStruct name fn sk =>
          (name, Struct (mk_fields fn sk (map (fun x => decl_of x) ts))) :: calls_fields (fun x => calls x) ts sk
      | PSockV4 | PSockV6 | PVariant _ _ => []
      end
  | TSum k vs =>
      match k with
      | KOption =>
          match vs with
          | [_; a] => (decl_of t, Enum 1 [(0%Z, "None", UNIT_DECL); (1%Z, "Some", decl_of a)]) :: calls a ++ [(UNIT_DECL, Primitive 0)]
          | _ => []
          end
      | KResult =>
          match vs with
          | [a; b] => (decl_of t, Enum 1 [(1%Z, "Ok", decl_of a); (0%Z, "Err", decl_of b)]) :: calls a ++ calls b
          | _ => []
          end
      | KIpAddr => ipaddr_calls
      | KSocketAddr => []
      | KEnum name vn tags =>
          (fix go (vs : list ty) (i : nat) {struct vs} : list (string * definition) :=
             match vs with
             | [] => []
             | v :: vr =>
                 match v with
                 | TProd (PVariant fn sk) ts =>
                     ((name ++ nth_str vn i)%string, Struct (mk_fields fn sk (map (fun x => decl_of x) ts))) ::
                     calls_fields (fun x => calls x) ts sk
                 | _ => []
                 end ++ go vr (S i)
             end) vs O ++ [(name, Enum 1 (enum_variants name vn tags))]
      end
  | TWrap _ t' => calls t'
  end.

(** * The traversal *)
Definition good (t : ty) : Prop :=
  forall a b, defs_of t a = Ok b -> step [] (calls t) a b /\ defined b (decl_of t).

Lemma field_decls_mk fn sk ds : incl (field_decls (mk_fields fn sk ds)) (keep sk ds).
Proof.
  unfold mk_fields. destruct (keep sk ds) as [|x r] eqn:E; [intros m []|].
  destruct fn as [|f fr]; [apply incl_refl|]. cbn [field_decls].
  intros m Hm. apply in_map_iff in Hm. destruct Hm as ([a c] & <- & Hin). cbn [snd].
  eapply in_combine_r; eauto.
Qed.

Lemma good_each ts : Forall good ts -> forall a b,
  defs_each (fun x => defs_of x) ts a = Ok b ->
  step [] (flat_map (fun x => calls x) ts) a b /\ forall t, In t ts -> defined b (decl_of t).
Proof.
  induction 1 as [|t tr Ht Htr IH]; intros a b H; cbn [defs_each flat_map] in *.
  - inversion H; subst. split; [apply step_refl|intros t []].
  - apply bind_ok in H. destruct H as (a1 & H1 & H2). destruct (Ht _ _ H1) as [S1 D1].
    destruct (IH _ _ H2) as [S2 D2]. split.
    + exact (step_trans [] [] _ _ _ _ _ S1 S2).
    + intros t0 [<-|Hin]; [eapply defined_mono; [exact (proj1 S2)|exact D1]|now apply D2].
Qed.

Lemma good_fields ts : Forall (fun t => has_schema t = true -> good t) ts -> forall sk a b,
  fields_all (fun x => has_schema x) ts sk = true ->
  defs_fields (fun x => defs_of x) ts sk a = Ok b ->
  step [] (calls_fields (fun x => calls x) ts sk) a b /\
  forall m, In m (keep sk (map (fun x => decl_of x) ts)) -> defined b m.
Proof.
  induction 1 as [|t tr Ht Htr IH]; intros sk a b Hs H; cbn [defs_fields calls_fields fields_all map keep] in *.
  - inversion H; subst. split; [apply step_refl|intros m []].
  - assert (Hkeep : forall sr, fields_all (fun x => has_schema x) (t :: tr) (false :: sr) = true ->
             (ds1 <- defs_of t a ;; defs_fields (fun x => defs_of x) tr sr ds1) = Ok b ->
             step [] (calls t ++ calls_fields (fun x => calls x) tr sr) a b /\
             forall m, In m (decl_of t :: keep sr (map (fun x => decl_of x) tr)) -> defined b m).
    { intros sr Hs' H'. cbn [fields_all] in Hs'. apply andb_true_iff in Hs'. destruct Hs' as [Hst Hsr].
      apply bind_ok in H'. destruct H' as (a1 & H1 & H2). destruct (Ht Hst _ _ H1) as [S1 D1].
      destruct (IH _ _ _ Hsr H2) as [S2 D2]. split.
      - exact (step_trans [] [] _ _ _ _ _ S1 S2).
      - intros m [<-|Hin]; [eapply defined_mono; [exact (proj1 S2)|exact D1]|now apply D2]. }
    destruct sk as [|[|] sr].
    + apply (Hkeep []); assumption.
    + now apply IH.
    + now apply Hkeep.
Qed.

Lemma ip_defs_good n a b : ip_defs n a = Ok b -> step [] (ip_calls n) a b /\ defined b (ip_decl n).
Proof.
  unfold ip_defs, ip_calls. intros H.
  match type of H with derived_struct ?nm ?fs ?rec _ = _ =>
    destruct (step_derived nm fs rec [(octets_decl n, array_def n "u8"); ("u8", Primitive 1)] a b H) as [S L] end.
  - intros a1 b1 H1.
    match type of H1 with bind (add_definition ?d ?def _) ?k = _ =>
      destruct (step_node d def k [("u8", Primitive 1)] a1 b1 H1) as [S1 L1] end.
    + intros a2 b2 H2. unfold u8_defs in H2. destruct (step_add _ _ _ _ H2) as [S2 L2].
      split; [exact (step_discharge _ _ _ _ S2 (fun m (Hm : In m (members (Primitive 1))) => match Hm with end))|].
      intros m [<-|[]]. eapply lookup_defined; eauto.
    + split; [exact S1|]. intros m [<-|[]]. eapply lookup_defined; eauto.
  - split; [exact S|eapply lookup_defined; eauto].
Qed.

Lemma forallb_Forall_imp {A} (p : A -> bool) (Q : A -> Prop) l :
  Forall (fun x => p x = true -> Q x) l -> forallb p l = true -> Forall Q l.
Proof.
  induction 1 as [|x r Hx Hr IH]; intros H; [constructor|]. cbn in H. apply andb_true_iff in H.
  destruct H as [H1 H2]. constructor; auto.
Qed.

(** the second clause reaches the fields of an enum variant's payload, which is not a type on its own *)
Definition goodQ (t : ty) : Prop :=
  (has_schema t = true -> good t) /\
  (forall fn sk ts, t = TProd (PVariant fn sk) ts -> Forall (fun x => has_schema x = true -> good x) ts).

Lemma goodQ_fst l : Forall goodQ l -> Forall (fun x => has_schema x = true -> good x) l.
Proof. apply Forall_impl. intros x [H _]. exact H. Qed.

Theorem defs_of_goodQ : forall t, goodQ t.
Proof.
  induction t as [p|u|k|k|k t' IH|n t' IH|k ts IH|k vs IH|w t' IH] using ty_ind';
    (split; [intros Hs a b H|try (intros ? ? ? E; discriminate E)]);
    try (destruct IH as [IH _]).
  - (* prim *)
    cbn [defs_of calls decl_of] in *. destruct (step_add _ _ _ _ H) as [S L].
    split; [|eapply lookup_defined; eauto].
    apply (step_discharge _ _ _ _ S). intros m [].
  - (* unit *)
    destruct u; cbn [defs_of calls decl_of] in *; unfold unit_defs in *;
      (destruct (step_add _ _ _ _ H) as [S L]; split; [|eapply lookup_defined; eauto];
       apply (step_discharge _ _ _ _ S); intros m []).
  - (* raw *)
    destruct k; cbn [has_schema] in Hs; try discriminate; cbn [defs_of calls decl_of] in *.
    + exact (ip_defs_good 4 a b H).
    + exact (ip_defs_good 16 a b H).
  - (* text *)
    destruct k; cbn [has_schema] in Hs; try discriminate; cbn [defs_of calls decl_of] in *;
      (match type of H with bind (add_definition ?d ?def _) ?k = _ =>
         destruct (step_node d def k [(match def with Sequence _ _ _ el => el | _ => "" end, Primitive 1)] a b H) as [S L] end;
       [intros a1 b1 H1; unfold u8_defs in H1; destruct (step_add _ _ _ _ H1) as [S1 L1];
        split; [apply (step_discharge _ _ _ _ S1); intros m []|intros m [<-|[]]; eapply lookup_defined; eauto]
       |split; [exact S|eapply lookup_defined; eauto]]).
  - (* seq *)
    cbn [has_schema] in Hs. apply andb_true_iff in Hs. destruct Hs as [Hs _].
    apply andb_true_iff in Hs. destruct Hs as [_ Hs'].
    cbn [defs_of calls] in *.
    match type of H with bind (add_definition ?d ?def _) ?k = _ =>
      destruct (step_node d def k (calls t') a b H) as [S L] end.
    + intros a1 b1 H1. destruct (IH Hs' _ _ H1) as [S1 D1]. split; [exact S1|]. intros m [<-|[]]. exact D1.
    + split; [exact S|eapply lookup_defined; eauto].
  - (* array *)
    cbn [has_schema] in Hs. cbn [defs_of calls] in *.
    match type of H with bind (add_definition ?d ?def _) ?k = _ =>
      destruct (step_node d def k (calls t') a b H) as [S L] end.
    + intros a1 b1 H1. destruct (IH Hs _ _ H1) as [S1 D1]. split; [exact S1|]. intros m [<-|[]]. exact D1.
    + split; [exact S|eapply lookup_defined; eauto].
  - (* prod *)
    apply goodQ_fst in IH.
    destruct k as [|r| | |name fn sk|fn sk]; cbn [has_schema] in Hs; try discriminate.
    + (* tuple *)
      apply andb_true_iff in Hs. destruct Hs as [_ Hs].
      pose proof (forallb_Forall_imp _ _ _ IH Hs) as Hg.
      cbn [defs_of calls] in *.
      match type of H with bind (add_definition ?d ?def _) ?k = _ =>
        destruct (step_node d def k (flat_map (fun x => calls x) ts) a b H) as [S L] end.
      * intros a1 b1 H1. destruct (good_each ts Hg _ _ H1) as [S1 D1]. split; [exact S1|].
        cbn [members]. intros m Hm. apply in_map_iff in Hm. destruct Hm as (t0 & <- & Hin). now apply D1.
      * split; [exact S|eapply lookup_defined; eauto].
    + (* range *)
      apply andb_true_iff in Hs. destruct Hs as [Hs Hsame].
      apply andb_true_iff in Hs. destruct Hs as [Hlen Hs].
      pose proof (forallb_Forall_imp _ _ _ IH Hs) as Hg.
      cbn [defs_of calls] in *.
      match type of H with bind (add_definition ?d ?def _) ?k = _ =>
        destruct (step_node d def k (flat_map (fun x => calls x) ts) a b H) as [S L] end.
      * intros a1 b1 H1. destruct ts as [|t0 tr].
        { destruct r; cbn in Hlen; discriminate. }
        destruct (Forall_inv Hg _ _ H1) as [S1 D1]. split.
        { eapply step_weaken; [apply incl_refl| |exact S1]. cbn [flat_map]. apply incl_appl, incl_refl. }
        cbn [members field_decls]. intros m Hm. apply in_map_iff in Hm. destruct Hm as ([f d] & <- & Hin).
        apply in_combine_r in Hin. cbn [snd]. cbn [map] in Hin. destruct Hin as [<-|Hin]; [exact D1|].
        apply in_map_iff in Hin. destruct Hin as (x & <- & Hx).
        rewrite forallb_forall in Hsame. apply Hsame in Hx. apply String.eqb_eq in Hx. rewrite Hx. exact D1.
      * split; [exact S|eapply lookup_defined; eauto].
    + (* struct *)
      apply andb_true_iff in Hs. destruct Hs as [_ Hs].
      cbn [defs_of calls decl_of] in *.
      destruct (step_derived _ _ _ (calls_fields (fun x => calls x) ts sk) a b H) as [S L].
      * intros a1 b1 H1. destruct (good_fields ts IH sk _ _ Hs H1) as [S1 D1]. split; [exact S1|].
        intros m Hm. apply D1. now apply (field_decls_mk fn sk).
      * split; [exact S|eapply lookup_defined; eauto].
  - (* prod, second clause *)
    intros fn sk ts0 E. inversion E; subst. now apply goodQ_fst.
  - (* sum *)
    pose proof IH as IHQ. apply goodQ_fst in IH.
    destruct k as [| | | |name vn tags]; cbn [has_schema] in Hs; try discriminate.
    + (* option *)
      destruct vs as [|v0 [|t1 [|? ?]]];
        try (repeat match type of Hs with context [match ?x with _ => _ end] => destruct x end; discriminate).
      assert (Hs1 : has_schema t1 = true).
      { repeat match type of Hs with context [match ?x with _ => _ end] => destruct x end; try discriminate; exact Hs. }
      pose proof (Forall_inv (Forall_inv_tail IH) Hs1) as G1.
      cbn [defs_of calls] in *.
      match type of H with bind (add_definition ?d ?def _) ?k = _ =>
        destruct (step_node d def k (calls t1 ++ [(UNIT_DECL, Primitive 0)]) a b H) as [S L] end.
      * intros a1 b1 H1. apply bind_ok in H1. destruct H1 as (a2 & H1 & H2).
        destruct (G1 _ _ H1) as [S1 D1]. unfold unit_defs in H2. destruct (step_add _ _ _ _ H2) as [S2 L2].
        split.
        { apply (step_trans [] [] _ _ _ _ _ S1). apply (step_discharge _ _ _ _ S2). intros m []. }
        cbn [members map variant_decl snd]. intros m [<-|[<-|[]]].
        { eapply lookup_defined; eauto. }
        { eapply defined_mono; [exact (proj1 S2)|exact D1]. }
      * split; [exact S|eapply lookup_defined; eauto].
    + (* result *)
      destruct vs as [|t0 [|t1 [|? ?]]]; try discriminate.
      apply andb_true_iff in Hs. destruct Hs as [Hs0 Hs1].
      pose proof (Forall_inv IH Hs0) as G0. pose proof (Forall_inv (Forall_inv_tail IH) Hs1) as G1.
      cbn [defs_of calls] in *.
      match type of H with bind (add_definition ?d ?def _) ?k = _ =>
        destruct (step_node d def k (calls t0 ++ calls t1) a b H) as [S L] end.
      * intros a1 b1 H1. apply bind_ok in H1. destruct H1 as (a2 & H1 & H2).
        destruct (G0 _ _ H1) as [S1 D1]. destruct (G1 _ _ H2) as [S2 D2].
        split; [exact (step_trans [] [] _ _ _ _ _ S1 S2)|].
        cbn [members map variant_decl snd]. intros m [<-|[<-|[]]]; [|exact D2].
        eapply defined_mono; [exact (proj1 S2)|exact D1].
      * split; [exact S|eapply lookup_defined; eauto].
    + (* IpAddr *)
      cbn [defs_of calls decl_of] in *. unfold ipaddr_defs in H.
      apply bind_ok in H. destruct H as (a1 & H1 & H). apply bind_ok in H. destruct H as (a2 & H2 & H3).
      destruct (step_derived _ _ _ (ip_calls 4) _ _ H1) as [S1 L1].
      { intros x y Hxy. destruct (ip_defs_good 4 x y Hxy) as [Sx Dx]. split; [exact Sx|]. intros m [<-|[]]. exact Dx. }
      destruct (step_derived _ _ _ (ip_calls 16) _ _ H2) as [S2 L2].
      { intros x y Hxy. destruct (ip_defs_good 16 x y Hxy) as [Sx Dx]. split; [exact Sx|]. intros m [<-|[]]. exact Dx. }
      destruct (step_add _ _ _ _ H3) as [S3 L3].
      split; [|eapply lookup_defined; eauto].
      unfold ipaddr_calls.
      apply (step_trans [] [] _ _ _ _ _ S1). apply (step_trans [] [] _ _ _ _ _ S2).
      apply (step_discharge _ _ _ _ S3). unfold ipaddr_def. cbn [members map variant_decl snd].
      intros m [<-|[<-|[]]].
      * eapply lookup_defined. apply (proj1 S3). apply (proj1 S2). exact L1.
      * eapply lookup_defined. apply (proj1 S3). exact L2.
    + (* derived enum *)
      apply andb_true_iff in Hs. destruct Hs as [Hs Hvs]. apply andb_true_iff in Hs. destruct Hs as [Hl1 Hl2].
      apply Nat.eqb_eq in Hl1, Hl2.
      cbn [defs_of calls decl_of] in *.
      apply bind_ok in H. destruct H as (a1 & H1 & H2).
      match type of H1 with ?G vs 0%nat a = _ => set (go := G) in * end.
      match goal with |- step [] (?G vs 0%nat ++ _) _ _ /\ _ => set (cgo := G) in * end.
      assert (Hgo : forall l i x y, Forall goodQ l ->
                forallb (fun v => match v with
                                  | TProd (PVariant fn sk) ts =>
                                      names_ok fn (length ts) && Nat.eqb (length sk) (length ts) &&
                                      fields_all (fun x => has_schema x) ts sk
                                  | _ => false end) l = true ->
                go l i x = Ok y ->
                step [] (cgo l i) x y /\
                forall j, (j < length l)%nat -> defined y (name ++ nth_str vn (i + j))%string).
      { clear H1 H2 Hl1 Hl2 Hvs IH IHQ. induction l as [|v vr IHl]; intros i x y Hf Hb Hxy.
        - cbn in Hxy. inversion Hxy; subst. split; [apply step_refl|]. intros j Hj. cbn in Hj. lia.
        - cbn [forallb] in Hb. apply andb_true_iff in Hb. destruct Hb as [Hv Hb].
          destruct v as [| | | | | |[| | | | |fn sk] ts| |]; try discriminate.
          apply andb_true_iff in Hv. destruct Hv as [_ Hfa].
          pose proof (proj2 (Forall_inv Hf) fn sk ts eq_refl) as Hts.
          cbn [go cgo] in *. fold go in Hxy. fold cgo.
          apply bind_ok in Hxy. destruct Hxy as (x1 & Hx1 & Hx2).
          destruct (step_derived _ _ _ (calls_fields (fun x => calls x) ts sk) _ _ Hx1) as [S1 L1].
          { intros p q Hpq. destruct (good_fields ts Hts sk _ _ Hfa Hpq) as [Sp Dp]. split; [exact Sp|].
            intros m Hm. apply Dp. now apply (field_decls_mk fn sk). }
          destruct (IHl (S i) x1 y (Forall_inv_tail Hf) Hb Hx2) as [S2 D2].
          split; [exact (step_trans [] [] _ _ _ _ _ S1 S2)|].
          intros [|j] Hj.
          + rewrite Nat.add_0_r. eapply lookup_defined. apply (proj1 S2). exact L1.
          + replace (i + S j)%nat with (S i + j)%nat by lia. apply D2. cbn in Hj. lia. }
      destruct (Hgo vs 0%nat a a1 IHQ Hvs H1) as [S1 D1].
      destruct (step_add _ _ _ _ H2) as [S2 L2].
      split; [|eapply lookup_defined; eauto].
      apply (step_trans [] [] _ _ _ _ _ S1). apply (step_discharge _ _ _ _ S2).
      cbn [members]. intros m Hm. apply in_map_iff in Hm. destruct Hm as (v & <- & Hin).
      (* every variant row names an inner struct that was just defined *)
      assert (Hrow : forall vn0 tg0 i, In v (enum_variants name vn0 tg0) -> (length vn0 <= length vs - i)%nat ->
                     (forall j, (j < length vn0)%nat -> nth_str vn0 j = nth_str vn (i + j)) ->
                     defined b (variant_decl v)).
      { induction vn0 as [|v0 vr0 IHv]; intros tg0 i Hin0 Hlen Hnth; [destruct Hin0|].
        destruct tg0 as [|g gr]; [destruct Hin0|]. cbn [enum_variants] in Hin0. destruct Hin0 as [<-|Hin0].
        - cbn [variant_decl snd]. specialize (Hnth 0%nat). cbn [nth_str nth length] in Hnth.
          rewrite Nat.add_0_r in Hnth. unfold nth_str in Hnth at 1. cbn [nth] in Hnth. rewrite Hnth by lia.
          eapply defined_mono; [exact (proj1 S2)|]. replace i with (0 + i)%nat by lia. apply D1. cbn [length] in Hlen. lia.
        - apply (IHv gr (S i) Hin0); [cbn [length] in Hlen; lia|].
          intros j Hj. specialize (Hnth (S j)). unfold nth_str in *. cbn [nth length] in Hnth.
          replace (S i + j)%nat with (i + S j)%nat by lia. apply Hnth. lia. }
      apply (Hrow vn tags 0%nat Hin); [lia|reflexivity].
  - (* wrap *)
    destruct w; cbn [has_schema] in Hs; try discriminate; cbn [defs_of calls decl_of] in *; now apply IH.
Qed.

Theorem defs_of_good : forall t, has_schema t = true -> good t.
Proof. intros t. exact (proj1 (defs_of_goodQ t)). Qed.


(** * The generated container is closed *)
Definition closed_defs (ds : defmap) : Prop :=
  forall d def, lookup ds d = Some def -> forall m, In m (members def) -> defined ds m.

Lemma lookup_nil d : lookup [] d = None.
Proof. reflexivity. Qed.

Theorem schema_of_closed t c :
  has_schema t = true -> schema_of t = Ok c ->
  defined (defs c) (root c) /\ closed_defs (defs c) /\
  (forall d def, lookup (defs c) d = Some def -> In (d, def) (calls t)).
Proof.
  unfold schema_of. intros Hs H. apply bind_ok in H. destruct H as (ds & H1 & H2). inversion H2; subst. cbn [root defs].
  destruct (defs_of_good t Hs _ _ H1) as [[He Hst] D]. split; [exact D|]. split.
  - intros d def L m Hm. destruct (Hst d def L) as [Ho|[_ Hmm]]; [discriminate Ho|].
    destruct (Hmm m Hm) as [Hd|[]]. exact Hd.
  - intros d def L. destruct (Hst d def L) as [Ho|[Hin _]]; [discriminate Ho|exact Hin].
Qed.
Print Assumptions schema_of_closed.
