(** Basic facts about the writer trace, the in-memory reader, and the two decoding loops. *)
From Coq Require Import String.
From Coq Require Import List NArith Bool Lia.
From Coq.Strings Require Import Byte.
From Borsh Require Import Bytes BytesFacts Result Loop LoopFacts Ty Ser De.
Import ListNotations.
Local Open Scope N_scope.

(** * Traces *)
Definition sbytes (o : out) : bytes := concat (fst o).

Lemma andthen_ok a b : snd (a >> b) = None -> snd a = None /\ snd b = None.
Proof. unfold andthen. destruct (snd a) eqn:E; cbn; intros H; [congruence|auto]. Qed.

Lemma andthen_ok_intro a b : snd a = None -> snd b = None -> snd (a >> b) = None.
Proof. unfold andthen. intros -> Hb. exact Hb. Qed.

Lemma andthen_bytes a b : snd a = None -> sbytes (a >> b) = sbytes a ++ sbytes b.
Proof. unfold andthen, sbytes. intros ->. cbn. apply concat_app. Qed.

Lemma andthen_err a b e : snd a = Some e -> a >> b = a.
Proof. unfold andthen. now intros ->. Qed.

Lemma sbytes_emit b : sbytes (emit b) = b.
Proof. unfold sbytes, emit. cbn. apply app_nil_r. Qed.

Lemma sbytes_done : sbytes done = [].
Proof. reflexivity. Qed.

Lemma enc_ok_iff t v bs : enc t v = Ok bs <-> snd (ser t v) = None /\ bs = sbytes (ser t v).
Proof.
  unfold enc, sbytes. destruct (snd (ser t v)) as [[k m]|] eqn:E; split.
  - discriminate.
  - intros [H _]; discriminate.
  - intros H; inversion H; auto.
  - intros [_ ->]; reflexivity.
Qed.

Lemma emit_len_ok n : snd (emit_len n) = None -> n < U32_LIMIT /\ sbytes (emit_len n) = le 4 n.
Proof.
  unfold emit_len. destruct (N.ltb_spec n U32_LIMIT) as [Hl|Hl]; cbn; intros H; [|discriminate].
  split; [assumption|]. reflexivity.
Qed.

(** * Byte lists as values *)
Lemma vals_ns_of_bytes b : vals_ns (of_bytes b) = Some (map b2n b).
Proof. induction b as [|x r IH]; cbn; [reflexivity|]. unfold of_bytes in IH. now rewrite IH. Qed.

Lemma vals_ns_Some l ns : vals_ns l = Some ns -> l = map VN ns.
Proof.
  revert ns; induction l as [|x r IH]; intros ns; cbn.
  - intros H; inversion H; reflexivity.
  - destruct x; try discriminate. destruct (vals_ns r) eqn:E; [|discriminate].
    intros H; inversion H; subst. cbn. f_equal. now apply IH.
Qed.

Lemma vals_ns_len l ns : vals_ns l = Some ns -> len l = len ns.
Proof. intros H. apply vals_ns_Some in H. subst. rewrite !len_eq, map_length. reflexivity. Qed.

Lemma of_to_bytes ns : all_byte ns = true -> of_bytes (to_bytes ns) = map VN ns.
Proof.
  unfold of_bytes, to_bytes, all_byte. induction ns as [|n r IH]; cbn; [reflexivity|].
  intros H. apply andb_true_iff in H. destruct H as [Hn Hr].
  rewrite b2n_n2b, N.mod_small by (apply N.ltb_lt; exact Hn). now rewrite IH.
Qed.

Lemma len_to_bytes ns : len (to_bytes ns) = len ns.
Proof. unfold to_bytes. rewrite !len_eq, map_length. reflexivity. Qed.

Lemma map_b2n_lt b : all_byte (map b2n b) = true.
Proof.
  unfold all_byte. induction b as [|x r IH]; cbn; [reflexivity|].
  rewrite IH, andb_true_r. apply N.ltb_lt. apply b2n_lt.
Qed.

Lemma to_bytes_map_b2n b : to_bytes (map b2n b) = b.
Proof. unfold to_bytes. induction b as [|x r IH]; cbn; [reflexivity|]. now rewrite n2b_b2n, IH. Qed.

(** * The in-memory reader *)
Lemma slice_exact a rest : rd_exact slice_reader (len a) (a ++ rest) = Ok (a, rest).
Proof. cbn. now rewrite take_app. Qed.

Lemma read_mapped_app a rest n : len a = n -> read_mapped slice_reader n (a ++ rest) = Ok (a, rest).
Proof. intros <-. unfold read_mapped. now rewrite slice_exact. Qed.

Lemma read_mapped_short bs n : len bs < n -> read_mapped slice_reader n bs = Err InvalidData MUnexpectedLength.
Proof.
  intros H. unfold read_mapped. cbn. rewrite take_spec.
  destruct (N.leb_spec n (len bs)); [lia|reflexivity].
Qed.

(** every outcome of a mapped exact read on a slice *)
Lemma read_mapped_slice_cases bs n :
  (exists a rest, bs = a ++ rest /\ len a = n /\ read_mapped slice_reader n bs = Ok (a, rest)) \/
  (len bs < n /\ read_mapped slice_reader n bs = Err InvalidData MUnexpectedLength).
Proof.
  unfold read_mapped. cbn. destruct (take n bs) as [[a r]|] eqn:E.
  - left. apply take_Some in E. destruct E as [-> L]. eauto.
  - right. apply take_None in E. split; [assumption|reflexivity].
Qed.

Lemma read_u8_app b rest : read_u8 slice_reader (b :: rest) = Ok (b2n b, rest).
Proof.
  unfold read_u8. change (b :: rest) with ([b] ++ rest).
  rewrite read_mapped_app by reflexivity. cbn. f_equal. f_equal. lia.
Qed.

Lemma read_u32_app n rest : n < U32_LIMIT -> read_u32 slice_reader (le 4 n ++ rest) = Ok (n, rest).
Proof.
  intros H. unfold read_u32. rewrite read_mapped_app.
  - cbn [bind]. rewrite unle_le; [reflexivity|]. exact H.
  - now rewrite len_eq, length_le.
Qed.

(** * The bulk byte loop on a slice *)
Lemma bulk_slice a rest : 0 < len a -> bulk slice_reader (len a) (a ++ rest) = Ok (a, rest).
Proof.
  intros Hpos. unfold bulk. set (n := len a).
  pose (Inv := fun st : N * N * list bytes * bytes =>
                 let '(buf, pos, acc, s) := st in
                 exists done todo, a = done ++ todo /\ concat (rev acc) = done /\ s = todo ++ rest /\
                                   pos = len done /\ pos <= buf /\ buf <= n /\ 0 < buf).
  pose (mu := fun st : N * N * list bytes * bytes => let '(_, pos, _, _) := st in n - pos).
  destruct (loop_fuel_inv (bulk_step slice_reader n) Inv mu (fun r => r = (a, rest))
              (n + rd_budget slice_reader (a ++ rest) + 1) (N.min n CHUNK, 0, [], a ++ rest)) as (r & E & Hr).
  - intros [[[buf pos] acc] s] (dn & todo & Ha & Hacc & Hs & Hpos' & Hpb & Hbn & Hb0).
    unfold bulk_step.
    destruct (N.ltb_spec pos n) as [Hlt|Hge].
    + left.
      set (buf' := if pos =? buf then N.min (2 * buf) n else buf).
      assert (Hb' : pos < buf' /\ buf' <= n /\ 0 < buf').
      { unfold buf'. destruct (N.eqb_spec pos buf); lia. }
      assert (Htodo : 0 < len todo).
      { assert (len a = len dn + len todo) by (rewrite Ha; apply len_app). fold n in H. lia. }
      cbn [rd_some slice_reader].
      rewrite Hs.
      set (k := N.min (buf' - pos) (len (todo ++ rest))).
      assert (Hk : 0 < k /\ k <= buf' - pos).
      { unfold k. rewrite len_app. lia. }
      destruct (take k (todo ++ rest)) as [[ch r']|] eqn:Et.
      * apply take_Some in Et. destruct Et as [Esplit Lch].
        destruct ch as [|c0 ch']; [rewrite len_nil in Lch; lia|].
        (* how the chunk sits inside todo ++ rest: it is a prefix of todo when k <= len todo *)
        eexists. split; [reflexivity|]. split.
        -- (* the chunk may extend beyond [todo] only if buf' - pos > len todo, impossible: buf' <= n *)
           assert (Hkt : k <= len todo).
           { assert (len a = len dn + len todo) by (rewrite Ha; apply len_app). fold n in H. lia. }
           assert (Hpre : exists todo', todo = (c0 :: ch') ++ todo' /\ r' = todo' ++ rest).
           { clear - Esplit Lch Hkt.
             assert (Hl : (length (c0 :: ch') <= length todo)%nat) by (rewrite !len_eq in *; lia).
             exists (skipn (length (c0 :: ch')) todo). split.
             - rewrite <- (firstn_skipn (length (c0 :: ch')) todo) at 1. f_equal.
               assert (firstn (length (c0 :: ch')) (todo ++ rest) = c0 :: ch').
               { rewrite Esplit. rewrite firstn_app, PeanoNat.Nat.sub_diag, firstn_all. cbn [firstn]. apply app_nil_r. }
               rewrite firstn_app in H. replace (length (c0 :: ch') - length todo)%nat with 0%nat in H by lia.
               cbn [firstn] in H. rewrite app_nil_r in H. exact H.
             - assert (skipn (length (c0 :: ch')) (todo ++ rest) = r').
               { rewrite Esplit. rewrite skipn_app, PeanoNat.Nat.sub_diag, skipn_all. reflexivity. }
               rewrite skipn_app in H. replace (length (c0 :: ch') - length todo)%nat with 0%nat in H by lia.
               cbn [skipn] in H. symmetry. exact H. }
           destruct Hpre as (todo' & Ht & Hr').
           exists (dn ++ (c0 :: ch')), todo'. repeat split.
           ++ rewrite Ha, Ht. now rewrite app_assoc.
           ++ cbn [rev]. rewrite concat_app. cbn [concat]. rewrite app_nil_r. now rewrite Hacc.
           ++ exact Hr'.
           ++ rewrite len_app. lia.
           ++ rewrite Lch. lia.
           ++ lia.
           ++ lia.
        -- unfold mu. rewrite Lch. lia.
      * apply take_None in Et. unfold k in Et. lia.
    + right. exists (concat (rev acc), s). split; [reflexivity|].
      assert (len a = len dn + len todo) by (rewrite Ha; apply len_app). fold n in H.
      assert (todo = []).
      { destruct todo; [reflexivity|]. rewrite len_cons in H. lia. }
      subst todo. rewrite app_nil_r in Ha. cbn in Hs. now subst.
  - exists [], a. repeat split; try reflexivity; try lia.
    unfold CHUNK. lia.
  - unfold mu. cbn. lia.
  - subst r. exact E.
Qed.

Lemma take_min_some k (s : bytes) : k <= len s -> exists ch r, take k s = Some (ch, r) /\ s = ch ++ r /\ len ch = k.
Proof.
  intros H. rewrite take_spec. destruct (N.leb_spec k (len s)); [|lia].
  eexists _, _. split; [reflexivity|]. split; [now rewrite firstn_skipn|].
  rewrite !len_eq in *. rewrite firstn_length. lia.
Qed.

(** too little input: the loop stops at the first empty read *)
Lemma bulk_slice_short n bs : 0 < n -> len bs < n -> bulk slice_reader n bs = Err InvalidData MUnexpectedLength.
Proof.
  intros Hn Hshort. unfold bulk.
  pose (Inv := fun st : N * N * list bytes * bytes =>
                 let '(buf, pos, acc, s) := st in
                 exists dn, bs = dn ++ s /\ pos = len dn /\ pos <= buf /\ buf <= n /\ 0 < buf).
  pose (mu := fun st : N * N * list bytes * bytes => let '(_, pos, _, _) := st in n - pos).
  apply (loop_fuel_inv_q (bulk_step slice_reader n) Inv mu
           (fun r => r = Err InvalidData MUnexpectedLength)).
  - intros [[[buf pos] acc] s] (dn & Hbs & Hpos & Hpb & Hbn & Hb0).
    assert (Hlen : len bs = len dn + len s) by (rewrite Hbs; apply len_app).
    unfold bulk_step. destruct (N.ltb_spec pos n) as [Hlt|Hge]; [|lia].
    set (buf' := if pos =? buf then N.min (2 * buf) n else buf).
    assert (Hb' : pos < buf' /\ buf' <= n /\ 0 < buf').
    { unfold buf'. destruct (N.eqb_spec pos buf); lia. }
    cbn [rd_some slice_reader].
    destruct (take_min_some (N.min (buf' - pos) (len s)) s) as (ch & r & Et & Es & Lch); [lia|].
    rewrite Et.
    destruct ch as [|c0 ch'].
    + right; right. eauto.
    + left. eexists. split; [reflexivity|]. split.
      * exists (dn ++ c0 :: ch'). repeat split.
        -- rewrite Hbs, Es. now rewrite app_assoc.
        -- rewrite len_app. lia.
        -- rewrite Lch. lia.
        -- lia.
        -- lia.
      * unfold mu. rewrite Lch. rewrite len_cons in Lch. lia.
  - exists []. repeat split; try reflexivity; try lia. unfold CHUNK. lia.
  - unfold mu. cbn. lia.
Qed.

Lemma bulk_slice_cases n bs : 0 < n ->
  (exists a rest, bs = a ++ rest /\ len a = n /\ bulk slice_reader n bs = Ok (a, rest)) \/
  (len bs < n /\ bulk slice_reader n bs = Err InvalidData MUnexpectedLength).
Proof.
  intros Hn. destruct (N.leb_spec n (len bs)) as [Hle|Hlt].
  - left. destruct (take_min_some n bs Hle) as (a & rest & _ & E & L).
    exists a, rest. repeat split; auto. subst bs. rewrite <- L. apply bulk_slice. lia.
  - right. split; [assumption|]. now apply bulk_slice_short.
Qed.
